import CobraModel.Driver.Medium
def main : IO Unit := MediumDriver.run

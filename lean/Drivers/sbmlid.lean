import CobraModel.Driver.SbmlId
def main : IO Unit := SbmlIdDriver.run

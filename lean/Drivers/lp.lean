import CobraModel.Driver.LP
def main : IO Unit := LPDriver.run

import CobraModel.Driver.AuxProb
def main : IO Unit := AuxDriver.run

import CobraModel.Driver.Schedule
def main : IO Unit := ScheduleDriver.run

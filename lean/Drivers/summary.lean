import CobraModel.Driver.Summary
def main : IO Unit := SummaryDriver.run

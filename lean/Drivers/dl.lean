import CobraModel.Driver.DL
def main : IO Unit := DLDriver.run

import CobraModel.Driver.Sampling
def main : IO Unit := SamplingDriver.run

import CobraModel.Driver.GPR
def main : IO Unit := GPRDriver.run

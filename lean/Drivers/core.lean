import CobraModel.Driver.Core
def main : IO Unit := CoreDriver.run

import CobraModel.Driver.DictIO
def main : IO Unit := DictIODriver.run

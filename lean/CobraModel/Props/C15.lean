import CobraModel.Lemmas.DictList
/-!
# C15 — identifier-indexed lists stay coherent under every list operation

Property theorems only (helper lemmas live in `CobraModel/Lemmas/DictList.lean`).
The model `DLM.step` follows `src/cobra/core/dictlist.py`; the correspondence check
(`harness/c15.py`) diffs it against the real `DictList` after every operation.
-/
namespace C15
open DLM

/-- the state reached from the empty list by a sequence of operations (errors included:
a raising operation leaves its state and the trace continues) -/
def run (ops : List Op) : DL := ops.foldl (fun d op => (step d op).1) DL.empty

/-- **Coherence is preserved by every operation**, failing ones included. -/
theorem step_inv (d : DL) (op : Op) (h : DLM.Inv d) : DLM.Inv (step d op).1 := step_inv' d op h

/-- **An operation that raises leaves the list (and its index) unchanged.** -/
theorem step_atomic (d : DL) (op : Op) (h : DLM.Inv d) (e : Err) (he : (step d op).2 = some e) :
    (step d op).1 = d := step_atomic' d op h e he

/-- **Every reachable state is coherent**: any finite sequence of operations, any arguments. -/
theorem reachable_inv (ops : List Op) : DLM.Inv (run ops) := by
  unfold run
  have : ∀ d, DLM.Inv d → DLM.Inv (ops.foldl (fun d op => (step d op).1) d) := by
    induction ops with
    | nil => intro d h; simpa using h
    | cons op ops ih => intro d h; exact ih _ (step_inv d op h)
  exact this _ inv_empty

/-- identifiers are unique in every coherent state -/
theorem ids_unique (d : DL) (h : DLM.Inv d) : (d.items.map (·.id)).Nodup := h.nodup

/-- `get_by_id` returns exactly the element carrying the id -/
theorem getById_spec (d : DL) (h : DLM.Inv d) (k : String) (o : Obj) :
    getById d k = some o ↔ o ∈ d.items ∧ o.id = k := by
  unfold getById
  constructor
  · intro hg
    split at hg
    · rename_i i hi
      obtain ⟨x, hx, hxid⟩ := h.fwd k i hi
      rw [hx] at hg; injection hg with hg; subst hg
      exact ⟨List.mem_of_getElem? hx, hxid⟩
    · cases hg
  · rintro ⟨hm, rfl⟩
    obtain ⟨i, hi, hio⟩ := List.getElem_of_mem hm
    have hx : d.items[i]? = some o := by simp [hi, hio]
    simp [h.bwd i o hx, hx]

/-- `index(id)` is the actual position of the element -/
theorem index_spec (d : DL) (h : DLM.Inv d) (k : String) (i : Nat) :
    indexOf d (.byId k) = .ok i ↔ ∃ o, d.items[i]? = some o ∧ o.id = k := by
  rw [← h k i]
  simp only [indexOf]
  cases d.index.get k <;> simp

/-- `index(obj)` succeeds exactly for the listed object itself, at its position -/
theorem index_obj_spec (d : DL) (h : DLM.Inv d) (o : Obj) (i : Nat) :
    indexOf d (.byObj o) = .ok i ↔ d.items[i]? = some o := by
  simp only [indexOf]
  constructor
  · intro hi
    cases hg : d.index.get o.id with
    | none => simp [hg] at hi
    | some j =>
      simp only [hg] at hi
      split at hi
      · injection hi with hi; subst hi; assumption
      · cases hi
  · intro hi
    simp [h.bwd i o hi, hi]

/-- membership (`in`, `has_id`) agrees with the contents -/
theorem hasId_spec (d : DL) (h : DLM.Inv d) (k : String) : hasId d k = true ↔ ∃ o ∈ d.items, o.id = k := by
  unfold hasId
  constructor
  · intro hk
    cases hg : d.index.get k with
    | none => simp [hg] at hk
    | some i => obtain ⟨o, ho, hoid⟩ := h.fwd k i hg; exact ⟨o, List.mem_of_getElem? ho, hoid⟩
  · rintro ⟨o, hm, rfl⟩
    obtain ⟨i, hi, hio⟩ := List.getElem_of_mem hm
    have hx : d.items[i]? = some o := by simp [hi, hio]
    simp [h.bwd i o hx]

/-! ### behaviour as a plain list with a uniqueness rule -/

/-- `append` raises exactly when the id is taken, and otherwise appends -/
theorem append_plain (d : DL) (h : DLM.Inv d) (o : Obj) :
    ((∃ x ∈ d.items, x.id = o.id) → step d (.append o) = (d, some .value)) ∧
    ((∀ x ∈ d.items, x.id ≠ o.id) → (step d (.append o)).2 = none ∧ (step d (.append o)).1.items = d.items ++ [o]) := by
  simp only [step, append]
  constructor
  · rintro ⟨x, hx, hid⟩
    have : check d o.id = false := by
      cases hc : check d o.id with
      | false => rfl
      | true => exact absurd hid ((check_iff h o.id).1 hc x hx)
    simp [this]
  · intro hf
    simp [(check_iff h o.id).2 hf]

/-- `insert` raises exactly when the id is taken, and otherwise inserts where `list.insert` does -/
theorem insert_plain (d : DL) (h : DLM.Inv d) (i : Int) (o : Obj) :
    ((∃ x ∈ d.items, x.id = o.id) → step d (.insert i o) = (d, some .value)) ∧
    ((∀ x ∈ d.items, x.id ≠ o.id) → (step d (.insert i o)).2 = none ∧
      (step d (.insert i o)).1.items =
        d.items.take (clampInsert d.items.length i) ++ o :: d.items.drop (clampInsert d.items.length i)) := by
  simp only [step, DLM.insert]
  constructor
  · rintro ⟨x, hx, hid⟩
    have : check d o.id = false := by
      cases hc : check d o.id with
      | false => rfl
      | true => exact absurd hid ((check_iff h o.id).1 hc x hx)
    simp [this]
  · intro hf
    simp [(check_iff h o.id).2 hf]

/-- `remove(id)` removes exactly the element carrying the id, and raises when there is none -/
theorem remove_plain (d : DL) (h : DLM.Inv d) (k : String) :
    ((∀ x ∈ d.items, x.id ≠ k) → step d (.remove (.byId k)) = (d, some .value)) ∧
    (∀ i o, d.items[i]? = some o → o.id = k →
      (step d (.remove (.byId k))).2 = none ∧ (step d (.remove (.byId k))).1.items = d.items.eraseIdx i) := by
  simp only [step, remove, indexOf]
  constructor
  · intro hf
    simp [(get_none_iff h k).2 hf]
  · intro i o ho hk
    subst hk
    simp [h.bwd i o ho, popAt_eq h i o ho]

/-- successful positional deletion / pop behave like the plain list operations -/
theorem delItem_plain (d : DL) (i : Int) :
    (normIdx d.items.length i = none → step d (.delItem i) = (d, some .index)) ∧
    (∀ p, normIdx d.items.length i = some p → p < d.items.length →
      (step d (.delItem i)).2 = none ∧ (step d (.delItem i)).1.items = d.items.eraseIdx p) := by
  simp only [step, delItem]
  constructor
  · intro hn; simp [hn]
  · intro p hp hlt
    simp [hp, List.getElem?_eq_getElem hlt]

/-! ### non-vacuity: a concrete four-element coherent state, reached by operations that
include failing ones, negative indices and a slice assignment -/

def demoOps : List Op :=
  [.extend [⟨"a", 0⟩, ⟨"b", 1⟩, ⟨"c", 2⟩], .insert (-1) ⟨"d", 3⟩, .append ⟨"a", 8⟩,
   .setSlice ⟨some 1, some 2, none⟩ [⟨"e", 4⟩, ⟨"f", 5⟩], .delItem (-2), .setItem (-1) ⟨"g", 6⟩, .pop (some 7)]

example : (run demoOps).items.map (·.id) = ["a", "e", "f", "g"] := by decide
example : (step (run (demoOps.take 2)) (.append ⟨"a", 8⟩)).2 = some .value := by decide
example : DLM.Inv (run demoOps) := reachable_inv demoOps

end C15

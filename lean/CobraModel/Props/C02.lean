import CobraModel.Lemmas.Core
/-!
# C02 — edits keep the cross-references consistent

`Core.WF` is the cross-reference invariant of the property: a reaction lists a metabolite / gene iff the
metabolite / gene lists the reaction, everything listed belongs to the model, a reaction's genes are the genes
of its rule, no zero coefficients (absence *is* a zero coefficient in the model), bounds ordered.
The model `Core.apply` follows the Python statements of the modelled operations (see `Model/Core.lean`);
operations not in `Core.Op` yet are exercised by the correspondence / direct oracle only
(`harness/core_engine.py`, evidence key `oracle_only_ops`).
-/
namespace C02
open Core

/-- **every modelled edit keeps the cross-references consistent**, including the outcomes that raise -/
theorem wf_preserved (y : Sys) (g : Good y.s) (op : Op) (hp : op.plain = true) (hok : OpOK op) :
    WF (apply y op).1.s := (apply_step y g op hp hok).1.wf

/-- for every program of edits and nested contexts, from any consistent state -/
theorem wf_after_program (body : ProgL) (hok : body.ok) (y : Sys) (g : Good y.s) :
    WF (runL body y).1.s := (runL_step body hok y g).1.wf

/-- frame: setting the bounds of one reaction changes no other reaction's bounds and nothing else of the content -/
theorem set_bounds_frame (y : Sys) (r : Id) (a b : EB) (hab : EB.le a b = true) :
    (setBounds y r a b).1.s.lb = upd y.s.lb r a ∧ (setBounds y r a b).1.s.ub = upd y.s.ub r b ∧
    SameButBounds y.s (setBounds y r a b).1.s := setBounds_effect y r a b hab

/-- `add_metabolites` does what it documents: coefficients are added (combine) or replaced, a result of zero
removes the metabolite, other reactions and other metabolites are untouched -/
theorem add_metabolites_spec (s : St) (r : Id) (ps : List (Id × Rat)) (combine : Bool) (hn : keysNodup ps) (r' m : Id) :
    (addMetsRaw s r ps combine).st r' m =
      if r' = r then
        (match ps.find? (fun p => p.1 == m) with
         | some p => if s.st r m ≠ 0 ∧ combine = true then s.st r m + p.2 else p.2
         | none => s.st r m)
      else s.st r' m := addMets_st s r ps combine hn r' m

/-- `remove_reactions([r])` (orphans kept) does what it documents and nothing else: the reaction is no longer listed, its metabolites and genes stop
listing it, its two variables leave the solver; every other reaction, every back-reference of other reactions, metabolites, genes, bounds,
stoichiometry, rules, gene states and the direction are untouched -/
theorem remove_reaction_spec (y : Sys) (r : Id) :
    let s' := (removeRxn y r).s
    s'.hasR r = false ∧ (∀ x, x ≠ r → s'.hasR x = y.s.hasR x) ∧
    (∀ m, s'.mr m r = false) ∧ (∀ gg, s'.gr gg r = false) ∧ s'.hasV r = false ∧ s'.hasV (y.s.rev r) = false ∧
    (∀ m x, x ≠ r → s'.mr m x = y.s.mr m x) ∧ (∀ gg x, x ≠ r → s'.gr gg x = y.s.gr gg x) ∧
    s'.hasM = y.s.hasM ∧ s'.hasG = y.s.hasG ∧ s'.lb = y.s.lb ∧ s'.ub = y.s.ub ∧ s'.st = y.s.st ∧ s'.rule = y.s.rule ∧ s'.gf = y.s.gf ∧
    s'.dirMax = y.s.dirMax := removeRxn_effect y r

/-- … and it keeps the cross-references and the solver consistent, and is taken back by the enclosing context (one instance of `wf_preserved` /
C01 `sync_preserved` / C03 `op_well_recorded`, spelled out) -/
theorem remove_reaction_step (y : Sys) (g : Good y.s) (r : Id) (hr : y.s.hasR r = true) : Step y (removeRxn y r) :=
  removeRxn_step y g r hr

/-- `add_reactions([R])` for a reaction new to the model (metabolites of the model, no rule) does what it documents and nothing else -/
theorem add_reaction_spec (y : Sys) (r : Id) (lb ub : EB) (ps : List (Id × Rat)) :
    let s' := (addRxn y r lb ub ps).s
    s'.hasR r = true ∧ s'.lb r = lb ∧ s'.ub r = ub ∧ (∀ m, s'.st r m = stOf ps m) ∧ s'.rule r = none ∧ s'.obj r = 0 ∧
    (∀ x, x ≠ r → s'.hasR x = y.s.hasR x ∧ s'.lb x = y.s.lb x ∧ s'.ub x = y.s.ub x ∧ s'.rule x = y.s.rule x ∧
      (∀ m, s'.st x m = y.s.st x m) ∧ (∀ m, s'.mr m x = y.s.mr m x) ∧ (∀ gg, s'.gr gg x = y.s.gr gg x)) ∧
    s'.hasM = y.s.hasM ∧ s'.hasG = y.s.hasG ∧ s'.gf = y.s.gf ∧ s'.dirMax = y.s.dirMax := addRxn_effect y r lb ub ps

/-- … keeping cross-references and solver consistent (the new reaction gets its two variables with the boxes of its bounds and its column in every
steady-state row), and taken back exactly by the enclosing context -/
theorem add_reaction_step (y : Sys) (g : Good y.s) (r : Id) (lb ub : EB) (ps : List (Id × Rat))
    (hnew : y.s.hasR r = false) (hle : EB.le lb ub = true) (hu : r ∈ y.s.univR) (fr : Fresh y.s r)
    (hm : ∀ p ∈ ps, y.s.hasM p.1 = true) : Step y (addRxn y r lb ub ps) := addRxn_step y g r lb ub ps hnew hle hu fr hm

/-- `Model.add_boundary(metabolite, type)` for a built-in type, when it goes through (metabolite of the model, in the external compartment for an
exchange, identifier free and within the modelled pool): the model gains exactly the reaction `EX_/DM_/SK_<metabolite>` with the metabolite at
coefficient −1, bounds `(default lb, default ub)` — `(0, default ub)` for a demand —, no rule, objective coefficient 0; nothing else changes -/
theorem add_boundary_spec (y : Sys) (m : Id) (t : BType) (ext : Bool) (dlb dub : EB)
    (hm : y.s.hasM m = true) (hext : t = .exchange → ext = true) (hfree : y.s.hasR (t.rid m) = false)
    (hle : EB.le (t.bounds dlb dub).1 (t.bounds dlb dub).2 = true) (hu : t.rid m ∈ y.s.univR) (hf : freshNames y.s (t.rid m) = true) :
    (apply y (.addBoundary m t ext dlb dub)).2 = none ∧
    let s' := (apply y (.addBoundary m t ext dlb dub)).1.s
    s'.hasR (t.rid m) = true ∧ s'.lb (t.rid m) = (t.bounds dlb dub).1 ∧ s'.ub (t.rid m) = (t.bounds dlb dub).2 ∧
    (∀ x, s'.st (t.rid m) x = if x = m then -1 else 0) ∧ s'.rule (t.rid m) = none ∧ s'.obj (t.rid m) = 0 ∧
    (∀ x, x ≠ t.rid m → s'.hasR x = y.s.hasR x ∧ s'.lb x = y.s.lb x ∧ s'.ub x = y.s.ub x ∧ (∀ k, s'.st x k = y.s.st x k)) ∧
    s'.hasM = y.s.hasM ∧ s'.hasG = y.s.hasG := by
  have hlt : EB.lt (t.bounds dlb dub).2 (t.bounds dlb dub).1 = false := EB.lt_false_of_le hle
  have hex : (t = .exchange && !ext) = false := by
    cases t <;> simp_all
  have happ : apply y (.addBoundary m t ext dlb dub) = (addRxn y (t.rid m) (t.bounds dlb dub).1 (t.bounds dlb dub).2 [(m, -1)], none) := by
    simp only [apply, hm, hfree, hlt, hu, hf, Bool.not_true, Bool.false_eq_true, if_false, decide_true, Bool.and_self, if_true]
    simp [hex]
  rw [happ]
  refine ⟨rfl, ?_⟩
  obtain ⟨a1, a2, a3, a4, a5, a6, a7, a8, a9, _⟩ := addRxn_effect y (t.rid m) (t.bounds dlb dub).1 (t.bounds dlb dub).2 [(m, -1)]
  refine ⟨a1, a2, a3, ?_, a5, a6, fun x hx => ⟨(a7 x hx).1, (a7 x hx).2.1, (a7 x hx).2.2.1, (a7 x hx).2.2.2.2.1⟩, a8, a9⟩
  intro x
  rw [a4 x]
  by_cases hx : x = m
  · subst hx; simp [stOf]
  · have : (m == x) = false := by simpa using fun h => hx h.symm
    simp [stOf, this, hx]

/-- `Model.add_boundary` refuses what it documents: a metabolite outside the external compartment for an exchange, an identifier that is taken —
and changes nothing then -/
theorem add_boundary_refusals (y : Sys) (m : Id) (t : BType) (ext : Bool) (dlb dub : EB) (hm : y.s.hasM m = true)
    (h : (t = .exchange ∧ ext = false) ∨ y.s.hasR (t.rid m) = true) :
    apply y (.addBoundary m t ext dlb dub) = (y, some .value) := by
  simp only [apply, hm, Bool.not_true, Bool.false_eq_true, if_false]
  rcases h with ⟨rfl, rfl⟩ | h
  · simp
  · split
    · rfl
    · simp [h]

/-- `remove_genes(model, genes, remove_reactions=False)` on the content: the genes leave the model, nothing else about genes changes; every reaction
stays with its bounds and stoichiometry; the genes a reaction lists afterwards are genes it listed before, none of them removed (that the pruned
rule is the Boolean function of the old rule with the removed genes absent is `C08.remover_equivalent`) -/
theorem remove_genes_spec (s : St) (g : Good s) (ks : Id → Bool) :
    let s' := removeGenesRaw s ks
    (∀ x, ks x = true → s'.hasG x = false) ∧ (∀ x, ks x = false → s'.hasG x = s.hasG x) ∧
    (∀ r x, s.hasR r = true → s'.rg r x = true → ks x = false ∧ s.rg r x = true) ∧
    s'.hasR = s.hasR ∧ s'.lb = s.lb ∧ s'.ub = s.ub ∧ s'.st = s.st ∧ s'.hasM = s.hasM ∧ s'.gf = s.gf := by
  refine ⟨fun x hx => by simp [removeGenesRaw, hx], fun x hx => by simp [removeGenesRaw, hx], ?_, rfl, rfl, rfl, rfl, rfl, rfl⟩
  intro r x hr hrg
  have hrg' : (if s.hasR r = true then (genesOpt (prunedRule s ks r)).contains x else s.rg r x) = true := hrg
  rw [if_pos hr] at hrg'
  have hx : x ∈ genesOpt (prunedRule s ks r) := by simpa using hrg'
  unfold prunedRule at hx
  cases hrule : s.rule r with
  | none => simp [hrule, genesOpt] at hx
  | some t =>
    simp only [hrule, hr, if_true] at hx
    cases hrem : GPRM.remove ks t with
    | none => simp [hrem, genesOpt] at hx
    | some t' =>
      simp only [hrem, genesOpt] at hx
      obtain ⟨a, b⟩ := GPRM.genes_remove ks t t' hrem x hx
      exact ⟨b, (g.wf.rg_rule r x hr).2 (by simpa [hrule, genesOpt] using a)⟩

/-- the whole operation keeps the model consistent (cross-references, solver) -/
theorem remove_genes_step (y : Sys) (g : Good y.s) (gs : List Id) (rr : Bool) : Step y (apply y (.removeGenes gs rr)).1 :=
  apply_step y g (.removeGenes gs rr) rfl trivial

/-- `Model.add_metabolites([Metabolite(m)])` for an id new to the model does what it documents and nothing else: the metabolite is listed, lists no
reaction, has an (empty) steady-state row; every other metabolite, row and back-reference, and everything about reactions, genes, variables,
objective and direction is untouched -/
theorem add_metabolite_spec (y : Sys) (m : Id) :
    let s' := (addMet y m).s
    s'.hasM m = true ∧ s'.hasC m = true ∧ (∀ r, s'.mr m r = false) ∧ (y.s.hasC m = false → ∀ v, s'.co m v = 0) ∧
    (∀ x, x ≠ m → s'.hasM x = y.s.hasM x ∧ s'.hasC x = y.s.hasC x ∧ s'.co x = y.s.co x ∧ s'.mr x = y.s.mr x) ∧
    s'.hasR = y.s.hasR ∧ s'.hasG = y.s.hasG ∧ s'.lb = y.s.lb ∧ s'.ub = y.s.ub ∧ s'.st = y.s.st ∧ s'.rule = y.s.rule ∧ s'.gf = y.s.gf ∧
    s'.hasV = y.s.hasV ∧ s'.vlb = y.s.vlb ∧ s'.vub = y.s.vub ∧ s'.obj = y.s.obj ∧ s'.dirMax = y.s.dirMax := addMet_effect y m

theorem add_metabolite_step (y : Sys) (g : Good y.s) (m : Id) (hm : y.s.hasM m = false) : Step y (addMet y m) := addMet_step y g m hm

/-- `Model.remove_metabolites([m])` (not destructive) does what it documents: the metabolite and its row are gone, no reaction of the model keeps a
coefficient for it, every reaction stays and keeps all its other coefficients -/
theorem remove_metabolite_spec (y : Sys) (g : Good y.s) (m : Id) (hm : y.s.hasM m = true) :
    let s' := (rmMet y m).s
    s'.hasM m = false ∧ s'.hasC m = false ∧ (∀ x, x ≠ m → s'.hasM x = y.s.hasM x) ∧ s'.hasR = y.s.hasR ∧
    (∀ r, y.s.hasR r = true → s'.st r m = 0) ∧ (∀ r x, x ≠ m → s'.st r x = y.s.st r x) := rmMet_effect y g m hm

/-- … keeping cross-references and solver consistent; inside a context every step of it is recorded and taken back -/
theorem remove_metabolite_step (y : Sys) (g : Good y.s) (m : Id) (hm : y.s.hasM m = true) : Step y (rmMet y m) := rmMet_step y g m hm

/-- `Model.remove_metabolites([m], destructive=True)` does what it documents: the metabolite is gone, and of the reactions of the model exactly those
that had a coefficient for it are gone too; the reactions that stay keep their stoichiometry.  It keeps cross-references and solver consistent and is
taken back by the enclosing context -/
theorem remove_metabolite_destructive_spec (y : Sys) (g : Good y.s) (m : Id) (hm : y.s.hasM m = true) :
    let s' := (rmMetD y m).s
    Step y (rmMetD y m) ∧ s'.hasM m = false ∧ s'.hasC m = false ∧ (∀ x, x ≠ m → s'.hasM x = y.s.hasM x) ∧
    (∀ r, y.s.hasR r = true → (s'.hasR r = true ↔ y.s.st r m = 0)) ∧ (∀ r, s'.hasR r = true → y.s.hasR r = true) ∧ s'.st = y.s.st :=
  ⟨rmMetD_step y g m hm, rmMetD_effect y g m hm⟩

/-- `remove_reactions([r], remove_orphans=True)`: the reaction leaves, every other reaction stays, no metabolite or gene appears (the ones that
leave are metabolites / genes of the reaction that nothing lists any more); cross-references and solver stay consistent and the enclosing context
takes all of it back -/
theorem remove_reaction_orphans_spec (y : Sys) (g : Good y.s) (r : Id) (hr : y.s.hasR r = true) :
    Step y (removeRxnO y r) ∧ (removeRxnO y r).s.hasR r = false ∧ (∀ x, x ≠ r → (removeRxnO y r).s.hasR x = y.s.hasR x) ∧
    (∀ m, (removeRxnO y r).s.hasM m = true → y.s.hasM m = true) ∧ (∀ x, (removeRxnO y r).s.hasG x = true → y.s.hasG x = true) :=
  removeRxnO_step y g r hr

/-- `remove_reactions(list, remove_orphans)`: afterwards none of the listed reactions is in the model, every reaction not listed is untouched,
identifiers that are not in the model are skipped; consistent, and taken back by the enclosing context -/
theorem remove_reactions_list_spec (orphans : Bool) (rs : List Id) (y : Sys) (g : Good y.s) :
    Step y (removeRxns orphans rs y) ∧ (∀ r ∈ rs, (removeRxns orphans rs y).s.hasR r = false) ∧
    (∀ x, x ∉ rs → (removeRxns orphans rs y).s.hasR x = y.s.hasR x) := removeRxns_step orphans rs y g

/-- `reaction.gene_reaction_rule = rule` (outside a context) does what it documents: the reaction's genes are exactly the genes of the new rule, each
of them is in the model (created if need be) and lists the reaction, no gene leaves the model, other reactions keep rule and genes, and nothing but
rules and genes changes; the cross-references stay consistent (`Good`) -/
theorem set_rule_spec (s : St) (g : Good s) (r : Id) (hr : s.hasR r = true) (rule : Option GPRM.G) :
    let s' := setRuleRaw s r rule
    Good s' ∧
    s'.rule r = rule ∧ (∀ gg, s'.rg r gg = true ↔ gg ∈ genesOpt rule) ∧ (∀ gg, gg ∈ genesOpt rule → s'.hasG gg = true ∧ s'.gr gg r = true) ∧
    (∀ gg, s.hasG gg = true → s'.hasG gg = true) ∧ (∀ x, x ≠ r → s'.rule x = s.rule x ∧ s'.rg x = s.rg x) ∧
    s'.hasR = s.hasR ∧ s'.hasM = s.hasM ∧ s'.lb = s.lb ∧ s'.ub = s.ub ∧ s'.st = s.st ∧ s'.mr = s.mr ∧
    s'.hasV = s.hasV ∧ s'.vlb = s.vlb ∧ s'.vub = s.vub ∧ s'.hasC = s.hasC ∧ s'.co = s.co ∧ s'.obj = s.obj ∧ s'.dirMax = s.dirMax :=
  ⟨setRuleRaw_good g r hr rule, setRuleRaw_effect s r rule⟩

/-- `reaction *= k` (k ≠ 0) does what it documents: it never raises, every coefficient of the reaction is multiplied by `k`, a negative `k` swaps
and negates the bounds, other reactions keep coefficients and bounds, membership, rules and objective stay; cross-references and solver stay
consistent and the enclosing context takes it back -/
theorem scale_reaction_spec (y : Sys) (g : Good y.s) (r : Id) (hr : y.s.hasR r = true) (k : Rat) (hk : k ≠ 0) :
    let s' := (imul y r k).1.s
    (imul y r k).2 = none ∧ Step y (imul y r k).1 ∧
    (∀ m, s'.st r m = y.s.st r m * k) ∧ (∀ x m, x ≠ r → s'.st x m = y.s.st x m) ∧
    (s'.lb r = if k < 0 then (y.s.ub r).neg else y.s.lb r) ∧ (s'.ub r = if k < 0 then (y.s.lb r).neg else y.s.ub r) ∧
    (∀ x, x ≠ r → s'.lb x = y.s.lb x ∧ s'.ub x = y.s.ub x) ∧
    s'.hasR = y.s.hasR ∧ s'.hasM = y.s.hasM ∧ s'.rule = y.s.rule ∧ s'.obj = y.s.obj := by
  obtain ⟨h1, h2, h3⟩ := imul_step y g r hr k hk
  show _ ∧ _
  rw [h3]
  exact ⟨h2, h1, imulSt_effect y.s r k⟩

example : WF demo := demo_good.wf

end C02

import CobraModel.Lemmas.Formulations
import Mathlib.Tactic.NormNum
import CobraModel.Lemmas.AuxProb
import CobraModel.Lemmas.Fastcc
/-!
# C19 — blocked-reaction and consistency analyses agree with the true flux ranges

A reaction is *blocked* when it carries zero flux in every feasible flux vector. Over the net-flux problem `p`:
certified optima of "maximise `v_r`" and "maximise `-v_r`" decide blockedness exactly; the pre-filter of
`find_blocked_reactions` (drop reactions that carry flux in one feasible solution) and what `fastcc` keeps
(reactions that carried non-zero flux in a feasible solution) are sound.
-/
namespace C19
open LPM

/-- `r` is blocked in `p` -/
def Blocked (p : LP) (r : Nat) : Prop := ∀ x, p.feasible x = true → x.getD r 0 = 0

theorem feasible_len (p : LP) (x : List Rat) (h : p.feasible x = true) : x.length = p.n := by
  simp only [LP.feasible, Bool.and_eq_true, beq_iff_eq] at h; exact h.1.1

/-- **blocked iff both certified extremes are zero** -/
theorem blocked_iff_range_zero (p : LP) (r : Nat) (xmax ymax xmin ymin : List Rat)
    (hmax : (p.withObj (unit p.n r)).checkOpt xmax ymax = true)
    (hmin : (p.withObj (negV (unit p.n r))).checkOpt xmin ymin = true) :
    Blocked p r ↔ (xmax.getD r 0 = 0 ∧ xmin.getD r 0 = 0) := by
  have a := LP.checkOpt_sound _ _ _ hmax
  have b := LP.checkOpt_sound _ _ _ hmin
  constructor
  · intro hb
    exact ⟨hb xmax a.1, hb xmin b.1⟩
  · rintro ⟨h1, h2⟩ x hx
    have l1 := feasible_len p x hx
    have l2 := feasible_len p xmax a.1
    have l3 := feasible_len p xmin b.1
    have u := a.2 x hx
    have l := b.2 x hx
    simp only [LP.withObj, dot_negV] at u l
    rw [dot_unit _ _ _ l1, dot_unit _ _ _ l2] at u
    rw [dot_unit _ _ _ l1, dot_unit _ _ _ l3] at l
    rw [h1] at u; rw [h2] at l
    linarith

/-- the pre-filter is sound, and so is what `fastcc` keeps: a reaction that carries non-zero flux in one feasible
flux vector is not blocked -/
theorem carries_flux_not_blocked (p : LP) (r : Nat) (x : List Rat) (hx : p.feasible x = true) (hr : x.getD r 0 ≠ 0) :
    ¬ Blocked p r := fun hb => hr (hb x hx)

/-- opening the exchanges (`min(lb, -1000)`, `max(ub, 1000)`) only enlarges the feasible set: a reaction blocked with
open exchanges is blocked with the original bounds -/
theorem widen_box (lo hi v : Rat) (h1 : lo ≤ v) (h2 : v ≤ hi) : min lo (-1000) ≤ v ∧ v ≤ max hi 1000 :=
  ⟨le_trans (min_le_left _ _) h1, le_trans h2 (le_max_left _ _)⟩

/-- the term `forward + reverse ≥ z` that `_find_sparse_mode` writes for a reaction is satisfiable at zero net flux: a positive `z` does not
make the reaction carry flux.  This is why `fastcc` can drop reversible reactions that are not blocked (known finding
`fastcc-drops-unblocked-reversible`): whether the solver's vertex has `forward = reverse` is the solver's choice -/
theorem sparse_mode_term_leaks : ∃ f r z : Rat, 0 ≤ f ∧ 0 ≤ r ∧ 0 < z ∧ z ≤ f + r ∧ f - r = 0 :=
  ⟨1, 1, 1, by norm_num, by norm_num, by norm_num, by norm_num, by norm_num⟩

/-- the term of the published LP-7, `v ≥ z` on the net flux (and `−v ≥ z` after the sign flip), does force flux -/
theorem net_flux_term_forces (f r z : Rat) (hz : 0 < z) (h : z ≤ f - r ∨ z ≤ -(f - r)) : f - r ≠ 0 := by
  intro e
  rcases h with h | h <;> rw [e] at h <;> linarith

/-- for an irreversible reaction (one of the two variables is fixed at zero by `update_variable_bounds`) the two terms coincide, so what
`fastcc` decides about irreversible reactions in its first pass is right -/
theorem sparse_mode_term_irreversible (f r z : Rat) (hf : 0 ≤ f) (hr : 0 ≤ r) (hirr : f = 0 ∨ r = 0) (hz : 0 < z) (h : z ≤ f + r) :
    f - r ≠ 0 := by
  intro e
  rcases hirr with h0 | h0 <;> rw [h0] at e h <;> linarith

def demo : LP := { n := 2, vb := [⟨some 0, some 5⟩, ⟨some 0, some 0⟩], rows := [([1, -1], ⟨some 0, some 0⟩)], obj := [0, 0] }
example : (demo.withObj (unit 2 0)).checkOpt [0, 0] [1] = true := by decide +kernel
example : (demo.withObj (negV (unit 2 0))).checkOpt [0, 0] [0] = true := by decide +kernel


/-! ### the problem `_find_sparse_mode` solves (LP-7 of FASTCC)

`AuxM.Net.fastcc n sub thr flip flipped`: the flux-balance problem, one auxiliary variable in `[0, thr]` per chosen reaction with the row
`forward + reverse − auxiliary ≥ 0`, objective the sum of the auxiliaries, direction max.  Compared entry by entry with the raw GLPK problem,
before and after `_flip_coefficients` (`harness/auxcorr.py`). -/
open AuxM in
/-- **LP-7 is sound for irreversible reactions**: at a feasible point the net fluxes are feasible for the model, and the auxiliary variable of a
chosen reaction whose lower bound is not negative is at most its net flux (so a positive auxiliary means the reaction is not blocked).
For a reversible reaction the row bounds it by `forward + reverse` only — this is where `fastcc` loses reversible reactions (known finding) -/
theorem lp7_problem_sound (n : Net) (hp : n.Proper) (sub : List Nat) (thr : Rat) (x : V → Rat) (h : (n.fastcc sub thr [] false).Feasible x) :
    n.Feasible (netOf x) ∧
    ∀ i ∈ sub, i ∈ n.idx → (∃ a b, (n.rx i).lb = .fin a ∧ (n.rx i).ub = .fin b ∧ 0 ≤ a) → x (.auxv i) ≤ netOf x i :=
  lp7_sound n hp sub thr x h

open AuxM in
/-- the optimum of LP-7 is at least `Σ min(thr, |v_i|)` for every feasible flux vector `v` -/
theorem lp7_problem_optimum_ge (n : Net) (sub : List Nat) (thr : Rat) (hthr : 0 ≤ thr) (x : V → Rat) (h : (n.fastcc sub thr [] false).IsOpt x)
    (v : Nat → Rat) (hv : n.Feasible v) : (sub.map (fun i => min thr |v i|)).sum ≤ (n.fastcc sub thr [] false).value x :=
  lp7_optimum_ge n sub thr hthr x h v hv

example : AuxM.demoNet.Feasible AuxM.demoV := (AuxM.demoNet_feasible _).2 (by simp only [AuxM.demoV]; norm_num)

/-! ### the main loop of `fastcc` (`FastccM.fastcc`, Model/Fastcc.lean)

The LP solves are external; their answers (the reactions with `|flux| > zero_cutoff`) come in as a list. The record of solves the model
produces is compared with the solves the real `fastcc` makes (harness/c19.py, `loop_stage`). -/

/-- **`fastcc` keeps only reactions that are not blocked**: whatever the solver answers, as long as every answer is the support of some
feasible flux vector -/
theorem fastcc_keeps_only_unblocked (p : LP) (all irr : List Nat) (answers : List (List Nat))
    (hans : ∀ a ∈ answers, ∃ x, p.feasible x = true ∧ ∀ r ∈ a, x.getD r 0 ≠ 0) :
    ∀ r ∈ (FastccM.fastcc all irr answers).kept, ¬ Blocked p r := by
  intro r hr
  obtain ⟨a, ha, hra⟩ := FastccM.fastcc_kept all irr answers r hr
  obtain ⟨x, hx, hsup⟩ := hans a ha
  exact carries_flux_not_blocked p r x hx (hsup r hra)

/-- **a reaction is dropped only after a solve over all the remaining reactions, it among them, found none of them**: the loop never
stops while the last `_find_sparse_mode` made progress, and never leaves a reaction out of the set it hands to it -/
theorem fastcc_dropped_reaction_was_tested (all irr : List Nat) (answers : List (List Nat)) (r : Nat)
    (hc : (FastccM.fastcc all irr answers).complete = true) (hr : r ∈ all) (hk : r ∉ (FastccM.fastcc all irr answers).kept) :
    ∃ c ∈ (FastccM.fastcc all irr answers).calls, c.flipped = false ∧ r ∈ c.j ∧ ∀ j ∈ c.j, j ∉ c.ans :=
  FastccM.fastcc_dropped_tested all irr answers r hc hr hk

/-- at most one solve per reaction plus two -/
theorem fastcc_solves_bounded (all irr : List Nat) (answers : List (List Nat)) :
    (FastccM.fastcc all irr answers).calls.length ≤ all.length + 2 :=
  FastccM.fastcc_calls_le all irr answers

-- a run: irreversible 0, 1; the first solve finds 0, the second (over 1, 2, 3) finds 2, the third (over 1, 3) nothing; flipped solve finds 3
example : (FastccM.fastcc [0, 1, 2, 3] [0, 1] [[0], [2], [], [3]]).kept = [0, 2, 3] := by decide
example : (FastccM.fastcc [0, 1, 2, 3] [0, 1] [[0], [2], [], [3]]).complete = true := by decide
example : (FastccM.fastcc [0, 1, 2, 3] [0, 1] [[0], [2], [], [3]]).calls =
    [⟨[0, 1], false, [0]⟩, ⟨[1, 2, 3], false, [2]⟩, ⟨[1, 3], false, []⟩, ⟨[3], true, [3]⟩] := by decide

/-! ### what `find_blocked_reactions` does with the first solution and the ranges (`BlockedM`, Model/Fastcc.lean) -/

theorem absR_eq (q : Rat) : BlockedM.absR q = |q| := by
  unfold BlockedM.absR
  split
  · rename_i h; rw [abs_of_neg h]
  · rename_i h; rw [abs_of_nonneg (not_lt.1 h)]

/-- **what is reported lies within the cutoff**: a reported reaction was requested, and every flux value inside its range is below the cutoff in
absolute value -/
theorem find_blocked_reported_within_cutoff (cut : Rat) (sol : Nat → Rat) (rng : Nat → Rat × Rat) (req : List Nat) (i : Nat)
    (h : i ∈ BlockedM.blocked cut sol rng req) :
    i ∈ req ∧ ∀ v : Rat, (rng i).1 ≤ v → v ≤ (rng i).2 → |v| < cut := by
  simp only [BlockedM.blocked, BlockedM.toFva, List.mem_filter, decide_eq_true_eq] at h
  obtain ⟨⟨hreq, _⟩, hm⟩ := h
  refine ⟨hreq, fun v h1 h2 => ?_⟩
  rw [absR_eq, absR_eq] at hm
  have ha : |(rng i).1| < cut := lt_of_le_of_lt (le_max_left _ _) hm
  have hb : |(rng i).2| < cut := lt_of_le_of_lt (le_max_right _ _) hm
  rw [abs_lt] at ha hb ⊢
  constructor <;> linarith [ha.1, ha.2, hb.1, hb.2]

/-- **a blocked reaction that was asked for is reported**: it has flux zero in the first solution (a feasible flux vector) and both certified
ends of its range are zero -/
theorem find_blocked_reports_blocked (p : LP) (r : Nat) (x xmax ymax xmin ymin : List Rat) (cut : Rat) (hcut : 0 < cut)
    (hb : Blocked p r) (hx : p.feasible x = true)
    (hmax : (p.withObj (unit p.n r)).checkOpt xmax ymax = true) (hmin : (p.withObj (negV (unit p.n r))).checkOpt xmin ymin = true)
    (req : List Nat) (hr : r ∈ req) (rng : Nat → Rat × Rat) (hrng : rng r = (xmin.getD r 0, xmax.getD r 0)) :
    r ∈ BlockedM.blocked cut (fun i => x.getD i 0) rng req := by
  have hz := (blocked_iff_range_zero p r xmax ymax xmin ymin hmax hmin).1 hb
  simp only [BlockedM.blocked, BlockedM.toFva, List.mem_filter, decide_eq_true_eq]
  refine ⟨⟨hr, ?_⟩, ?_⟩
  · rw [absR_eq, hb x hx, abs_zero]; exact hcut
  · rw [hrng, absR_eq, absR_eq, hz.1, hz.2, abs_zero, max_self]; exact hcut

example : BlockedM.blocked (1/10) (fun i => if i = 0 then 3 else 0) (fun i => if i = 1 then (0, 2) else (0, 0)) [0, 1, 2] = [2] := by decide +kernel

end C19

import CobraModel.Lemmas.Core
import CobraModel.Lemmas.SplitRange
import CobraModel.Lemmas.AuxProb
/-!
# C01 — the solver always holds exactly the model's flux-balance problem

`Core.Sync`: the variables are exactly the forward/reverse pairs of the reactions, their boxes are what
`update_variable_bounds` derives from the reaction bounds, the rows are exactly the metabolites with the
current stoichiometry (`+c` on the forward, `-c` on the reverse variable), the objective is antisymmetric on
the pairs. The raw GLPK problem of the implementation is compared with the model's solver component after
every step (`harness/core_engine.py`).
-/
namespace C01
open Core

/-- **every modelled operation keeps the solver in step with the content**, raising outcomes included -/
theorem sync_preserved (y : Sys) (g : Good y.s) (op : Op) (hp : op.plain = true) (hok : OpOK op) :
    Sync (apply y op).1.s := (apply_step y g op hp hok).1.sync

/-- after any program of operations and nested contexts -/
theorem sync_after_program (body : ProgL) (hok : body.ok) (y : Sys) (g : Good y.s) :
    Sync (runL body y).1.s := (runL_step body hok y g).1.sync

/-- in-bounds values of the forward/reverse pair give a net flux inside the reaction bounds, and every net
flux inside the bounds is reached — finite case of `update_variable_bounds`, all three branches -/
theorem split_range (lb ub v : Rat) :
    (∃ f r : Rat, f - r = v ∧ inBox (splitBounds (.fin lb) (.fin ub)).1 f ∧ inBox (splitBounds (.fin lb) (.fin ub)).2 r)
      ↔ (lb ≤ v ∧ v ≤ ub) := split_range_fin lb ub v

/-- **a row of the solver is the steady-state equation of its metabolite**: evaluated at any assignment `x` of the solver variables, the row of
metabolite `m` over the variables of the reactions `rs` equals the stoichiometry times the net fluxes `x r − x (rev r)` -/
theorem row_is_steady_state (s : St) (sy : Sync s) (m : Id) (hm : s.hasM m = true) (x : Id → Rat) (rs : List Id)
    (hrs : ∀ r ∈ rs, s.hasR r = true) :
    (rs.map (fun r => s.co m r * x r + s.co m (s.rev r) * x (s.rev r))).sum =
      (rs.map (fun r => s.st r m * (x r - x (s.rev r)))).sum := by
  induction rs with
  | nil => rfl
  | cons r rs ih =>
    have hr := hrs r (by simp)
    obtain ⟨c1, c2⟩ := sy.coef m r hm hr
    simp only [List.map_cons, List.sum_cons]
    rw [ih (fun r' hr' => hrs r' (by simp [hr'])), c1, c2]
    ring

/-- the objective row is the reported coefficients applied to the net fluxes (the reverse variable carries the opposite coefficient) -/
theorem objective_on_net_fluxes (s : St) (sy : Sync s) (x : Id → Rat) (rs : List Id) (hrs : ∀ r ∈ rs, s.hasR r = true) :
    (rs.map (fun r => s.obj r * x r + s.obj (s.rev r) * x (s.rev r))).sum = (rs.map (fun r => s.obj r * (x r - x (s.rev r)))).sum := by
  induction rs with
  | nil => rfl
  | cons r rs ih =>
    have hr := hrs r (by simp)
    simp only [List.map_cons, List.sum_cons]
    rw [ih (fun r' hr' => hrs r' (by simp [hr'])), sy.objrev r hr]
    ring


example : Sync demo := demo_good.sync


/-! ### the problem as a whole

`AuxM.Net.fba` (lean/CobraModel/Model/AuxProb.lean) is the complete solver problem of a model — both variables of every reaction with the boxes
of `update_variable_bounds`, one row per metabolite, the objective, the direction; it is compared entry by entry with the raw GLPK problem
(`harness/auxcorr.py`). -/
open AuxM in
/-- `update_variable_bounds`, every combination of finite and infinite bounds: values inside the two boxes give a net flux inside the reaction
bounds and are both non-negative … -/
theorem split_boxes_sound (lb ub : EB) (hl : lb ≠ .pinf) (hu : ub ≠ .ninf) (f r : Rat)
    (hf : inBox (splitBounds lb ub).1 f) (hr : inBox (splitBounds lb ub).2 r) : inBox (lb, ub) (f - r) ∧ 0 ≤ f ∧ 0 ≤ r :=
  split_sound lb ub hl hu f r hf hr

open AuxM in
/-- … and the positive and negative part of any net flux inside the reaction bounds lie inside the boxes -/
theorem split_boxes_complete (lb ub : EB) (v : Rat) (h : inBox (lb, ub) v) :
    inBox (splitBounds lb ub).1 (max v 0) ∧ inBox (splitBounds lb ub).2 (max (-v) 0) := split_complete lb ub v h

open AuxM in
/-- **the solver problem is exactly the flux-balance problem**: its feasible points project (`v_i = forward_i − reverse_i`) onto the steady-state,
in-bounds flux vectors, every such vector is reached, and the objective is the model's objective on the net fluxes -/
theorem fba_problem_is_flux_balance (n : Net) (hp : n.Proper) :
    (∀ x, n.fba.Feasible x → n.Feasible (netOf x) ∧ n.fba.value x = n.objVal (netOf x)) ∧
    (∀ v, n.Feasible v → n.fba.Feasible (splitOf v) ∧ netOf (splitOf v) = v ∧ n.fba.value (splitOf v) = n.objVal v) :=
  ⟨fun x h => fba_sound n hp x h, fun v hv => fba_complete n v hv⟩

example : AuxM.demoNet.fba.Feasible (AuxM.splitOf AuxM.demoV) :=
  (AuxM.fba_complete AuxM.demoNet AuxM.demoV ((AuxM.demoNet_feasible _).2 (by simp only [AuxM.demoV]; norm_num))).1

end C01

import CobraModel.Lemmas.Core
import CobraModel.Lemmas.SplitRange
/-!
# C01 — the solver always holds exactly the model's flux-balance problem

`Core.Sync`: the variables are exactly the forward/reverse pairs of the reactions, their boxes are what
`update_variable_bounds` derives from the reaction bounds, the rows are exactly the metabolites with the
current stoichiometry (`+c` on the forward, `-c` on the reverse variable), the objective is antisymmetric on
the pairs. The raw GLPK problem of the implementation is compared with the model's solver component after
every step (`harness/core_engine.py`).
-/
namespace C01
open Core

/-- **every modelled operation keeps the solver in step with the content**, raising outcomes included -/
theorem sync_preserved (y : Sys) (g : Good y.s) (op : Op) (hp : op.plain = true) (hok : OpOK op) :
    Sync (apply y op).1.s := (apply_step y g op hp hok).1.sync

/-- after any program of operations and nested contexts -/
theorem sync_after_program (body : ProgL) (hok : body.ok) (y : Sys) (g : Good y.s) :
    Sync (runL body y).1.s := (runL_step body hok y g).1.sync

/-- in-bounds values of the forward/reverse pair give a net flux inside the reaction bounds, and every net
flux inside the bounds is reached — finite case of `update_variable_bounds`, all three branches -/
theorem split_range (lb ub v : Rat) :
    (∃ f r : Rat, f - r = v ∧ inBox (splitBounds (.fin lb) (.fin ub)).1 f ∧ inBox (splitBounds (.fin lb) (.fin ub)).2 r)
      ↔ (lb ≤ v ∧ v ≤ ub) := split_range_fin lb ub v

/-- **a row of the solver is the steady-state equation of its metabolite**: evaluated at any assignment `x` of the solver variables, the row of
metabolite `m` over the variables of the reactions `rs` equals the stoichiometry times the net fluxes `x r − x (rev r)` -/
theorem row_is_steady_state (s : St) (sy : Sync s) (m : Id) (hm : s.hasM m = true) (x : Id → Rat) (rs : List Id)
    (hrs : ∀ r ∈ rs, s.hasR r = true) :
    (rs.map (fun r => s.co m r * x r + s.co m (s.rev r) * x (s.rev r))).sum =
      (rs.map (fun r => s.st r m * (x r - x (s.rev r)))).sum := by
  induction rs with
  | nil => rfl
  | cons r rs ih =>
    have hr := hrs r (by simp)
    obtain ⟨c1, c2⟩ := sy.coef m r hm hr
    simp only [List.map_cons, List.sum_cons]
    rw [ih (fun r' hr' => hrs r' (by simp [hr'])), c1, c2]
    ring

/-- the objective row is the reported coefficients applied to the net fluxes (the reverse variable carries the opposite coefficient) -/
theorem objective_on_net_fluxes (s : St) (sy : Sync s) (x : Id → Rat) (rs : List Id) (hrs : ∀ r ∈ rs, s.hasR r = true) :
    (rs.map (fun r => s.obj r * x r + s.obj (s.rev r) * x (s.rev r))).sum = (rs.map (fun r => s.obj r * (x r - x (s.rev r)))).sum := by
  induction rs with
  | nil => rfl
  | cons r rs ih =>
    have hr := hrs r (by simp)
    simp only [List.map_cons, List.sum_cons]
    rw [ih (fun r' hr' => hrs r' (by simp [hr'])), sy.objrev r hr]
    ring


example : Sync demo := demo_good.sync

end C01

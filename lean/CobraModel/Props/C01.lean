import CobraModel.Lemmas.Core
import CobraModel.Lemmas.SplitRange
/-!
# C01 — the solver always holds exactly the model's flux-balance problem

`Core.Sync`: the variables are exactly the forward/reverse pairs of the reactions, their boxes are what
`update_variable_bounds` derives from the reaction bounds, the rows are exactly the metabolites with the
current stoichiometry (`+c` on the forward, `-c` on the reverse variable), the objective is antisymmetric on
the pairs. The raw GLPK problem of the implementation is compared with the model's solver component after
every step (`harness/core_engine.py`).
-/
namespace C01
open Core

/-- **every modelled operation keeps the solver in step with the content**, raising outcomes included -/
theorem sync_preserved (y : Sys) (g : Good y.s) (op : Op) (hp : op.plain = true) (hok : OpOK op) :
    Sync (apply y op).1.s := (apply_step y g op hp hok).1.sync

/-- after any program of operations and nested contexts -/
theorem sync_after_program (body : ProgL) (hok : body.ok) (y : Sys) (g : Good y.s) :
    Sync (runL body y).1.s := (runL_step body hok y g).1.sync

/-- in-bounds values of the forward/reverse pair give a net flux inside the reaction bounds, and every net
flux inside the bounds is reached — finite case of `update_variable_bounds`, all three branches -/
theorem split_range (lb ub v : Rat) :
    (∃ f r : Rat, f - r = v ∧ inBox (splitBounds (.fin lb) (.fin ub)).1 f ∧ inBox (splitBounds (.fin lb) (.fin ub)).2 r)
      ↔ (lb ≤ v ∧ v ≤ ub) := split_range_fin lb ub v


example : Sync demo := demo_good.sync

end C01

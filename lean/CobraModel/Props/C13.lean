import CobraModel.Lemmas.Effects
import CobraModel.Gen.EffectTable
/-!
# C13 — analyses leave the model exactly as they found it

`leaves_model_as_found` : every execution of a statement that passes the syntactic check `Effects.Safe` — succeeding, or raising at any of its
`mayRaise` points, started with any number of caller contexts open — ends with every component holding the object it held before, the content of
every object that existed before unchanged, and the caller's contexts (with their undo records) untouched.

`all_analyses_safe` : every effect summary in `Gen.EffectTable.table` — generated from the source of the analyses on every run — passes the check.

`analyses_leave_model` : the two together, for every entry of the table.
-/
open Effects

namespace C13

/-- **C13, semantics.** -/
theorem leaves_model_as_found {s : Stmt} (hs : Safe s = true) {σ σ' : St} {o : Out} (h : Exec s σ o σ') :
    σ'.inst = σ.inst ∧ σ'.ctx = σ.ctx ∧ ∀ id, id < σ.next → σ'.content id = σ.content id := by
  unfold Safe at hs
  cases hsafe : safe false [] s with
  | none => simp [hsafe] at hs
  | some f' =>
    have p := sound h false [] f' σ.next hsafe (Nat.le_refl _) (fun _ hc => by cases hc) (fun h => by cases h)
    obtain ⟨log, hlog, hctx, hu⟩ := p.log
    have : log = [] := hlog rfl
    subst this
    refine ⟨?_, ?_, p.content⟩
    · simpa [undo] using hu
    · simpa using hctx

/-- **C13, the analyses as they are written now.** -/
theorem all_analyses_safe : (Gen.EffectTable.table.all fun p => Safe p.2) = true := by decide

theorem analyses_leave_model (name : String) (s : Stmt) (hmem : (name, s) ∈ Gen.EffectTable.table) {σ σ' : St} {o : Out}
    (h : Exec s σ o σ') :
    σ'.inst = σ.inst ∧ σ'.ctx = σ.ctx ∧ ∀ id, id < σ.next → σ'.content id = σ.content id := by
  have := List.all_eq_true.mp all_analyses_safe (name, s) hmem
  exact leaves_model_as_found this h

/-! ### what the check rejects (each is a leak the semantics exhibits) -/

/-- a context-aware write outside the analysis' own context: inside a caller's context it is recorded there, outside it is permanent -/
example : Safe (.ctxWrite .bounds) = false := by decide
/-- an in-place write to an object the analysis did not install itself -/
example : Safe (.withModel (.rawWrite .objective)) = false := by decide
/-- the same write after the objective was replaced inside the own context is fine -/
example : Safe (.withModel (.seq (.ctxWrite .objective) (.rawWrite .objective))) = true := by decide
/-- replaced on one branch only -/
example : Safe (.withModel (.seq (.branch (.ctxWrite .objective) .skip) (.rawWrite .objective))) = false := by decide
/-- a restore that is skipped when the solver raises (no finally, no context) -/
example : Safe (.seq (.rawWrite .direction) (.seq .mayRaise (.rawWrite .direction))) = false := by decide

/-- the rejected statements really leak: a permanent write changes the installed object -/
theorem ctxWrite_outside_leaks : ∃ σ σ' o, Exec (.ctxWrite .bounds) σ o σ' ∧ σ'.inst ≠ σ.inst := by
  refine ⟨⟨fun _ => 0, fun _ => 0, 1, []⟩, _, _, Exec.ctxWrite .bounds _, ?_⟩
  intro h
  have := congrFun h Comp.bounds
  simp [St.ctxWrite, upd] at this

/-- … and an in-place write inside a context survives the context -/
theorem rawWrite_in_context_leaks :
    ∃ σ σ' o, Exec (.withModel (.rawWrite .objective)) σ o σ' ∧ σ'.content 0 ≠ σ.content 0 := by
  refine ⟨⟨fun _ => 0, fun _ => 0, 1, []⟩, _, _, Exec.withModel (Exec.rawWrite .objective _), ?_⟩
  simp [St.pop, St.push, St.rawWrite, updN]

/-- non-vacuity: a table entry with real writes, and an execution of it that raises half-way -/
example : ("pfba", Gen.EffectTable.pfba) ∈ Gen.EffectTable.table := by simp [Gen.EffectTable.table]

end C13

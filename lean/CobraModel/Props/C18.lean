import CobraModel.Lemmas.Formulations
import CobraModel.Model.Medium
import CobraModel.Lemmas.AuxProb
/-!
# C18 — medium get/set are inverse; a minimal medium is sufficient and minimal

Pure model of `Model.medium` (getter: `is_active`, `get_active_bound`; setter: `set_active_bound` for the listed
exchanges, import closed on all others) over exchange reactions written either way round:
`isReactant = true` for `met -->` (import is negative flux, import capacity `-lower_bound`),
`false` for `--> met` (import capacity `upper_bound`).
-/
namespace C18
open LPM MediumM

theorem isActive_iff (e : Ex) : isActive e = true ↔ 0 < importCap e := by
  unfold isActive importCap
  cases e.isReactant <;> simp

/-- assigning sets the import bound to the value and leaves the export bound untouched -/
theorem setActive_spec (e : Ex) (b : Rat) :
    importCap (setActive e b) = b ∧ exportBound (setActive e b) = exportBound e ∧
    (setActive e b).isReactant = e.isReactant := by
  unfold setActive importCap exportBound
  cases h : e.isReactant <;> simp [h]

/-- an exchange that is not listed has its import closed (a forced export stays), export untouched -/
theorem closeImport_spec (e : Ex) :
    importCap (closeImport e) = min 0 (importCap e) ∧ isActive (closeImport e) = false ∧
    exportBound (closeImport e) = exportBound e := by
  have h := setActive_spec e (min 0 (importCap e))
  refine ⟨h.1, ?_, h.2.1⟩
  cases ha : isActive (closeImport e) with
  | false => rfl
  | true =>
    have := (isActive_iff _).1 ha
    unfold closeImport at this
    rw [h.1] at this
    exact absurd this (not_lt.2 (min_le_left _ _))

/-- **get ∘ set**: reading the medium back returns exactly the listed entries with positive import, for every
set of exchanges and every dictionary -/
theorem get_set (exs : List (String × Ex)) (med : List (String × Rat)) :
    getMedium (setMedium exs med) =
      exs.filterMap (fun p => match lookup med p.1 with
        | some b => if 0 < b then some (p.1, b) else none
        | none => none) := by
  unfold getMedium setMedium
  rw [List.filterMap_map]
  congr 1
  funext p
  simp only [Function.comp]
  cases hl : lookup med p.1 with
  | none =>
    simp [(closeImport_spec p.2).2.1]
  | some b =>
    simp only
    by_cases hb : 0 < b
    · have : isActive (setActive p.2 b) = true := (isActive_iff _).2 (by rw [(setActive_spec p.2 b).1]; exact hb)
      simp [this, hb, (setActive_spec p.2 b).1]
    · have : isActive (setActive p.2 b) = false := by
        cases ha : isActive (setActive p.2 b) with
        | false => rfl
        | true => exact absurd ((isActive_iff _).1 ha) (by rw [(setActive_spec p.2 b).1]; exact hb)
      simp [this, hb]

/-- the import flux of an exchange in split variables: for `v = p - n`, `p, n ≥ 0`, the reverse (forward) variable
is at least the import `max 0 (-v)` (`max 0 v`) and the positive / negative parts attain it — so minimising the
sum of these variables minimises the total import -/
theorem import_is_split_variable (v p n : Rat) (hp : 0 ≤ p) (hn : 0 ≤ n) (hv : v = p - n) :
    max 0 (-v) ≤ n ∧ max 0 v ≤ p ∧
    (max v 0 - max (-v) 0 = v) := by
  subst hv
  refine ⟨max_le hn (by linarith), max_le hp (by linarith), ?_⟩
  rcases le_total 0 (p - n) with h | h
  · rw [max_eq_left h, max_eq_right (by linarith)]; ring
  · rw [max_eq_right h, max_eq_left (by linarith)]; ring

/-! ### the indicator constraints of `minimize_components` -/

theorem absR_nonneg (q : Rat) : 0 ≤ absR q := by
  unfold absR; split <;> linarith

theorem le_absR (q : Rat) : q ≤ absR q ∧ -q ≤ absR q := by
  unfold absR; split <;> constructor <;> linarith

theorem foldl_bigM_ge (exs : List (String × Ex)) (a : Rat) :
    a ≤ exs.foldl (fun acc p => max acc (max (absR p.2.lb) (absR p.2.ub))) a ∧
    ∀ p ∈ exs, absR p.2.lb ≤ exs.foldl (fun acc p => max acc (max (absR p.2.lb) (absR p.2.ub))) a ∧
               absR p.2.ub ≤ exs.foldl (fun acc p => max acc (max (absR p.2.lb) (absR p.2.ub))) a := by
  induction exs generalizing a with
  | nil => exact ⟨le_refl _, fun p hp => by cases hp⟩
  | cons q qs ih =>
    simp only [List.foldl_cons]
    obtain ⟨h1, h2⟩ := ih (max a (max (absR q.2.lb) (absR q.2.ub)))
    refine ⟨le_trans (le_max_left _ _) h1, ?_⟩
    intro p hp
    rcases List.mem_cons.1 hp with e | hp
    · subst e
      exact ⟨le_trans (le_trans (le_max_left _ _) (le_max_right _ _)) h1, le_trans (le_trans (le_max_right _ _) (le_max_right _ _)) h1⟩
    · exact h2 p hp

/-- **big M dominates every import**: whatever way round an exchange is written, its import capacity is at most `bigM` -/
theorem bigM_ge_import (exs : List (String × Ex)) (p : String × Ex) (hp : p ∈ exs) : importCap p.2 ≤ bigM exs := by
  obtain ⟨hl, hu⟩ := (foldl_bigM_ge exs 0).2 p hp
  unfold importCap bigM
  split
  · exact le_trans (le_absR _).2 hl
  · exact le_trans (le_absR _).1 hu

/-- with such an M the indicator row `w − y·M ≤ 0` says exactly "w = 0 unless y = 1" for every import `0 ≤ w ≤ M`: it excludes no import that the
bounds allow, and an unused indicator forces the import to zero -/
theorem indicator_exact (w M : Rat) (h0 : 0 ≤ w) (hM : w ≤ M) :
    (w - 1 * M ≤ 0) ∧ (w - 0 * M ≤ 0 ↔ w = 0) := by
  constructor
  · linarith
  · constructor
    · intro h; linarith
    · intro h; rw [h]; linarith

/-- a smaller constant (say the largest `|lower_bound|` only) cuts off imports that the bounds allow -/
theorem small_M_cuts (w M : Rat) (h : M < w) : ¬ (w - 1 * M ≤ 0) := by
  intro h'; linarith

/-- the number of indicators that must be on is the number of positive imports: any 0/1 assignment satisfying the rows switches on every
positive import -/
theorem indicators_cover (M : Rat) (wy : List (Rat × Rat)) (hy : ∀ p ∈ wy, p.2 = 0 ∨ p.2 = 1)
    (hrow : ∀ p ∈ wy, p.1 - p.2 * M ≤ 0) :
    ((wy.filter (fun p => decide (0 < p.1))).length : Rat) ≤ (wy.map (·.2)).sum := by
  induction wy with
  | nil => simp
  | cons q qs ih =>
    have ih' := ih (fun p hp => hy p (List.mem_cons_of_mem _ hp)) (fun p hp => hrow p (List.mem_cons_of_mem _ hp))
    have hq := hy q (List.mem_cons_self ..)
    have hr := hrow q (List.mem_cons_self ..)
    simp only [List.filter_cons, List.map_cons, List.sum_cons]
    by_cases hpos : 0 < q.1
    · have : q.2 = 1 := by
        rcases hq with e | e
        · rw [e] at hr; linarith
        · exact e
      simp only [hpos, decide_true, if_true, List.length_cons, Nat.cast_add, Nat.cast_one]
      rw [this]; linarith
    · simp only [hpos, decide_false, Bool.false_eq_true, if_false]
      rcases hq with e | e <;> rw [e] <;> linarith

/-! ### non-vacuity -/
def demoEx : List (String × Ex) := [("EX_a", ⟨true, -10, 5⟩), ("EX_b", ⟨false, -3, 7⟩), ("EX_c", ⟨true, -1, 2⟩)]
example : getMedium demoEx = [("EX_a", 10), ("EX_b", 7), ("EX_c", 1)] := by decide +kernel
example : getMedium (setMedium demoEx [("EX_b", 4), ("EX_c", 0)]) = [("EX_b", 4)] := by decide +kernel
example : bigM demoEx = 10 := by decide +kernel
example : bigM [("EX_p", ⟨false, 0, 1000⟩), ("EX_q", ⟨true, -20, 0⟩)] = 1000 := by decide +kernel


/-! ### the whole problems `minimal_medium` solves

`AuxM.Net.mediumLinear` / `AuxM.Net.mediumMip`: the flux-balance problem, the row `medium_obj_constraint` (objective at least the requested
value), and either the sum of the import variables as objective or one binary indicator per exchange with `import − big_m · indicator ≤ 0`
and the sum of the indicators as objective.  Compared entry by entry with the raw GLPK problem (`harness/auxcorr.py`). -/
open AuxM in
/-- **minimal medium, linear**: at any optimum the net fluxes are feasible and reach the requested objective value with the smallest total
import; the optimal value is that total -/
theorem medium_problem_optimum (n : Net) (hp : n.Proper) (exch : List (Nat × Bool)) (hex : ∀ e ∈ exch, e.1 ∈ n.idx) (q : Rat)
    (x : V → Rat) (h : (n.mediumLinear exch q).IsOpt x) :
    n.Feasible (netOf x) ∧ q ≤ n.objVal (netOf x) ∧ (n.mediumLinear exch q).value x = totalImport exch (netOf x) ∧
    ∀ v, n.Feasible v → q ≤ n.objVal v → totalImport exch (netOf x) ≤ totalImport exch v :=
  mediumLinear_optimum n hp exch hex q x h

open AuxM in
/-- **minimal medium, fewest components**: at any optimum of the MIP the net fluxes are feasible and reach the requested objective value, and
no flux vector that does so (imports below the big-M constant) uses fewer components; the optimal value is the number of components -/
theorem medium_mip_problem_optimum (n : Net) (hp : n.Proper) (exch : List (Nat × Bool)) (hex : ∀ e ∈ exch, e.1 ∈ n.idx)
    (hnd : (exch.map (·.1)).Nodup) (q M : Rat) (x : V → Rat) (h : (n.mediumMip exch q M).IsOpt x)
    (hxM : ∀ e ∈ exch, importOf (netOf x) e ≤ M) :
    n.Feasible (netOf x) ∧ q ≤ n.objVal (netOf x) ∧ (n.mediumMip exch q M).value x = components exch (netOf x) ∧
    ∀ v, n.Feasible v → q ≤ n.objVal v → (∀ e ∈ exch, importOf v e ≤ M) → components exch (netOf x) ≤ components exch v :=
  mediumMip_optimum n hp exch hex hnd q M x h hxM

open AuxM in
/-- the big-M constant of `add_mip_obj` (largest bound magnitude over the exchanges) bounds every import of a feasible flux vector, so the
side condition above holds for every feasible flux vector when the exchange bounds are finite -/
theorem import_below_big_m (n : Net) (exch : List (Nat × Bool)) (hex : ∀ e ∈ exch, e.1 ∈ n.idx)
    (hfin : ∀ e ∈ exch, (n.rx e.1).lb = .fin (EB.toRat (n.rx e.1).lb) ∧ (n.rx e.1).ub = .fin (EB.toRat (n.rx e.1).ub))
    (v : Nat → Rat) (hv : n.Feasible v) : ∀ e ∈ exch, importOf v e ≤ n.bigM exch := import_le_bigM n exch hex hfin v hv

example : AuxM.importOf (fun _ => (-3 : Rat)) (0, true) = 3 := by decide +kernel
example : AuxM.importOf (fun _ => (-3 : Rat)) (0, false) = 0 := by decide +kernel

end C18

import CobraModel.Lemmas.Formulations
/-!
# C18 — medium get/set are inverse; a minimal medium is sufficient and minimal

Pure model of `Model.medium` (getter: `is_active`, `get_active_bound`; setter: `set_active_bound` for the listed
exchanges, import closed on all others) over exchange reactions written either way round:
`isReactant = true` for `met -->` (import is negative flux, import capacity `-lower_bound`),
`false` for `--> met` (import capacity `upper_bound`).
-/
namespace C18
open LPM

structure Ex where
  isReactant : Bool
  lb : Rat
  ub : Rat
deriving DecidableEq, Repr

/-- `get_active_bound` -/
def importCap (e : Ex) : Rat := if e.isReactant then -e.lb else e.ub
/-- the bound on the export side -/
def exportBound (e : Ex) : Rat := if e.isReactant then e.ub else e.lb
/-- `is_active` -/
def isActive (e : Ex) : Bool := (!e.isReactant && decide (0 < e.ub)) || (e.isReactant && decide (e.lb < 0))
/-- `set_active_bound` -/
def setActive (e : Ex) (b : Rat) : Ex := if e.isReactant then { e with lb := -b } else { e with ub := b }
/-- what the setter does to an exchange that is not listed -/
def closeImport (e : Ex) : Ex := setActive e (min 0 (importCap e))

def lookup (med : List (String × Rat)) (k : String) : Option Rat := (med.find? (fun p => p.1 == k)).map (·.2)

/-- `model.medium = med` -/
def setMedium (exs : List (String × Ex)) (med : List (String × Rat)) : List (String × Ex) :=
  exs.map (fun p => (p.1, match lookup med p.1 with | some b => setActive p.2 b | none => closeImport p.2))

/-- `model.medium` -/
def getMedium (exs : List (String × Ex)) : List (String × Rat) :=
  exs.filterMap (fun p => if isActive p.2 then some (p.1, importCap p.2) else none)

theorem isActive_iff (e : Ex) : isActive e = true ↔ 0 < importCap e := by
  unfold isActive importCap
  cases e.isReactant <;> simp

/-- assigning sets the import bound to the value and leaves the export bound untouched -/
theorem setActive_spec (e : Ex) (b : Rat) :
    importCap (setActive e b) = b ∧ exportBound (setActive e b) = exportBound e ∧
    (setActive e b).isReactant = e.isReactant := by
  unfold setActive importCap exportBound
  cases h : e.isReactant <;> simp [h]

/-- an exchange that is not listed has its import closed (a forced export stays), export untouched -/
theorem closeImport_spec (e : Ex) :
    importCap (closeImport e) = min 0 (importCap e) ∧ isActive (closeImport e) = false ∧
    exportBound (closeImport e) = exportBound e := by
  have h := setActive_spec e (min 0 (importCap e))
  refine ⟨h.1, ?_, h.2.1⟩
  cases ha : isActive (closeImport e) with
  | false => rfl
  | true =>
    have := (isActive_iff _).1 ha
    unfold closeImport at this
    rw [h.1] at this
    exact absurd this (not_lt.2 (min_le_left _ _))

/-- **get ∘ set**: reading the medium back returns exactly the listed entries with positive import, for every
set of exchanges and every dictionary -/
theorem get_set (exs : List (String × Ex)) (med : List (String × Rat)) :
    getMedium (setMedium exs med) =
      exs.filterMap (fun p => match lookup med p.1 with
        | some b => if 0 < b then some (p.1, b) else none
        | none => none) := by
  unfold getMedium setMedium
  rw [List.filterMap_map]
  congr 1
  funext p
  simp only [Function.comp]
  cases hl : lookup med p.1 with
  | none =>
    simp [(closeImport_spec p.2).2.1]
  | some b =>
    simp only
    by_cases hb : 0 < b
    · have : isActive (setActive p.2 b) = true := (isActive_iff _).2 (by rw [(setActive_spec p.2 b).1]; exact hb)
      simp [this, hb, (setActive_spec p.2 b).1]
    · have : isActive (setActive p.2 b) = false := by
        cases ha : isActive (setActive p.2 b) with
        | false => rfl
        | true => exact absurd ((isActive_iff _).1 ha) (by rw [(setActive_spec p.2 b).1]; exact hb)
      simp [this, hb]

/-- the import flux of an exchange in split variables: for `v = p - n`, `p, n ≥ 0`, the reverse (forward) variable
is at least the import `max 0 (-v)` (`max 0 v`) and the positive / negative parts attain it — so minimising the
sum of these variables minimises the total import -/
theorem import_is_split_variable (v p n : Rat) (hp : 0 ≤ p) (hn : 0 ≤ n) (hv : v = p - n) :
    max 0 (-v) ≤ n ∧ max 0 v ≤ p ∧
    (max v 0 - max (-v) 0 = v) := by
  subst hv
  refine ⟨max_le hn (by linarith), max_le hp (by linarith), ?_⟩
  rcases le_total 0 (p - n) with h | h
  · rw [max_eq_left h, max_eq_right (by linarith)]; ring
  · rw [max_eq_right h, max_eq_left (by linarith)]; ring

/-! ### non-vacuity -/
def demoEx : List (String × Ex) := [("EX_a", ⟨true, -10, 5⟩), ("EX_b", ⟨false, -3, 7⟩), ("EX_c", ⟨true, -1, 2⟩)]
example : getMedium demoEx = [("EX_a", 10), ("EX_b", 7), ("EX_c", 1)] := by decide +kernel
example : getMedium (setMedium demoEx [("EX_b", 4), ("EX_c", 0)]) = [("EX_b", 4)] := by decide +kernel

end C18

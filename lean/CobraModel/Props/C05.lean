import CobraModel.Lemmas.Formulations
import CobraModel.Lemmas.AuxProb
/-!
# C05 — flux variability analysis reports the true flux ranges

Over the net-flux problem `p` of a maximisation model (a minimisation model is the same with the objective
negated): `p.fvaRegion t` is the problem with the row "objective ≥ t", `t = fraction × optimum`
(cobrapy's `fva_old_objective` variable and constraint), `p.fvaStep t r sense` the LP `_fva_step` solves.
The total-flux cap of `pfba_factor` is the cap on `Σ (forward + reverse)`, shown equal to a cap on `Σ |v|`.
The numbers themselves come from GLPK; `harness/c05.py` compares every reported minimum / maximum with optima
certified by the proved checker on the same region.
-/
namespace C05
open LPM

/-- the region FVA works in is exactly: feasible flux vectors whose objective is at least `t` -/
theorem region_is_fraction_constraint (p : LP) (t : Rat) (x : List Rat) (hl : p.obj.length = p.n) :
    (p.fvaRegion t).feasible x = true ↔ p.feasible x = true ∧ t ≤ dot p.obj x :=
  fvaRegion_feasible p t x hl

/-- **ranges from certificates**: certified optima of the two step problems bound the `r`-th flux of every
vector of the region from below and above; hence `minimum ≤ maximum` -/
theorem ranges_are_true_extremes (p : LP) (t : Rat) (r : Nat) (xmax ymax xmin ymin : List Rat)
    (hmax : (p.fvaStep t r true).checkOpt xmax ymax = true)
    (hmin : (p.fvaStep t r false).checkOpt xmin ymin = true) :
    (∀ x, (p.fvaRegion t).feasible x = true → xmin.getD r 0 ≤ x.getD r 0 ∧ x.getD r 0 ≤ xmax.getD r 0) ∧
    xmin.getD r 0 ≤ xmax.getD r 0 ∧
    (p.fvaRegion t).feasible xmax = true ∧ (p.fvaRegion t).feasible xmin = true :=
  ⟨(fva_range p t r xmax ymax xmin ymin hmax hmin).1, (fva_range p t r xmax ymax xmin ymin hmax hmin).2,
   (LP.checkOpt_sound _ _ _ hmax).1, (LP.checkOpt_sound _ _ _ hmin).1⟩

/-- **every optimal FBA solution lies inside the ranges** for a fraction in `[0, 1]` and a non-negative optimum -/
theorem optimal_solution_inside (p : LP) (x y : List Rat) (f : Rat) (hopt : p.checkOpt x y = true)
    (hf0 : 0 ≤ f) (hf1 : f ≤ 1) (hv : 0 ≤ dot p.obj x) (r : Nat) (xmax ymax xmin ymin : List Rat)
    (hmax : (p.fvaStep (f * dot p.obj x) r true).checkOpt xmax ymax = true)
    (hmin : (p.fvaStep (f * dot p.obj x) r false).checkOpt xmin ymin = true) :
    xmin.getD r 0 ≤ x.getD r 0 ∧ x.getD r 0 ≤ xmax.getD r 0 :=
  (fva_range p _ r xmax ymax xmin ymin hmax hmin).1 x (optimum_in_fvaRegion p x y f hopt hf0 hf1 hv)

/-- a larger fraction of the optimum can only shrink the region (ranges are nested) -/
theorem region_monotone (p : LP) (t t' : Rat) (x : List Rat) (hl : p.obj.length = p.n) (htt : t ≤ t')
    (h : (p.fvaRegion t').feasible x = true) : (p.fvaRegion t).feasible x = true :=
  fvaRegion_mono p t t' x hl htt h

/-- the `pfba_factor` cap: bounding `Σ (forward + reverse)` over the split variables is bounding the total
absolute net flux `Σ |v|` -/
theorem total_flux_cap_is_abs (v : List Rat) (k : Rat) :
    (∃ p n, p.length = n.length ∧ allNonneg p ∧ allNonneg n ∧ subV p n = v ∧ sumV (addV p n) ≤ k) ↔ sumAbs v ≤ k :=
  total_flux_cap v k

/-! ### non-vacuity -/
def demo : LP := { n := 2, vb := [⟨some 0, some 4⟩, ⟨some 0, some 10⟩],
                   rows := [([1, -1], ⟨some 0, some 0⟩)], obj := [0, 1] }
example : demo.checkOpt [4, 4] [-1] = true := by decide +kernel
example : (demo.fvaStep 2 0 true).checkOpt [4, 4] [0, 0] = true := by decide +kernel
example : (demo.fvaStep 2 0 false).checkOpt [2, 2] [-1, -1] = true := by decide +kernel


/-! ### the whole problem `_fva_step` solves

`AuxM.Net.fvaStep n t cap i sense` is the complete solver problem at the moment `_fva_step` asks for a solve: the flux-balance problem, the
variable `fva_old_objective` (bounded by `t = fraction × optimum` on the side of the model's direction) tied to the objective by
`fva_old_objective_constraint`, with `pfba_factor` the variable `flux_sum` (at most `cap`) tied to `Σ (forward + reverse)`, objective
`forward_i − reverse_i`, direction `sense`.  Compared entry by entry with the raw GLPK problem of every step (`harness/auxcorr.py`). -/
open AuxM in
/-- **FVA, whole problem**: an optimum of the step problem for reaction `i` is a flux vector of the region (steady state, bounds, objective at
or beyond `t`, total flux at most the cap) whose `i`-th flux is the largest (sense max) / smallest (sense min) over the region; the value
the step reports is that flux -/
theorem fva_problem_optimum (n : Net) (hp : n.Proper) (t : Rat) (cap : Option Rat) (i : Nat) (mx : Bool) (x : V → Rat)
    (h : (n.fvaStep t cap i mx).IsOpt x) :
    n.Region t cap (netOf x) ∧ (n.fvaStep t cap i mx).value x = netOf x i ∧
    ∀ v, n.Region t cap v → if mx then v i ≤ netOf x i else netOf x i ≤ v i := fva_optimum n hp t cap i mx x h

open AuxM in
/-- … and every flux vector of the region is the projection of a feasible point of the step problem, with its `i`-th flux as value -/
theorem fva_problem_reaches_region (n : Net) (t : Rat) (cap : Option Rat) (i : Nat) (mx : Bool) (v : Nat → Rat) (hv : n.Region t cap v) :
    (n.fvaStep t cap i mx).Feasible (fvaPoint n v) ∧ netOf (fvaPoint n v) = v ∧ (n.fvaStep t cap i mx).value (fvaPoint n v) = v i :=
  fva_complete n t cap i mx v hv

/-- non-vacuity: the region of the demo model at threshold 1 contains `(1, 1)` -/
example : AuxM.demoNet.Region 1 none AuxM.demoV :=
  ⟨(AuxM.demoNet_feasible _).2 (by simp only [AuxM.demoV]; norm_num),
   by unfold AuxM.Net.threshold; rw [AuxM.demoNet_objVal]; simp [AuxM.demoV, AuxM.demoNet], by simp⟩

/-- **a range without an end has no true extreme**: when the step problem of reaction `r` has an unboundedness certificate (a vector of the
region and a direction along which the region never ends and the flux of `r` grows), every number is exceeded by the flux of `r` in some
vector of the region — whatever number FVA reported as the maximum would be false (`harness/c05.py` accepts a refusal to answer and rejects
a finite number at such an end; the certificate is checked by `LP.checkUnbdd`) -/
theorem unbounded_end_has_no_maximum (p : LP) (t : Rat) (r : Nat) (x z : List Rat)
    (h : (p.fvaStep t r true).checkUnbdd x z = true) (M : Rat) :
    ∃ v, (p.fvaRegion t).feasible v = true ∧ M < v.getD r 0 := by
  obtain ⟨v, hv, hM⟩ := LP.checkUnbdd_unbounded _ x z h M
  simp only [LP.fvaStep, if_true] at hv hM
  have len : v.length = p.n := by
    simp only [LP.feasible, Bool.and_eq_true, beq_iff_eq] at hv
    exact hv.1.1
  simp only [LP.withObj] at hv hM
  rw [dot_unit _ _ _ len] at hM
  exact ⟨v, hv, hM⟩

/-- the same at the lower end -/
theorem unbounded_end_has_no_minimum (p : LP) (t : Rat) (r : Nat) (x z : List Rat)
    (h : (p.fvaStep t r false).checkUnbdd x z = true) (M : Rat) :
    ∃ v, (p.fvaRegion t).feasible v = true ∧ v.getD r 0 < M := by
  obtain ⟨v, hv, hM⟩ := LP.checkUnbdd_unbounded _ x z h (-M)
  simp only [LP.fvaStep, Bool.false_eq_true, if_false] at hv hM
  have len : v.length = p.n := by
    simp only [LP.feasible, Bool.and_eq_true, beq_iff_eq] at hv
    exact hv.1.1
  simp only [LP.withObj, dot_negV] at hv hM
  rw [dot_unit _ _ _ len] at hM
  exact ⟨v, hv, by linarith⟩

end C05

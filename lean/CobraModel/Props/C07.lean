import CobraModel.Lemmas.Core
import CobraModel.Lemmas.GPR
/-!
# C07 — knock-outs disable exactly the reactions whose rule becomes false
-/
namespace C07
open Core GPRM

/-- **`Gene.knock_out`**: the gene reports non-functional; a reaction gets both bounds zero exactly when it is one
of the gene's reactions and its rule is false with the non-functional genes absent; every other reaction keeps
its bounds; `reaction.functional` afterwards is the rule evaluated with the non-functional genes absent -/
theorem gene_knock_out (y : Sys) (w : WF y.s) (g : Id) (hg : y.s.hasG g = true) :
    let y' := koGene y g
    y'.s.gf = upd y.s.gf g false ∧
    (∀ r, y.s.hasR r = true →
      (y'.s.lb r, y'.s.ub r) =
        if y.s.gr g r = true ∧ functional (markKO y.s g) r = false then (EB.zero, EB.zero) else (y.s.lb r, y.s.ub r)) ∧
    (∀ r, functional y'.s r = functional (markKO y.s g) r) := koGene_effect y w g hg

/-- a reaction that is not one of the gene's reactions — in particular one without a rule — is never touched -/
theorem unrelated_reaction_untouched (y : Sys) (w : WF y.s) (g : Id) (hg : y.s.hasG g = true) (r : Id)
    (hr : y.s.hasR r = true) (hn : y.s.gr g r = false) :
    (koGene y g).s.lb r = y.s.lb r ∧ (koGene y g).s.ub r = y.s.ub r := by
  have := (koGene_effect y w g hg).2.1 r hr
  simp only [hn, Bool.false_eq_true, false_and, if_false, Prod.mk.injEq] at this
  exact this

/-- `reaction.functional` is the rule evaluated with exactly the reaction's non-functional genes absent;
an empty rule is always functional -/
theorem functional_is_rule (s : St) (r : Id) :
    functional s r = evalGPR (fun g => s.rg r g && !s.gf g) (s.rule r) ∧
    (s.rule r = none → functional s r = true) := by
  refine ⟨rfl, fun h => ?_⟩
  simp [functional, h, evalGPR]

/-- **`Reaction.knock_out`** sets exactly its own bounds to zero -/
theorem reaction_knock_out (y : Sys) (r : Id) (hr : y.s.hasR r = true) :
    let y' := (apply y (.koRxn r)).1
    y'.s.lb r = EB.zero ∧ y'.s.ub r = EB.zero ∧ ∀ r', r' ≠ r → y'.s.lb r' = y.s.lb r' ∧ y'.s.ub r' = y.s.ub r' :=
  koRxn_effect y r hr

/-- knock-outs keep content and solver consistent and are undone by the enclosing context -/
theorem knock_outs_recorded (y : Sys) (g : Good y.s) (gs : List Id) (hall : ∀ x ∈ gs, y.s.hasG x = true) :
    Step y (koGenes gs y) := koGenes_step gs y g hall

/-- more knock-outs never switch a reaction back on (rule evaluation is monotone) -/
theorem more_knockouts_monotone (ko ko' : String → Bool) (h : ∀ s, ko s = true → ko' s = true) (g : G)
    (h' : eval ko' g = true) : eval ko g = true := eval_mono ko ko' h g h'


example : Core.WF demo ∧ demo.hasG "g1" = true := ⟨demo_good.wf, by decide⟩

end C07

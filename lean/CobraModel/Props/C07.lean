import CobraModel.Lemmas.Core
import CobraModel.Lemmas.GPR
import CobraModel.Lemmas.KnockOuts
/-!
# C07 — knock-outs disable exactly the reactions whose rule becomes false
-/
namespace C07
open Core GPRM

/-- **`Gene.knock_out`**: the gene reports non-functional; a reaction gets both bounds zero exactly when it is one
of the gene's reactions and its rule is false with the non-functional genes absent; every other reaction keeps
its bounds; `reaction.functional` afterwards is the rule evaluated with the non-functional genes absent -/
theorem gene_knock_out (y : Sys) (w : WF y.s) (g : Id) (hg : y.s.hasG g = true) :
    let y' := koGene y g
    y'.s.gf = upd y.s.gf g false ∧
    (∀ r, y.s.hasR r = true →
      (y'.s.lb r, y'.s.ub r) =
        if y.s.gr g r = true ∧ functional (markKO y.s g) r = false then (EB.zero, EB.zero) else (y.s.lb r, y.s.ub r)) ∧
    (∀ r, functional y'.s r = functional (markKO y.s g) r) := koGene_effect y w g hg

/-- a reaction that is not one of the gene's reactions — in particular one without a rule — is never touched -/
theorem unrelated_reaction_untouched (y : Sys) (w : WF y.s) (g : Id) (hg : y.s.hasG g = true) (r : Id)
    (hr : y.s.hasR r = true) (hn : y.s.gr g r = false) :
    (koGene y g).s.lb r = y.s.lb r ∧ (koGene y g).s.ub r = y.s.ub r := by
  have := (koGene_effect y w g hg).2.1 r hr
  simp only [hn, Bool.false_eq_true, false_and, if_false, Prod.mk.injEq] at this
  exact this

/-- `reaction.functional` is the rule evaluated with exactly the reaction's non-functional genes absent;
an empty rule is always functional -/
theorem functional_is_rule (s : St) (r : Id) :
    functional s r = evalGPR (fun g => s.rg r g && !s.gf g) (s.rule r) ∧
    (s.rule r = none → functional s r = true) := by
  refine ⟨rfl, fun h => ?_⟩
  simp [functional, h, evalGPR]

/-- **`Reaction.knock_out`** sets exactly its own bounds to zero -/
theorem reaction_knock_out (y : Sys) (r : Id) (hr : y.s.hasR r = true) :
    let y' := (apply y (.koRxn r)).1
    y'.s.lb r = EB.zero ∧ y'.s.ub r = EB.zero ∧ ∀ r', r' ≠ r → y'.s.lb r' = y.s.lb r' ∧ y'.s.ub r' = y.s.ub r' :=
  koRxn_effect y r hr

/-- knock-outs keep content and solver consistent and are undone by the enclosing context -/
theorem knock_outs_recorded (y : Sys) (g : Good y.s) (gs : List Id) (hall : ∀ x ∈ gs, y.s.hasG x = true) :
    Step y (koGenes gs y) := koGenes_step gs y g hall

/-- more knock-outs never switch a reaction back on (rule evaluation is monotone) -/
theorem more_knockouts_monotone (ko ko' : String → Bool) (h : ∀ s, ko s = true → ko' s = true) (g : G)
    (h' : eval ko' g = true) : eval ko g = true := eval_mono ko ko' h g h'

/-- **any set of genes, one at a time in any order** — the closed form: the knocked-out genes are non-functional; a reaction has both bounds zero
exactly when one of them is one of its genes and its rule is false with all non-functional genes absent; every other reaction keeps its bounds;
`reaction.functional` agrees with the rule -/
theorem knock_out_set (gs : List Id) (y : Sys) (gd : Good y.s) (hall : ∀ g ∈ gs, y.s.hasG g = true) :
    (koGenes gs y).s.gf = gfAfter y.s.gf gs ∧
    (∀ r, y.s.hasR r = true →
      ((koGenes gs y).s.lb r, (koGenes gs y).s.ub r) =
        if (∃ g ∈ gs, y.s.gr g r = true) ∧ functional (withGf y.s (gfAfter y.s.gf gs)) r = false then (EB.zero, EB.zero)
        else (y.s.lb r, y.s.ub r)) ∧
    (∀ r, functional (koGenes gs y).s r = functional (withGf y.s (gfAfter y.s.gf gs)) r) :=
  koGenes_closed_form gs y gd hall

/-- hence the order of the knock-outs does not matter: two orders of the same genes give the same gene states, bounds and `functional` -/
theorem knock_out_order_independent (gs gs' : List Id) (hp : gs.Perm gs') (y : Sys) (gd : Good y.s) (hall : ∀ g ∈ gs, y.s.hasG g = true) :
    (koGenes gs y).s.gf = (koGenes gs' y).s.gf ∧
    (∀ r, y.s.hasR r = true → (koGenes gs y).s.lb r = (koGenes gs' y).s.lb r ∧ (koGenes gs y).s.ub r = (koGenes gs' y).s.ub r) := by
  have hall' : ∀ g ∈ gs', y.s.hasG g = true := fun g hg => hall g (hp.symm.subset hg)
  obtain ⟨a1, a2, _⟩ := koGenes_closed_form gs y gd hall
  obtain ⟨b1, b2, _⟩ := koGenes_closed_form gs' y gd hall'
  have hgf : gfAfter y.s.gf gs = gfAfter y.s.gf gs' := by
    funext x
    simp only [gfAfter]
    have : gs.contains x = gs'.contains x := by
      cases h1 : gs.contains x <;> cases h2 : gs'.contains x <;> simp_all
      · exact absurd (hp.symm.subset h2) h1
      · exact absurd (hp.subset h1) h2
    rw [this]
  refine ⟨by rw [a1, b1, hgf], ?_⟩
  intro r hr
  have ha := a2 r hr
  have hb := b2 r hr
  have hex : (∃ g ∈ gs, y.s.gr g r = true) ↔ (∃ g ∈ gs', y.s.gr g r = true) :=
    ⟨fun ⟨g, hg, h⟩ => ⟨g, hp.subset hg, h⟩, fun ⟨g, hg, h⟩ => ⟨g, hp.symm.subset hg, h⟩⟩
  rw [hgf] at ha
  simp only [hex] at ha
  rw [← hb] at ha
  exact ⟨congrArg Prod.fst ha, congrArg Prod.snd ha⟩


example : Core.WF demo ∧ demo.hasG "g1" = true := ⟨demo_good.wf, by decide⟩

end C07

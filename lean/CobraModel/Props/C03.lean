import CobraModel.Lemmas.Core
/-!
# C03 — leaving a `with model:` block restores the model completely

`Core.Prog` = operations and nested blocks; `Core.run` implements Python's `with` (the `__exit__` of every
enclosing block runs also when the body raised); `Core.exit` = pop the context, then replay it newest first,
recording nothing (the repaired `Model.__exit__`). Restoration is *equality* of the whole state — content,
cross-references, solver problem, objective and direction — and of the context stack.
-/
namespace C03
open Core

/-- **any body, any nesting, any raise point**: the block returns exactly the system it was entered with,
and its `__exit__` does not raise -/
theorem with_block_restores (body : ProgL) (hok : body.ok) (y : Sys) (g : Good y.s) :
    (run (.block body) y).1 = y ∧ exit (runL body (enter y)).1 = (y, none) :=
  block_restores body hok y g

/-- what a single operation records undoes exactly that operation — also when it raised part-way -/
theorem op_well_recorded (y : Sys) (g : Good y.s) (c : List Undo) (cs : List (List Undo)) (hc : y.ctx = c :: cs)
    (op : Op) (hp : op.plain = true) (hok : OpOK op) :
    ∃ us, (apply y op).1.ctx = (us ++ c) :: cs ∧ replay (apply y op).1.s us = (y.s, none) := by
  have h := (apply_step y g op hp hok).2
  simp only [hc] at h
  exact h

/-- outside a context nothing is recorded -/
theorem nothing_recorded_outside (y : Sys) (g : Good y.s) (hc : y.ctx = []) (op : Op) (hp : op.plain = true)
    (hok : OpOK op) : (apply y op).1.ctx = [] := by
  have h := (apply_step y g op hp hok).2
  simp only [hc] at h
  exact h

/-- the invariant under which operations are well recorded survives every program -/
theorem good_after_program (body : ProgL) (hok : body.ok) (y : Sys) (g : Good y.s) : Good (runL body y).1.s :=
  (runL_step body hok y g).1


/-! ### non-vacuity -/
example : Good demo := demo_good
example : (run (.block demoBody) ⟨demo, []⟩).1 = ⟨demo, []⟩ := demo_block

end C03

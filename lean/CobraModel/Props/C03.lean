import CobraModel.Lemmas.Core
import CobraModel.Lemmas.Resettable
/-!
# C03 — leaving a `with model:` block restores the model completely

`Core.Prog` = operations and nested blocks; `Core.run` implements Python's `with` (the `__exit__` of every
enclosing block runs also when the body raised); `Core.exit` = pop the context, then replay it newest first,
recording nothing (the repaired `Model.__exit__`). Restoration is *equality* of the whole state — content,
cross-references, solver problem, objective and direction — and of the context stack.
-/
namespace C03
open Core

/-- **any body, any nesting, any raise point**: the block returns exactly the system it was entered with,
and its `__exit__` does not raise -/
theorem with_block_restores (body : ProgL) (hok : body.ok) (y : Sys) (g : Good y.s) :
    (run (.block body) y).1 = y ∧ exit (runL body (enter y)).1 = (y, none) :=
  block_restores body hok y g

/-- what a single operation records undoes exactly that operation — also when it raised part-way -/
theorem op_well_recorded (y : Sys) (g : Good y.s) (c : List Undo) (cs : List (List Undo)) (hc : y.ctx = c :: cs)
    (op : Op) (hp : op.plain = true) (hok : OpOK op) :
    ∃ us, (apply y op).1.ctx = (us ++ c) :: cs ∧ replay (apply y op).1.s us = (y.s, none) := by
  have h := (apply_step y g op hp hok).2
  simp only [hc] at h
  exact h

/-- outside a context nothing is recorded -/
theorem nothing_recorded_outside (y : Sys) (g : Good y.s) (hc : y.ctx = []) (op : Op) (hp : op.plain = true)
    (hok : OpOK op) : (apply y op).1.ctx = [] := by
  have h := (apply_step y g op hp hok).2
  simp only [hc] at h
  exact h

/-- the invariant under which operations are well recorded survives every program -/
theorem good_after_program (body : ProgL) (hok : body.ok) (y : Sys) (g : Good y.s) : Good (runL body y).1.s :=
  (runL_step body hok y g).1


/-! ### non-vacuity -/
example : Good demo := demo_good
example : (run (.block demoBody) ⟨demo, []⟩).1 = ⟨demo, []⟩ := demo_block

/-! ### bound setters that are refused after their own check (`ResetM`, Model/Resettable.lean)

The operations of `Core` either succeed or are rejected before they change anything. The bound setters have a third outcome: the value passes
the setter's check, is stored, and is then refused by the solver interface (NaN, a number left as a string). `ResetM` models the `resettable`
wrapper around such a setter; `harness/c03.py` (`resettable_stage`) runs the real setters through the same assignment sequences. -/

/-- **a refused assignment at the end of any sequence of accepted ones is undone**: leaving the context does not raise and the bound and its
solver variable are what they were at `__enter__` — because the undo is recorded before the setter is called -/
theorem refused_assignment_is_undone (q0 : Rat) (qs : List Rat) (last : Option ResetM.Val) :
    (ResetM.exit (ResetM.run ResetM.set (ResetM.init q0) (qs.map .num ++ last.toList))).2 = true ∧
    (ResetM.exit (ResetM.run ResetM.set (ResetM.init q0) (qs.map .num ++ last.toList))).1.field = .num q0 ∧
    (ResetM.exit (ResetM.run ResetM.set (ResetM.init q0) (qs.map .num ++ last.toList))).1.solver = q0 :=
  ResetM.accepted_then_refused_restores q0 qs last

-- non-vacuity: accepted 3, 7, then NaN refused; the block restores 5
example : (ResetM.exit (ResetM.run ResetM.set (ResetM.init 5) [.num 3, .num 7, .junk 0])).1.field = .num 5 := by decide +kernel
/-- the same wrapper recording the undo only after the setter returned loses the refused value's undo: the bound is not restored
(what the seeded change `C03_r6_resettable_records_after_setter` does) -/
theorem late_recording_does_not_restore :
    (ResetM.exit (ResetM.run ResetM.setLate (ResetM.init 5) [.junk 0])).1.field ≠ .num 5 := by decide +kernel
/-- the known finding `refused-bound-then-edit-same-reaction`, in the model of the code as it is: an assignment after a refused one records the
refused value as its undo; leaving the block then raises and the bound is not restored -/
theorem assignment_after_refused_one_breaks_exit :
    (ResetM.exit (ResetM.run ResetM.set (ResetM.init 5) [.junk 0, .num 1])).2 = false ∧
    (ResetM.exit (ResetM.run ResetM.set (ResetM.init 5) [.junk 0, .num 1])).1.field ≠ .num 5 := by decide +kernel

end C03

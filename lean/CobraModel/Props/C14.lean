import CobraModel.Model.Schedule
import CobraModel.Lemmas.AuxProb
/-!
# C14 — results do not depend on process count, scheduling or item order

`schedule_independent` : if every task leaves the worker's model in a state that is equivalent, for every later task, to the state the
initialiser left (`Stable` + `Const` on a set `S` of states), then for every number of workers, every chunking and assignment of chunks, every
completion order and every permutation of the requested items, the collected results are a permutation of `k ↦ (k, result of asking for k alone)`;
with distinct ids the stored value of each id is the stand-alone result (`lookup_eq_alone`).

`fva_task_stable`, `deletion_task_stable` : the two task shapes of the code satisfy the premise (set one objective coefficient, solve, set it back;
knock out inside `with model:`), for an arbitrary deterministic solver.

`carry_over_breaks` : without the premise the claim is false — a task that leaves its coefficient behind makes the result depend on what the same
worker ran before.

Sampling: `roundUp` returns at least `n`, a multiple of the process count, less than `n + p`; the chain seeds `seed + idx` are distinct.
-/
open Schedule

namespace C14

variable {σ κ ρ : Type}

/-- the tasks keep the worker inside `S` … -/
def Stable (t : κ → σ → ρ × σ) (S : σ → Prop) : Prop := ∀ k s, S s → S (t k s).2
/-- … and inside `S` the result of a task does not depend on the state -/
def Const (t : κ → σ → ρ × σ) (S : σ → Prop) : Prop := ∀ k s s', S s → S s' → (t k s).1 = (t k s').1

theorem runWorker_eq {t : κ → σ → ρ × σ} {S : σ → Prop} (hs : Stable t S) (hc : Const t S) {s0 : σ} (h0 : S s0) :
    ∀ (ks : List κ) (s : σ), S s → runWorker t ks s = ks.map (fun k => (k, alone t s0 k)) := by
  intro ks
  induction ks with
  | nil => intro s _; rfl
  | cons k ks ih =>
    intro s hS
    simp only [runWorker, List.map_cons]
    rw [ih _ (hs k s hS)]
    simp [alone, hc k s s0 hS h0]

/-- **C14.** Whatever the number of workers, the chunks, their assignment, the completion order (`out` is any permutation of what the workers
    produced) and the order of the requested items (`assignment` covers any permutation of `req`). -/
theorem schedule_independent {t : κ → σ → ρ × σ} {S : σ → Prop} (hs : Stable t S) (hc : Const t S) {s0 : σ} (h0 : S s0)
    (req : List κ) (assignment : List (List κ)) (hreq : assignment.flatten.Perm req)
    (out : List (κ × ρ)) (hout : out.Perm (poolOutputs t s0 assignment)) :
    out.Perm (req.map (fun k => (k, alone t s0 k))) := by
  have h1 : ∀ a : List (List κ), poolOutputs t s0 a = a.flatten.map (fun k => (k, alone t s0 k)) := by
    intro a
    unfold poolOutputs
    induction a with
    | nil => rfl
    | cons ks rest ih =>
      simp only [List.flatMap_cons, List.flatten_cons, List.map_append]
      rw [runWorker_eq hs hc h0 ks s0 h0, ih]
  rw [h1] at hout
  exact hout.trans (hreq.map _)

/-- one process, the items in the requested order, is one such schedule: the serial call gives the same results -/
theorem serial_is_a_schedule (t : κ → σ → ρ × σ) (s0 : σ) (req : List κ) :
    poolOutputs t s0 [req] = runWorker t req s0 := by
  simp [poolOutputs]

/-- with distinct ids, the value stored under each requested id is the stand-alone result -/
theorem lookup_eq_alone [DecidableEq κ] {t : κ → σ → ρ × σ} {S : σ → Prop} (hs : Stable t S) (hc : Const t S) {s0 : σ} (h0 : S s0)
    (req : List κ) (assignment : List (List κ)) (hreq : assignment.flatten.Perm req)
    (out : List (κ × ρ)) (hout : out.Perm (poolOutputs t s0 assignment)) (k : κ) (r : ρ) (hmem : (k, r) ∈ out) :
    r = alone t s0 k ∧ k ∈ req := by
  have hp := schedule_independent hs hc h0 req assignment hreq out hout
  have : (k, r) ∈ req.map (fun k => (k, alone t s0 k)) := hp.subset hmem
  simp only [List.mem_map] at this
  obtain ⟨k', hk', heq⟩ := this
  injection heq with h1 h2
  subst h1
  exact ⟨h2.symm, hk'⟩

theorem every_item_answered {t : κ → σ → ρ × σ} {S : σ → Prop} (hs : Stable t S) (hc : Const t S) {s0 : σ} (h0 : S s0)
    (req : List κ) (assignment : List (List κ)) (hreq : assignment.flatten.Perm req)
    (out : List (κ × ρ)) (hout : out.Perm (poolOutputs t s0 assignment)) (k : κ) (hk : k ∈ req) :
    (k, alone t s0 k) ∈ out := by
  have hp := schedule_independent hs hc h0 req assignment hreq out hout
  exact hp.symm.subset (List.mem_map.mpr ⟨k, hk, rfl⟩)

/-! ### the two task shapes of the code -/

def upd [DecidableEq κ] (c : κ → Int) (k : κ) (v : Int) : κ → Int := fun x => if x = k then v else c x

/-- `_fva_step`: set the coefficient of the reaction to 1, solve, set it back to 0 (the worker's objective is all zero after the initialiser) -/
def fvaTask [DecidableEq κ] (solve : (κ → Int) → ρ) (k : κ) (c : κ → Int) : ρ × (κ → Int) :=
  (solve (upd c k 1), upd (upd c k 1) k 0)

theorem fva_task_stable [DecidableEq κ] (solve : (κ → Int) → ρ) :
    Stable (fvaTask solve) (fun c => c = fun _ => 0) ∧ Const (fvaTask solve) (fun c => c = fun _ => 0) := by
  constructor
  · intro k c hc
    subst hc
    funext x
    simp only [fvaTask, upd]
    split <;> rfl
  · intro k c c' hc hc'
    subst hc; subst hc'; rfl

/-- deletions: the knock-out happens inside `with model:` (C01/C03: the context puts the bounds back), so the task returns the state it got -/
def deletionTask {β : Type} (solve : β → ρ) (ko : β → κ → β) (k : κ) (b : β) : ρ × β := (solve (ko b k), b)

theorem deletion_task_stable {β : Type} (solve : β → ρ) (ko : β → κ → β) (b0 : β) :
    Stable (deletionTask solve ko) (fun b => b = b0) ∧ Const (deletionTask solve ko) (fun b => b = b0) := by
  constructor
  · intro k b hb; exact hb
  · intro k b b' hb hb'; subst hb; subst hb'; rfl

/-- hence: FVA through any pool equals the stand-alone values -/
theorem fva_schedule_independent [DecidableEq κ] (solve : (κ → Int) → ρ) (req : List κ) (assignment : List (List κ))
    (hreq : assignment.flatten.Perm req) (out : List (κ × ρ)) (hout : out.Perm (poolOutputs (fvaTask solve) (fun _ => 0) assignment)) :
    out.Perm (req.map (fun k => (k, solve (upd (fun _ => 0) k 1)))) :=
  schedule_independent (fva_task_stable solve).1 (fva_task_stable solve).2 rfl req assignment hreq out hout

/-! ### the premise is needed -/

/-- a step that forgets to reset its coefficient -/
def leakyTask (k : Nat) (c : Nat → Int) : Int × (Nat → Int) :=
  ((List.range 4).foldl (fun acc x => acc + (if x = k then 1 else c x)) 0, fun x => if x = k then 1 else c x)

/-- the value of item 1 depends on whether the same worker ran item 0 before: two schedules, two answers -/
theorem carry_over_breaks :
    poolOutputs leakyTask (fun _ => 0) [[0, 1]] ≠ poolOutputs leakyTask (fun _ => 0) [[0], [1]] := by
  decide

/-! ### sampling: the number of samples and the chain seeds -/

theorem roundUp_ge (n p : Nat) (hp : 0 < p) : n ≤ roundUp n p := by
  unfold roundUp
  have h1 := Nat.div_add_mod (n + p - 1) p
  have h2 := Nat.mod_lt (n + p - 1) hp
  have : (n + p - 1) / p * p = p * ((n + p - 1) / p) := Nat.mul_comm _ _
  omega

theorem roundUp_dvd (n p : Nat) : p ∣ roundUp n p := ⟨(n + p - 1) / p, Nat.mul_comm _ _⟩

theorem roundUp_lt (n p : Nat) (hp : 0 < p) : roundUp n p < n + p := by
  unfold roundUp
  have h1 := Nat.div_add_mod (n + p - 1) p
  have : (n + p - 1) / p * p = p * ((n + p - 1) / p) := Nat.mul_comm _ _
  omega

theorem roundUp_of_dvd (n p : Nat) (hp : 0 < p) (h : p ∣ n) : roundUp n p = n := by
  obtain ⟨q, rfl⟩ := h
  unfold roundUp
  have : (p * q + p - 1) / p = q := by
    have : p * q + p - 1 = p - 1 + q * p := by
      have := Nat.mul_comm p q
      omega
    rw [this, Nat.add_mul_div_right _ _ hp]
    have : (p - 1) / p = 0 := Nat.div_eq_of_lt (by omega)
    omega
  rw [this, Nat.mul_comm]

/-- chain seeds `seed + idx` are pairwise distinct -/
theorem chain_seeds_distinct (seed p : Nat) : ((List.range p).map (seed + ·)).Nodup := by
  induction p with
  | zero => simp
  | succ n ih =>
    rw [List.range_succ, List.map_append, List.nodup_append]
    refine ⟨ih, by simp, ?_⟩
    intro a ha b hb
    simp only [List.mem_map, List.mem_range] at ha
    simp only [List.map_cons, List.map_nil, List.mem_singleton] at hb
    obtain ⟨i, hi, rfl⟩ := ha
    omega

example : roundUp 10 4 = 12 := by decide
example : roundUp 12 4 = 12 := by decide

/-! ### the problem of an item does not depend on the schedule

The problem a worker hands to the solver for an item is recorded *inside the worker processes* for every explored schedule (process counts, chunkings,
item permutations, seeded delays) and compared entry by entry with the Lean builder of that item's problem — `AuxM.Net.fvaStep` for an FVA step,
`AuxM.Net.reactionDeletion` / `geneDeletion` for a deletion — which is a function of the model content and the item alone (`harness/c14.py`,
`problems_vs_builders`).  What the schedule could still influence is which optimum the solver lands on, not its value: -/
open AuxM in
/-- **the reported value of an item is determined by its problem**: two optima of the same problem — found by different workers, after different
histories, in different runs — have the same objective value -/
theorem item_value_is_schedule_free (p : Prob) (x x' : V → Rat) (h : p.IsOpt x) (h' : p.IsOpt x') : p.value x = p.value x' :=
  isOpt_value_unique p x x' h h'

open AuxM in
/-- for FVA: whichever worker solves the step of reaction `i`, the flux it reports is the extreme of `v_i` over the region -/
theorem fva_item_value_is_the_extreme (n : Net) (hp : n.Proper) (t : Rat) (cap : Option Rat) (i : Nat) (mx : Bool) (x x' : V → Rat)
    (h : (n.fvaStep t cap i mx).IsOpt x) (h' : (n.fvaStep t cap i mx).IsOpt x') : netOf x i = netOf x' i := by
  have := isOpt_value_unique _ x x' h h'
  rw [(fva_optimum n hp t cap i mx x h).2.1, (fva_optimum n hp t cap i mx x' h').2.1] at this
  exact this

end C14

import CobraModel.Model.Summary
import Mathlib.Tactic.Linarith
import Mathlib.Tactic.Ring
import Mathlib.Tactic.FieldSimp
import Mathlib.Algebra.Order.Field.Rat
import Mathlib.Algebra.BigOperators.Group.List.Basic
/-!
# C20 — summaries report the fluxes of the solution they describe
-/
namespace C20
open SummaryM

/-- **every row lands in exactly one of the two tables** (the coefficient of a metabolite in its reaction is non-zero) -/
theorem exactly_one_table (o : Out) (hf : o.factor ≠ 0) : isProduced o = !isConsumed o := by
  unfold isProduced isConsumed
  rcases lt_trichotomy o.flux 0 with h | h | h
  · have h1 : ¬ 0 < o.flux := not_lt.2 (le_of_lt h)
    have h2 : ¬ o.flux = 0 := ne_of_lt h
    simp [h, h1, h2]
  · rcases lt_trichotomy o.factor 0 with g | g | g
    · have : ¬ 0 < o.factor := not_lt.2 (le_of_lt g)
      simp [h, g, this]
    · exact absurd g hf
    · have : ¬ o.factor < 0 := not_lt.2 (le_of_lt g)
      simp [h, g, this]
  · have h1 : ¬ o.flux < 0 := not_lt.2 (le_of_lt h)
    have h2 : ¬ o.flux = 0 := ne_of_gt h
    simp [h, h1, h2]

/-- the listed flux is the solution flux times the coefficient (or zero below the tolerance) -/
theorem flux_is_scaled (tol : Rat) (r : Row) :
    (scale tol r).flux = r.flux * r.factor ∨ ((scale tol r).flux = 0 ∧ absR (r.flux * r.factor) < tol) := by
  unfold scale zeroSmall
  by_cases h : absR (r.flux * r.factor) < tol
  · right; simp [h]
  · left; simp [h]

/-- with a zero tolerance the producing and consuming fluxes of a metabolite add up to `Σ factor × flux`, which is
zero at steady state: **producing and consuming totals balance** -/
theorem sum_scaled (rows : List Row) :
    ((rows.map (scale 0)).map (·.flux)).sum = (rows.map (fun r => r.flux * r.factor)).sum := by
  induction rows with
  | nil => simp
  | cons r rs ih =>
    simp only [List.map_cons, List.sum_cons, ih]
    congr 1
    unfold scale zeroSmall absR
    split <;> split <;> simp_all <;> linarith

/-- a scaled FVA range stays ordered: the swap for negative factors restores `minimum ≤ maximum` -/
theorem range_ordered (tol : Rat) (r : Row) (lo hi : Rat) (hr : r.range = some (lo, hi))
    (hle : zeroSmall tol lo ≤ zeroSmall tol hi) :
    ∃ a b, (scale tol r).range = some (a, b) ∧ a ≤ b := by
  unfold scale
  simp only [hr, Option.map_some]
  by_cases hf : r.factor < 0
  · exact ⟨zeroSmall tol hi * r.factor, zeroSmall tol lo * r.factor, by simp [hf], by nlinarith⟩
  · have : 0 ≤ r.factor := not_lt.1 hf
    exact ⟨zeroSmall tol lo * r.factor, zeroSmall tol hi * r.factor, by simp [hf], by nlinarith⟩

theorem absR_nonneg (x : Rat) : 0 ≤ absR x := by
  unfold absR; split <;> linarith

/-- **percentages on a side sum to one** whenever that side carries flux -/
theorem percents_sum_one (l : List Out) (h : total l ≠ 0) : (percents l).sum = 1 := by
  unfold percents
  have : ∀ (m : List Out) (t : Rat), (m.map (fun o => absR o.flux / t)).sum = (m.map (fun o => absR o.flux)).sum / t := by
    intro m t
    induction m with
    | nil => simp
    | cons o os ih => simp only [List.map_cons, List.sum_cons, ih]; ring
  rw [this l (total l)]
  exact div_self h

/-- zeroing is monotone, so a range given as `minimum ≤ maximum` stays ordered after the tolerance cut -/
theorem zeroSmall_mono (tol a b : Rat) (ht : 0 ≤ tol) (h : a ≤ b) : zeroSmall tol a ≤ zeroSmall tol b := by
  unfold zeroSmall absR
  split <;> split <;> split <;> split <;> simp_all <;> linarith

def demoRows : List Row := [⟨"r1", -1, 2, some (1, 3)⟩, ⟨"r2", 2, 1, none⟩, ⟨"r3", 1, 0, none⟩]
example : (producing 0 demoRows).map (·.rxn) = ["r2", "r3"] ∧ (consuming 0 demoRows).map (·.rxn) = ["r1"] := by decide +kernel
example : ((scale 0 ⟨"r1", -1, 2, some (1, 3)⟩).range) = some (-3, -1) := by decide +kernel

end C20

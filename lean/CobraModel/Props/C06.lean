import CobraModel.Lemmas.Core
import Mathlib.Data.List.Dedup
import Mathlib.Data.List.ProdSigma
import Mathlib.Data.String.Basic
/-!
# C06 — deletion analyses report the optimum of each knocked-out model

Decision logic of `_multi_deletion`: the set of unordered combinations, one task per combination run inside a
`with model:` block (knock-outs, optimise, leave), the result rows, the essential-entity filter.
That a row's growth *is* the optimum of the knocked-out model is the solver's part: `harness/c06.py` compares every row
with the optimum of an independently knocked-out copy certified by the proved LP checker (C04's checker).
-/
namespace C06
open Core

/-- an unordered combination of two identifiers: `frozenset((a, b))` -/
def canon (a b : String) : List String := if a = b then [a] else if a < b then [a, b] else [b, a]

/-- `{frozenset(comb) for comb in product(l1, l2)}` -/
def combos (l1 l2 : List String) : List (List String) :=
  ((l1.product l2).map (fun p => canon p.1 p.2)).dedup

/-- **exactly one row per distinct unordered combination**: no combination twice, every requested pair present,
nothing else -/
theorem one_row_per_combination (l1 l2 : List String) :
    (combos l1 l2).Nodup ∧
    (∀ a ∈ l1, ∀ b ∈ l2, canon a b ∈ combos l1 l2) ∧
    (∀ c ∈ combos l1 l2, ∃ a ∈ l1, ∃ b ∈ l2, c = canon a b) := by
  refine ⟨List.nodup_dedup _, ?_, ?_⟩
  · intro a ha b hb
    simp only [combos, List.mem_dedup, List.mem_map]
    exact ⟨(a, b), List.pair_mem_product.2 ⟨ha, hb⟩, rfl⟩
  · intro c hc
    simp only [combos, List.mem_dedup, List.mem_map] at hc
    obtain ⟨⟨a, b⟩, hp, rfl⟩ := hc
    obtain ⟨ha, hb⟩ := List.pair_mem_product.1 hp
    exact ⟨a, ha, b, hb, rfl⟩

/-- the order inside a pair does not matter, and a repeat between the two lists collapses to a single deletion -/
theorem canon_unordered (a b : String) : canon a b = canon b a ∧ canon a a = [a] := by
  constructor
  · unfold canon
    by_cases h : a = b
    · subst h; rfl
    · have h' : ¬ b = a := fun e => h e.symm
      simp only [h, h', if_false]
      rcases lt_trichotomy a b with hl | he | hg
      · have : ¬ b < a := not_lt.2 (le_of_lt hl)
        simp [hl, this]
      · exact absurd he h
      · have : ¬ a < b := not_lt.2 (le_of_lt hg)
        simp [hg, this]
  · simp [canon]

/-- **a deletion task leaves the model as it found it**: the knock-outs happen inside a `with model:` block -/
theorem gene_task_restores (gs : List Id) (y : Sys) (g : Good y.s) :
    (run (.block (.cons (.op (.koGenes gs)) .nil)) y).1 = y :=
  (block_restores _ (by simp [ProgL.ok, Prog.ok, Op.plain, OpOK]) y g).1

theorem reaction_task_restores (r1 r2 : Id) (y : Sys) (g : Good y.s) :
    (run (.block (.cons (.op (.koRxn r1)) (.cons (.op (.koRxn r2)) .nil))) y).1 = y :=
  (block_restores _ (by simp [ProgL.ok, Prog.ok, Op.plain, OpOK]) y g).1

/-- growth of a deletion: `none` = not-a-number -/
abbrev Growth := Option Rat

/-- `deletions.loc[deletions.growth.isna() | (deletions.growth < threshold)]` -/
def essential (rows : List (String × Growth)) (threshold : Rat) : List String :=
  (rows.filter (fun r => match r.2 with | none => true | some g => decide (g < threshold))).map (·.1)

/-- **essential = growth not-a-number or below the threshold** -/
theorem essential_iff (rows : List (String × Growth)) (threshold : Rat) (e : String) :
    e ∈ essential rows threshold ↔ ∃ g, (e, g) ∈ rows ∧ (g = none ∨ ∃ v, g = some v ∧ v < threshold) := by
  simp only [essential, List.mem_map, List.mem_filter]
  constructor
  · rintro ⟨⟨e', g⟩, ⟨hm, hc⟩, rfl⟩
    refine ⟨g, hm, ?_⟩
    cases g with
    | none => exact Or.inl rfl
    | some v => exact Or.inr ⟨v, rfl, by simpa using hc⟩
  · rintro ⟨g, hm, hg⟩
    refine ⟨(e, g), ⟨hm, ?_⟩, rfl⟩
    rcases hg with rfl | ⟨v, rfl, hv⟩
    · rfl
    · simpa using hv

example : canon "b" "a" = ["a", "b"] ∧ canon "a" "a" = ["a"] := by decide

end C06

import CobraModel.Lemmas.Core
import CobraModel.Lemmas.AuxProb
import Mathlib.Data.List.Dedup
import Mathlib.Data.List.ProdSigma
import Mathlib.Data.String.Basic
/-!
# C06 — deletion analyses report the optimum of each knocked-out model

Decision logic of `_multi_deletion`: the set of unordered combinations, one task per combination run inside a
`with model:` block (knock-outs, optimise, leave), the result rows, the essential-entity filter.
That a row's growth *is* the optimum of the knocked-out model is the solver's part: `harness/c06.py` compares every row
with the optimum of an independently knocked-out copy certified by the proved LP checker (C04's checker).
-/
namespace C06
open Core

/-- an unordered combination of two identifiers: `frozenset((a, b))` -/
def canon (a b : String) : List String := if a = b then [a] else if a < b then [a, b] else [b, a]

/-- `{frozenset(comb) for comb in product(l1, l2)}` -/
def combos (l1 l2 : List String) : List (List String) :=
  ((l1.product l2).map (fun p => canon p.1 p.2)).dedup

/-- **exactly one row per distinct unordered combination**: no combination twice, every requested pair present,
nothing else -/
theorem one_row_per_combination (l1 l2 : List String) :
    (combos l1 l2).Nodup ∧
    (∀ a ∈ l1, ∀ b ∈ l2, canon a b ∈ combos l1 l2) ∧
    (∀ c ∈ combos l1 l2, ∃ a ∈ l1, ∃ b ∈ l2, c = canon a b) := by
  refine ⟨List.nodup_dedup _, ?_, ?_⟩
  · intro a ha b hb
    simp only [combos, List.mem_dedup, List.mem_map]
    exact ⟨(a, b), List.pair_mem_product.2 ⟨ha, hb⟩, rfl⟩
  · intro c hc
    simp only [combos, List.mem_dedup, List.mem_map] at hc
    obtain ⟨⟨a, b⟩, hp, rfl⟩ := hc
    obtain ⟨ha, hb⟩ := List.pair_mem_product.1 hp
    exact ⟨a, ha, b, hb, rfl⟩

/-- the order inside a pair does not matter, and a repeat between the two lists collapses to a single deletion -/
theorem canon_unordered (a b : String) : canon a b = canon b a ∧ canon a a = [a] := by
  constructor
  · unfold canon
    by_cases h : a = b
    · subst h; rfl
    · have h' : ¬ b = a := fun e => h e.symm
      simp only [h, h', if_false]
      rcases lt_trichotomy a b with hl | he | hg
      · have : ¬ b < a := not_lt.2 (le_of_lt hl)
        simp [hl, this]
      · exact absurd he h
      · have : ¬ a < b := not_lt.2 (le_of_lt hg)
        simp [hg, this]
  · simp [canon]

/-- **a deletion task leaves the model as it found it**: the knock-outs happen inside a `with model:` block -/
theorem gene_task_restores (gs : List Id) (y : Sys) (g : Good y.s) :
    (run (.block (.cons (.op (.koGenes gs)) .nil)) y).1 = y :=
  (block_restores _ (by simp [ProgL.ok, Prog.ok, Op.plain, OpOK]) y g).1

theorem reaction_task_restores (r1 r2 : Id) (y : Sys) (g : Good y.s) :
    (run (.block (.cons (.op (.koRxn r1)) (.cons (.op (.koRxn r2)) .nil))) y).1 = y :=
  (block_restores _ (by simp [ProgL.ok, Prog.ok, Op.plain, OpOK]) y g).1

/-- growth of a deletion: `none` = not-a-number -/
abbrev Growth := Option Rat

/-- `deletions.loc[deletions.growth.isna() | (deletions.growth < threshold)]` -/
def essential (rows : List (String × Growth)) (threshold : Rat) : List String :=
  (rows.filter (fun r => match r.2 with | none => true | some g => decide (g < threshold))).map (·.1)

/-- **essential = growth not-a-number or below the threshold** -/
theorem essential_iff (rows : List (String × Growth)) (threshold : Rat) (e : String) :
    e ∈ essential rows threshold ↔ ∃ g, (e, g) ∈ rows ∧ (g = none ∨ ∃ v, g = some v ∧ v < threshold) := by
  simp only [essential, List.mem_map, List.mem_filter]
  constructor
  · rintro ⟨⟨e', g⟩, ⟨hm, hc⟩, rfl⟩
    refine ⟨g, hm, ?_⟩
    cases g with
    | none => exact Or.inl rfl
    | some v => exact Or.inr ⟨v, rfl, by simpa using hc⟩
  · rintro ⟨g, hm, hg⟩
    refine ⟨(e, g), ⟨hm, ?_⟩, rfl⟩
    rcases hg with rfl | ⟨v, rfl, hv⟩
    · rfl
    · simpa using hv

example : canon "b" "a" = ["a", "b"] ∧ canon "a" "a" = ["a"] := by decide

/-! ### the problem a deletion solves

`AuxM.Net.reactionDeletion n ks` / `AuxM.Net.geneDeletion n rules ko` (lean/CobraModel/Model/AuxProb.lean): the flux-balance problem of the content
with the deleted reactions — for genes: the reactions whose rule evaluates to false without the genes (`GPRM.eval`, C07 / C08) — closed.  Compared
entry by entry with the raw GLPK problem of every single deletion (`harness/auxcorr.py`); linear MOMA deletions with `AuxM.Net.moma` of the same
closed content (C09's `moma_problem_optimum` applies). -/
open AuxM in
/-- **a deletion row is the optimum of the knocked-out model**: any optimum of the problem a deletion solves is, on net fluxes, feasible with
zero flux through the deleted reactions, and optimal for the objective among all steady-state flux vectors that are zero there and inside the
bounds elsewhere -/
theorem deletion_row_is_optimum (n : Net) (hp : n.Proper) (ks : List Nat) (x : V → Rat) (h : (n.reactionDeletion ks).IsOpt x) :
    (n.close ks).Feasible (netOf x) ∧ (∀ i ∈ n.idx, ks.contains i = true → netOf x i = 0) ∧
    ∀ v, (n.close ks).Feasible v → if n.dirMax then n.objVal v ≤ n.objVal (netOf x) else n.objVal (netOf x) ≤ n.objVal v :=
  deletion_optimum n hp ks x h

open AuxM in
/-- what "knocked-out model" means on flux vectors -/
theorem knocked_out_flux_vectors (n : Net) (ks : List Nat) (v : Nat → Rat) :
    (n.close ks).Feasible v ↔
      (∀ i ∈ n.idx, if ks.contains i then v i = 0 else Core.inBox ((n.rx i).lb, (n.rx i).ub) (v i)) ∧
      (∀ m ∈ n.mets, (n.idx.map (fun i => coefOf (n.rx i).st m * v i)).sum = 0) := close_feasible_iff n ks v

open AuxM in
/-- a gene deletion closes exactly the reactions whose rule is false without the genes -/
theorem gene_deletion_is_reaction_deletion (n : Net) (rules : List (Option GPRM.G)) (ko : List String) :
    n.geneDeletion rules ko = n.reactionDeletion (closedBy rules ko) := rfl

example : AuxM.closedBy [some (.name "a"), none, some (.and (.cons (.name "a") (.cons (.name "b") .nil)))] ["b"] = [2] := by decide

end C06

import CobraModel.Model.SbmlId
/-!
# C10 — SBML identifier escaping and bound parameters round-trip

`id_roundtrip`      : for every kind and every identifier inside the decidable `SafeId`, `_f_kind (_f_kind_rev s) = s`.
`unsafe_*`          : `SafeId` is not decoration — the identifiers outside it that the implementation loses (known finding).
`bound_roundtrip`   : whatever the configured default bounds are (equal to each other, to zero, infinite), the parameter a bound is written
                      as reads back as the same value.
-/
open SbmlId

namespace C10

/-! ### helper lemmas -/

theorem isDigit_not_underscore {c : Char} (h : c.isDigit) : c ≠ '_' := by
  intro e; subst e; simp [Char.isDigit] at h

theorem takeDigits_append (D r : Str) (hD : ∀ c ∈ D, c.isDigit) (hr : ∀ c r', r = c :: r' → c.isDigit = false) :
    takeDigits (D ++ r) = (D, r) := by
  induction D with
  | nil =>
    cases r with
    | nil => simp [takeDigits]
    | cons c r' => simp [takeDigits, hr c r' rfl]
  | cons d D ih =>
    have hd : d.isDigit = true := hD d (by simp)
    have := ih (fun c hc => hD c (by simp [hc]))
    simp [takeDigits, hd, this]

theorem digits_all (n : Nat) : ∀ c ∈ Nat.toDigits 10 n, c.isDigit :=
  fun _ hc => Nat.isDigit_of_mem_toDigits (by decide) (by decide) hc

@[simp] theorem tokenOf_nil (r : Str) : tokenOf ([], r) = none := by
  simp [tokenOf]

theorem tryToken_uu (t : Str) : tryToken ('_' :: '_' :: t) = tokenOf (takeDigits t) := by
  simp [tryToken]

/-- the token `esc` writes for a character is recognised, and nothing more is consumed -/
theorem tryToken_escaped (c : Char) (rest : Str) :
    tryToken ('_' :: '_' :: (Nat.toDigits 10 c.toNat ++ ['_', '_'] ++ rest)) = some (c.toNat, rest) := by
  have hne : Nat.toDigits 10 c.toNat ≠ [] := Nat.toDigits_ne_nil
  have htd : takeDigits (Nat.toDigits 10 c.toNat ++ ('_' :: '_' :: rest)) = (Nat.toDigits 10 c.toNat, '_' :: '_' :: rest) :=
    takeDigits_append _ _ (digits_all _) (by intro c r' h; injection h with h1 _; subst h1; decide)
  have happ : Nat.toDigits 10 c.toNat ++ ['_', '_'] ++ rest = Nat.toDigits 10 c.toNat ++ ('_' :: '_' :: rest) := by simp
  rw [happ, tryToken_uu, htd]
  cases hD : Nat.toDigits 10 c.toNat with
  | nil => exact absurd hD hne
  | cons d ds =>
    have hv : Nat.ofDigitChars 10 (d :: ds) 0 = c.toNat := by rw [← hD]; exact Nat.ofDigitChars_ten_toDigits
    simp [tokenOf, hv]

/-- what `esc s` can start with -/
theorem esc_head (s : Str) :
    esc s = [] ∨ (∃ c s', s = c :: s' ∧ plain c = true ∧ esc s = c :: esc s') ∨
    (∃ t, esc s = '_' :: '_' :: t ∧ ∃ d t', t = d :: t' ∧ d.isDigit = true) := by
  cases s with
  | nil => left; rfl
  | cons c s' =>
    by_cases hp : plain c = true
    · right; left; exact ⟨c, s', rfl, hp, by simp [esc, escChar, hp]⟩
    · right; right
      refine ⟨Nat.toDigits 10 c.toNat ++ ['_', '_'] ++ esc s', by simp [esc, escChar, hp], ?_⟩
      cases hD : Nat.toDigits 10 c.toNat with
      | nil => exact absurd hD Nat.toDigits_ne_nil
      | cons d ds =>
        refine ⟨d, ds ++ ['_', '_'] ++ esc s', by simp, ?_⟩
        exact digits_all c.toNat d (by simp [hD])

/-- a plain character in front of escaped text never starts a token, unless the identifier itself contains `__<digit>` -/
theorem tryToken_plain (c : Char) (s : Str) (hc : plain c = true) (hs : noUUd (c :: s) = true) :
    tryToken (c :: esc s) = none := by
  by_cases hcu : c = '_'
  · subst hcu
    rcases esc_head s with h | ⟨c2, s2, rfl, hp2, h2⟩ | ⟨t, ht, d, t', rfl, _⟩
    · rw [h]; rfl
    · rw [h2]
      by_cases h2u : c2 = '_'
      · subst h2u
        -- '_' '_' then esc s2: a token needs a digit next
        rcases esc_head s2 with h3 | ⟨c3, s3, rfl, hp3, h3⟩ | ⟨t3, ht3, _⟩
        · rw [h3]; simp [tryToken, takeDigits]
        · rw [h3]
          have hnd : c3.isDigit = false := by
            simp [noUUd] at hs
            cases hd : c3.isDigit with
            | false => rfl
            | true => exact absurd hd (by simpa using hs.1)
          simp [tryToken, takeDigits, hnd]
        · rw [ht3]; simp [tryToken, takeDigits]
      · unfold tryToken
        split
        · rename_i heq; injection heq with _ h; injection h with h _; exact absurd h h2u
        · rfl
    · rw [ht]; simp [tryToken, takeDigits]
  · unfold tryToken
    split
    · rename_i heq; injection heq with h _; exact absurd h hcu
    · rfl

theorem noUUd_tail {c : Char} {s : Str} (h : noUUd (c :: s) = true) : noUUd s = true := by
  cases s with
  | nil => rfl
  | cons b s =>
    cases s with
    | nil => rfl
    | cons d s => simp [noUUd] at h; exact h.2

/-- **The escaping is inverted by the un-escaping** on every identifier without `__<digit>`. -/
theorem unesc_esc (s : Str) (h : noUUd s = true) : unesc (esc s) = some s := by
  induction s with
  | nil => simp [esc, unesc]
  | cons c s ih =>
    have ih' := ih (noUUd_tail h)
    by_cases hp : plain c = true
    · have he : esc (c :: s) = c :: esc s := by simp [esc, escChar, hp]
      rw [he, unesc]
      have := tryToken_plain c s hp h
      split
      · rename_i heq; rw [this] at heq; cases heq
      · simp [ih']
    · have he : esc (c :: s) = '_' :: '_' :: (Nat.toDigits 10 c.toNat ++ ['_', '_'] ++ esc s) := by simp [esc, escChar, hp]
      rw [he, unesc]
      have ht := tryToken_escaped c (esc s)
      split
      · rename_i n r heq
        rw [ht] at heq
        injection heq with heq; injection heq with hn hr
        subst hn; subst hr
        have hv : c.toNat.isValidChar := c.valid
        simp [hv, ih', Char.ofNat_toNat]
      · rename_i heq; rw [ht] at heq; cases heq

theorem esc_append (a b : Str) : esc (a ++ b) = esc a ++ esc b := by
  induction a with
  | nil => rfl
  | cons c a ih => simp [esc, ih]

theorem esc_plain (p : Str) (hp : ∀ c ∈ p, plain c = true) : esc p = p := by
  induction p with
  | nil => rfl
  | cons c p ih => simp [esc, escChar, hp c (by simp), ih (fun c hc => hp c (by simp [hc]))]

theorem prefix_plain (k : Kind) : ∀ c ∈ k.prefix, plain c = true := by
  cases k <;> simp [Kind.prefix] <;> decide

theorem clip_prefix (p s : Str) : clip p (p ++ s) = s := by
  simp [clip]

/-- escaped text contains no `.` -/
theorem esc_no_dot (s : Str) : '.' ∉ esc s := by
  induction s with
  | nil => simp [esc]
  | cons c s ih =>
    simp only [esc, List.mem_append, not_or]
    refine ⟨?_, ih⟩
    unfold escChar
    split
    · rename_i hp
      simp
      intro e; subst e; revert hp; decide
    · simp
      intro hmem
      have := digits_all c.toNat '.' hmem
      revert this; decide

theorem dotToSbml_id (s : Str) (h : '.' ∉ s) : dotToSbml s = s := by
  induction s with
  | nil => rfl
  | cons c s ih =>
    simp at h
    have hc : ¬ c = '.' := fun e => h.1 e.symm
    simp [dotToSbml, hc, ih h.2]

theorem replDot_id (s : Str) (h : dotFree s = true) : replDot s = s := by
  induction s with
  | nil => simp [replDot]
  | cons c s ih =>
    simp [dotFree] at h
    rw [replDot]
    simp [h.1, ih h.2]

/-! ### the property -/

/-- **C10, identifiers.** For every kind and every identifier in `SafeId`, reading what was written gives the identifier back. -/
theorem id_roundtrip (k : Kind) (s : Str) (h : SafeId k s = true) : f k (fRev k s) = some s := by
  simp only [SafeId, Bool.and_eq_true, Bool.or_eq_true] at h
  obtain ⟨hU, hD⟩ := h
  have key : unesc (k.prefix ++ esc s) = some (k.prefix ++ s) := by
    have : k.prefix ++ esc s = esc (k.prefix ++ s) := by rw [esc_append, esc_plain _ (prefix_plain k)]
    rw [this]; exact unesc_esc _ hU
  cases k with
  | gene =>
    have hD' : dotFree (Kind.gene.prefix ++ esc s) = true := by simpa using hD
    simp only [f, fRev]
    rw [dotToSbml_id _ (esc_no_dot s), replDot_id _ hD', key]
    simp [clip_prefix]
  | specie => simp only [f, fRev]; rw [key]; simp [clip_prefix]
  | reaction => simp only [f, fRev]; rw [key]; simp [clip_prefix]
  | group => simp only [f, fRev]; rw [key]; simp [clip_prefix]

/-- identifiers made of letters, digits, single underscores and any other characters are safe: a sufficient condition that is easy to read -/
theorem safe_of_no_double_underscore (k : Kind) (s : Str) (hk : k ≠ .gene)
    (h : noUUd (k.prefix ++ s) = true) : SafeId k s = true := by
  cases k <;> simp_all [SafeId]

/-- escaped text is made of the identifier's own plain characters, underscores and digits -/
theorem esc_chars (s : Str) (c : Char) (h : c ∈ esc s) : c ∈ s ∨ c = '_' ∨ c.isDigit = true := by
  induction s with
  | nil => simp [esc] at h
  | cons a s ih =>
    simp only [esc, List.mem_append] at h
    rcases h with h | h
    · unfold escChar at h
      split at h
      · simp at h; exact Or.inl (by simp [h])
      · simp only [List.mem_cons, List.mem_append, List.mem_nil_iff, or_false] at h
        rcases h with h | h | h | h | h
        · exact Or.inr (Or.inl h)
        · exact Or.inr (Or.inl h)
        · exact Or.inr (Or.inr (digits_all a.toNat c h))
        · exact Or.inr (Or.inl h)
        · exact Or.inr (Or.inl h)
    · rcases ih h with h' | h'
      · exact Or.inl (List.mem_cons_of_mem _ h')
      · exact Or.inr h'

/-- text without a capital `S` contains no `__SBML_DOT__` -/
theorem dotFree_of_no_S (t : Str) (h : 'S' ∉ t) : dotFree t = true := by
  induction t with
  | nil => rfl
  | cons c rest ih =>
    have hrest : 'S' ∉ rest := fun hm => h (List.mem_cons_of_mem _ hm)
    simp only [dotFree, Bool.and_eq_true, Bool.not_eq_true']
    refine ⟨?_, ih hrest⟩
    cases hp : sbmlDot.isPrefixOf (c :: rest) with
    | false => rfl
    | true =>
      exfalso
      have hpre : sbmlDot <+: (c :: rest) := List.isPrefixOf_iff_prefix.mp hp
      exact h (hpre.subset (by decide))

/-- a readable sufficient condition for gene identifiers: no `__<digit>` once the prefix is attached, and no capital `S` anywhere -/
theorem safe_gene_of_no_S (s : Str) (hU : noUUd (Kind.gene.prefix ++ s) = true) (hS : 'S' ∉ s) : SafeId .gene s = true := by
  simp only [SafeId, Bool.and_eq_true, Bool.or_eq_true]
  refine ⟨hU, Or.inr (dotFree_of_no_S _ ?_)⟩
  intro hm
  simp only [Kind.prefix, List.cons_append, List.nil_append, List.mem_cons] at hm
  rcases hm with hm | hm | hm
  · exact absurd hm (by decide)
  · exact absurd hm (by decide)
  · rcases esc_chars s 'S' hm with h | h | h
    · exact hS h
    · exact absurd h (by decide)
    · exact absurd h (by decide)

/-! ### non-vacuity and the complement -/

example : SafeId .reaction "EX_glc(e)".toList = true := by decide
example : SafeId .gene "G-2.1".toList = true := by decide
example : f .reaction (fRev .reaction "EX_glc(e)".toList) = some "EX_glc(e)".toList := id_roundtrip _ _ (by decide)

/-- outside `SafeId` the round trip fails: these are the identifiers of the recorded known finding -/
theorem unsafe_underscore_digit : f .reaction (fRev .reaction "_5__x".toList) ≠ some "_5__x".toList := by decide +kernel
theorem unsafe_embedded_code : f .specie (fRev .specie "a__46__b".toList) = some "a.b".toList := by decide +kernel
theorem unsafe_gene_dot : f .gene (fRev .gene "a__SBML_DOT__b".toList) = some "a.b".toList := by decide +kernel
theorem unsafe_code_out_of_range : f .specie (fRev .specie "x__9999999__y".toList) = none := by decide +kernel

/-! ### bound parameters -/

/-- **C10, bounds.** Whatever the configured defaults, a bound is written as a parameter whose value is that bound. -/
theorem bound_roundtrip {α} [DecidableEq α] (zero : α) (cfg : Cfg α) (v : Val α) :
    paramValue zero cfg (createBound zero cfg v) = v := by
  unfold createBound
  split
  · rename_i h; simp [paramValue, h]
  · split
    · rename_i h; simp [paramValue, h]
    · split
      · rename_i h; simp [paramValue, h]
      · split
        · rename_i h; simp [paramValue, h]
        · split
          · rename_i h; simp [paramValue, h]
          · simp [paramValue]

/-- both bounds of a reaction, read together (the reader assigns them in one step) -/
theorem bounds_roundtrip {α} [DecidableEq α] (zero : α) (cfg : Cfg α) (lb ub : Val α) :
    (paramValue zero cfg (createBound zero cfg lb), paramValue zero cfg (createBound zero cfg ub)) = (lb, ub) := by
  simp [bound_roundtrip]

example : createBound (0 : Int) ⟨.fin 0, .fin 0⟩ (.fin 0) = .defaultLb := by decide   -- coinciding defaults
example : createBound (0 : Int) ⟨.fin (-1000), .fin 1000⟩ (.fin 2000) = .own (.fin 2000) := by decide

end C10

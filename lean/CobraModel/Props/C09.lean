import CobraModel.Lemmas.Formulations
import CobraModel.Lemmas.AuxProb
/-!
# C09 — pFBA, linear MOMA and ROOM solve their documented secondary problems

What cobrapy adds to the flux-balance problem, and what it means for the net fluxes:
* `add_pfba`: objective `Σ (forward + reverse)` → total absolute flux `Σ |v|`;
* `add_absolute_expression` (linear MOMA): a variable `d` with the two rows `d ≥ e - ref`, `d ≥ -(e - ref)` → `d ≥ |e - ref|`, and
  minimising `Σ d` gives `Σ |v - ref|`;
* `add_room`: for `y = 0` the two rows confine the flux to the band `[w_l, w_u]`, for `y = 1` they are the flux bounds.
The optimal values themselves are compared with optima certified by the proved checker (`harness/c09.py`).
-/
namespace C09
open LPM

/-- **pFBA**: over all splits `v = p - n` with `p, n ≥ 0`, `Σ (p + n)` is at least `Σ |v|` and the positive/negative
parts attain it — so minimising the forward+reverse sum minimises the total absolute flux, and the optimal value
is that total -/
theorem pfba_objective_is_total_flux (v : List Rat) :
    (∀ p n, p.length = n.length → allNonneg p → allNonneg n → subV p n = v → sumAbs v ≤ sumV (addV p n)) ∧
    (∃ p n, p.length = n.length ∧ allNonneg p ∧ allNonneg n ∧ subV p n = v ∧ sumV (addV p n) = sumAbs v) := by
  constructor
  · intro p n hl hp hn hv
    have := sumAbs_le_split p n hl hp hn
    rwa [hv] at this
  · obtain ⟨h1, h2, h3, h4, h5⟩ := split_attains v
    exact ⟨_, _, h3, h1, h2, h4, h5⟩

/-- **linear MOMA**, one reaction: the two rows of `add_absolute_expression` say exactly `d ≥ |e - ref|` -/
theorem moma_rows_are_abs (d e ref : Rat) : (e - d ≤ ref ∧ ref ≤ e + d) ↔ |e - ref| ≤ d := by
  rw [abs_le]; constructor
  · rintro ⟨h1, h2⟩; constructor <;> linarith
  · rintro ⟨h1, h2⟩; constructor <;> linarith

/-- hence the smallest admissible `d` is the distance itself: minimising `Σ d` minimises `Σ |v - ref|` -/
theorem moma_min_is_distance (e ref : Rat) :
    (e - |e - ref| ≤ ref ∧ ref ≤ e + |e - ref|) ∧ ∀ d, (e - d ≤ ref ∧ ref ≤ e + d) → |e - ref| ≤ d :=
  ⟨(moma_rows_are_abs _ e ref).2 (le_refl _), fun d h => (moma_rows_are_abs d e ref).1 h⟩

/-- **ROOM**, one reaction with finite bounds `lb ≤ w_l`, `w_u ≤ ub`: with `y = 0` the rows confine the flux to
the band, with `y = 1` they are the flux bounds; so `Σ y` counts the fluxes allowed to leave the band -/
theorem room_rows (v lb ub wl wu : Rat) :
    ((v - 0 * (ub - wu) ≤ wu ∧ wl ≤ v - 0 * (lb - wl)) ↔ (wl ≤ v ∧ v ≤ wu)) ∧
    ((v - 1 * (ub - wu) ≤ wu ∧ wl ≤ v - 1 * (lb - wl)) ↔ (lb ≤ v ∧ v ≤ ub)) := by
  constructor <;> constructor <;> rintro ⟨h1, h2⟩ <;> constructor <;> linarith

/-- linear ROOM (`0 ≤ y ≤ 1`, band of width zero around `ref`, `lb ≤ ref ≤ ub`): the rows say the flux lies between
`ref + y (lb - ref)` and `ref + y (ub - ref)`, i.e. `y` is at least the relative excursion from the reference -/
theorem room_linear_rows (v y lb ub ref : Rat) :
    (v - y * (ub - ref) ≤ ref ∧ ref ≤ v - y * (lb - ref)) ↔ (ref + y * (lb - ref) ≤ v ∧ v ≤ ref + y * (ub - ref)) := by
  constructor <;> rintro ⟨h1, h2⟩ <;> constructor <;> linarith

/-! ### non-vacuity -/
example : sumAbs [3, -2, 0] = 5 := by decide +kernel
example : subV (posPart [3, -2, 0]) (negPart [3, -2, 0]) = [3, -2, 0] := by decide +kernel


/-! ### the whole problems, as cobrapy hands them to the solver

`AuxM.Net.pfba`, `AuxM.Net.moma`, `AuxM.Net.room` (lean/CobraModel/Model/AuxProb.lean) are the complete solver problems after `add_pfba`,
`add_moma(linear=True)`, `add_room` — every variable, row, bound, coefficient, the objective and the direction; `harness/auxcorr.py`
compares them entry by entry with the raw GLPK problem at the moment cobrapy asks for a solve.  The theorems are about *any* optimum
of these problems (GLPK's answer is one, up to its tolerance), for every model, objective, reference and threshold. -/
open AuxM in
/-- **pFBA, whole problem**: at any optimum, the net fluxes are at steady state and in bounds, keep the objective at or beyond `t`
(`t = fraction × optimum`, the bound of the row `fix_objective_as_constraint` adds), their total absolute flux is the smallest among all
such flux vectors, and the optimal value is that total -/
theorem pfba_problem_optimum (n : Net) (hp : n.Proper) (name : String) (t : Rat) (x : V → Rat) (h : (n.pfba name t).IsOpt x) :
    n.Feasible (netOf x) ∧ n.threshold t (netOf x) ∧ (n.pfba name t).value x = n.sumAbs (netOf x) ∧
    ∀ v, n.Feasible v → n.threshold t v → n.sumAbs (netOf x) ≤ n.sumAbs v := pfba_optimum n hp name t x h

open AuxM in
/-- … and the problem loses no flux vector: each feasible one that keeps the objective is the projection of a feasible point whose
objective value is its total absolute flux -/
theorem pfba_problem_reaches_every_flux_vector (n : Net) (name : String) (t : Rat) (v : Nat → Rat) (hv : n.Feasible v) (ht : n.threshold t v) :
    (n.pfba name t).Feasible (splitOf v) ∧ netOf (splitOf v) = v ∧ (n.pfba name t).value (splitOf v) = n.sumAbs v :=
  pfba_complete n name t v hv ht

open AuxM in
/-- **linear MOMA, whole problem**: at any optimum the net fluxes are feasible for the model handed in (knock-outs are bounds of that model),
their summed absolute distance to the reference is minimal, and the optimal value is that distance -/
theorem moma_problem_optimum (n : Net) (hp : n.Proper) (ref : List Rat) (x : V → Rat) (h : (n.moma ref).IsOpt x) :
    n.Feasible (netOf x) ∧ (n.moma ref).value x = n.dist ref (netOf x) ∧ ∀ v, n.Feasible v → n.dist ref (netOf x) ≤ n.dist ref v :=
  moma_optimum n hp ref x h

open AuxM in
/-- **ROOM, whole problem** (binary `y`, finite bounds): at any optimum the net fluxes are feasible, keep the old objective at most its
value in the reference, leave their tolerance bands `[w − δ|w| − ε, w + δ|w| + ε]` in the smallest possible number of reactions, and the
optimal value is that number -/
theorem room_problem_optimum (n : Net) (hp : n.Proper) (hfin : n.Finite) (ref : List Rat) (old tol delta eps : Rat) (x : V → Rat)
    (h : (n.room ref old tol false delta eps).IsOpt x) :
    n.Feasible (netOf x) ∧ n.objVal (netOf x) ≤ old ∧
    (n.room ref old tol false delta eps).value x = n.changed ref tol delta eps (netOf x) ∧
    ∀ v, n.Feasible v → n.objVal v ≤ old → n.changed ref tol delta eps (netOf x) ≤ n.changed ref tol delta eps v :=
  room_optimum n hp hfin ref old tol delta eps x h

open AuxM in
/-- **linear ROOM is the relaxation** of the problem with `delta = epsilon = 0`: same rows and boxes, integrality of `y` dropped -/
theorem room_linear_problem_is_relaxation (n : Net) (ref : List Rat) (old tol delta eps : Rat) (x : V → Rat) :
    (n.room ref old tol true delta eps).Feasible x ↔
      FbaPart n x ∧ x .oldObj ≤ old ∧ x .oldObj = n.objVal (netOf x) ∧ ∀ i ∈ n.idx, RoomRows n ref tol 0 0 x i :=
  room_linear_is_relaxation n ref old tol delta eps x

/-- non-vacuity: a concrete model and a concrete optimum meet the hypotheses of `pfba_problem_optimum` (total flux 2) -/
example : AuxM.demoNet.sumAbs (AuxM.netOf (AuxM.splitOf AuxM.demoV)) ≤ AuxM.demoNet.sumAbs AuxM.demoV :=
  (pfba_problem_optimum AuxM.demoNet AuxM.demoNet_proper _ 1 _ AuxM.demo_pfba_isOpt).2.2.2 AuxM.demoV
    ((AuxM.demoNet_feasible _).2 (by simp only [AuxM.demoV]; norm_num))
    (by unfold AuxM.Net.threshold; rw [AuxM.demoNet_objVal]; simp [AuxM.demoV, AuxM.demoNet])

end C09

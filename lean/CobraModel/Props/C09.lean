import CobraModel.Lemmas.Formulations
/-!
# C09 — pFBA, linear MOMA and ROOM solve their documented secondary problems

What cobrapy adds to the flux-balance problem, and what it means for the net fluxes:
* `add_pfba`: objective `Σ (forward + reverse)` → total absolute flux `Σ |v|`;
* `add_absolute_expression` (linear MOMA): a variable `d` with the two rows `d ≥ e - ref`, `d ≥ -(e - ref)` → `d ≥ |e - ref|`, and
  minimising `Σ d` gives `Σ |v - ref|`;
* `add_room`: for `y = 0` the two rows confine the flux to the band `[w_l, w_u]`, for `y = 1` they are the flux bounds.
The optimal values themselves are compared with optima certified by the proved checker (`harness/c09.py`).
-/
namespace C09
open LPM

/-- **pFBA**: over all splits `v = p - n` with `p, n ≥ 0`, `Σ (p + n)` is at least `Σ |v|` and the positive/negative
parts attain it — so minimising the forward+reverse sum minimises the total absolute flux, and the optimal value
is that total -/
theorem pfba_objective_is_total_flux (v : List Rat) :
    (∀ p n, p.length = n.length → allNonneg p → allNonneg n → subV p n = v → sumAbs v ≤ sumV (addV p n)) ∧
    (∃ p n, p.length = n.length ∧ allNonneg p ∧ allNonneg n ∧ subV p n = v ∧ sumV (addV p n) = sumAbs v) := by
  constructor
  · intro p n hl hp hn hv
    have := sumAbs_le_split p n hl hp hn
    rwa [hv] at this
  · obtain ⟨h1, h2, h3, h4, h5⟩ := split_attains v
    exact ⟨_, _, h3, h1, h2, h4, h5⟩

/-- **linear MOMA**, one reaction: the two rows of `add_absolute_expression` say exactly `d ≥ |e - ref|` -/
theorem moma_rows_are_abs (d e ref : Rat) : (e - d ≤ ref ∧ ref ≤ e + d) ↔ |e - ref| ≤ d := by
  rw [abs_le]; constructor
  · rintro ⟨h1, h2⟩; constructor <;> linarith
  · rintro ⟨h1, h2⟩; constructor <;> linarith

/-- hence the smallest admissible `d` is the distance itself: minimising `Σ d` minimises `Σ |v - ref|` -/
theorem moma_min_is_distance (e ref : Rat) :
    (e - |e - ref| ≤ ref ∧ ref ≤ e + |e - ref|) ∧ ∀ d, (e - d ≤ ref ∧ ref ≤ e + d) → |e - ref| ≤ d :=
  ⟨(moma_rows_are_abs _ e ref).2 (le_refl _), fun d h => (moma_rows_are_abs d e ref).1 h⟩

/-- **ROOM**, one reaction with finite bounds `lb ≤ w_l`, `w_u ≤ ub`: with `y = 0` the rows confine the flux to
the band, with `y = 1` they are the flux bounds; so `Σ y` counts the fluxes allowed to leave the band -/
theorem room_rows (v lb ub wl wu : Rat) :
    ((v - 0 * (ub - wu) ≤ wu ∧ wl ≤ v - 0 * (lb - wl)) ↔ (wl ≤ v ∧ v ≤ wu)) ∧
    ((v - 1 * (ub - wu) ≤ wu ∧ wl ≤ v - 1 * (lb - wl)) ↔ (lb ≤ v ∧ v ≤ ub)) := by
  constructor <;> constructor <;> rintro ⟨h1, h2⟩ <;> constructor <;> linarith

/-- linear ROOM (`0 ≤ y ≤ 1`, band of width zero around `ref`, `lb ≤ ref ≤ ub`): the rows say the flux lies between
`ref + y (lb - ref)` and `ref + y (ub - ref)`, i.e. `y` is at least the relative excursion from the reference -/
theorem room_linear_rows (v y lb ub ref : Rat) :
    (v - y * (ub - ref) ≤ ref ∧ ref ≤ v - y * (lb - ref)) ↔ (ref + y * (lb - ref) ≤ v ∧ v ≤ ref + y * (ub - ref)) := by
  constructor <;> rintro ⟨h1, h2⟩ <;> constructor <;> linarith

/-! ### non-vacuity -/
example : sumAbs [3, -2, 0] = 5 := by decide +kernel
example : subV (posPart [3, -2, 0]) (negPart [3, -2, 0]) = [3, -2, 0] := by decide +kernel

end C09

import CobraModel.Lemmas.GPR
/-!
# C08 — a gene rule is a Boolean function and its text form is faithful

Property theorems only. The model (`CobraModel/Model/GPR.lean`) follows `cobra.core.gene.GPR` and
`cobra.manipulation.delete._GeneRemover`; the escape tables are regenerated from the source on every run
(`Gen/GprTables.lean`). `harness/c08.py` diffs `GPRM.fromString` / `remove` against the real code
(tree, gene set, text, full truth table) and runs the direct oracles.
-/
namespace C08
open GPRM

/-- a rule is the and/or value of its expression: `and` = all operands, `or` = any operand,
a gene is true iff it is not knocked out -/
theorem eval_is_boolean (ko : String → Bool) (s : String) (g : G) (t : GL) :
    eval ko (.name s) = !ko s ∧
    eval ko (.and (.cons g t)) = (eval ko g && eval ko (.and t)) ∧
    eval ko (.or (.cons g t)) = (eval ko g || eval ko (.or t)) ∧
    eval ko (.and .nil) = true ∧ eval ko (.or .nil) = false := by
  simp [eval, evalAll, evalAny]

/-- the value depends on exactly the genes occurring in the rule -/
theorem eval_depends_on_genes (ko ko' : String → Bool) (g : G) (h : ∀ s ∈ genes g, ko s = ko' s) :
    eval ko g = eval ko' g := eval_congr ko ko' g h

/-- knocking out more genes never switches a rule on -/
theorem eval_monotone (ko ko' : String → Bool) (h : ∀ s, ko s = true → ko' s = true) (g : G)
    (h' : eval ko' g = true) : eval ko g = true := eval_mono ko ko' h g h'

/-- with no gene absent every well-formed rule is true -/
theorem eval_no_knockout (g : G) (hw : G.wf g = true) : eval (fun _ => false) g = true := eval_none g hw

/-- **text round trip (token level)**: the parser applied to the tokens of `to_string()` returns the
same tree, for every well-formed tree — any nesting, any arity -/
theorem print_parse_roundtrip (g : G) (hw : G.wf g = true) : parseToks (toks0 g) = some g :=
  parse_toks0 g hw

/-- **gene removal**: if the remover returns a rule, it is equivalent to the old rule with the removed
genes absent — for every further knock-out set -/
theorem remover_equivalent (ks ko : String → Bool) (g g' : G) (hw : G.wf g = true)
    (h : remove ks g = some g') : eval ko g' = eval (both ko ks) g :=
  (remove_spec ks ko g hw).1 g' h

/-- the remover drops a rule only when it can no longer be satisfied -/
theorem remover_none_false (ks ko : String → Bool) (g : G) (hw : G.wf g = true)
    (h : remove ks g = none) : eval (both ko ks) g = false :=
  (remove_spec ks ko g hw).2 h

/-- a reaction that can still be catalysed keeps a rule -/
theorem remover_keeps_alive (ks : String → Bool) (g : G) (hw : G.wf g = true)
    (h : eval ks g = true) : ∃ g', remove ks g = some g' := by
  cases hr : remove ks g with
  | some g' => exact ⟨g', rfl⟩
  | none =>
    have := remover_none_false ks (fun _ => false) g hw hr
    have hb : both (fun _ => false) ks = ks := by funext s; simp [both]
    rw [hb, h] at this; cases this

/-- renaming genes commutes with evaluation -/
theorem rename_eval (f : String → String) (ko : String → Bool) (g : G) :
    eval ko (rename f g) = eval (fun s => ko (f s)) g := eval_rename f ko g

/-! ### sanity of the escape tables generated from the source -/

/-- every replaced character is a single character, the characters are pairwise distinct, so are the
escape markers, and no marker contains a replaced character (a replacement cannot cascade) -/
theorem replacements_sane :
    (Gen.replacements.all (fun p => p.1.length == 1)) = true ∧
    (Gen.replacements.map (·.1)).Nodup ∧ (Gen.replacements.map (·.2)).Nodup ∧
    (Gen.replacements.all (fun p => Gen.replacements.all (fun q => !(containsSub q.1.toList p.2.toList)))) = true := by
  decide

/-- no escape marker is a substring of another one (undoing one replacement cannot eat part of another) -/
theorem markers_do_not_overlap :
    (Gen.replacements.all (fun p => Gen.replacements.all (fun q =>
      p.1 == q.1 || !(containsSub p.2.toList q.2.toList)))) = true := by
  decide

/-- `and` / `or` are not escaped as keywords; `True`, `False`, `None`, `if`, `in`, `is`, `not`, `lambda` are -/
theorem keywords_sane :
    Gen.keywords.contains "and" = false ∧ Gen.keywords.contains "or" = false ∧
    (["True", "False", "None", "if", "in", "is", "not", "lambda", "for", "else"].all Gen.keywords.contains) = true := by
  decide

/-! ### non-vacuity -/
def demo : G := .or (.cons (.and (.cons (.name "a.1") (.cons (.name "b") .nil))) (.cons (.name "2c") .nil))

example : G.wf demo = true := by decide
example : toStr (some demo) = "(a.1 and b) or 2c" := by decide
example : parseToks (toks0 demo) = some demo := print_parse_roundtrip demo (by decide)
example : (remove (fun s => s == "a.1") demo).map sexp = some "n:2c" := by decide
example : eval (fun s => s == "2c") demo = true ∧ eval (fun s => s == "2c" || s == "b") demo = false := by decide

end C08

import CobraModel.Lemmas.LP
import CobraModel.Model.Reply
import CobraModel.Lemmas.AuxProb
/-!
# C04 — FBA returns a true optimum, or a true verdict that none exists

GLPK is external. What is proved here is (1) the **certificate checker** that decides, for every generated
instance, what the true verdict and the true optimum of the model's flux-balance problem are — whatever
(untrusted) solver produced the certificate — and (2) the decision logic by which cobrapy turns a solver
status into a value, the caller's error value, or an exception (table regenerated from the source).
`harness/c04.py` compares cobrapy's answers (status, objective value, fluxes, shadow prices, reduced costs,
error value / exception class, snapshot behaviour) with the certified truth.
-/
namespace C04
open LPM ReplyM

/-- **optimality certificate**: if the check accepts `(x, y)` then `x` is feasible and no feasible point has a
larger objective — `x` is a true optimum -/
theorem optimal_certificate_sound (p : LP) (x y : List Rat) (h : p.checkOpt x y = true) :
    p.feasible x = true ∧ ∀ x', p.feasible x' = true → dot p.obj x' ≤ dot p.obj x :=
  LP.checkOpt_sound p x y h

/-- the optimal value is unique: two accepted certificates give the same objective value -/
theorem optimal_value_unique (p : LP) (x y x' y' : List Rat) (h : p.checkOpt x y = true) (h' : p.checkOpt x' y' = true) :
    dot p.obj x = dot p.obj x' := by
  have a := LP.checkOpt_sound p x y h
  have b := LP.checkOpt_sound p x' y' h'
  exact le_antisymm (b.2 x a.1) (a.2 x' b.1)

/-- **infeasibility certificate** (Farkas): if the check accepts `y`, no point is feasible -/
theorem infeasible_certificate_sound (p : LP) (y : List Rat) (h : p.checkInfeas y = true) :
    ∀ x, p.feasible x = false := LP.checkInfeas_sound p y h

/-- **unboundedness certificate**: a feasible point and an improving recession direction; no value bounds the
objective -/
theorem unbounded_certificate_sound (p : LP) (x z : List Rat) (h : p.checkUnbdd x z = true) (M : Rat) :
    ∃ x', p.feasible x' = true ∧ M < dot p.obj x' := LP.checkUnbdd_unbounded p x z h M

/-- the three verdicts exclude each other -/
theorem verdicts_exclusive (p : LP) (x y yi xu zu : List Rat) :
    ¬ (p.checkOpt x y = true ∧ p.checkInfeas yi = true) ∧
    ¬ (p.checkOpt x y = true ∧ p.checkUnbdd xu zu = true) ∧
    ¬ (p.checkInfeas yi = true ∧ p.checkUnbdd xu zu = true) := by
  refine ⟨?_, ?_, ?_⟩
  · rintro ⟨h1, h2⟩
    have a := (LP.checkOpt_sound p x y h1).1
    rw [LP.checkInfeas_sound p yi h2 x] at a; cases a
  · rintro ⟨h1, h2⟩
    obtain ⟨x', hf, hlt⟩ := LP.checkUnbdd_unbounded p xu zu h2 (dot p.obj x)
    have := (LP.checkOpt_sound p x y h1).2 x' hf
    exact absurd hlt (not_lt.2 this)
  · rintro ⟨h1, h2⟩
    have a := (LP.checkUnbdd_sound p xu zu h2).1
    rw [LP.checkInfeas_sound p yi h1 xu] at a; cases a

/-- `slim_optimize` never returns an objective value unless the status is optimal: it returns the caller's
error value, or raises the exception class the status maps to -/
theorem slim_optimize_not_optimal (status : String) (v : Rat) (hasErr : Bool) (h : (status == "optimal") = false) :
    slimOptimize status v hasErr = (if hasErr then .errValue else .raises (excFor status)) := by
  simp [slimOptimize, h]

/-- the generated status table: infeasible ↦ Infeasible, unbounded ↦ Unbounded, anything unlisted ↦ OptimizationError;
every listed class derives from OptimizationError -/
theorem status_table_sane :
    excFor "infeasible" = "Infeasible" ∧ excFor "unbounded" = "Unbounded" ∧ excFor "no_such_status" = "OptimizationError" ∧
    (Gen.statusExceptions.all (fun p => (Gen.exceptionBases.find? (fun q => q.1 == p.2)).any (fun q => q.2.contains "OptimizationError"))) = true ∧
    Gen.statusExceptions.any (fun p => p.1 == "optimal") = false := by
  decide

/-- `check_solver_status`: `optimal` passes, `None` raises, and with `raise_error` every other status raises -/
theorem check_solver_status_spec (s : String) :
    checkSolverStatus (some "optimal") true = none ∧ checkSolverStatus none false = some "OptimizationError" ∧
    ((s == "optimal") = false → checkSolverStatus (some s) true = some "OptimizationError") := by
  refine ⟨by decide, by decide, fun h => ?_⟩
  simp [checkSolverStatus, h]

/-- **no status without primal values passes silently**: whatever `raise_error` is, a status that is neither `optimal` nor in the generated
`has_primals` list makes `check_solver_status` raise — so `_fva_step`, `Reaction.flux`, `Metabolite.shadow_price` and `get_solution` never read
numbers out of an unbounded or undefined problem.  The function itself is compared with `checkSolverStatus` on every status constant of
optlang, `None` and an unknown status, with both values of the flag (`harness/c04.py`, exhaustive) -/
theorem check_solver_status_no_silent_pass (s : String) (r : Bool) (h1 : (s == "optimal") = false)
    (h2 : Gen.hasPrimals.contains s = false) : checkSolverStatus (some s) r = some "OptimizationError" := by
  simp only [checkSolverStatus, h1, h2, Bool.false_and, Bool.false_eq_true, if_false]

theorem unbounded_status_always_raises (r : Bool) : checkSolverStatus (some "unbounded") r = some "OptimizationError" := by
  cases r <;> decide

/-! ### non-vacuity: concrete certificates the checker accepts -/
def demoLP : LP := { n := 2, vb := [⟨some 0, some 4⟩, ⟨some 0, none⟩],
                     rows := [([1, 1], ⟨none, some 6⟩), ([1, -1], ⟨some (-2), none⟩)], obj := [1, 2] }
example : demoLP.checkOpt [2, 4] [3/2, -1/2] = true := by decide +kernel
def demoInfeasible : LP :=
  { n := 2, vb := [⟨some 0, some 4⟩, ⟨some 0, none⟩],
    rows := [([1, 1], ⟨some 7, some 7⟩), ([0, 1], ⟨none, some 2⟩)], obj := [1, 2] }
example : demoInfeasible.checkInfeas [-1, 1] = true := by decide +kernel
def demoUnbounded : LP :=
  { n := 2, vb := [⟨some 0, some 4⟩, ⟨some 0, none⟩],
    rows := [([1, -1], ⟨none, some 3⟩)], obj := [1, 2] }
example : demoUnbounded.checkUnbdd [0, 0] [0, 1] = true := by decide +kernel


/-! ### FBA on the whole solver problem -/
open AuxM in
/-- **FBA**: any optimum of the solver problem of a model (`AuxM.Net.fba`, compared with the raw GLPK problem on every run) is, on net fluxes,
an optimum of the objective over all steady-state, in-bounds flux vectors, in the model's direction, and the optimal value is the objective
on those net fluxes -/
theorem fba_problem_optimum (n : Net) (hp : n.Proper) (x : V → Rat) (h : n.fba.IsOpt x) :
    n.Feasible (netOf x) ∧ n.fba.value x = n.objVal (netOf x) ∧
    ∀ v, n.Feasible v → if n.dirMax then n.objVal v ≤ n.objVal (netOf x) else n.objVal (netOf x) ≤ n.objVal v :=
  fba_optimum n hp x h

open AuxM in
/-- **reduced costs are `c − Sᵀy`**: under any row multipliers `y` (the shadow prices cobrapy reports, by metabolite), the reduced cost of the forward
variable of reaction `i` in the solver problem — which is what cobrapy reports as the reaction's reduced cost — equals the objective coefficient
minus the stoichiometric column times `y`; the reverse variable's is its negative (reporting `dual(forward) − dual(reverse)` gave twice the value) -/
theorem reduced_cost_is_c_minus_STy (n : Net) (y : String → Rat) (i : Nat) (hi : i ∈ n.idx) :
    n.fba.rc y (.fwd i) = n.objCoef i - (n.mets.map (fun m => y m * coefOf (n.rx i).st m)).sum ∧
    n.fba.rc y (.rev i) = -(n.objCoef i - (n.mets.map (fun m => y m * coefOf (n.rx i).st m)).sum) := fba_reduced_cost n y i hi

example : AuxM.demoNet.fba.rc (fun _ => 2) (.fwd 1) = 3 := by
  rw [(reduced_cost_is_c_minus_STy AuxM.demoNet (fun _ => 2) 1 (by decide)).1]; decide +kernel

/-! ### certificates on the problems the builders produce

`harness/auxcorr.py` asks the Lean driver for the dense form of the problem a builder produces (the same problem that was compared with the raw GLPK
problem), lets the untrusted exact simplex propose a certificate and accepts it only through `Prob.certOpt` / `Prob.certInfeas`; GLPK's status and
optimum for the captured problem are then compared with the certified answer. -/
open AuxM in
/-- **an accepted optimality certificate proves an optimum of the builder's problem**: the point it names is feasible for the problem — boxes, rows,
every variable — and no feasible point is better in the problem's direction -/
theorem certified_answer_is_optimum (p : Prob) (xs ys : List Rat) (h : p.certOpt xs ys = true) :
    p.IsOpt (assignOf (p.vars.map (·.v)) xs) ∧ p.vars.map (fun w => assignOf (p.vars.map (·.v)) xs w.v) = xs := certOpt_isOpt p xs ys h

open AuxM in
/-- an accepted Farkas certificate proves that the builder's problem has no feasible point -/
theorem certified_infeasible (p : Prob) (ys : List Rat) (h : p.certInfeas ys = true) : ¬ ∃ x, p.Feasible x := certInfeas_sound p ys h

open AuxM in
/-- chained with the whole-problem theorems: a certificate accepted on `Net.fba` names net fluxes that are optimal for the model -/
theorem certified_fba_optimum (n : Net) (hp : n.Proper) (xs ys : List Rat) (h : n.fba.certOpt xs ys = true) :
    n.Feasible (netOf (assignOf (n.fba.vars.map (·.v)) xs)) ∧
    ∀ v, n.Feasible v → if n.dirMax then n.objVal v ≤ n.objVal (netOf (assignOf (n.fba.vars.map (·.v)) xs))
                        else n.objVal (netOf (assignOf (n.fba.vars.map (·.v)) xs)) ≤ n.objVal v := by
  obtain ⟨h1, _, h3⟩ := fba_optimum n hp _ (certOpt_isOpt n.fba xs ys h).1
  exact ⟨h1, h3⟩

example : AuxM.demoNet.fba.certOpt [2, 0, 2, 0] [-1] = true := by decide +kernel

open AuxM in
/-- **mixed-integer problems (ROOM, minimal medium with fewest components, `add_loopless`)**: when every 0/1 assignment of the binary variables of
a builder's minimisation problem leads to a leaf problem that is certified infeasible or certified optimal with a value of at least `L`
(`Prob.certLeavesMin`, checked by the driver), no feasible point of the mixed-integer problem has an objective value below `L` -/
theorem certified_enumeration_bounds_the_minimum (p : Prob) (certs : List LeafCert) (L : Rat) (h : p.certLeavesMin certs L = true)
    (x : V → Rat) (hx : p.Feasible x) : L ≤ p.value x := certLeavesMin_bound p certs L h x hx

open AuxM in
/-- … and the point a leaf certificate names is a feasible point of the mixed-integer problem, so the best leaf attains the bound -/
theorem certified_leaf_point_is_feasible (p : Prob) (a : List (V × Rat)) (ha : a ∈ allAssign p.binVars)
    (hbox : ∀ w ∈ p.vars, w.kind = .bin → w.lb = .fin 0 ∧ w.ub = .fin 1) (hni : ∀ w ∈ p.vars, w.kind ≠ .int)
    (x : V → Rat) (hx : (p.fix a).Feasible x) : p.Feasible x := leaf_point_feasible p a ha hbox hni x hx

end C04

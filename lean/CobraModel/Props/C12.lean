import CobraModel.Gen.CopySpec
/-!
# C12 — a copy shares nothing with its original

Two parts.

**(1) Frame theorem on an abstract heap.**  Objects have a content and point at other objects.  What can be observed through a root is the content
of everything reachable from it.  If nothing is reachable from both roots (`Sep`), then no sequence of edits made through one root — overwriting
objects it reaches, with new references into what it reaches or at fresh objects — changes anything reachable from the other root, the set of
objects reachable from the other root stays the same, and the two stay separated (`edits_invisible`).  Immutable objects cannot be overwritten, so
`Sep` is only needed for the mutable ones; the walker of harness/c12.py computes exactly that intersection on the real object graph.

**(2) The copy specification read from the source** (`Gen.CopySpec.table`, generated from the AST of `Model.copy` by harness/translate_copy.py):
no attribute whose values are mutable is handed over by reference, and none whose values contain mutable objects is handed over through a shallow
`copy()` (`copy_separates`, by `decide` over the whole generated table).
-/

namespace C12

abbrev Addr := Nat

structure Obj where
  val : Nat
  refs : List Addr

abbrev Heap := Addr → Obj

/-- reachable from a root by following references -/
inductive Reach (h : Heap) (r : Addr) : Addr → Prop
  | root : Reach h r r
  | step {a b : Addr} : Reach h r a → b ∈ (h a).refs → Reach h r b

theorem Reach.trans {h : Heap} {r a b : Addr} (h1 : Reach h r a) (h2 : Reach h a b) : Reach h r b := by
  induction h2 with
  | root => exact h1
  | step _ hb ih => exact Reach.step ih hb

/-- nothing is reachable from both roots -/
def Sep (h : Heap) (ra rb : Addr) : Prop := ∀ a, Reach h ra a → ¬ Reach h rb a

theorem Sep.symm {h : Heap} {ra rb : Addr} (s : Sep h ra rb) : Sep h rb ra := fun a hb ha => s a ha hb

structure Edit where
  target : Addr
  new : Obj

def write (h : Heap) (e : Edit) : Heap := fun a => if a = e.target then e.new else h a

/-- an edit made through root `ra`: it overwrites an object `ra` reaches; whatever the new references lead to is not reachable from `rb`
    (it is part of what `ra` reaches already, or fresh) -/
def Edit.through (h : Heap) (ra rb : Addr) (e : Edit) : Prop :=
  Reach h ra e.target ∧ ∀ c ∈ e.new.refs, ∀ x, Reach h c x → ¬ Reach h rb x

/-- an object the other root does not reach can be overwritten without changing what the other root reaches … -/
theorem reach_write_iff {h : Heap} {rb : Addr} {e : Edit} (hn : ¬ Reach h rb e.target) (a : Addr) :
    Reach (write h e) rb a ↔ Reach h rb a := by
  constructor
  · intro hr
    induction hr with
    | root => exact Reach.root
    | @step a' b _ hb ih =>
      have hne : a' ≠ e.target := fun heq => hn (heq ▸ ih)
      have : (write h e a').refs = (h a').refs := by simp [write, hne]
      exact Reach.step ih (this ▸ hb)
  · intro hr
    induction hr with
    | root => exact Reach.root
    | @step a' b hra hb ih =>
      have hne : a' ≠ e.target := fun heq => hn (heq ▸ hra)
      have : (write h e a').refs = (h a').refs := by simp [write, hne]
      exact Reach.step ih (this ▸ hb)

/-- … nor the content of anything it reaches -/
theorem view_write {h : Heap} {rb : Addr} {e : Edit} (hn : ¬ Reach h rb e.target) (a : Addr) (ha : Reach h rb a) :
    write h e a = h a := by
  have : a ≠ e.target := fun heq => hn (heq ▸ ha)
  simp [write, this]

/-- after the edit, what the editing root reaches is what it reached before or what the new references lead to -/
theorem reach_after {h : Heap} {ra : Addr} {e : Edit} {a : Addr} (hr : Reach (write h e) ra a) :
    Reach h ra a ∨ ∃ c ∈ e.new.refs, Reach h c a := by
  induction hr with
  | root => exact Or.inl Reach.root
  | @step a' b _ hb ih =>
    by_cases heq : a' = e.target
    · have : (write h e a').refs = e.new.refs := by simp [write, heq]
      exact Or.inr ⟨b, this ▸ hb, Reach.root⟩
    · have : (write h e a').refs = (h a').refs := by simp [write, heq]
      have hb' : b ∈ (h a').refs := this ▸ hb
      rcases ih with h1 | ⟨c, hc, h2⟩
      · exact Or.inl (Reach.step h1 hb')
      · exact Or.inr ⟨c, hc, Reach.step h2 hb'⟩

/-- one edit through `ra` keeps the two roots separated -/
theorem sep_write {h : Heap} {ra rb : Addr} {e : Edit} (s : Sep h ra rb) (he : e.through h ra rb) :
    Sep (write h e) ra rb := by
  intro a har hbr
  have hn : ¬ Reach h rb e.target := s _ he.1
  have hb : Reach h rb a := (reach_write_iff hn a).mp hbr
  rcases reach_after har with h1 | ⟨c, hc, h2⟩
  · exact s a h1 hb
  · exact he.2 c hc a h2 hb

/-- a history of edits, each made through `ra` in the heap as it is at that moment -/
inductive Run (ra rb : Addr) : Heap → List Edit → Heap → Prop
  | nil (h : Heap) : Run ra rb h [] h
  | cons {h h' : Heap} {e : Edit} {es : List Edit} : e.through h ra rb → Run ra rb (write h e) es h' → Run ra rb h (e :: es) h'

/-- **C12, frame.** With nothing shared at the start, no sequence of edits through one root changes the content of, or the set of, the objects
    reachable from the other root, and the two stay separated (so the same holds for everything that follows). -/
theorem edits_invisible {ra rb : Addr} {h h' : Heap} {es : List Edit} (run : Run ra rb h es h') (s : Sep h ra rb) :
    (∀ a, Reach h rb a → h' a = h a) ∧ (∀ a, Reach h' rb a ↔ Reach h rb a) ∧ Sep h' ra rb := by
  induction run with
  | nil h => exact ⟨fun _ _ => rfl, fun _ => Iff.rfl, s⟩
  | @cons h0 h1 e es he _ ih =>
    have hn : ¬ Reach h0 rb e.target := s _ he.1
    obtain ⟨i1, i2, i3⟩ := ih (sep_write s he)
    refine ⟨?_, ?_, i3⟩
    · intro a ha
      rw [i1 a ((reach_write_iff hn a).mpr ha), view_write hn a ha]
    · intro a
      rw [i2 a, reach_write_iff hn a]

/-- the same for edits through the copy: the original is untouched (separation is symmetric) -/
theorem edits_invisible_symm {ra rb : Addr} {h h' : Heap} {es : List Edit} (run : Run rb ra h es h') (s : Sep h ra rb) :
    (∀ a, Reach h ra a → h' a = h a) ∧ (∀ a, Reach h' ra a ↔ Reach h ra a) ∧ Sep h' ra rb := by
  obtain ⟨a1, a2, a3⟩ := edits_invisible run s.symm
  exact ⟨a1, a2, a3.symm⟩

/-- without separation the conclusion fails: a shared object written through one root is seen through the other -/
theorem shared_object_leaks :
    ∃ (h : Heap) (e : Edit), Reach h 0 e.target ∧ Reach h 1 2 ∧ write h e 2 ≠ h 2 := by
  refine ⟨fun a => if a = 0 then ⟨0, [2]⟩ else if a = 1 then ⟨0, [2]⟩ else ⟨7, []⟩, ⟨2, ⟨8, []⟩⟩, ?_, ?_, ?_⟩
  · exact Reach.step Reach.root (by simp)
  · exact Reach.step Reach.root (by simp)
  · simp [write]

/-- non-vacuity: two separated roots and an edit through the first -/
example : ∃ (h : Heap) (e : Edit), Sep h 0 1 ∧ e.through h 0 1 := by
  refine ⟨fun a => ⟨a, []⟩, ⟨0, ⟨5, []⟩⟩, ?_, ?_⟩
  · intro a ha hb
    have h0 : a = 0 := by
      cases ha with
      | root => rfl
      | step _ hm => simp at hm
    have h1 : a = 1 := by
      cases hb with
      | root => rfl
      | step _ hm => simp at hm
    rw [h0] at h1; exact absurd h1 (by decide)
  · exact ⟨Reach.root, by simp⟩

/-! ## the generated copy specification -/

open Gen.CopySpec

/-- a row is harmless when what is shared between original and copy after this way of copying is immutable -/
def Row.separates (r : Row) : Bool :=
  match r.how with
  | .byRef => !r.mutableValue
  | .shallow => !r.nestedMutable
  | .deep => true
  | .rebuilt => true

def separates (t : List Row) : Bool := t.all Row.separates

/-- **C12, copy specification.** `Model.copy`, as written in the source now, hands no mutable object over to the copy. -/
theorem copy_separates : separates table = true := by decide

/-- the table is not empty and covers the five classes -/
theorem table_covers : ["Model", "Metabolite", "Gene", "Reaction", "Group"].all (fun c => table.any (fun r => r.cls == c)) = true := by decide

/-- what `copy_separates` rules out: the specification before the repair (notes of a metabolite by reference) -/
example : separates [⟨"Metabolite", "notes", .byRef, true, true⟩] = false := by decide
example : separates [⟨"Reaction", "_annotation", .shallow, true, true⟩] = false := by decide

end C12

import CobraModel.Lemmas.Formulations
import CobraModel.Lemmas.AuxProb
/-!
# C17 — loopless methods remove cycles without changing what matters

* `add_loopless`: every reaction `i` gets an indicator `a_i` and a "driving force" `G_i` with
  `-M (1 - a_i) ≤ v_i ≤ M a_i` and `1 ≤ G_i + (M + 1) a_i ≤ M`, and `G` is orthogonal to the null space of the
  internal stoichiometry. Theorem: a flux vector that satisfies these has **no sign-compatible internal cycle**.
* CycleFreeFlux (`loopless_solution`): the returned vector is an optimum of "minimise total internal flux subject to
  steady state, fixed boundary fluxes, kept signs, capped magnitudes, kept objective"; an optimum admits no
  removable cycle — a removable cycle would be a feasible point with a smaller total (definition of the certified
  optimum, `C04.optimal_certificate_sound`).
-/
namespace C17
open LPM

/-- the indicator constraints force the sign of the driving force to oppose the flux -/
theorem force_opposes_flux (v a g M : Rat) (hM : 0 < M) (ha : a = 0 ∨ a = 1)
    (h1 : -M ≤ v - M * a) (h2 : v - M * a ≤ 0) (h3 : 1 ≤ g + (M + 1) * a) (h4 : g + (M + 1) * a ≤ M) :
    (0 < v → g < 0) ∧ (v < 0 → 0 < g) := by
  rcases ha with rfl | rfl
  · constructor
    · intro hv; linarith
    · intro _; linarith
  · constructor
    · intro _; linarith
    · intro hv; linarith

/-- if every non-zero component of `z` contributes a negative term to `g·z`, then `g·z = 0` forces `z = 0` -/
theorem no_cycle_of_orthogonal (g z : List Rat) (hl : g.length = z.length)
    (hneg : ∀ i, z.getD i 0 ≠ 0 → g.getD i 0 * z.getD i 0 < 0) (horth : dot g z = 0) :
    ∀ i, z.getD i 0 = 0 := by
  induction g generalizing z with
  | nil =>
    cases z with
    | nil => intro i; simp
    | cons _ _ => simp at hl
  | cons a as ih =>
    cases z with
    | nil => simp at hl
    | cons b bs =>
      have hterm : ∀ (gs zs : List Rat), gs.length = zs.length →
          (∀ i, zs.getD i 0 ≠ 0 → gs.getD i 0 * zs.getD i 0 < 0) → dot gs zs ≤ 0 := by
        intro gs
        induction gs with
        | nil => intro zs _ _; cases zs <;> simp [dot]
        | cons x xs ihx =>
          intro zs hl' hn
          cases zs with
          | nil => simp [dot]
          | cons y ys =>
            have h0 : x * y ≤ 0 := by
              by_cases hy : y = 0
              · simp [hy]
              · exact le_of_lt (by simpa using hn 0 (by simpa using hy))
            have := ihx ys (by simpa using hl') (fun i hi => by simpa using hn (i + 1) (by simpa using hi))
            simp only [dot]; linarith
      have htail := hterm as bs (by simpa using hl) (fun i hi => by simpa using hneg (i + 1) (by simpa using hi))
      have hhead : a * b ≤ 0 := by
        by_cases hb : b = 0
        · simp [hb]
        · exact le_of_lt (by simpa using hneg 0 (by simpa using hb))
      simp only [dot] at horth
      have hb0 : b = 0 := by
        by_contra hb
        have : a * b < 0 := by simpa using hneg 0 (by simpa using hb)
        linarith
      have htail0 : dot as bs = 0 := by subst hb0; simpa using horth
      intro i
      cases i with
      | zero => simpa using hb0
      | succ i =>
        have := ih bs (by simpa using hl) (fun j hj => by simpa using hneg (j + 1) (by simpa using hj)) htail0 i
        simpa using this

/-- **`add_loopless` is sound**: if the driving forces `g` oppose the fluxes `v` componentwise and are orthogonal
to a vector `z` of the internal null space whose non-zero components have the sign of the flux they ride on
(a sign-compatible internal cycle), then `z = 0` — a feasible point of the MILP contains no internal cycle -/
theorem loopless_feasible_has_no_cycle (v g z : List Rat) (hl : g.length = z.length)
    (hforce : ∀ i, (0 < v.getD i 0 → g.getD i 0 < 0) ∧ (v.getD i 0 < 0 → 0 < g.getD i 0))
    (hcompat : ∀ i, z.getD i 0 ≠ 0 → 0 < v.getD i 0 * z.getD i 0)
    (horth : dot g z = 0) : ∀ i, z.getD i 0 = 0 := by
  apply no_cycle_of_orthogonal g z hl _ horth
  intro i hz
  have hc := hcompat i hz
  have hf := hforce i
  rcases lt_trichotomy (v.getD i 0) 0 with hv | hv | hv
  · have hzneg : z.getD i 0 < 0 := by
      by_contra h; push Not at h
      have : v.getD i 0 * z.getD i 0 ≤ 0 := mul_nonpos_of_nonpos_of_nonneg (le_of_lt hv) h
      linarith
    exact mul_neg_of_pos_of_neg (hf.2 hv) hzneg
  · rw [hv] at hc; simp at hc
  · have hzpos : 0 < z.getD i 0 := by
      by_contra h; push Not at h
      have : v.getD i 0 * z.getD i 0 ≤ 0 := mul_nonpos_of_nonneg_of_nonpos (le_of_lt hv) h
      linarith
    exact mul_neg_of_neg_of_pos (hf.1 hv) hzpos

/-- **CycleFreeFlux returns a vector without removable cycle**: a certified optimum of the cycle-free problem is
not improved by any other point of its feasible region (subtracting a removable cycle would be such a point) -/
theorem cycle_free_optimum_is_minimal (p : LP) (x y : List Rat) (h : p.checkOpt x y = true) :
    ∀ x', p.feasible x' = true → dot p.obj x' ≤ dot p.obj x := (LP.checkOpt_sound p x y h).2

/-- the bounds `_add_cycle_free` sets keep the direction and cap the magnitude of an internal flux -/
theorem cycle_free_bounds (flux lb ub v : Rat) :
    (0 ≤ flux → max 0 lb ≤ v → v ≤ min flux ub → (0 ≤ v ∧ v ≤ flux ∧ lb ≤ v ∧ v ≤ ub)) ∧
    (flux < 0 → max flux lb ≤ v → v ≤ min 0 ub → (v ≤ 0 ∧ flux ≤ v ∧ lb ≤ v ∧ v ≤ ub)) := by
  constructor
  · intro _ h1 h2
    exact ⟨le_trans (le_max_left _ _) h1, le_trans h2 (min_le_left _ _), le_trans (le_max_right _ _) h1, le_trans h2 (min_le_right _ _)⟩
  · intro _ h1 h2
    exact ⟨le_trans h2 (min_le_left _ _), le_trans (le_max_left _ _) h1, le_trans (le_max_right _ _) h1, le_trans h2 (min_le_right _ _)⟩

example : (0 < (3 : Rat) → (-2 : Rat) < 0) ∧ ((3 : Rat) < 0 → 0 < (-2 : Rat)) :=
  force_opposes_flux 3 1 (-2) 10 (by norm_num) (Or.inr rfl) (by norm_num) (by norm_num) (by norm_num) (by norm_num)


/-! ### the whole problem `loopless_solution` solves

`AuxM.Net.cycleFree n fluxes opt`: the flux-balance problem with the bounds `_add_cycle_free` sets (`AuxM.cycleFreeBounds`), the row
`loopless_obj_constraint` (objective at or beyond `opt` in the model's direction), objective = the variable of each internal reaction that
carries its start flux, direction min.  Compared entry by entry with the raw GLPK problem (`harness/auxcorr.py`). -/
open AuxM in
/-- **CycleFreeFlux, whole problem**: an optimum is a flux vector of the region (bounds of `_add_cycle_free`, objective kept) with the smallest
total flux through the internal reactions; the optimal value is that total -/
theorem cycle_free_problem_optimum (n : Net) (fl : List Rat) (opt : Rat) (x : V → Rat) (h : (n.cycleFree fl opt).IsOpt x) :
    n.CycleFreeRegion fl opt (netOf x) ∧ (n.cycleFree fl opt).value x = n.sumAbsInt (netOf x) ∧
    ∀ v, n.CycleFreeRegion fl opt v → n.sumAbsInt (netOf x) ≤ n.sumAbsInt v := cycleFree_optimum n fl opt x h

open AuxM in
/-- **what the region is**: for a start flux inside the reaction bounds, a boundary flux equals its start value, an internal flux keeps the
direction of its start value, is at most as large, and stays inside the reaction bounds -/
theorem cycle_free_bounds_meaning (r : Rxn) (fl v : Rat) (hfl : Core.inBox (r.lb, r.ub) fl) (hv : Core.inBox (cycleFreeBounds r fl) v) :
    (r.boundary = true → v = fl) ∧
    (r.boundary = false → (0 ≤ fl → 0 ≤ v ∧ v ≤ fl) ∧ (fl < 0 → fl ≤ v ∧ v ≤ 0) ∧ Core.inBox (r.lb, r.ub) v) :=
  cycleFreeBounds_spec r fl v hfl hv

example : AuxM.cycleFreeBounds ⟨"R", "R_rev", .fin (-5), .fin 8, [("A", -1), ("B", 1)]⟩ 3 = (.fin 0, .fin 3) := by decide +kernel
example : AuxM.cycleFreeBounds ⟨"R", "R_rev", .fin (-5), .fin 8, [("A", -1), ("B", 1)]⟩ (-2) = (.fin (-2), .fin 0) := by decide +kernel

/-! ### the whole problem `add_loopless` builds

`AuxM.Net.loopless n ns cutoff`: the flux-balance problem, for every internal reaction a binary `indicator_<id>`, the row `on_off_<id>`
(`−M ≤ v − M a ≤ 0`), a free `delta_g_<id>` and the row `delta_g_range_<id>` (`1 ≤ G_i + (G + 1) a ≤ G`), and one row `nullspace_constraint_k`
per null-space vector (numpy's basis, taken as data; entries at or below the cut-off dropped).  Compared entry by entry with the raw GLPK
problem (`harness/auxcorr.py`). -/
open AuxM in
/-- **`add_loopless`, whole problem**: at every feasible point, no non-zero combination `z` of the null-space rows (an internal cycle) is
sign-compatible with the internal fluxes — the flux vector carries no internal cycle the basis can express -/
theorem loopless_problem_has_no_cycle (n : Net) (ns : List (List Rat)) (cutoff : Rat) (x : V → Rat) (h : (n.loopless ns cutoff).Feasible x)
    (hlen : ∀ r ∈ ns, r.length = n.internal.length) (lam : List Rat)
    (hcompat : ∀ j, (LPM.yA n.internal.length lam (nullRows cutoff ns)).getD j 0 ≠ 0 →
      0 < (n.internalFluxes x).getD j 0 * (LPM.yA n.internal.length lam (nullRows cutoff ns)).getD j 0) :
    ∀ j, (LPM.yA n.internal.length lam (nullRows cutoff ns)).getD j 0 = 0 := by
  have hrl : LPM.rowsLen n.internal.length (nullRows cutoff ns) := by
    unfold nullRows
    have : ∀ l : List (List Rat), (∀ r ∈ l, r.length = n.internal.length) →
        LPM.rowsLen n.internal.length (l.map (fun r => (filterRow cutoff r, (⟨some 0, some 0⟩ : LPM.Bnd)))) := by
      intro l hl
      induction l with
      | nil => simp [LPM.rowsLen]
      | cons a l ih =>
        simp only [List.map_cons, LPM.rowsLen]
        exact ⟨by simp [filterRow, hl a (by simp)], ih (fun r hr => hl r (by simp [hr]))⟩
    exact this ns hlen
  apply loopless_feasible_has_no_cycle (n.internalFluxes x) (n.forces x) _
    (by rw [LPM.length_yA _ _ _ hrl]; simp [Net.forces])
    (fun j => loopless_forces n ns cutoff x h j) hcompat
  exact loopless_orthogonal n ns cutoff x h hlen lam

open AuxM in
/-- the conditions on one internal reaction, spelled out -/
theorem loopless_problem_rows (n : Net) (ns : List (List Rat)) (cutoff : Rat) (x : V → Rat) :
    (n.loopless ns cutoff).Feasible x ↔
      FbaPart n x ∧ (∀ i ∈ n.internal, LooplessRows n n.maxBound (maxR n.maxBound 1000) x i) ∧
      ∀ p ∈ ns.zipIdx, LPM.dot (filterRow cutoff p.1) (n.forces x) = 0 := loopless_feasible_iff n ns cutoff x

end C17

import CobraModel.Model.DictIO
import CobraModel.Lemmas.Core
/-!
# C11 — JSON, YAML, dict and pickle round trips return the same model

The part of the property that is cobrapy's own logic: the dictionary form of a reaction and its inverse. The json / yaml /
pickle libraries and float ↔ text conversion are external; `harness/c11.py` runs every format on generated rich models
and compares full dumps and the raw solver problem.
-/
namespace C11
open DictIO Core

theorem floatOf_boundVal (b : EB) : floatOf (boundVal b) = some b := by
  cases b <;> simp [boundVal, floatOf]

/-- **loading what was saved gives the same reaction** — identifiers, stoichiometry, bounds (infinite ones included),
objective coefficient, rule text, name, subsystem — for every reaction with ordered bounds -/
theorem reaction_roundtrip (r : Rxn) (h : EB.le r.lb r.ub = true) : fromDict (toDict r) = some r := by
  have hlt : EB.lt r.ub r.lb = false := EB.lt_false_of_le h
  obtain ⟨id, name, lb, ub, mets, rule, obj, subsystem⟩ := r
  simp only at h hlt
  unfold fromDict toDict
  by_cases ho : obj = 0 <;> by_cases hs : subsystem = "" <;>
    simp [DictIO.get, ho, hs, floatOf_boundVal, hlt, strOf, List.find?]

/-- saving is idempotent: the dictionary of the loaded reaction is the dictionary that was loaded -/
theorem dict_idempotent (r : Rxn) (h : EB.le r.lb r.ub = true) :
    (fromDict (toDict r)).map toDict = some (toDict r) := by
  rw [reaction_roundtrip r h]; rfl

/-- the defect that was repaired: with one bound assigned at a time against the default `(0, 1000)`, a saved reaction
with bounds `(2000, 3000)` could not be loaded -/
theorem old_loader_rejected_high_lower_bound :
    fromDictOld (toDict ⟨"r", "", .fin 2000, .fin 3000, [], "", 0, ""⟩) = none ∧
    fromDict (toDict ⟨"r", "", .fin 2000, .fin 3000, [], "", 0, ""⟩) = some ⟨"r", "", .fin 2000, .fin 3000, [], "", 0, ""⟩ := by
  constructor <;> decide +kernel

example : fromDict (toDict ⟨"EX_glc(e)", "exchange", .ninf, .fin 5, [("glc__D_e", -1)], "b0001 and (g1 or g2)", 1 / 2, "Transport"⟩)
    = some ⟨"EX_glc(e)", "exchange", .ninf, .fin 5, [("glc__D_e", -1)], "b0001 and (g1 or g2)", 1 / 2, "Transport"⟩ := by
  decide +kernel

end C11

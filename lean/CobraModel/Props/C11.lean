import CobraModel.Model.DictIO
import CobraModel.Lemmas.Core
import CobraModel.Lemmas.DictScheme
import CobraModel.Gen.DictKeys
/-!
# C11 — JSON, YAML, dict and pickle round trips return the same model

The part of the property that is cobrapy's own logic: the dictionary form of a reaction and its inverse. The json / yaml /
pickle libraries and float ↔ text conversion are external; `harness/c11.py` runs every format on generated rich models
and compares full dumps and the raw solver problem.
-/
namespace C11
open DictIO Core

theorem floatOf_boundVal (b : EB) : floatOf (boundVal b) = some b := by
  cases b <;> simp [boundVal, floatOf]

/-- **loading what was saved gives the same reaction** — identifiers, stoichiometry, bounds (infinite ones included),
objective coefficient, rule text, name, subsystem — for every reaction with ordered bounds -/
theorem reaction_roundtrip (r : Rxn) (h : EB.le r.lb r.ub = true) : fromDict (toDict r) = some r := by
  have hlt : EB.lt r.ub r.lb = false := EB.lt_false_of_le h
  obtain ⟨id, name, lb, ub, mets, rule, obj, subsystem⟩ := r
  simp only at h hlt
  unfold fromDict toDict
  by_cases ho : obj = 0 <;> by_cases hs : subsystem = "" <;>
    simp [DictIO.get, ho, hs, floatOf_boundVal, hlt, strOf, List.find?]

/-- saving is idempotent: the dictionary of the loaded reaction is the dictionary that was loaded -/
theorem dict_idempotent (r : Rxn) (h : EB.le r.lb r.ub = true) :
    (fromDict (toDict r)).map toDict = some (toDict r) := by
  rw [reaction_roundtrip r h]; rfl

/-- the defect that was repaired: with one bound assigned at a time against the default `(0, 1000)`, a saved reaction
with bounds `(2000, 3000)` could not be loaded -/
theorem old_loader_rejected_high_lower_bound :
    fromDictOld (toDict ⟨"r", "", .fin 2000, .fin 3000, [], "", 0, ""⟩) = none ∧
    fromDict (toDict ⟨"r", "", .fin 2000, .fin 3000, [], "", 0, ""⟩) = some ⟨"r", "", .fin 2000, .fin 3000, [], "", 0, ""⟩ := by
  constructor <;> decide +kernel

/-! ### the key scheme shared by reactions, metabolites, genes and the model (tables generated from cobra/io/dict.py) -/

open Gen.DictKeys in
/-- no table lists a key twice (a repeated key would be written twice and the later one would win on loading) -/
theorem tables_have_no_repeated_key :
    reaction.keys.Nodup ∧ metabolite.keys.Nodup ∧ gene.keys.Nodup ∧ Gen.DictKeys.model.keys.Nodup := by decide

open Gen.DictKeys in
/-- every attribute the property lists is a key of its table — as the tables stand in the source now -/
theorem listed_attributes_are_keys :
    (["id", "name", "metabolites", "lower_bound", "upper_bound", "gene_reaction_rule", "objective_coefficient", "subsystem", "notes",
      "annotation"].all (· ∈ reaction.keys)) = true ∧
    (["id", "name", "compartment", "charge", "formula", "notes", "annotation"].all (· ∈ metabolite.keys)) = true ∧
    (["id", "name", "notes", "annotation"].all (· ∈ gene.keys)) = true ∧
    (["id", "name", "reactions", "metabolites", "genes", "objective_direction", "compartments", "notes", "annotation"].all
      (· ∈ Gen.DictKeys.model.keys)) = true := by decide

open Gen.DictKeys in
/-- **every listed attribute of every kind of object survives save -> load**, whatever its value, and a second save writes the same dictionary -/
theorem scheme_roundtrip (a : String → DV) (fb : DV) :
    (∀ k ∈ reaction.keys, DictScheme.fromDict reaction fb (DictScheme.toDict reaction a) k = a k) ∧
    (∀ k ∈ metabolite.keys, DictScheme.fromDict metabolite fb (DictScheme.toDict metabolite a) k = a k) ∧
    (∀ k ∈ gene.keys, DictScheme.fromDict gene fb (DictScheme.toDict gene a) k = a k) ∧
    (∀ k ∈ Gen.DictKeys.model.keys, DictScheme.fromDict Gen.DictKeys.model fb (DictScheme.toDict Gen.DictKeys.model a) k = a k) :=
  ⟨fun k hk => DictScheme.roundtrip _ fb tables_have_no_repeated_key.1 a k hk,
   fun k hk => DictScheme.roundtrip _ fb tables_have_no_repeated_key.2.1 a k hk,
   fun k hk => DictScheme.roundtrip _ fb tables_have_no_repeated_key.2.2.1 a k hk,
   fun k hk => DictScheme.roundtrip _ fb tables_have_no_repeated_key.2.2.2 a k hk⟩

open Gen.DictKeys in
theorem scheme_idempotent (a : String → DV) (fb : DV) :
    DictScheme.toDict Gen.DictKeys.model (DictScheme.fromDict Gen.DictKeys.model fb (DictScheme.toDict Gen.DictKeys.model a)) =
      DictScheme.toDict Gen.DictKeys.model a :=
  DictScheme.toDict_idempotent _ fb tables_have_no_repeated_key.2.2.2 a

/-- a minimisation model keeps its direction: the key is written because it differs from the default, and read back -/
example : DictScheme.fromDict Gen.DictKeys.model .none
    (DictScheme.toDict Gen.DictKeys.model (fun k => if k = "objective_direction" then .str "min" else .none)) "objective_direction" = .str "min" := by
  decide

example : fromDict (toDict ⟨"EX_glc(e)", "exchange", .ninf, .fin 5, [("glc__D_e", -1)], "b0001 and (g1 or g2)", 1 / 2, "Transport"⟩)
    = some ⟨"EX_glc(e)", "exchange", .ninf, .fin 5, [("glc__D_e", -1)], "b0001 and (g1 or g2)", 1 / 2, "Transport"⟩ := by
  decide +kernel

end C11

import CobraModel.Model.Sampling
import CobraModel.Lemmas.LP
import CobraModel.Lemmas.SplitRange
import CobraModel.Lemmas.AuxProb
import Mathlib.Tactic.Linarith
import Mathlib.Tactic.Ring
import Mathlib.Tactic.FieldSimp
import Mathlib.Algebra.Order.Field.Rat
import Mathlib.Algebra.Order.Field.Basic
import Mathlib.Tactic.Positivity
/-!
# C16 — every flux sample is a feasible flux distribution

* `step_keeps_equalities` : a step from a point of the affine space `A x = b` along `w − c` with `A w = A c = b` stays in it, for every step length.
* `alpha_range_sound`     : with the point inside the boxes and not sitting on a face the direction points out of, every step length in the range the
                            code computes keeps every moving coordinate inside its box.
* `on_a_face_the_range_leaks` : the side condition is needed — a point exactly on a face (a zero candidate is filed under "non-positive") gets a range
                            that leaves the box; this is what the bound check after the move is for.
* `step_result_checked`   : whatever the random choices, a point returned by `step` passed the bound check (`withinTol`), on the first try or after any
                            number of retries from the centre.
* `flux_of_split` / `flux_steady_state` : the flux `v = x_fwd − x_rev` of a variable-space point lies in the reaction's bounds and satisfies `S v = 0`
                            when the point satisfies the variable boxes and the variable-space equalities.
* sample count and seeds: C14 (`roundUp`).
-/
open LPM Sampling

namespace C16

/-! ### equalities -/

theorem step_keeps_equalities (a x w c : List Rat) (b α : Rat) (hx : a.length = x.length) (hw : a.length = w.length) (hc : a.length = c.length)
    (ex : dot a x = b) (ew : dot a w = b) (ec : dot a c = b) :
    dot a (move x (subV w c) α) = b := by
  unfold move
  have hwc : w.length = c.length := hw.symm.trans hc
  have hlen : (subV w c).length = w.length := by
    clear hx hw hc ex ew ec
    induction w generalizing c with
    | nil => cases c <;> simp [subV]
    | cons w0 w ih =>
      cases c with
      | nil => simp at hwc
      | cons c0 c => simp [subV]; exact ih c (by simpa using hwc)
  have h1 : x.length = (scaleV α (subV w c)).length := by rw [length_scaleV, hlen]; omega
  -- dot distributes
  have hd : ∀ (a u v : List Rat), a.length = u.length → u.length = v.length → dot a (addV u v) = dot a u + dot a v := by
    intro a u v
    induction a generalizing u v with
    | nil => intros; simp [dot]
    | cons a0 a ih =>
      intro h1 h2
      cases u with
      | nil => simp at h1
      | cons u0 u =>
        cases v with
        | nil => simp at h2
        | cons v0 v =>
          simp only [addV, dot]
          rw [ih u v (by simpa using h1) (by simpa using h2)]; ring
  have hs : ∀ (a u : List Rat) (k : Rat), dot a (scaleV k u) = k * dot a u := by
    intro a u k
    induction a generalizing u with
    | nil => simp [dot]
    | cons a0 a ih =>
      cases u with
      | nil => simp [scaleV, dot]
      | cons u0 u => simp only [scaleV, dot]; rw [ih u]; ring
  have hsub : ∀ (a u v : List Rat), a.length = u.length → u.length = v.length → dot a (subV u v) = dot a u - dot a v := by
    intro a u v
    induction a generalizing u v with
    | nil => intros; simp [dot]
    | cons a0 a ih =>
      intro h1 h2
      cases u with
      | nil => simp at h1
      | cons u0 u =>
        cases v with
        | nil => simp at h2
        | cons v0 v =>
          simp only [subV, dot]
          rw [ih u v (by simpa using h1) (by simpa using h2)]; ring
  rw [hd a x _ hx h1, hs, hsub a w c hw hwc, ex, ew, ec]; ring

/-! ### the range of step lengths -/

theorem le_maxL (as : List Rat) (m : Rat) : m ≤ maxL as m ∧ ∀ a ∈ as, a ≤ maxL as m := by
  induction as generalizing m with
  | nil => simp [maxL]
  | cons a as ih =>
    simp only [maxL]
    split
    · rename_i h
      obtain ⟨h1, h2⟩ := ih a
      refine ⟨le_trans (le_of_lt h) h1, ?_⟩
      intro b hb
      rcases List.mem_cons.mp hb with rfl | hb
      · exact h1
      · exact h2 b hb
    · rename_i h
      obtain ⟨h1, h2⟩ := ih m
      refine ⟨h1, ?_⟩
      intro b hb
      rcases List.mem_cons.mp hb with rfl | hb
      · exact le_trans (not_lt.mp h) h1
      · exact h2 b hb

theorem minL_le (as : List Rat) (m : Rat) : minL as m ≤ m ∧ ∀ a ∈ as, minL as m ≤ a := by
  induction as generalizing m with
  | nil => simp [minL]
  | cons a as ih =>
    simp only [minL]
    split
    · rename_i h
      obtain ⟨h1, h2⟩ := ih a
      refine ⟨le_trans h1 (le_of_lt h), ?_⟩
      intro b hb
      rcases List.mem_cons.mp hb with rfl | hb
      · exact h1
      · exact h2 b hb
    · rename_i h
      obtain ⟨h1, h2⟩ := ih m
      refine ⟨h1, ?_⟩
      intro b hb
      rcases List.mem_cons.mp hb with rfl | hb
      · exact le_trans h1 (not_lt.mp h)
      · exact h2 b hb

/-- every non-positive candidate is below the lower end of the range, every positive one above the upper end -/
theorem alphaRange_bounds (as : List Rat) :
    (∀ a ∈ as, a ≤ 0 → a ≤ (alphaRange as).1) ∧ (∀ a ∈ as, 0 < a → (alphaRange as).2 ≤ a) := by
  constructor
  · intro a ha hle
    have hmem : a ∈ as.filter (fun a => decide (a ≤ 0)) := by simp [List.mem_filter, ha, hle]
    unfold alphaRange
    simp only
    cases hneg : as.filter (fun a => decide (a ≤ 0)) with
    | nil => rw [hneg] at hmem; cases hmem
    | cons m r =>
      rw [hneg] at hmem
      obtain ⟨h1, h2⟩ := le_maxL r m
      rcases List.mem_cons.mp hmem with rfl | h
      · exact h1
      · exact h2 a h
  · intro a ha hpos
    have hmem : a ∈ as.filter (fun a => decide (0 < a)) := by simp [List.mem_filter, ha, hpos]
    unfold alphaRange
    simp only
    cases hp : as.filter (fun a => decide (0 < a)) with
    | nil => rw [hp] at hmem; cases hmem
    | cons m r =>
      rw [hp] at hmem
      obtain ⟨h1, h2⟩ := minL_le r m
      rcases List.mem_cons.mp hmem with rfl | h
      · exact h1
      · exact h2 a h

/-- the range always contains 0 -/
theorem alphaRange_sign (as : List Rat) : (alphaRange as).1 ≤ 0 ∧ 0 ≤ (alphaRange as).2 := by
  unfold alphaRange
  simp only
  constructor
  · cases hneg : as.filter (fun a => decide (a ≤ 0)) with
    | nil => exact le_refl _
    | cons m r =>
      have hall : ∀ a ∈ m :: r, a ≤ 0 := by
        intro a ha
        have : a ∈ as.filter (fun a => decide (a ≤ 0)) := hneg ▸ ha
        simpa using (List.mem_filter.mp this).2
      -- the maximum of non-positive numbers is non-positive
      have : ∀ (l : List Rat) (m : Rat), m ≤ 0 → (∀ a ∈ l, a ≤ 0) → maxL l m ≤ 0 := by
        intro l
        induction l with
        | nil => intro m hm _; simpa [maxL] using hm
        | cons a l ih =>
          intro m hm hl
          simp only [maxL]
          split
          · exact ih a (hl a (by simp)) (fun b hb => hl b (by simp [hb]))
          · exact ih m hm (fun b hb => hl b (by simp [hb]))
      exact this r m (hall m (by simp)) (fun a ha => hall a (by simp [ha]))
  · cases hp : as.filter (fun a => decide (0 < a)) with
    | nil => exact le_refl _
    | cons m r =>
      have hall : ∀ a ∈ m :: r, 0 < a := by
        intro a ha
        have : a ∈ as.filter (fun a => decide (0 < a)) := hp ▸ ha
        simpa using (List.mem_filter.mp this).2
      have : ∀ (l : List Rat) (m : Rat), 0 < m → (∀ a ∈ l, 0 < a) → 0 < minL l m := by
        intro l
        induction l with
        | nil => intro m hm _; simpa [minL] using hm
        | cons a l ih =>
          intro m hm hl
          simp only [minL]
          split
          · exact ih a (hl a (by simp)) (fun b hb => hl b (by simp [hb]))
          · exact ih m hm (fun b hb => hl b (by simp [hb]))
      exact le_of_lt (this r m (hall m (by simp)) (fun a ha => hall a (by simp [ha])))

/-- one coordinate: inside its box, not on the face the direction points out of; any step length between the two ends of a range that respects this
    coordinate's candidates keeps it inside -/
theorem coordinate_stays (lo hi x d α rl ru : Rat) (hd : d ≠ 0) (hlo : lo ≤ x) (hhi : x ≤ hi)
    (hface : (0 < d → x < hi) ∧ (d < 0 → lo < x))
    (hneg : ∀ a ∈ [(lo - x) / d, (hi - x) / d], a ≤ 0 → a ≤ rl) (hpos : ∀ a ∈ [(lo - x) / d, (hi - x) / d], 0 < a → ru ≤ a)
    (h1 : rl ≤ α) (h2 : α ≤ ru) : lo ≤ x + α * d ∧ x + α * d ≤ hi := by
  rcases lt_or_gt_of_ne hd with hdn | hdp
  · -- d < 0: (lo - x)/d > 0 bounds α above, (hi - x)/d ≤ 0 bounds it below
    have hx := hface.2 hdn
    have hpos' : 0 < (lo - x) / d := div_pos_of_neg_of_neg (by linarith) hdn
    have hneg' : (hi - x) / d ≤ 0 := div_nonpos_of_nonneg_of_nonpos (by linarith) (le_of_lt hdn)
    have hu := hpos _ (by simp) hpos'
    have hl := hneg _ (by simp) hneg'
    have e1 : (lo - x) / d * d = lo - x := div_mul_cancel₀ _ hd
    have e2 : (hi - x) / d * d = hi - x := div_mul_cancel₀ _ hd
    constructor
    · have : α * d ≥ (lo - x) / d * d := mul_le_mul_of_nonpos_right (le_trans h2 hu) (le_of_lt hdn)
      linarith
    · have : α * d ≤ (hi - x) / d * d := mul_le_mul_of_nonpos_right (le_trans hl h1) (le_of_lt hdn)
      linarith
  · have hx := hface.1 hdp
    have hpos' : 0 < (hi - x) / d := div_pos (by linarith) hdp
    have hneg' : (lo - x) / d ≤ 0 := div_nonpos_of_nonpos_of_nonneg (by linarith) (le_of_lt hdp)
    have hu := hpos _ (by simp) hpos'
    have hl := hneg _ (by simp) hneg'
    have e1 : (lo - x) / d * d = lo - x := div_mul_cancel₀ _ hd
    have e2 : (hi - x) / d * d = hi - x := div_mul_cancel₀ _ hd
    constructor
    · have : (lo - x) / d * d ≤ α * d := mul_le_mul_of_nonneg_right (le_trans hl h1) (le_of_lt hdp)
      linarith
    · have : α * d ≤ (hi - x) / d * d := mul_le_mul_of_nonneg_right (le_trans h2 hu) (le_of_lt hdp)
      linarith

/-- the hypothesis on a whole point: inside every box, and not on a face a moving coordinate is pushed through -/
def Interior (tol : Rat) : List Bool → List Rat → List Rat → List Rat → List Rat → Prop
  | _ :: fxs, lo :: los, hi :: his, x :: xs, d :: ds =>
    (lo ≤ x ∧ x ≤ hi ∧ (0 < d → x < hi) ∧ (d < 0 → lo < x)) ∧ Interior tol fxs los his xs ds
  | _, _, _, _, _ => True

/-- the conclusion: every coordinate that moves at all (`|δ| > tol`) is inside its box after the step -/
def MovedInside (tol : Rat) (α : Rat) : List Bool → List Rat → List Rat → List Rat → List Rat → Prop
  | fx :: fxs, lo :: los, hi :: his, x :: xs, d :: ds =>
    (fx = true ∨ (if d < 0 then -d else d) ≤ tol ∨ (lo ≤ x + α * d ∧ x + α * d ≤ hi)) ∧ MovedInside tol α fxs los his xs ds
  | _, _, _, _, _ => True

theorem moved_inside_of_range (tol : Rat) (htol : 0 ≤ tol) (α rl ru : Rat) (h1 : rl ≤ α) (h2 : α ≤ ru) :
    ∀ (fx : List Bool) (lo hi x d : List Rat), Interior tol fx lo hi x d →
      (∀ a ∈ alphas tol fx lo hi x d, a ≤ 0 → a ≤ rl) → (∀ a ∈ alphas tol fx lo hi x d, 0 < a → ru ≤ a) →
      MovedInside tol α fx lo hi x d := by
  intro fx
  induction fx with
  | nil => intros; simp [MovedInside]
  | cons f fxs ih =>
    intro lo hi x d hint hneg hpos
    cases lo with
    | nil => simp [MovedInside]
    | cons l los =>
      cases hi with
      | nil => simp [MovedInside]
      | cons h his =>
        cases x with
        | nil => simp [MovedInside]
        | cons x0 xs =>
          cases d with
          | nil => simp [MovedInside]
          | cons d0 ds =>
            obtain ⟨⟨b1, b2, b3, b4⟩, hrest⟩ := hint
            simp only [alphas] at hneg hpos
            refine ⟨?_, ih los his xs ds hrest (fun a ha => hneg a (List.mem_append_right _ ha)) (fun a ha => hpos a (List.mem_append_right _ ha))⟩
            by_cases hf : f = true
            · exact Or.inl hf
            · by_cases hsmall : (if d0 < 0 then -d0 else d0) ≤ tol
              · exact Or.inr (Or.inl hsmall)
              · right; right
                have hd : d0 ≠ 0 := by
                  intro h0; subst h0; simp at hsmall; exact absurd htol (not_le.mpr hsmall)
                have hal : alphasOf tol f l h x0 d0 = [(l - x0) / d0, (h - x0) / d0] := by simp [alphasOf, hsmall, hf]
                exact coordinate_stays l h x0 d0 α rl ru hd b1 b2 ⟨b3, b4⟩
                  (fun a ha => hneg a (List.mem_append_left _ (hal ▸ ha))) (fun a ha => hpos a (List.mem_append_left _ (hal ▸ ha))) h1 h2

/-- **C16, the range.** Every step length within the range the code computes keeps every moving, non-fixed coordinate inside its box. -/
theorem alpha_range_sound (tol : Rat) (htol : 0 ≤ tol) (fx : List Bool) (lo hi x d : List Rat) (hint : Interior tol fx lo hi x d) (α : Rat)
    (h1 : (alphaRange (alphas tol fx lo hi x d)).1 ≤ α) (h2 : α ≤ (alphaRange (alphas tol fx lo hi x d)).2) :
    MovedInside tol α fx lo hi x d :=
  moved_inside_of_range tol htol α _ _ h1 h2 fx lo hi x d hint (alphaRange_bounds _).1 (alphaRange_bounds _).2

/-- the side condition is needed: on the upper face, pushed outwards, the zero candidate is filed under "non-positive" and the range reaches beyond
    the box (x = hi = 1, δ = 1, second coordinate leaves room up to 5): α = 4 is allowed and gives x + α δ = 5 > 1 -/
theorem on_a_face_the_range_leaks :
    let lo : List Rat := [0, 0]; let hi : List Rat := [1, 10]; let x : List Rat := [1, 6]; let d : List Rat := [1, 1]
    alphaRange (alphas 0 [false, false] lo hi x d) = (0, 4) ∧ ¬ (1 + 4 * 1 ≤ (1 : Rat)) := by
  decide +kernel

/-! ### the bound check -/

/-- **C16, the guard.** Whatever the random choices and however many retries, a returned point passed the bound check. -/
theorem step_result_checked (tol : Rat) (fixed : List Bool) (slo shi lo hi centre : List Rat) (pickAlpha : Rat × Rat → Rat) (newDir : Nat → List Rat) :
    ∀ (fuel : Nat) (x d p : List Rat), step tol fixed slo shi lo hi centre pickAlpha newDir fuel x d = some p → withinTol tol lo hi p = true := by
  intro fuel
  induction fuel with
  | zero => intro x d p h; simp [step] at h
  | succ n ih =>
    intro x d p h
    simp only [step] at h
    split at h
    · rename_i hw
      injection h with h; subst h
      simp only [Bool.and_eq_true] at hw
      exact hw.1
    · exact ih _ _ _ h

theorem withinTol_spec (tol : Rat) : ∀ (lo hi p : List Rat), withinTol tol lo hi p = true → lo.length = p.length → hi.length = p.length →
    ∀ i (h1 : i < lo.length) (h2 : i < hi.length) (h3 : i < p.length), lo[i] - tol ≤ p[i] ∧ p[i] ≤ hi[i] + tol := by
  intro lo
  induction lo with
  | nil => intro hi p _ _ _ i h1; simp at h1
  | cons l los ih =>
    intro hi p hw hl hh i h1 h2 h3
    cases hi with
    | nil => simp at h2
    | cons h his =>
      cases p with
      | nil => simp at h3
      | cons p0 ps =>
        simp only [withinTol, Bool.and_eq_true, decide_eq_true_eq] at hw
        cases i with
        | zero => exact ⟨hw.1.1, hw.1.2⟩
        | succ j =>
          simp only [List.getElem_cons_succ]
          exact ih his ps hw.2 (by simpa using hl) (by simpa using hh) j (by simpa using h1) (by simpa using h2) (by simpa using h3)

/-! ### the running centre -/

theorem dot_addV_right : ∀ (a u v : List Rat), a.length = u.length → u.length = v.length → dot a (addV u v) = dot a u + dot a v := by
  intro a
  induction a with
  | nil => intros; simp [dot]
  | cons a0 a ih =>
    intro u v h1 h2
    cases u with
    | nil => simp at h1
    | cons u0 u =>
      cases v with
      | nil => simp at h2
      | cons v0 v =>
        simp only [addV, dot]
        rw [ih u v (by simpa using h1) (by simpa using h2)]; ring

theorem dot_scaleV_right : ∀ (a u : List Rat) (k : Rat), dot a (scaleV k u) = k * dot a u := by
  intro a
  induction a with
  | nil => intros; simp [dot]
  | cons a0 a ih =>
    intro u k
    cases u with
    | nil => simp [scaleV, dot]
    | cons u0 u => simp only [scaleV, dot]; rw [ih u]; ring

/-- `center = (n * center + p) / (n + 1)`, coordinate by coordinate -/
def newCentre (n : Rat) (c p : List Rat) : List Rat := scaleV (1 / (n + 1)) (addV (scaleV n c) p)

/-- a coordinate of the updated centre lies between the old centre and the new point: boxes are kept -/
theorem centre_coordinate (n c p lo hi : Rat) (hn : 0 ≤ n) (hc : lo ≤ c ∧ c ≤ hi) (hp : lo ≤ p ∧ p ≤ hi) :
    lo ≤ 1 / (n + 1) * (n * c + p) ∧ 1 / (n + 1) * (n * c + p) ≤ hi := by
  have hpos : 0 < n + 1 := by linarith
  have e : 1 / (n + 1) * (n * c + p) = (n * c + p) / (n + 1) := by ring
  rw [e]
  constructor
  · rw [le_div_iff₀ hpos]
    nlinarith [mul_le_mul_of_nonneg_left hc.1 hn]
  · rw [div_le_iff₀ hpos]
    nlinarith [mul_le_mul_of_nonneg_left hc.2 hn]

/-- the updated centre satisfies every equality the old centre and the new point satisfy -/
theorem centre_keeps_equalities (a c p : List Rat) (n b : Rat) (hn : 0 ≤ n) (hc : a.length = c.length) (hp : a.length = p.length)
    (ec : dot a c = b) (ep : dot a p = b) : dot a (newCentre n c p) = b := by
  unfold newCentre
  have hpos : n + 1 ≠ 0 := by linarith
  have hlen : (scaleV n c).length = p.length := by rw [length_scaleV]; omega
  have hlen0 : a.length = (scaleV n c).length := by rw [length_scaleV]; exact hc
  rw [dot_scaleV_right, dot_addV_right a _ _ hlen0 hlen, dot_scaleV_right, ec, ep]
  field_simp

/-! ### from variables to fluxes -/

/-- bounds: the flux of a point inside the forward / reverse boxes of `update_variable_bounds` is inside the reaction's bounds (C04's `split_range_fin`) -/
theorem flux_of_split (lb ub f r : Rat) (hf : Core.inBox (Core.splitBounds (.fin lb) (.fin ub)).1 f)
    (hr : Core.inBox (Core.splitBounds (.fin lb) (.fin ub)).2 r) : lb ≤ f - r ∧ f - r ≤ ub :=
  (Core.split_range_fin lb ub (f - r)).mp ⟨f, r, rfl, hf, hr⟩

/-- steady state: a row of the variable-space matrix holds `+S_ij` at the forward and `−S_ij` at the reverse variable; on a point given as
    (forward, reverse) pairs its product is the product of the stoichiometric row with the fluxes -/
def rowOnVars : List Rat → List (Rat × Rat) → Rat
  | s :: ss, (f, r) :: xs => s * f + (-s) * r + rowOnVars ss xs
  | _, _ => 0

def fluxes (xs : List (Rat × Rat)) : List Rat := xs.map (fun p => p.1 - p.2)

theorem flux_steady_state (s : List Rat) (xs : List (Rat × Rat)) : dot s (fluxes xs) = rowOnVars s xs := by
  induction s generalizing xs with
  | nil => simp [dot, rowOnVars]
  | cons s0 s ih =>
    cases xs with
    | nil => simp [dot, rowOnVars, fluxes]
    | cons p xs =>
      obtain ⟨f, r⟩ := p
      simp only [fluxes, List.map_cons, dot, rowOnVars]
      have := ih xs
      simp only [fluxes] at this
      rw [this]; ring

/-! ### non-vacuity -/

example : Interior 0 [false, false] [0, 0] [1, 10] [1/2, 6] [1, 1] := by
  simp [Interior]; norm_num
example : alphaRange (alphas 0 [false, false] [0, 0] [1, 10] [1/2, 6] [1, 1]) = (-1/2, 1/2) := by decide +kernel
example : step 0 [false, false] [0, 0] [1, 10] [0, 0] [1, 10] [1/2, 5] (fun r => r.2) (fun _ => [1/2, 5]) 3 [1/2, 6] [1, 1] = some [1, 13/2] := by decide +kernel

/-! ### from the sampler's matrices back to the model

`AuxM.Prob.sampler p tol` (lean/CobraModel/Model/AuxProb.lean) is the matrix problem `HRSampler.__build_problem` derives from the solver problem
(`constraint_matrices`: equality rows with right-hand sides, inequality rows with bounds, variable bounds and fixed flags, the extra unit rows for
variables fixed at a non-zero value, the `homogeneous` flag).  `harness/auxcorr.py` compares it with `sampler.problem` of the real ACHR / OptGP
samplers (exact rationals).  The step theorems above keep a walk inside these matrices; the theorem below carries a point of the matrices back to
the model. -/
open AuxM in
/-- **a point of the sampler's matrix problem is a feasible flux distribution**: for a model with user constraints over fluxes, a point that
satisfies the equalities, boxed inequalities and variable boxes the sampler works on gives net fluxes (`v = forward − reverse`, the mapping
`sample(fluxes=True)` applies) at steady state, inside the reaction bounds and inside every user constraint -/
theorem sample_point_is_feasible_flux (n : Net) (hp : n.Proper) (extra : List Extra) (hidx : ∀ e ∈ extra, ∀ q ∈ e.co, q.1 ∈ n.idx)
    (tol : Rat) (hx : (n.fbaWith (extra.map Extra.row)).ExactEq tol) (x : V → Rat)
    (h : ((n.fbaWith (extra.map Extra.row)).sampler tol).Sat ((n.fbaWith (extra.map Extra.row)).vars.map (fun w => x w.v))) :
    n.Feasible (netOf x) ∧ ∀ e ∈ extra, Core.inBox (e.lb, e.ub) ((e.co.map (fun q => q.2 * netOf x q.1)).sum) :=
  sampler_point_is_feasible_flux n hp extra hidx tol hx x h

open AuxM in
/-- the general form: for any solver problem with distinct continuous variables whose equality rows are exact, satisfying the matrices is being
feasible -/
theorem sampler_matrices_sound (p : Prob) (tol : Rat) (hc : p.Closed) (hx : p.ExactEq tol) (x : V → Rat)
    (h : (p.sampler tol).Sat (p.vars.map (fun w => x w.v))) : p.Feasible x := sampler_sat_feasible p tol hc hx x h

example : (AuxM.demoNet.fba.sampler (1/1000000)).homogeneous = true := by decide +kernel
example : (AuxM.demoNet.fba.sampler (1/1000000)).equalities = [[1, -1, -1, 1]] := by decide +kernel

end C16

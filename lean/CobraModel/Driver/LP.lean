import Lean.Data.Json
import CobraModel.Model.LP
/-! Line-protocol driver of the certificate checker: one LP + certificate per line, verdict out. -/
open Lean LPM

namespace LPDriver

def parseRat (s : String) : Except String Rat :=
  match s.splitOn "/" with
  | [a] => match a.toInt? with
    | some n => pure (n : Rat)
    | none => throw s!"bad number {s}"
  | [a, b] => match a.toInt?, b.toNat? with
    | some n, some d => pure ((n : Rat) / (d : Rat))
    | _, _ => throw s!"bad number {s}"
  | _ => throw s!"bad number {s}"

def ratStr (q : Rat) : String := if q.den == 1 then toString q.num else s!"{q.num}/{q.den}"

def optRat (j : Json) : Except String (Option Rat) :=
  if j.isNull then pure none else do pure (some (← parseRat (← j.getStr?)))

def rats (j : Json) : Except String (List Rat) := do
  (← j.getArr?).toList.mapM (fun x => do parseRat (← x.getStr?))

def bnd (j : Json) : Except String Bnd := do
  let a ← j.getArr?
  pure ⟨← optRat a[0]!, ← optRat a[1]!⟩

def lpOf (j : Json) : Except String LP := do
  let n ← (← j.getObjVal? "n").getNat?
  let vb ← (← (← j.getObjVal? "vb").getArr?).toList.mapM bnd
  let rows ← (← (← j.getObjVal? "rows").getArr?).toList.mapM (fun r => do
    let a ← r.getArr?
    pure (← rats a[0]!, (⟨← optRat a[1]!, ← optRat a[2]!⟩ : Bnd)))
  let obj ← rats (← j.getObjVal? "obj")
  pure { n, vb, rows, obj }

def handle (j : Json) : Except String Json := do
  let p ← lpOf (← j.getObjVal? "lp")
  let kind ← (← j.getObjVal? "kind").getStr?
  match kind with
  | "optimal" =>
    let x ← rats (← j.getObjVal? "x")
    let y ← rats (← j.getObjVal? "y")
    let ok := p.checkOpt x y
    pure (Json.mkObj [("ok", Json.bool ok), ("value", Json.str (ratStr (dot p.obj x))),
      ("rc", Json.arr ((subV p.obj (yA p.n y p.rows)).map (fun q => Json.str (ratStr q))).toArray)])
  | "infeasible" =>
    let y ← rats (← j.getObjVal? "y")
    pure (Json.mkObj [("ok", Json.bool (p.checkInfeas y))])
  | "unbounded" =>
    let x ← rats (← j.getObjVal? "x")
    let z ← rats (← j.getObjVal? "z")
    pure (Json.mkObj [("ok", Json.bool (p.checkUnbdd x z))])
  | "feasible" =>
    let x ← rats (← j.getObjVal? "x")
    pure (Json.mkObj [("ok", Json.bool (p.feasible x)), ("value", Json.str (ratStr (dot p.obj x)))])
  | _ => throw s!"unknown certificate kind {kind}"

partial def loop (h : IO.FS.Stream) : IO Unit := do
  let line ← h.getLine
  if line.isEmpty then return ()
  match Json.parse line.trimAscii.toString >>= handle with
  | .error e => IO.println (Json.mkObj [("bad-line", Json.str e)]).compress
  | .ok r => IO.println r.compress
  (← IO.getStdout).flush
  loop h

def run : IO Unit := do loop (← IO.getStdin)
end LPDriver

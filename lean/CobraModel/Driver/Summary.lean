import Lean.Data.Json
import CobraModel.Model.Summary
/-! Line-protocol driver for the summary tables. -/
open Lean SummaryM

namespace SummaryDriver

def parseRat (s : String) : Except String Rat :=
  match s.splitOn "/" with
  | [a] => match a.toInt? with
    | some n => pure (n : Rat)
    | none => throw s!"bad number {s}"
  | [a, b] => match a.toInt?, b.toNat? with
    | some n, some d => pure ((n : Rat) / (d : Rat))
    | _, _ => throw s!"bad number {s}"
  | _ => throw s!"bad number {s}"

def ratStr (q : Rat) : String := if q.den == 1 then toString q.num else s!"{q.num}/{q.den}"

def rowOf (j : Json) : Except String Row := do
  let rxn ← (← j.getObjVal? "rxn").getStr?
  let factor ← parseRat (← (← j.getObjVal? "factor").getStr?)
  let flux ← parseRat (← (← j.getObjVal? "flux").getStr?)
  let range ← match j.getObjVal? "min", j.getObjVal? "max" with
    | .ok a, .ok b => do pure (some (← parseRat (← a.getStr?), ← parseRat (← b.getStr?)))
    | _, _ => pure none
  pure { rxn, factor, flux, range }

def outJson (l : List Out) : Json :=
  Json.arr ((l.zip (percents l)).map (fun (o, p) => Json.mkObj ([("rxn", Json.str o.rxn), ("flux", Json.str (ratStr o.flux))] ++
    (match o.range with
     | some (a, b) => [("min", Json.str (ratStr a)), ("max", Json.str (ratStr b))]
     | none => []) ++
    (if total l = 0 then [("percent", Json.null)] else [("percent", Json.str (ratStr p))])))).toArray

def handle (j : Json) : Except String Json := do
  let tol ← parseRat (← (← j.getObjVal? "tol").getStr?)
  let rows ← (← (← j.getObjVal? "rows").getArr?).toList.mapM rowOf
  pure (Json.mkObj [("producing", outJson (producing tol rows)), ("consuming", outJson (consuming tol rows))])

partial def loop (h : IO.FS.Stream) : IO Unit := do
  let line ← h.getLine
  if line.isEmpty then return ()
  match Json.parse line.trimAscii.toString >>= handle with
  | .error e => IO.println (Json.mkObj [("bad-line", Json.str e)]).compress
  | .ok r => IO.println r.compress
  (← IO.getStdout).flush
  loop h

def run : IO Unit := do loop (← IO.getStdin)
end SummaryDriver

import Lean.Data.Json
import CobraModel.Model.DictList
/-! Line-protocol driver for the DictList model: one JSON op per line in, one JSON state per line out. -/
open Lean DLM

namespace DLDriver

def objOfJson (j : Json) : Except String Obj := do
  let a ← j.getArr?
  let id ← (a[0]!).getStr?
  let uid ← (a[1]!).getNat?
  pure ⟨id, uid⟩

def objsOfJson (j : Json) : Except String (List Obj) := do
  let a ← j.getArr?
  a.toList.mapM objOfJson

def optInt (j : Json) : Except String (Option Int) :=
  if j.isNull then pure none else do pure (some (← j.getInt?))

def sliceOfJson (j : Json) : Except String Slice := do
  let a ← j.getArr?
  pure ⟨← optInt a[0]!, ← optInt a[1]!, ← optInt a[2]!⟩

def refOfJson (j : Json) : Except String Ref :=
  match j with
  | .str s => pure (.byId s)
  | _ => do pure (.byObj (← objOfJson j))

def refsOfJson (j : Json) : Except String (List Ref) := do
  (← j.getArr?).toList.mapM refOfJson

def opOfJson (j : Json) : Except String Op := do
  let name ← (← j.getObjVal? "op").getStr?
  let f (k : String) := j.getObjVal? k
  match name with
  | "append" => pure (.append (← objOfJson (← f "o")))
  | "insert" => pure (.insert (← (← f "i").getInt?) (← objOfJson (← f "o")))
  | "extend" => pure (.extend (← objsOfJson (← f "os")))
  | "union" => pure (.union (← objsOfJson (← f "os")))
  | "isub" => pure (.isub (← refsOfJson (← f "xs")))
  | "setItem" => pure (.setItem (← (← f "i").getInt?) (← objOfJson (← f "o")))
  | "setSlice" => pure (.setSlice (← sliceOfJson (← f "s")) (← objsOfJson (← f "os")))
  | "delItem" => pure (.delItem (← (← f "i").getInt?))
  | "delSlice" => pure (.delSlice (← sliceOfJson (← f "s")))
  | "pop" => pure (.pop (← optInt (← f "i")))
  | "remove" => pure (.remove (← refOfJson (← f "x")))
  | "sort" => pure (.sort (← (← f "rev").getBool?))
  | "reverse" => pure .reverse
  | "plus" => pure (.plus (← objsOfJson (← f "os")))
  | "minus" => pure (.minus (← refsOfJson (← f "xs")))
  | "copy" => pure .copy
  | "pickle" => pure .pickle
  | "getSlice" => pure (.getSlice (← sliceOfJson (← f "s")))
  | "query" => pure (.query (← (← (← f "ids").getArr?).toList.mapM (·.getStr?)))
  | "initFrom" => pure .initFrom
  | _ => throw s!"unknown op {name}"

def errStr : Option Err → Json
  | none => Json.null
  | some .value => "ValueError"
  | some .index => "IndexError"
  | some .key => "KeyError"

/-- sorted, de-shadowed view of the index -/
def indexView (ix : Idx) : List (String × Nat) :=
  let keys := (ix.map (·.1)).eraseDups
  let sorted := keys.toArray.qsort (· < ·) |>.toList
  sorted.filterMap (fun k => (ix.get k).map (fun v => (k, v)))

def stateJson (d : DL) (e : Option Err) : Json :=
  Json.mkObj [
    ("err", errStr e),
    ("items", Json.arr (d.items.map (fun o => Json.arr #[Json.str o.id, Json.num o.uid])).toArray),
    ("index", Json.arr ((indexView d.index).map (fun (k, v) => Json.arr #[Json.str k, Json.num v])).toArray)]

partial def loop (h : IO.FS.Stream) (d : DL) : IO Unit := do
  let line ← h.getLine
  if line.isEmpty then return ()
  let t := line.trimAscii.toString
  if t == "reset" then
    IO.println "reset"
    loop h DL.empty
  else
    match Json.parse t >>= opOfJson with
    | .error e => IO.println (Json.mkObj [("bad-op", Json.str e)]).compress; loop h d
    | .ok op =>
      let (d', e) := step d op
      IO.println (stateJson d' e).compress
      loop h d'

def run : IO Unit := do loop (← IO.getStdin) DL.empty

end DLDriver

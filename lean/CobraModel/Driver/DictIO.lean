import Lean.Data.Json
import CobraModel.Model.DictIO
import CobraModel.Gen.DictKeys
/-! Line-protocol driver for the reaction <-> dict model. -/
open Lean DictIO Core

namespace DictIODriver

def parseRat (s : String) : Except String Rat :=
  match s.splitOn "/" with
  | [a] => match a.toInt? with
    | some n => pure (n : Rat)
    | none => throw s!"bad number {s}"
  | [a, b] => match a.toInt?, b.toNat? with
    | some n, some d => pure ((n : Rat) / (d : Rat))
    | _, _ => throw s!"bad number {s}"
  | _ => throw s!"bad number {s}"

def parseEB (s : String) : Except String EB :=
  if s == "inf" then pure .pinf else if s == "-inf" then pure .ninf else do pure (.fin (← parseRat s))

def ratStr (q : Rat) : String := if q.den == 1 then toString q.num else s!"{q.num}/{q.den}"

def valJson : Val → Json
  | .str s => Json.str s
  | .num q => Json.str (ratStr q)
  | .mets kv => Json.arr (kv.map (fun (k, v) => Json.arr #[Json.str k, Json.str (ratStr v)])).toArray

open Gen.DictKeys in
def parseDV (j : Json) : DV :=
  match j with
  | .null => .none
  | .str s => .str s
  | .num n => if n.exponent == 0 then .int n.mantissa else .other (toString n)
  | .arr a => if a.isEmpty then .emptyList else .other j.compress
  | .obj _ => if j.compress == "{}" then .emptyDict else .other j.compress
  | .bool b => .other (toString b)

open Gen.DictKeys in
/-- which keys does the scheme write for an object with these attribute values? -/
def handleScheme (j : Json) : Except String Json := do
  let kind ← (← j.getObjVal? "scheme").getStr?
  let sch ← match kind with
    | "reaction" => pure reaction | "metabolite" => pure metabolite | "gene" => pure gene | "model" => pure Gen.DictKeys.model
    | k => throw s!"bad scheme {k}"
  let attrs ← j.getObjVal? "attrs"
  let a : String → DV := fun k => match attrs.getObjVal? k with | .ok v => parseDV v | .error _ => .none
  let d := DictScheme.toDict sch a
  let back := DictScheme.fromDict sch .none d
  pure (Json.mkObj [("keys", Json.arr (d.map (fun p => Json.str p.1)).toArray),
                    ("roundtrip", Json.bool (sch.keys.all (fun k => back k == a k)))])

def handle (j : Json) : Except String Json := do
  if (j.getObjVal? "scheme").isOk then return ← handleScheme j
  let s (k : String) : Except String String := do (← j.getObjVal? k).getStr?
  let mets ← (← (← j.getObjVal? "mets").getArr?).toList.mapM (fun p => do
    let a ← p.getArr?
    pure (← a[0]!.getStr?, ← parseRat (← a[1]!.getStr?)))
  let r : Rxn := { id := ← s "id", name := ← s "name", lb := ← parseEB (← s "lb"), ub := ← parseEB (← s "ub"), mets := mets,
                   rule := ← s "rule", obj := ← parseRat (← s "obj"), subsystem := ← s "subsystem" }
  let d := toDict r
  pure (Json.mkObj [("dict", Json.mkObj (d.map (fun (k, v) => (k, valJson v)))), ("roundtrip", Json.bool (fromDict d == some r))])

partial def loop (h : IO.FS.Stream) : IO Unit := do
  let line ← h.getLine
  if line.isEmpty then return ()
  match Json.parse line.trimAscii.toString >>= handle with
  | .error e => IO.println (Json.mkObj [("bad-line", Json.str e)]).compress
  | .ok r => IO.println r.compress
  (← IO.getStdout).flush
  loop h

def run : IO Unit := do loop (← IO.getStdin)
end DictIODriver

import Lean.Data.Json
import CobraModel.Model.Sampling
/-! Line-protocol driver: one step of the sampler's geometry in exact arithmetic. -/
open Lean Sampling

namespace SamplingDriver

def parseRat (s : String) : Except String Rat :=
  match s.splitOn "/" with
  | [a] => match a.toInt? with
    | some n => pure (n : Rat)
    | none => throw s!"bad number {s}"
  | [a, b] => match a.toInt?, b.toNat? with
    | some n, some d => pure ((n : Rat) / (d : Rat))
    | _, _ => throw s!"bad number {s}"
  | _ => throw s!"bad number {s}"

def ratStr (q : Rat) : String := if q.den == 1 then toString q.num else s!"{q.num}/{q.den}"

def ratList (j : Json) (k : String) : Except String (List Rat) := do
  (← (← j.getObjVal? k).getArr?).toList.mapM (fun x => do parseRat (← x.getStr?))

def handle (j : Json) : Except String Json := do
  let tol ← parseRat (← (← j.getObjVal? "tol").getStr?)
  let fraction ← parseRat (← (← j.getObjVal? "fraction").getStr?)
  let slo ← ratList j "slo"
  let shi ← ratList j "shi"
  let lo ← ratList j "lo"
  let hi ← ratList j "hi"
  let x ← ratList j "x"
  let d ← ratList j "d"
  let fixed ← (← (← j.getObjVal? "fixed").getArr?).toList.mapM (fun x => x.getBool?)
  let r := alphaRange (alphas tol fixed slo shi x d)
  let p := move x d (r.1 + fraction * (r.2 - r.1))
  pure (Json.mkObj [("range", Json.arr #[Json.str (ratStr r.1), Json.str (ratStr r.2)]),
                    ("point", Json.arr (p.map (fun q => Json.str (ratStr q))).toArray),
                    ("accepted", Json.bool (withinTol tol lo hi p && !stuck tol r d))])

partial def loop (h : IO.FS.Stream) : IO Unit := do
  let line ← h.getLine
  if line.isEmpty then return ()
  match Json.parse line.trimAscii.toString >>= handle with
  | .error e => IO.println (Json.mkObj [("bad-line", Json.str e)]).compress
  | .ok r => IO.println r.compress
  loop h

def run : IO Unit := do loop (← IO.getStdin)
end SamplingDriver

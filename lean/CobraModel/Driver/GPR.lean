import Lean.Data.Json
import CobraModel.Model.GPR
/-! Line-protocol driver for the GPR model. -/
open Lean GPRM

namespace GPRDriver

def sortedGenes (g : G) : List String :=
  ((genes g).eraseDups.toArray.qsort (· < ·)).toList

/-- truth table over all knock-out subsets of the sorted gene list (bit i set = gene i knocked out) -/
def truthTable (g : G) : String :=
  let gs := sortedGenes g
  if gs.length > 10 then "skip" else
  let n := gs.length
  String.ofList ((List.range (2 ^ n)).map (fun mask =>
    let ko (s : String) : Bool := match gs.idxOf? s with
      | some i => (mask >>> i) % 2 == 1
      | none => false
    if eval ko g then '1' else '0'))

def ruleJson (g : Option G) : List (String × Json) :=
  match g with
  | none => [("kind", "rule"), ("sexp", ""), ("str", ""), ("genes", Json.arr #[]), ("tt", "1")]
  | some g => [("kind", "rule"), ("sexp", sexp g), ("str", toStr (some g)),
               ("genes", Json.arr ((sortedGenes g).map Json.str).toArray), ("tt", truthTable g)]

def handle (j : Json) : Except String Json := do
  let op ← (← j.getObjVal? "op").getStr?
  let s ← (← j.getObjVal? "s").getStr?
  match op with
  | "parse" =>
    match fromString s with
    | .rule g => pure (Json.mkObj (ruleJson g))
    | .malformed => pure (Json.mkObj [("kind", "malformed")])
  | "remove" =>
    let ks ← (← (← j.getObjVal? "ks").getArr?).toList.mapM (·.getStr?)
    match fromString s with
    | .rule (some g) =>
      let r := remove (fun x => ks.contains x) g
      pure (Json.mkObj (ruleJson r))
    | .rule none => pure (Json.mkObj (ruleJson none))
    | .malformed => pure (Json.mkObj [("kind", "malformed")])
  | _ => throw s!"unknown op {op}"

partial def loop (h : IO.FS.Stream) : IO Unit := do
  let line ← h.getLine
  if line.isEmpty then return ()
  match Json.parse line.trimAscii.toString >>= handle with
  | .error e => IO.println (Json.mkObj [("bad-op", Json.str e)]).compress
  | .ok r => IO.println r.compress
  loop h

def run : IO Unit := do loop (← IO.getStdin)

end GPRDriver

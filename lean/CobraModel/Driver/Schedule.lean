import Lean.Data.Json
import CobraModel.Model.Schedule
/-! Line-protocol driver: the rounding of the sample count. -/
open Lean Schedule

namespace ScheduleDriver

def handle (j : Json) : Except String Json := do
  let n ← (← j.getObjVal? "n").getNat?
  let p ← (← j.getObjVal? "p").getNat?
  pure (Json.mkObj [("roundUp", Json.num (roundUp n p))])

partial def loop (h : IO.FS.Stream) : IO Unit := do
  let line ← h.getLine
  if line.isEmpty then return ()
  match Json.parse line.trimAscii.toString >>= handle with
  | .error e => IO.println (Json.mkObj [("bad-line", Json.str e)]).compress
  | .ok r => IO.println r.compress
  loop h

def run : IO Unit := do loop (← IO.getStdin)
end ScheduleDriver

import Lean.Data.Json
import CobraModel.Model.Core
/-! Line-protocol driver for the Core model. -/
open Lean Core GPRM

namespace CoreDriver

def parseRat (s : String) : Except String Rat :=
  match s.splitOn "/" with
  | [a] => match a.toInt? with
    | some n => pure (n : Rat)
    | none => throw s!"bad number {s}"
  | [a, b] => match a.toInt?, b.toNat? with
    | some n, some d => pure ((n : Rat) / (d : Rat))
    | _, _ => throw s!"bad number {s}"
  | _ => throw s!"bad number {s}"

def parseEB (s : String) : Except String EB :=
  if s == "inf" then pure .pinf else if s == "-inf" then pure .ninf else do pure (.fin (← parseRat s))

def ratStr (q : Rat) : String := if q.den == 1 then toString q.num else s!"{q.num}/{q.den}"
def ebStr : EB → String
  | .ninf => "-inf" | .pinf => "inf" | .fin q => ratStr q

def getStrs (j : Json) : Except String (List String) := do (← j.getArr?).toList.mapM (·.getStr?)

def objEntries (j : Json) : Except String (List (String × Json)) := do
  let o ← j.getObj?
  pure (o.toList)

def lookupD {β : Type} (l : List (String × β)) (d : β) (k : String) : β :=
  match l.find? (·.1 == k) with
  | some p => p.2
  | none => d

/-- build the initial state from the implementation's dump -/
def initState (j : Json) : Except String St := do
  let univR ← getStrs (← j.getObjVal? "univR")
  let univM ← getStrs (← j.getObjVal? "univM")
  let univG ← getStrs (← j.getObjVal? "univG")
  let revs ← (← objEntries (← j.getObjVal? "rev")).mapM (fun (k, v) => do pure (k, ← v.getStr?))
  let content ← j.getObjVal? "content"
  let rx ← objEntries (← content.getObjVal? "rxns")
  let rxs ← rx.mapM (fun (rid, v) => do
    let lb ← parseEB (← (← v.getObjVal? "lb").getStr?)
    let ub ← parseEB (← (← v.getObjVal? "ub").getStr?)
    let st ← (← objEntries (← v.getObjVal? "st")).mapM (fun (m, c) => do pure (m, ← parseRat (← c.getStr?)))
    let rule ← (← v.getObjVal? "rule").getStr?
    let genes ← getStrs (← v.getObjVal? "genes")
    let g ← match fromString rule with
      | .rule g => pure g
      | .malformed => throw s!"malformed rule {rule}"
    pure (rid, lb, ub, st, g, genes))
  let mets ← (← objEntries (← content.getObjVal? "mets")).mapM (fun (m, v) => do pure (m, ← getStrs (← v.getObjVal? "rx")))
  let genes ← (← objEntries (← content.getObjVal? "genes")).mapM (fun (g, v) => do
    pure (g, ← (← v.getObjVal? "f").getBool?, ← getStrs (← v.getObjVal? "rx")))
  let glpk ← j.getObjVal? "glpk"
  let vars ← (← objEntries (← glpk.getObjVal? "vars")).mapM (fun (n, v) => do
    let a ← v.getArr?
    pure (n, ← parseEB (← a[0]!.getStr?), ← parseEB (← a[1]!.getStr?)))
  let cons ← (← objEntries (← glpk.getObjVal? "cons")).mapM (fun (n, v) => do
    let cs ← (← objEntries (← v.getObjVal? "c")).mapM (fun (x, c) => do pure (x, ← parseRat (← c.getStr?)))
    pure (n, cs))
  let obj ← (← objEntries (← glpk.getObjVal? "obj")).mapM (fun (n, c) => do pure (n, ← parseRat (← c.getStr?)))
  let dir ← (← glpk.getObjVal? "dir").getStr?
  pure {
    univR, univM, univG,
    rev := fun r => lookupD revs (r ++ "_reverse") r,
    hasR := fun r => rxs.any (·.1 == r),
    hasM := fun m => mets.any (·.1 == m),
    hasG := fun g => genes.any (·.1 == g),
    lb := fun r => match rxs.find? (·.1 == r) with | some x => x.2.1 | none => EB.zero,
    ub := fun r => match rxs.find? (·.1 == r) with | some x => x.2.2.1 | none => EB.zero,
    st := fun r m => match rxs.find? (·.1 == r) with | some x => lookupD x.2.2.2.1 0 m | none => 0,
    rule := fun r => match rxs.find? (·.1 == r) with | some x => x.2.2.2.2.1 | none => none,
    rg := fun r g => match rxs.find? (·.1 == r) with | some x => x.2.2.2.2.2.contains g | none => false,
    mr := fun m r => match mets.find? (·.1 == m) with | some x => x.2.contains r | none => false,
    gr := fun g r => match genes.find? (·.1 == g) with | some x => x.2.2.contains r | none => false,
    gf := fun g => match genes.find? (·.1 == g) with | some x => x.2.1 | none => true,
    hasV := fun v => vars.any (·.1 == v),
    vlb := fun v => match vars.find? (·.1 == v) with | some x => x.2.1 | none => EB.zero,
    vub := fun v => match vars.find? (·.1 == v) with | some x => x.2.2 | none => EB.zero,
    hasC := fun c => cons.any (·.1 == c),
    co := fun c v => match cons.find? (·.1 == c) with | some x => lookupD x.2 0 v | none => 0,
    obj := fun v => lookupD obj 0 v,
    dirMax := dir == "max" }

def pairsOf (j : Json) : Except String (List (String × Rat)) := do
  (← j.getArr?).toList.mapM (fun p => do
    let a ← p.getArr?
    pure (← a[0]!.getStr?, ← parseRat (← a[1]!.getStr?)))

def opOfJson (j : Json) : Except String Op := do
  let name ← (← j.getObjVal? "op").getStr?
  let s (k : String) : Except String String := do (← j.getObjVal? k).getStr?
  match name with
  | "set_lb" => pure (.setLb (← s "r") (← parseEB (← s "v")))
  | "set_ub" => pure (.setUb (← s "r") (← parseEB (← s "v")))
  | "set_bounds" => pure (.setBounds (← s "r") (← parseEB (← s "lb")) (← parseEB (← s "ub")))
  | "ko_rxn" => pure (.koRxn (← s "r"))
  | "ko_gene" => pure (.koGene (← s "g"))
  | "ko_genes" => pure (.koGenes (← getStrs (← j.getObjVal? "gs")))
  | "obj_coef" => pure (.objCoef (← s "r") (← parseRat (← s "v")))
  | "set_obj" => pure (.setObj (← pairsOf (← j.getObjVal? "coefs")))
  | "set_dir" =>
    let d ← s "d"
    let l := d.toLower
    pure (.setDir (if d == "max" then .exactMax else if d == "min" then .exactMin
      else if l.startsWith "max" then .maxLike else if l.startsWith "min" then .minLike else .bad))
  | "add_mets" => pure (.addMets (← s "r") (← pairsOf (← j.getObjVal? "mets")) (← (← j.getObjVal? "combine").getBool?) false)
  | "sub_mets" => pure (.addMets (← s "r") (← pairsOf (← j.getObjVal? "mets")) (← (← j.getObjVal? "combine").getBool?) true)
  | "rm_rxn" => pure (.removeRxn (← s "r"))
  | "add_met" => pure (.addMet (← s "m"))
  | "rm_met" => pure (.rmMet (← s "m"))
  | "rm_met_d" => pure (.rmMetD (← s "m"))
  | "rm_rxn_o" => pure (.removeRxnO (← s "r"))
  | "observe" => pure .observe
  | "set_rule" => do
    match fromString (← s "rule") with
    | .rule g => pure (.setRule (← s "r") g)
    | .malformed => throw "malformed rule"
  | "rm_rxns" => pure (.removeRxns (← (← (← j.getObjVal? "rs").getArr?).toList.mapM (·.getStr?)) (← (← j.getObjVal? "orphans").getBool?))
  | "imul" => pure (.imul (← s "r") (← parseRat (← s "k")))
  | "add_rxn" => pure (.addRxn (← s "r") (← parseEB (← s "lb")) (← parseEB (← s "ub")) (← pairsOf (← j.getObjVal? "st")))
  | "remove_genes" => pure (.removeGenes (← getStrs (← j.getObjVal? "gs")) (← (← j.getObjVal? "rr").getBool?))
  | "add_rxn_r" => do
    match fromString (← s "rule") with
    | .rule g => pure (.addRxnR (← s "r") (← parseEB (← s "lb")) (← parseEB (← s "ub")) (← pairsOf (← j.getObjVal? "st")) g)
    | .malformed => throw "malformed rule"
  | "add_boundary" => do
    let t ← match (← s "type") with
      | "exchange" => pure BType.exchange
      | "demand" => pure BType.demand
      | "sink" => pure BType.sink
      | o => throw s!"unmodelled boundary type {o}"
    pure (.addBoundary (← s "m") t (← (← j.getObjVal? "external").getBool?) (← parseEB (← s "dlb")) (← parseEB (← s "dub")))
  | "enter" => pure .enter
  | "exit" => pure .exit
  | _ => throw s!"unmodelled op {name}"

def errStr : Option Err → Json
  | none => Json.null
  | some .value => "ValueError" | some .key => "KeyError" | some .index => "IndexError"
  | some .attr => "AttributeError" | some .type => "TypeError"

def sortStrs (l : List String) : List String := (l.toArray.qsort (· < ·)).toList

/-- dump the state over the pools, in the shape of `canon.py`'s projection -/
def dump (s : St) : Json :=
  let rids := sortStrs (s.univR.filter s.hasR)
  let mids := sortStrs (s.univM.filter s.hasM)
  let gids := sortStrs (s.univG.filter s.hasG)
  let varNames := sortStrs ((s.univR ++ s.univR.map s.rev).filter s.hasV)
  let rx := rids.map (fun r => (r, Json.mkObj [
    ("lb", ebStr (s.lb r)), ("ub", ebStr (s.ub r)),
    ("st", Json.mkObj ((sortStrs s.univM).filterMap (fun m => if s.st r m ≠ 0 then some (m, Json.str (ratStr (s.st r m))) else none))),
    ("genes", Json.arr ((sortStrs (s.univG.filter (s.rg r))).map Json.str).toArray),
    ("obj", ratStr (s.obj r))]))
  let me := mids.map (fun m => (m, Json.arr ((sortStrs (s.univR.filter (s.mr m))).map Json.str).toArray))
  let ge := gids.map (fun g => (g, Json.mkObj [("f", Json.bool (s.gf g)),
    ("rx", Json.arr ((sortStrs (s.univR.filter (s.gr g))).map Json.str).toArray)]))
  let vars := varNames.map (fun v => (v, Json.arr #[Json.str (ebStr (s.vlb v)), Json.str (ebStr (s.vub v))]))
  let cons := (sortStrs (s.univM.filter s.hasC)).map (fun c => (c, Json.mkObj (varNames.filterMap (fun v =>
    if s.co c v ≠ 0 then some (v, Json.str (ratStr (s.co c v))) else none))))
  let obj := varNames.filterMap (fun v => if s.obj v ≠ 0 then some (v, Json.str (ratStr (s.obj v))) else none)
  Json.mkObj [("rxns", Json.mkObj rx), ("mets", Json.mkObj me), ("genes", Json.mkObj ge),
    ("vars", Json.mkObj vars), ("cons", Json.mkObj cons), ("obj", Json.mkObj obj),
    ("dir", if s.dirMax then "max" else "min")]

partial def loop (h : IO.FS.Stream) (y : Option Sys) : IO Unit := do
  let line ← h.getLine
  if line.isEmpty then return ()
  match Json.parse line.trimAscii.toString with
  | .error e => IO.println (Json.mkObj [("bad-line", Json.str e)]).compress; loop h y
  | .ok j =>
    match (j.getObjVal? "op" >>= (·.getStr?)) with
    | .ok "init" =>
      match initState j with
      | .ok s =>
        -- an `init` inside a trace re-synchronises the content; open contexts are kept only if asked for
        -- (as many as the implementation has open at that moment: `depth`; what they recorded so far is not known to the model, their exits are
        -- not compared)
        let keep := (j.getObjVal? "keep_ctx" >>= (·.getBool?)).toOption.getD false
        let depth := (j.getObjVal? "depth" >>= (·.getNat?)).toOption
        let ctx : List (List Undo) := match depth, y with
          | some d, _ => if keep then List.replicate d [] else []
          | none, some y0 => if keep then y0.ctx.map (fun _ => []) else []
          | none, none => []
        IO.println (Json.mkObj [("err", Json.null), ("state", dump s)]).compress
        loop h (some { s := s, ctx := ctx })
      | .error e => IO.println (Json.mkObj [("bad-init", Json.str e)]).compress; loop h y
    | _ =>
      match y, opOfJson j with
      | some y0, .ok op =>
        let (y1, e) := apply y0 op
        IO.println (Json.mkObj [("err", errStr e), ("depth", Json.num y1.ctx.length), ("state", dump y1.s)]).compress
        loop h (some y1)
      | _, .error e => IO.println (Json.mkObj [("unmodelled", Json.str e)]).compress; loop h y
      | none, _ => IO.println (Json.mkObj [("bad-line", "no state")]).compress; loop h y

def run : IO Unit := do loop (← IO.getStdin) none

end CoreDriver

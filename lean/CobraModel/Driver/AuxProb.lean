import Lean.Data.Json
import CobraModel.Model.AuxProb
import CobraModel.Model.Fastcc
import CobraModel.Model.Resettable
import CobraModel.Model.Reply
/-! Line-protocol driver of the auxiliary-problem builders: a model description and a builder call per line,
the whole solver problem out (same shape as `harness/canon.glpk_dump`). -/
open Lean AuxM Core

namespace AuxDriver

def parseRat (s : String) : Except String Rat :=
  match s.splitOn "/" with
  | [a] => match a.toInt? with
    | some n => pure (n : Rat)
    | none => throw s!"bad number {s}"
  | [a, b] => match a.toInt?, b.toNat? with
    | some n, some d => pure ((n : Rat) / (d : Rat))
    | _, _ => throw s!"bad number {s}"
  | _ => throw s!"bad number {s}"

def ratStr (q : Rat) : String := if q.den == 1 then toString q.num else s!"{q.num}/{q.den}"

def parseEB (s : String) : Except String EB :=
  if s == "inf" then pure .pinf else if s == "-inf" then pure .ninf else do pure (.fin (← parseRat s))

def ebStr : EB → String
  | .ninf => "-inf"
  | .pinf => "inf"
  | .fin q => ratStr q

def ratOf (j : Json) (k : String) : Except String Rat := do parseRat (← (← j.getObjVal? k).getStr?)
def ratsOf (j : Json) (k : String) : Except String (List Rat) := do
  (← (← j.getObjVal? k).getArr?).toList.mapM (fun x => do parseRat (← x.getStr?))
def natsOf (j : Json) (k : String) : Except String (List Nat) := do
  (← (← j.getObjVal? k).getArr?).toList.mapM (fun x => x.getNat?)

def rxnOf (j : Json) : Except String Rxn := do
  let st ← (← (← j.getObjVal? "st").getArr?).toList.mapM (fun p => do
    let a ← p.getArr?
    if a.size != 2 then throw "bad stoichiometry entry"
    pure (← a[0]!.getStr?, ← parseRat (← a[1]!.getStr?)))
  pure { id := ← (← j.getObjVal? "id").getStr?, rev := ← (← j.getObjVal? "rev").getStr?,
         lb := ← parseEB (← (← j.getObjVal? "lb").getStr?), ub := ← parseEB (← (← j.getObjVal? "ub").getStr?), st }

def netOf (j : Json) : Except String Net := do
  let rxns ← (← (← j.getObjVal? "rxns").getArr?).toList.mapM rxnOf
  let mets ← (← (← j.getObjVal? "mets").getArr?).toList.mapM (fun x => x.getStr?)
  let obj ← (← (← j.getObjVal? "obj").getArr?).toList.mapM (fun p => do
    let a ← p.getArr?
    if a.size != 2 then throw "bad objective entry"
    pure (← a[0]!.getNat?, ← parseRat (← a[1]!.getStr?)))
  pure { rxns, mets, obj, dirMax := (← (← j.getObjVal? "dir").getStr?) == "max" }

/-- coefficients by solver name, equal names summed, zeros dropped -/
def combine (nm : V → String) (co : List (V × Rat)) : List (String × Rat) :=
  let acc := co.foldl (fun (a : List (String × Rat)) p =>
    let k := nm p.1
    if a.any (fun q => q.1 == k) then a.map (fun q => if q.1 == k then (q.1, q.2 + p.2) else q) else a ++ [(k, p.2)]) []
  acc.filter (fun q => q.2 != 0)

def coJson (nm : V → String) (co : List (V × Rat)) : Json :=
  Json.mkObj ((combine nm co).map (fun q => (q.1, Json.str (ratStr q.2))))

def kindStr (v : Var) : String :=
  match v.kind with
  | .cont => "continuous"
  | .int => "integer"
  | .bin => "binary"

def probJson (nm : V → String) (p : Prob) : Json :=
  Json.mkObj [
    ("vars", Json.mkObj (p.vars.map (fun v => (nm v.v, Json.arr #[Json.str (ebStr v.lb), Json.str (ebStr v.ub), Json.str (kindStr v)])))),
    ("nvars", Json.num p.vars.length),
    ("cons", Json.mkObj (p.rows.map (fun r => (r.name, Json.mkObj [("b", Json.arr #[Json.str (ebStr r.lb), Json.str (ebStr r.ub)]), ("c", coJson nm r.co)])))),
    ("ncons", Json.num p.rows.length),
    ("obj", coJson nm p.obj),
    ("dir", Json.str (if p.dirMax then "max" else "min"))]

def ratsJ (l : List Rat) : Json := Json.arr (l.map (fun q => Json.str (ratStr q))).toArray
def bndJ (b : EB × EB) : Json := Json.arr #[Json.str (ebStr b.1), Json.str (ebStr b.2)]

def samplerJson (sp : SamplerProb) : Json :=
  Json.mkObj [("equalities", Json.arr (sp.equalities.map ratsJ).toArray), ("b", ratsJ sp.b),
    ("inequalities", Json.arr (sp.inequalities.map ratsJ).toArray), ("bounds", Json.arr (sp.bounds.map bndJ).toArray),
    ("fixed", Json.arr (sp.fixed.map Json.bool).toArray), ("var_bounds", Json.arr (sp.varBounds.map bndJ).toArray),
    ("homogeneous", Json.bool sp.homogeneous)]

def extraOf (j : Json) : Except String Row := do
  let co ← (← (← j.getObjVal? "co").getArr?).toList.mapM (fun p => do
    let a ← p.getArr?
    if a.size != 2 then throw "bad coefficient entry"
    pure (← a[0]!.getNat?, ← parseRat (← a[1]!.getStr?)))
  pure (extraRow (← (← j.getObjVal? "name").getStr?) (← parseEB (← (← j.getObjVal? "lb").getStr?)) (← parseEB (← (← j.getObjVal? "ub").getStr?)) co)

def pairsOf (j : Json) (k : String) : Except String (List (Nat × Bool)) := do
  (← (← j.getObjVal? k).getArr?).toList.mapM (fun p => do
    let a ← p.getArr?
    if a.size != 2 then throw "bad exchange entry"
    pure (← a[0]!.getNat?, ← a[1]!.getBool?))

/-- the problem a line asks for, with the naming of its variables -/
def build (j : Json) : Except String ((V → String) × Prob) := do
  let n ← netOf (← j.getObjVal? "net")
  let b ← (← j.getObjVal? "build").getStr?
  let old := (j.getObjValAs? String "old").toOption.getD "old_objective"
  let nm := n.vname old
  match b with
  | "fba" => pure (nm, n.fba)
  | "fix" => pure (nm, n.fixObjective (← (← j.getObjVal? "name").getStr?) (← ratOf j "t"))
  | "pfba" => pure (nm, n.pfba (← (← j.getObjVal? "name").getStr?) (← ratOf j "t"))
  | "fvaSetup" | "fvaStep" =>
    let t ← ratOf j "t"
    let cap ← match j.getObjVal? "cap" with
      | .ok c => if c.isNull then pure none else do pure (some (← parseRat (← c.getStr?)))
      | .error _ => pure none
    if b == "fvaSetup" then pure (nm, n.fvaSetup t cap)
    else pure (nm, n.fvaStep t cap (← (← j.getObjVal? "i").getNat?) (← (← j.getObjVal? "max").getBool?))
  | "moma" => pure (nm, n.moma (← ratsOf j "ref"))
  | "room" => pure (nm, n.room (← ratsOf j "ref") (← ratOf j "old_value") (← ratOf j "tol")
      (← (← j.getObjVal? "linear").getBool?) (← ratOf j "delta") (← ratOf j "eps"))
  | "cycleFree" => pure (nm, n.cycleFree (← ratsOf j "fluxes") (← ratOf j "opt"))
  | "mediumLinear" | "mediumMip" =>
    let ex ← pairsOf j "exch"
    let n' ← match j.getObjVal? "open" with
      | .ok c => if c.isNull then pure n else do pure (n.openExchanges ex (← parseRat (← c.getStr?)))
      | .error _ => pure n
    if b == "mediumLinear" then pure (n'.vname old, n'.mediumLinear ex (← ratOf j "min_obj"))
    else pure (n'.vname old, n'.mediumMip ex (← ratOf j "min_obj") (n'.bigM ex))
  | "fastcc" => pure (nm, n.fastcc (← natsOf j "sub") (← ratOf j "thr") (← natsOf j "flip") (← (← j.getObjVal? "flipped").getBool?))
  | "reactionDeletion" => pure (nm, n.reactionDeletion (← natsOf j "closed"))
  | "geneDeletion" =>
    let rules ← (← (← j.getObjVal? "rules").getArr?).toList.mapM (fun r => do
      match GPRM.fromString (← r.getStr?) with
      | .rule g => pure g
      | .malformed => throw "malformed rule")
    let ko ← (← (← j.getObjVal? "ko").getArr?).toList.mapM (fun x => x.getStr?)
    pure (nm, n.geneDeletion rules ko)
  | "fbaWith" =>
    let extra ← (← (← j.getObjVal? "extra").getArr?).toList.mapM extraOf
    pure (nm, n.fbaWith extra)
  | "loopless" =>
    let ns ← (← (← j.getObjVal? "ns").getArr?).toList.mapM (fun r => do (← r.getArr?).toList.mapM (fun x => do parseRat (← x.getStr?)))
    pure (nm, n.loopless ns (← ratOf j "cutoff"))
  | _ => throw s!"unknown builder {b}"


def denseJson (p : Prob) : Json :=
  let d := p.toDense
  let ob (o : Option Rat) : Json := match o with | some q => Json.str (ratStr q) | none => Json.null
  Json.mkObj [("n", Json.num d.n), ("vb", Json.arr (d.vb.map (fun b => Json.arr #[ob b.lo, ob b.hi])).toArray),
    ("rows", Json.arr (d.rows.map (fun r => Json.arr #[ratsJ r.1, ob r.2.lo, ob r.2.hi])).toArray), ("obj", ratsJ d.obj),
    ("closed", Json.bool p.closedB), ("max", Json.bool p.dirMax)]

def handle (j : Json) : Except String Json := do
  let b ← (← j.getObjVal? "build").getStr?
  if b == "fastccLoop" then
    -- the bookkeeping of fastcc's main loop around the recorded answers of its solves
    let answers ← (← (← j.getObjVal? "answers").getArr?).toList.mapM (fun r => do (← r.getArr?).toList.mapM (fun x => x.getNat?))
    let res := FastccM.fastcc (← natsOf j "all") (← natsOf j "irr") answers
    let nats := fun (l : List Nat) => Json.arr (l.map (fun (n : Nat) => Json.num (JsonNumber.fromNat n))).toArray
    return Json.mkObj [("kept", nats res.kept), ("complete", Json.bool res.complete),
      ("calls", Json.arr (res.calls.map (fun c => Json.mkObj [("j", nats c.j), ("flipped", Json.bool c.flipped), ("ans", nats c.ans)])).toArray)]
  if b == "checkStatus" then
    -- check_solver_status(status, raise_error): null = returns, otherwise the exception class
    let st := (j.getObjValAs? String "status").toOption
    let r ← (← j.getObjVal? "raise").getBool?
    return Json.mkObj [("raises", match ReplyM.checkSolverStatus st r with | none => Json.null | some e => Json.str e)]
  if b == "findBlocked" then
    -- find_blocked_reactions around its two external computations: first solution and ranges in, reported reactions out
    let sol ← ratsOf j "sol"
    let lo ← ratsOf j "lo"
    let hi ← ratsOf j "hi"
    let res := BlockedM.blocked (← ratOf j "cut") (fun i => sol.getD i 0) (fun i => (lo.getD i 0, hi.getD i 0)) (← natsOf j "req")
    let fva := BlockedM.toFva (← ratOf j "cut") (fun i => sol.getD i 0) (← natsOf j "req")
    return Json.mkObj [("blocked", Json.arr (res.map (fun (n : Nat) => Json.num (JsonNumber.fromNat n))).toArray),
      ("to_fva", Json.arr (fva.map (fun (n : Nat) => Json.num (JsonNumber.fromNat n))).toArray)]
  if b == "resettable" then
    -- a bound setter under `resettable` inside one context: the assignments, then `__exit__`
    let vals ← (← (← j.getObjVal? "vals").getArr?).toList.mapM (fun x => do
      let t ← x.getStr?
      if t == "junk" then pure (ResetM.Val.junk 0) else pure (ResetM.Val.num (← parseRat t)))
    -- every refused value is a value of its own (NaN is not equal to NaN: the wrapper's "unchanged" test never fires for it)
    let vals := vals.zipIdx.map (fun (p : ResetM.Val × Nat) => match p.1 with | .junk _ => ResetM.Val.junk p.2 | x => x)
    let valJ := fun (v : ResetM.Val) => match v with | .num q => Json.str (ratStr q) | .junk _ => Json.str "junk"
    let stJ := fun (s : ResetM.St) => Json.mkObj [("field", valJ s.field), ("solver", Json.str (ratStr s.solver))]
    let step := if (j.getObjValAs? Bool "late").toOption.getD false then ResetM.setLate else ResetM.set
    let (s, oks) := vals.foldl (fun (acc : ResetM.St × List Bool) v => let r := step acc.1 v; (r.1, acc.2 ++ [r.2])) (ResetM.init (← ratOf j "q0"), [])
    let e := ResetM.exit s
    return Json.mkObj [("oks", Json.arr (oks.map Json.bool).toArray), ("inside", stJ s), ("exit_ok", Json.bool e.2), ("after", stJ e.1)]
  if b == "sampler" then
    let n ← netOf (← j.getObjVal? "net")
    let extra ← (← (← j.getObjVal? "extra").getArr?).toList.mapM extraOf
    return samplerJson ((n.fbaWith extra).sampler (← ratOf j "tol"))
  let (nm, p) ← build j
  match (j.getObjValAs? String "want").toOption.getD "problem" with
  | "problem" => pure (probJson nm p)
  | "dense" => pure (denseJson p)
  | "cert" =>
    -- a certificate for the problem the builder produces: accepted only through `Prob.certOpt` / `Prob.certInfeas` (soundness: Lemmas/AuxProb.lean)
    let kind ← (← j.getObjVal? "kind").getStr?
    if kind == "optimal" then
      let xs ← ratsOf j "x"
      let ys ← ratsOf j "y"
      let ok := p.certOpt xs ys
      pure (Json.mkObj [("ok", Json.bool ok), ("value", Json.str (ratStr (LPM.dot (p.dense p.obj) xs)))])
    else if kind == "infeasible" then
      pure (Json.mkObj [("ok", Json.bool (p.certInfeas (← ratsOf j "y")))])
    else
      -- unbounded: a feasible point and an improving ray of the dense form
      pure (Json.mkObj [("ok", Json.bool (p.closedB && p.toDense.checkUnbdd (← ratsOf j "x") (← ratsOf j "z")))])
  | "leaves" =>
    -- mixed-integer problem: the leaf problems (binary variables fixed) in the order of `allAssign p.binVars`, dense
    pure (Json.mkObj [("leaves", Json.arr ((allAssign p.binVars).map (fun a => denseJson (p.fix a))).toArray), ("bins", Json.num p.binVars.length),
      ("min", Json.bool (!p.dirMax))])
  | "certmilp" =>
    let cs ← (← (← j.getObjVal? "certs").getArr?).toList.mapM (fun c => do
      let kind ← (← c.getObjVal? "kind").getStr?
      if kind == "optimal" then pure (LeafCert.opt (← ratsOf c "x") (← ratsOf c "y"))
      else if kind == "infeasible" then pure (LeafCert.infeas (← ratsOf c "y"))
      else throw "a leaf certificate is optimal or infeasible")
    pure (Json.mkObj [("ok", Json.bool (p.certLeavesMin cs (← ratOf j "L")))])
  | w => throw s!"unknown request {w}"

partial def loop (h : IO.FS.Stream) : IO Unit := do
  let line ← h.getLine
  if line.isEmpty then return ()
  match Json.parse line.trimAscii.toString >>= handle with
  | .error e => IO.println (Json.mkObj [("bad-line", Json.str e)]).compress
  | .ok r => IO.println r.compress
  (← IO.getStdout).flush
  loop h

def run : IO Unit := do loop (← IO.getStdin)
end AuxDriver

import Lean.Data.Json
import CobraModel.Model.Medium
/-! Line-protocol driver for the medium getter / setter and the big-M constant. -/
open Lean MediumM

namespace MediumDriver

def parseRat (s : String) : Except String Rat :=
  match s.splitOn "/" with
  | [a] => match a.toInt? with
    | some n => pure (n : Rat)
    | none => throw s!"bad number {s}"
  | [a, b] => match a.toInt?, b.toNat? with
    | some n, some d => pure ((n : Rat) / (d : Rat))
    | _, _ => throw s!"bad number {s}"
  | _ => throw s!"bad number {s}"

def ratStr (q : Rat) : String := if q.den == 1 then toString q.num else s!"{q.num}/{q.den}"

def exOf (j : Json) : Except String (String × Ex) := do
  let a ← j.getArr?
  if a.size != 4 then throw "bad exchange"
  pure (← a[0]!.getStr?, { isReactant := ← a[1]!.getBool?, lb := ← parseRat (← a[2]!.getStr?), ub := ← parseRat (← a[3]!.getStr?) })

def pairOf (j : Json) : Except String (String × Rat) := do
  let a ← j.getArr?
  if a.size != 2 then throw "bad pair"
  pure (← a[0]!.getStr?, ← parseRat (← a[1]!.getStr?))

def medJson (m : List (String × Rat)) : Json :=
  Json.arr (m.map (fun p => Json.arr #[Json.str p.1, Json.str (ratStr p.2)])).toArray

def handle (j : Json) : Except String Json := do
  let exs ← (← (← j.getObjVal? "exs").getArr?).toList.mapM exOf
  let med ← (← (← j.getObjVal? "med").getArr?).toList.mapM pairOf
  let after := setMedium exs med
  pure (Json.mkObj [
    ("before", medJson (getMedium exs)),
    ("set", Json.arr (after.map (fun p => Json.arr #[Json.str p.1, Json.str (ratStr p.2.lb), Json.str (ratStr p.2.ub)])).toArray),
    ("after", medJson (getMedium after)),
    ("bigm", Json.str (ratStr (bigM exs)))])

partial def loop (h : IO.FS.Stream) : IO Unit := do
  let line ← h.getLine
  if line.isEmpty then return ()
  match Json.parse line.trimAscii.toString >>= handle with
  | .error e => IO.println (Json.mkObj [("bad-line", Json.str e)]).compress
  | .ok r => IO.println r.compress
  (← IO.getStdout).flush
  loop h

def run : IO Unit := do loop (← IO.getStdin)
end MediumDriver

import Lean.Data.Json
import CobraModel.Model.SbmlId
/-! Line-protocol driver for the SBML identifier layer. -/
open Lean SbmlId

namespace SbmlIdDriver

def parseKind : String → Except String Kind
  | "gene" => pure .gene | "specie" => pure .specie | "reaction" => pure .reaction | "group" => pure .group
  | k => throw s!"bad kind {k}"

def handle (j : Json) : Except String Json := do
  let k ← parseKind (← (← j.getObjVal? "kind").getStr?)
  let s := (← (← j.getObjVal? "id").getStr?).toList
  let e := fRev k s
  let back := match f k e with
    | some b => Json.str (String.ofList b)
    | none => Json.null
  pure (Json.mkObj [("escaped", Json.str (String.ofList e)), ("back", back), ("safe", Json.bool (SafeId k s))])

partial def loop (h : IO.FS.Stream) : IO Unit := do
  let line ← h.getLine
  if line.isEmpty then return ()
  match Json.parse line.trimAscii.toString >>= handle with
  | .error e => IO.println (Json.mkObj [("bad-line", Json.str e)]).compress
  | .ok r => IO.println r.compress
  loop h

def run : IO Unit := do loop (← IO.getStdin)
end SbmlIdDriver

import CobraModel.Model.Core
/-!
# Model of `cobra.io.dict._reaction_to_dict` / `_reaction_from_dict`

A reaction is written as an ordered dictionary: required keys (`id`, `name`, `metabolites`, `lower_bound`, `upper_bound`,
`gene_reaction_rule`), then the optional keys that differ from their defaults (`objective_coefficient`, `subsystem`).
An infinite bound is written as text (`str(float)` = `"inf"` / `"-inf"`). Loading starts from a default reaction and, after
the repair, sets both bounds together; `fromDictOld` is the pinned behaviour (one bound at a time against the default
`(0, 1000)`).
-/
namespace DictIO
open Core

inductive Val where
  | str (s : String)
  | num (q : Rat)
  | mets (kv : List (String × Rat))
deriving DecidableEq, Repr

structure Rxn where
  id : String
  name : String
  lb : EB
  ub : EB
  mets : List (String × Rat)
  rule : String
  obj : Rat
  subsystem : String
deriving DecidableEq, Repr

def boundVal : EB → Val
  | .fin q => .num q
  | .pinf => .str "inf"
  | .ninf => .str "-inf"

/-- `_reaction_to_dict` -/
def toDict (r : Rxn) : List (String × Val) :=
  [("id", .str r.id), ("name", .str r.name), ("metabolites", .mets r.mets), ("lower_bound", boundVal r.lb),
   ("upper_bound", boundVal r.ub), ("gene_reaction_rule", .str r.rule)] ++
  (if r.obj = 0 then [] else [("objective_coefficient", .num r.obj)]) ++
  (if r.subsystem = "" then [] else [("subsystem", .str r.subsystem)])

/-- `float(v)` -/
def floatOf : Val → Option EB
  | .num q => some (.fin q)
  | .str s => if s = "inf" then some .pinf else if s = "-inf" then some .ninf else none
  | .mets _ => none

def get (d : List (String × Val)) (k : String) : Option Val := (d.find? (fun p => p.1 == k)).map (·.2)

def strOf : Option Val → String
  | some (.str s) => s
  | _ => ""

/-- `_reaction_from_dict` (repaired): every key is set on a default reaction, then both bounds together; the
objective coefficient is applied by `model_from_dict` through `set_objective` -/
def fromDict (d : List (String × Val)) : Option Rxn :=
  let lb := match get d "lower_bound" with | some v => floatOf v | none => some (.fin 0)
  let ub := match get d "upper_bound" with | some v => floatOf v | none => some (.fin 1000)
  match lb, ub with
  | some lb, some ub =>
    if EB.lt ub lb then none else
    some { id := strOf (get d "id"), name := strOf (get d "name"), lb := lb, ub := ub,
           mets := match get d "metabolites" with | some (.mets kv) => kv | _ => [],
           rule := strOf (get d "gene_reaction_rule"),
           obj := match get d "objective_coefficient" with | some (.num q) => q | _ => 0,
           subsystem := strOf (get d "subsystem") }
  | _, _ => none

/-- the pinned behaviour: `lower_bound` is assigned first, checked against the default upper bound 1000; then
`upper_bound`, checked against the new lower bound -/
def fromDictOld (d : List (String × Val)) : Option Rxn :=
  match fromDict d with
  | none => none
  | some r => if EB.lt (.fin 1000) r.lb then none else some r

end DictIO

import CobraModel.Model.Core
import CobraModel.Model.LP
/-!
# The auxiliary problems the analyses of `cobra.flux_analysis` / `cobra.medium` hand to the solver

A `Net` is the content of a model as far as the solver is concerned: reactions (identifier, name of the reverse
variable, bounds, stoichiometry), metabolites, objective coefficients, direction.  A `Prob` is a solver problem:
variables with boxes and kinds, named rows with bounds and linear coefficients, a linear objective, a direction.

Each builder follows the statements of the function it is named after and yields the *whole* problem as the
solver holds it when that function is done — variables, rows, names, bounds, coefficients, objective, direction:

* `Net.fba`               — `Model._populate_solver` + `update_variable_bounds` + `set_objective`
* `Net.fixObjective`      — `util.solver.fix_objective_as_constraint`
* `Net.pfba`              — `flux_analysis.parsimonious.add_pfba`
* `Net.fvaSetup/fvaStep`  — the set-up block of `flux_variability_analysis`, `_init_worker` and `_fva_step`
* `Net.moma`              — `add_moma(linear=True)` with `util.solver.add_absolute_expression`
* `Net.room`              — `add_room` (MILP and linear variant)
* `Net.cycleFree`         — `loopless_solution`: objective row + `_add_cycle_free`
* `Net.mediumLinear/Mip`  — `minimal_medium`: objective row + `add_linear_obj` / `add_mip_obj`
* `Net.fastcc`            — `_find_sparse_mode` (LP-7) and `_flip_coefficients`

`harness/auxcorr.py` reads the raw GLPK problem at the moment cobrapy asks GLPK to solve it and compares it,
entry by entry, with what these builders print (`Driver/AuxProb.lean`).  The theorems about these problems are in
`Lemmas/AuxProb.lean` and the property files.

Variables are an inductive type (`fwd i`, `rev i`, `dist i`, …) rather than strings, so that distinctness of
variables is a fact of the model and not a hypothesis; the names the solver sees are produced by `vname`.
-/
namespace AuxM
open Core (EB splitBounds)

inductive V where
  | fwd (i : Nat)     -- forward variable of reaction `i` (named by the reaction id)
  | rev (i : Nat)     -- reverse variable of reaction `i`
  | oldObj            -- `fva_old_objective` / `moma_old_objective` / `room_old_objective`
  | fluxSum           -- `flux_sum`
  | dist (i : Nat)    -- `moma_dist_<id>`
  | y (i : Nat)       -- `y_<id>` (ROOM)
  | ind (i : Nat)     -- `ind_<id>` (minimal medium, MIP)
  | auxv (i : Nat)    -- `auxiliary_<id>` (fastcc)
  | indicator (i : Nat)  -- `indicator_<id>` (add_loopless)
  | deltaG (i : Nat)  -- `delta_g_<id>` (add_loopless)
deriving DecidableEq, Repr

inductive Kind where
  | cont | int | bin
deriving DecidableEq, Repr

structure Rxn where
  id : String
  rev : String
  lb : EB
  ub : EB
  st : List (String × Rat)
deriving Repr

structure Net where
  rxns : List Rxn
  mets : List String
  obj : List (Nat × Rat)       -- reaction index ↦ objective coefficient
  dirMax : Bool

structure Var where
  v : V
  lb : EB
  ub : EB
  kind : Kind

structure Row where
  name : String
  lb : EB
  ub : EB
  co : List (V × Rat)

structure Prob where
  vars : List Var
  rows : List Row
  obj : List (V × Rat)
  dirMax : Bool

def Net.idx (n : Net) : List Nat := List.range n.rxns.length
def Net.rx (n : Net) (i : Nat) : Rxn := n.rxns.getD i ⟨"", "", .fin 0, .fin 0, []⟩
def coefOf (st : List (String × Rat)) (m : String) : Rat := (st.lookup m).getD 0

/-- `c * reaction.flux_expression` -/
def flux (i : Nat) (c : Rat) : List (V × Rat) := [(.fwd i, c), (.rev i, -c)]

/-- the objective expression of the model: `Σ c_i (forward_i − reverse_i)` -/
def Net.objExpr (n : Net) : List (V × Rat) := n.obj.flatMap (fun p => flux p.1 p.2)

/-- the forward and reverse variables with the boxes `update_variable_bounds` gives them -/
def Net.pairVars (n : Net) (i : Nat) : List Var :=
  let b := splitBounds (n.rx i).lb (n.rx i).ub
  [⟨.fwd i, b.1.1, b.1.2, .cont⟩, ⟨.rev i, b.2.1, b.2.2, .cont⟩]

def Net.fbaVars (n : Net) : List Var := n.idx.flatMap n.pairVars

/-- the row of metabolite `m`: `Σ s_{m,i} (forward_i − reverse_i) = 0` -/
def Net.metRow (n : Net) (m : String) : Row :=
  ⟨m, .fin 0, .fin 0, n.idx.flatMap (fun i => flux i (coefOf (n.rx i).st m))⟩

/-- the flux-balance problem of the model -/
def Net.fba (n : Net) : Prob := ⟨n.fbaVars, n.mets.map n.metRow, n.objExpr, n.dirMax⟩

/-- `Σ (forward_i + reverse_i)` over all reactions -/
def Net.allFlux (n : Net) : List (V × Rat) := n.idx.flatMap (fun i => [(.fwd i, 1), (.rev i, 1)])

/-- the row of `fix_objective_as_constraint`: the objective expression at or beyond `t` in the model's direction -/
def Net.fixRow (n : Net) (name : String) (t : Rat) : Row :=
  if n.dirMax then ⟨name, .fin t, .pinf, n.objExpr⟩ else ⟨name, .ninf, .fin t, n.objExpr⟩

def Net.fixObjective (n : Net) (name : String) (t : Rat) : Prob :=
  { n.fba with rows := n.fba.rows ++ [n.fixRow name t] }

/-- `add_pfba`: objective fixed at `t`, new objective `min Σ (forward + reverse)` -/
def Net.pfba (n : Net) (name : String) (t : Rat) : Prob :=
  { n.fixObjective name t with obj := n.allFlux, dirMax := false }

/-- `objective.expression − old_objective_variable = 0` -/
def Net.oldObjRow (n : Net) (name : String) : Row := ⟨name, .fin 0, .fin 0, n.objExpr ++ [(.oldObj, -1)]⟩

/-- the variable `fva_old_objective`: bounded by `t = fraction × optimum` on the side of the direction -/
def Net.fvaOldVar (n : Net) (t : Rat) : Var :=
  if n.dirMax then ⟨.oldObj, .fin t, .pinf, .cont⟩ else ⟨.oldObj, .ninf, .fin t, .cont⟩

def capVars : Option Rat → List Var
  | none => []
  | some c => [⟨.fluxSum, .ninf, .fin c, .cont⟩]

def Net.capRows (n : Net) : Option Rat → List Row
  | none => []
  | some _ => [⟨"flux_sum_constraint", .fin 0, .fin 0, n.allFlux ++ [(.fluxSum, -1)]⟩]

/-- the problem after the set-up block of `flux_variability_analysis` (objective replaced by zero) -/
def Net.fvaSetup (n : Net) (t : Rat) (cap : Option Rat) : Prob :=
  { vars := n.fba.vars ++ [n.fvaOldVar t] ++ capVars cap,
    rows := n.fba.rows ++ [n.oldObjRow "fva_old_objective_constraint"] ++ n.capRows cap,
    obj := [], dirMax := n.dirMax }

/-- the problem `_fva_step` solves for reaction `i` after `_init_worker` set the direction -/
def Net.fvaStep (n : Net) (t : Rat) (cap : Option Rat) (i : Nat) (maximise : Bool) : Prob :=
  { n.fvaSetup t cap with obj := flux i 1, dirMax := maximise }

/-- the two rows of `add_absolute_expression(flux_expression, name = "moma_dist_<id>", difference = ref)` -/
def Net.momaRows (n : Net) (ref : List Rat) (i : Nat) : List Row :=
  [⟨"abs_pos_moma_dist_" ++ (n.rx i).id, .ninf, .fin (ref.getD i 0), flux i 1 ++ [(.dist i, -1)]⟩,
   ⟨"abs_neg_moma_dist_" ++ (n.rx i).id, .fin (ref.getD i 0), .pinf, flux i 1 ++ [(.dist i, 1)]⟩]

/-- `add_moma(linear=True)` with reference fluxes `ref` -/
def Net.moma (n : Net) (ref : List Rat) : Prob :=
  { vars := n.fba.vars ++ [⟨.oldObj, .ninf, .pinf, .cont⟩] ++ n.idx.map (fun i => ⟨.dist i, .fin 0, .pinf, .cont⟩),
    rows := n.fba.rows ++ [n.oldObjRow "moma_old_objective_constraint"] ++ n.idx.flatMap (n.momaRows ref),
    obj := n.idx.map (fun i => (.dist i, 1)), dirMax := false }

def absR (q : Rat) : Rat := if q < 0 then -q else q

def EB.toRat : EB → Rat
  | .fin q => q
  | _ => 0

/-- the reference flux `add_room` works with: one that misses a bound by less than the tolerance sits on the bound -/
def roomFlux (tol : Rat) (lb ub : EB) (w : Rat) : Rat :=
  match ub, lb with
  | .fin u, .fin l => if absR (w - u) < tol then u else if absR (w - l) < tol then l else w
  | .fin u, _ => if absR (w - u) < tol then u else w
  | _, .fin l => if absR (w - l) < tol then l else w
  | _, _ => w

/-- the two rows of `add_room` for reaction `i` (finite bounds) -/
def Net.roomRows (n : Net) (ref : List Rat) (tol delta eps : Rat) (i : Nat) : List Row :=
  let r := n.rx i
  let w := roomFlux tol r.lb r.ub (ref.getD i 0)
  let wu := w + delta * absR w + eps
  let wl := w - delta * absR w - eps
  [⟨"room_constraint_upper_" ++ r.id, .ninf, .fin wu, flux i 1 ++ [(.y i, -(EB.toRat r.ub - wu))]⟩,
   ⟨"room_constraint_lower_" ++ r.id, .fin wl, .pinf, flux i 1 ++ [(.y i, -(EB.toRat r.lb - wl))]⟩]

/-- `add_room`: old objective bounded above by its value in the reference, indicator (or relaxed) `y`, rows (1), (2) -/
def Net.room (n : Net) (ref : List Rat) (oldValue tol : Rat) (linear : Bool) (delta eps : Rat) : Prob :=
  let d := if linear then 0 else delta
  let e := if linear then 0 else eps
  { vars := n.fba.vars ++ [⟨.oldObj, .ninf, .fin oldValue, .cont⟩] ++
      n.idx.map (fun i => ⟨.y i, .fin 0, .fin 1, if linear then .cont else .bin⟩),
    rows := n.fba.rows ++ [n.oldObjRow "room_old_objective_constraint"] ++ n.idx.flatMap (n.roomRows ref tol d e),
    obj := n.idx.map (fun i => (.y i, 1)), dirMax := false }

def maxR (a b : Rat) : Rat := if a ≤ b then b else a
def minR (a b : Rat) : Rat := if a ≤ b then a else b
def EB.maxQ (q : Rat) : EB → Rat       -- max(q, bound) for a lower bound
  | .fin b => maxR q b
  | .pinf => q   -- not reached: a lower bound of +inf
  | .ninf => q
def EB.minQ (q : Rat) : EB → Rat       -- min(q, bound) for an upper bound
  | .fin b => minR q b
  | _ => q

/-- `reaction.boundary`: exactly one metabolite -/
def Rxn.boundary (r : Rxn) : Bool := r.st.length == 1

/-- the bounds `_add_cycle_free` gives reaction `r` for the start flux `v` -/
def cycleFreeBounds (r : Rxn) (v : Rat) : EB × EB :=
  if r.boundary then (.fin v, .fin v)
  else if 0 ≤ v then
    let lower := EB.maxQ 0 r.lb
    (.fin lower, .fin (maxR lower (EB.minQ v r.ub)))
  else
    let upper := EB.minQ 0 r.ub
    (.fin (minR upper (EB.maxQ v r.lb)), .fin upper)

/-- the model after the loop of `_add_cycle_free` -/
def Net.cycleFreeNet (n : Net) (fluxes : List Rat) : Net :=
  { n with rxns := (n.rxns.zipIdx).map (fun p =>
      let b := cycleFreeBounds p.1 (fluxes.getD p.2 0)
      ({ id := p.1.id, rev := p.1.rev, lb := b.1, ub := b.2, st := p.1.st } : Rxn)) }

/-- the objective of `_add_cycle_free`: the variable of each internal reaction that carries its start flux -/
def Net.cycleFreeObj (n : Net) (fluxes : List Rat) : List (V × Rat) :=
  n.idx.flatMap (fun i => if (n.rx i).boundary then [] else if 0 ≤ fluxes.getD i 0 then [(.fwd i, 1)] else [(.rev i, 1)])

/-- the problem `loopless_solution` solves: objective kept at `opt` on the side of the direction (row over the *original*
objective), bounds and objective of CycleFreeFlux -/
def Net.cycleFree (n : Net) (fluxes : List Rat) (opt : Rat) : Prob :=
  let m := n.cycleFreeNet fluxes
  { vars := m.fba.vars, rows := m.fba.rows ++ [n.fixRow "loopless_obj_constraint" opt],
    obj := n.cycleFreeObj fluxes, dirMax := false }

/-- `minimal_medium(open_exchanges=b)`: every exchange gets the bounds `(-b, b)` before anything else is built -/
def Net.openExchanges (n : Net) (exch : List (Nat × Bool)) (b : Rat) : Net :=
  { n with rxns := (n.rxns.zipIdx).map (fun p =>
      if exch.any (fun e => e.1 == p.2) then ({ id := p.1.id, rev := p.1.rev, lb := .fin (-b), ub := .fin b, st := p.1.st } : Rxn) else p.1) }

/-- the import variable of an exchange: the reverse variable when written `met -->` (export = true) -/
def importVar (e : Nat × Bool) : V := if e.2 then .rev e.1 else .fwd e.1

/-- `minimal_medium` up to `add_linear_obj`: objective at least `minObj` (a lower bound, whatever the direction), objective
replaced by the sum of the import variables, direction min.  `exch`: the exchanges with their `export` flag. -/
def Net.mediumLinear (n : Net) (exch : List (Nat × Bool)) (minObj : Rat) : Prob :=
  { vars := n.fba.vars, rows := n.fba.rows ++ [⟨"medium_obj_constraint", .fin minObj, .pinf, n.objExpr⟩],
    obj := exch.map (fun e => (importVar e, 1)), dirMax := false }

/-- `minimal_medium` up to `add_mip_obj`: one binary indicator per exchange, `import − big_m · indicator ≤ 0` -/
def Net.mediumMip (n : Net) (exch : List (Nat × Bool)) (minObj bigM : Rat) : Prob :=
  { vars := n.fba.vars ++ exch.map (fun e => ⟨.ind e.1, .fin 0, .fin 1, .bin⟩),
    rows := n.fba.rows ++ [⟨"medium_obj_constraint", .fin minObj, .pinf, n.objExpr⟩] ++
      exch.map (fun e => ⟨"ind_constraint_" ++ (n.rx e.1).id, .ninf, .fin 0, [(importVar e, 1), (.ind e.1, -bigM)]⟩),
    obj := exch.map (fun e => (.ind e.1, 1)), dirMax := false }

/-- `big_m` of `add_mip_obj`: the largest bound magnitude over the exchanges (finite bounds) -/
def Net.bigM (n : Net) (exch : List (Nat × Bool)) : Rat :=
  exch.foldl (fun a e => maxR a (maxR (absR (EB.toRat (n.rx e.1).lb)) (absR (EB.toRat (n.rx e.1).ub)))) 0

/-- `_find_sparse_mode` for the reactions `sub` (LP-7): an auxiliary variable in `[0, thr]` below `forward + reverse` of each,
maximise their sum; `flipped`: after `_flip_coefficients` (coefficients of the flux variables in the rows of `flip` and
the whole objective negated); the direction stays `max` in both
(`Model.optimize(min)` passes the builtin `min`, which `optimize` does not recognise as a direction) -/
def Net.fastcc (n : Net) (sub : List Nat) (thr : Rat) (flip : List Nat) (flipped : Bool) : Prob :=
  { vars := n.fba.vars ++ sub.map (fun i => ⟨.auxv i, .fin 0, .fin thr, .cont⟩),
    rows := n.fba.rows ++ sub.map (fun i =>
      let s : Rat := if flipped && flip.contains i then -1 else 1
      ⟨"constraint_" ++ (n.rx i).id, .fin 0, .pinf, [(.fwd i, s), (.rev i, s), (.auxv i, -1)]⟩),
    obj := sub.map (fun i => (.auxv i, if flipped then -1 else 1)), dirMax := true }

/-- the content with the reactions `ks` closed (`Reaction.knock_out`: bounds `(0, 0)`) -/
def Net.close (n : Net) (ks : List Nat) : Net :=
  { n with rxns := (n.rxns.zipIdx).map (fun p =>
      if ks.contains p.2 then ({ id := p.1.id, rev := p.1.rev, lb := .fin 0, ub := .fin 0, st := p.1.st } : Rxn) else p.1) }

/-- the reactions a set of gene knock-outs closes: those with a rule that evaluates to false (`Gene.knock_out`, C07) -/
def closedBy (rules : List (Option GPRM.G)) (ko : List String) : List Nat :=
  (rules.zipIdx.filter (fun p => match p.1 with
    | some g => !GPRM.eval (fun s => ko.contains s) g
    | none => false)).map (·.2)

/-- the problem a reaction deletion solves (method "fba") -/
def Net.reactionDeletion (n : Net) (ks : List Nat) : Prob := (n.close ks).fba

/-- the problem a gene deletion solves (method "fba"): the reactions whose rule is false without the genes are closed -/
def Net.geneDeletion (n : Net) (rules : List (Option GPRM.G)) (ko : List String) : Prob := (n.close (closedBy rules ko)).fba

/-- the internal (non-boundary) reactions, in model order -/
def Net.internal (n : Net) : List Nat := n.idx.filter (fun i => !(n.rx i).boundary)

/-- `max_bound` of `add_loopless`: the largest bound magnitude over all reactions (finite bounds) -/
def Net.maxBound (n : Net) : Rat :=
  n.idx.foldl (fun a i => maxR a (maxR (absR (EB.toRat (n.rx i).lb)) (absR (EB.toRat (n.rx i).ub)))) 0

/-- a null-space vector with the entries at or below the cut-off dropped -/
def filterRow (cutoff : Rat) (row : List Rat) : List Rat := row.map (fun c => if cutoff < absR c then c else 0)

/-- the indicator, its on/off row, the driving force and its range row of one internal reaction -/
def Net.looplessVars (i : Nat) : List Var := [⟨.indicator i, .fin 0, .fin 1, .bin⟩, ⟨.deltaG i, .ninf, .pinf, .cont⟩]
def Net.looplessRows (n : Net) (M G : Rat) (i : Nat) : List Row :=
  [⟨"on_off_" ++ (n.rx i).id, .fin (-M), .fin 0, flux i 1 ++ [(.indicator i, -M)]⟩,
   ⟨"delta_g_range_" ++ (n.rx i).id, .fin 1, .fin G, [(.deltaG i, 1), (.indicator i, G + 1)]⟩]

/-- the row that makes the driving forces orthogonal to the `k`-th null-space vector of the internal stoichiometry -/
def Net.nullRow (n : Net) (cutoff : Rat) (p : List Rat × Nat) : Row :=
  ⟨"nullspace_constraint_" ++ toString p.2, .fin 0, .fin 0, (n.internal.zip (filterRow cutoff p.1)).map (fun q => (V.deltaG q.1, q.2))⟩

/-- `add_loopless`: `ns` is the null-space basis of the internal stoichiometric matrix (computed by numpy, taken as data) -/
def Net.loopless (n : Net) (ns : List (List Rat)) (cutoff : Rat) : Prob :=
  let M := n.maxBound
  let G := maxR M 1000
  { vars := n.fba.vars ++ n.internal.flatMap Net.looplessVars,
    rows := n.fba.rows ++ n.internal.flatMap (n.looplessRows M G) ++ ns.zipIdx.map (n.nullRow cutoff),
    obj := n.objExpr, dirMax := n.dirMax }

/-! ### the matrix form the samplers work on (`util.array.constraint_matrices`, `HRSampler.__build_problem`) -/

/-- coefficient of the variable `w` in a linear expression -/
def coefAt (co : List (V × Rat)) (w : V) : Rat := (co.map (fun p => if p.1 = w then p.2 else 0)).sum

/-- a row as a dense vector over the variables of the problem, in their order -/
def Prob.dense (p : Prob) (co : List (V × Rat)) : List Rat := p.vars.map (fun w => coefAt co w.v)

/-- `(ub - lb) < zero_tol` for a constraint or a variable (an infinite side is never "equal") -/
def isEq (tol : Rat) (lb ub : EB) : Bool :=
  match lb, ub with
  | .fin l, .fin u => decide (u - l < tol)
  | _, _ => false

structure SamplerProb where
  equalities : List (List Rat)
  b : List Rat
  inequalities : List (List Rat)
  bounds : List (EB × EB)
  fixed : List Bool
  varBounds : List (EB × EB)
  homogeneous : Bool

/-- unit row of the `k`-th variable -/
def unitRow (n k : Nat) : List Rat := (List.range n).map (fun j => if j = k then 1 else 0)

/-- `HRSampler.__build_problem` on top of `constraint_matrices(model, zero_tol = tol)`: rows whose bounds coincide (within `tol`) are equalities
with right-hand side `lb` (snapped to 0 when `|lb| ≤ tol`), the other rows are inequalities with their bounds; variables whose bounds coincide
are fixed, and the fixed ones with `|ub| > tol` become additional equalities `x_k = ub`; `homogeneous` iff every right-hand side is below `tol`
in magnitude and no such variable exists -/
def Prob.sampler (p : Prob) (tol : Rat) : SamplerProb :=
  let eqRows := p.rows.filter (fun r => isEq tol r.lb r.ub)
  let ineqRows := p.rows.filter (fun r => !isEq tol r.lb r.ub)
  let b0 := eqRows.map (fun r => if tol < absR (EB.toRat r.lb) then EB.toRat r.lb else 0)
  let fixed := p.vars.map (fun w => isEq tol w.lb w.ub)
  let fnz := (p.vars.zipIdx.filter (fun q => isEq tol q.1.lb q.1.ub && decide (tol < absR (EB.toRat q.1.ub))))
  { equalities := eqRows.map (fun r => p.dense r.co) ++ fnz.map (fun q => unitRow p.vars.length q.2),
    b := b0 ++ fnz.map (fun q => EB.toRat q.1.ub),
    inequalities := ineqRows.map (fun r => p.dense r.co),
    bounds := ineqRows.map (fun r => (r.lb, r.ub)),
    fixed := fixed,
    varBounds := p.vars.map (fun w => (w.lb, w.ub)),
    homogeneous := b0.all (fun q => decide (absR q < tol)) && fnz.isEmpty }

/-- a user constraint over flux expressions: `lb ≤ Σ c_i (forward_i − reverse_i) ≤ ub` -/
def extraRow (name : String) (lb ub : EB) (co : List (Nat × Rat)) : Row := ⟨name, lb, ub, co.flatMap (fun q => flux q.1 q.2)⟩

/-- the flux-balance problem with user constraints over fluxes appended -/
def Net.fbaWith (n : Net) (extra : List Row) : Prob := { n.fba with rows := n.fba.rows ++ extra }

/-! ### the dense form the certificate checker works on -/

/-- a pair of extended bounds as an optional-bounds box (`-inf` below / `inf` above = no bound) -/
def toBnd (lb ub : EB) : LPM.Bnd :=
  ⟨match lb with | .fin q => some q | _ => none, match ub with | .fin q => some q | _ => none⟩

/-- a lower bound of `+inf` or an upper bound of `-inf` has no dense counterpart -/
def bndOK (lb ub : EB) : Bool := !(lb == .pinf) && !(ub == .ninf)

/-- the problem as a dense maximisation problem over its variables in order (a minimisation problem with the objective negated) -/
def Prob.toDense (p : Prob) : LPM.LP :=
  { n := p.vars.length,
    vb := p.vars.map (fun w => toBnd w.lb w.ub),
    rows := p.rows.map (fun r => (p.dense r.co, toBnd r.lb r.ub)),
    obj := (p.dense p.obj).map (fun c => if p.dirMax then c else -c) }

/-- side conditions of the dense form, decidable: variables pairwise distinct and continuous, rows and objective mention only variables of the
problem, no bound is `+inf` below or `-inf` above -/
def Prob.closedB (p : Prob) : Bool :=
  decide (p.vars.map (·.v)).Nodup &&
  p.rows.all (fun r => r.co.all (fun q => (p.vars.map (·.v)).contains q.1) && bndOK r.lb r.ub) &&
  p.obj.all (fun q => (p.vars.map (·.v)).contains q.1) &&
  p.vars.all (fun w => w.kind == .cont && bndOK w.lb w.ub)

/-- the assignment that gives the `k`-th variable the `k`-th value -/
def assignOf (vs : List V) (xs : List Rat) (w : V) : Rat :=
  match vs, xs with
  | v :: vs', x :: xs' => if w = v then x else assignOf vs' xs' w
  | _, _ => 0

/-- the certificate check on the problem a builder produces -/
def Prob.certOpt (p : Prob) (xs ys : List Rat) : Bool := p.closedB && p.toDense.checkOpt xs ys
def Prob.certInfeas (p : Prob) (ys : List Rat) : Bool := p.closedB && p.toDense.checkInfeas ys

/-! ### mixed-integer problems: enumeration of the binary variables -/

/-- the binary variables of a problem, in order -/
def Prob.binVars (p : Prob) : List V := (p.vars.filter (fun w => w.kind == .bin)).map (·.v)

def lookupA (a : List (V × Rat)) (w : V) : Rat :=
  match a with
  | [] => 0
  | q :: t => if q.1 = w then q.2 else lookupA t w

/-- the problem with every binary variable fixed at the value `a` gives it (a continuous variable with coinciding bounds) -/
def Prob.fix (p : Prob) (a : List (V × Rat)) : Prob :=
  { p with vars := p.vars.map (fun w => if w.kind == .bin then ⟨w.v, .fin (lookupA a w.v), .fin (lookupA a w.v), .cont⟩ else w) }

/-- all 0/1 assignments of a list of variables -/
def allAssign : List V → List (List (V × Rat))
  | [] => [[]]
  | b :: bs => (allAssign bs).flatMap (fun a => [(b, 0) :: a, (b, 1) :: a])

/-- certificate of one leaf of the enumeration: the leaf problem is infeasible, or has the certified optimum named -/
inductive LeafCert where
  | infeas (ys : List Rat)
  | opt (xs ys : List Rat)

/-- every leaf of a *minimisation* problem is certified infeasible or certified optimal with a value of at least `L` -/
def Prob.certLeavesMin (p : Prob) (certs : List LeafCert) (L : Rat) : Bool :=
  !p.dirMax && p.vars.all (fun w => w.kind != .int) &&
  (allAssign p.binVars).length == certs.length &&
  ((allAssign p.binVars).zip certs).all (fun q => match q.2 with
    | .infeas ys => (p.fix q.1).certInfeas ys
    | .opt xs ys => (p.fix q.1).certOpt xs ys && decide (L ≤ LPM.dot ((p.fix q.1).dense p.obj) xs))

/-- the name the solver sees (`old`: the name the analysis gives its old-objective variable) -/
def Net.vname (n : Net) (old : String) : V → String
  | .fwd i => (n.rx i).id
  | .rev i => (n.rx i).rev
  | .oldObj => old
  | .fluxSum => "flux_sum"
  | .dist i => "moma_dist_" ++ (n.rx i).id
  | .y i => "y_" ++ (n.rx i).id
  | .ind i => "ind_" ++ (n.rx i).id
  | .auxv i => "auxiliary_" ++ (n.rx i).id
  | .indicator i => "indicator_" ++ (n.rx i).id
  | .deltaG i => "delta_g_" ++ (n.rx i).id

end AuxM

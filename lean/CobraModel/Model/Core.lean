import CobraModel.Model.GPR
/-!
# Executable model of the cobra Core: Python-side content, the solver problem, the undo stack

State components are *functions* over identifiers (absent = default value), so that "restored" is plain
(extensional) equality and every operation is a pointwise update. The finite pools of identifiers a trace may
use are carried in `univ*` (data supplied with the initial state) and are used where the code iterates over a
set (`for reaction in gene.reactions`).

The model follows, statement by statement and including what is pushed on the context stack and where an
operation raises: `Reaction.lower_bound/upper_bound/bounds` setters (through `resettable`),
`update_variable_bounds`, `Reaction.knock_out`, `Gene.knock_out`, `knock_out_model_genes`,
`Reaction.add_metabolites/subtract_metabolites` on metabolites of the model, `objective_coefficient`,
`Model.objective = {…}`, `objective_direction`, `Model.__enter__/__exit__` (`HistoryManager.reset`).
-/
namespace Core
open GPRM

abbrev Id := String

/-- extended rationals: a bound of a reaction / variable -/
inductive EB where
  | ninf | fin (q : Rat) | pinf
deriving DecidableEq, Repr, Inhabited

namespace EB
def le : EB → EB → Bool
  | ninf, _ => true
  | _, pinf => true
  | fin a, fin b => decide (a ≤ b)
  | _, _ => false
def lt (a b : EB) : Bool := le a b && !(a == b)
def neg : EB → EB
  | ninf => pinf
  | pinf => ninf
  | fin q => fin (-q)
def isInf : EB → Bool
  | fin _ => false
  | _ => true
def zero : EB := fin 0
end EB

/-- boxes of the (forward, reverse) variables computed by `update_variable_bounds` -/
def splitBounds (lb ub : EB) : (EB × EB) × (EB × EB) :=
  if EB.lt EB.zero lb then
    ((if lb.isInf then .ninf else lb, if ub.isInf then .pinf else ub), (EB.zero, EB.zero))
  else if EB.lt ub EB.zero then
    ((EB.zero, EB.zero), (if ub.isInf then .ninf else ub.neg, if lb.isInf then .pinf else lb.neg))
  else
    ((EB.zero, if ub.isInf then .pinf else ub), (EB.zero, if lb.isInf then .pinf else lb.neg))

structure St where
  -- pools (constant data): the identifiers a trace may use, and the reverse-variable name of each reaction id
  univR : List Id
  univM : List Id
  univG : List Id
  rev : Id → Id
  -- Python-side content
  hasR : Id → Bool
  hasM : Id → Bool
  hasG : Id → Bool
  lb : Id → EB
  ub : Id → EB
  st : Id → Id → Rat              -- reaction → metabolite → coefficient (0 = not a metabolite of it)
  rule : Id → Option G
  rg : Id → Id → Bool             -- reaction → gene ∈ reaction._genes
  mr : Id → Id → Bool             -- metabolite → reaction ∈ metabolite._reaction
  gr : Id → Id → Bool             -- gene → reaction ∈ gene._reaction
  gf : Id → Bool                  -- gene.functional
  -- the solver problem
  hasV : Id → Bool
  vlb : Id → EB
  vub : Id → EB
  hasC : Id → Bool
  co : Id → Id → Rat              -- constraint (metabolite id) → variable → coefficient
  obj : Id → Rat                  -- objective coefficient of a variable
  dirMax : Bool

def upd {β : Type} (f : Id → β) (k : Id) (v : β) : Id → β := fun x => if x = k then v else f x
def upd2 {β : Type} (f : Id → Id → β) (k1 k2 : Id) (v : β) : Id → Id → β :=
  fun x y => if x = k1 ∧ y = k2 then v else f x y

/-- everything the state holds under the id of one reaction and under the names of its two solver variables -/
structure RxnSlot where
  lb : EB
  ub : EB
  st : Id → Rat
  rule : Option G
  rg : Id → Bool
  mrCol : Id → Bool
  grCol : Id → Bool
  hasVf : Bool
  hasVr : Bool
  vlbf : EB
  vubf : EB
  vlbr : EB
  vubr : EB
  cof : Id → Rat
  cor : Id → Rat
  objf : Rat
  objr : Rat

/-- everything the state holds under the id of one metabolite: membership, its solver row, its back-references -/
structure MetSlot where
  hasM : Bool
  hasC : Bool
  coRow : Id → Rat
  mrRow : Id → Bool

/-- closures registered on the context stack, defunctionalised -/
inductive Undo where
  | rawSetLb (r : Id) (v : EB)
  | rawSetUb (r : Id) (v : EB)
  | rawSetBounds (r : Id) (lb ub : EB)
  | rawSetGf (g : Id) (v : Bool)
  | rawSetDir (dirMax : Bool)         -- `func(self, "max" | "min")`: the old direction string
  | objReset (obj : Id → Rat) (dirMax : Bool)
  | addMetsRaw (r : Id) (ps : List (Id × Rat)) (combine : Bool)     -- add_metabolites(…, reversibly=False)
  | readdRxn (r : Id) (mrCol grCol : Id → Bool)   -- undo of remove_reactions([r]): the reaction, its two variables and the back-references return
  | putSlot (r : Id) (listed : Bool) (k : RxnSlot)   -- undo of add_reactions([new reaction]): what was held under these names before
  | putMetSlot (m : Id) (k : MetSlot)   -- undo of Model.add_metabolites / remove_metabolites: the metabolite and its solver row as they were
  | populate (r : Id)                   -- `_populate_solver([reaction])`
  | imul (r : Id) (k : Rat)             -- `reaction.__imul__(1 / coefficient)`
  | setHasG (g : Id) (b : Bool)         -- `model.genes.add(gene)` (undo of an orphaned gene leaving with its last reaction)

structure Sys where
  s : St
  ctx : List (List Undo)       -- innermost context first; each context newest entry first

inductive Err where
  | value | key | index | attr | type
deriving DecidableEq, Repr

/-- push on the innermost context, if there is one -/
def push (y : Sys) (u : Undo) : Sys :=
  match y.ctx with
  | [] => y
  | c :: cs => { y with ctx := (u :: c) :: cs }

def inCtx (y : Sys) : Bool := !y.ctx.isEmpty

/-! ### raw setters (the decorated functions themselves) -/

def updateVariableBounds (s : St) (r : Id) : St :=
  let b := splitBounds (s.lb r) (s.ub r)
  { s with vlb := upd (upd s.vlb r b.1.1) (s.rev r) b.2.1,
           vub := upd (upd s.vub r b.1.2) (s.rev r) b.2.2 }

def rawSetLb (s : St) (r : Id) (v : EB) : Except Err St :=
  if EB.lt (s.ub r) v then .error .value
  else .ok (updateVariableBounds { s with lb := upd s.lb r v } r)

def rawSetUb (s : St) (r : Id) (v : EB) : Except Err St :=
  if EB.lt v (s.lb r) then .error .value
  else .ok (updateVariableBounds { s with ub := upd s.ub r v } r)

def rawSetBounds (s : St) (r : Id) (lb ub : EB) : Except Err St :=
  if EB.lt ub lb then .error .value
  else .ok (updateVariableBounds { s with lb := upd s.lb r lb, ub := upd s.ub r ub } r)

/-- how the argument of `objective_direction = value` reads: `value.lower()` starts with "max" / "min" / neither,
and whether it is literally the string "max" / "min" (the `resettable` wrapper compares it with the old value) -/
inductive DirArg where
  | exactMax | exactMin | maxLike | minLike | bad
deriving DecidableEq, Repr

def DirArg.target : DirArg → Option Bool
  | .exactMax => some true | .maxLike => some true
  | .exactMin => some false | .minLike => some false
  | .bad => none

def DirArg.isExact (d : DirArg) (dirMax : Bool) : Bool :=
  (d == .exactMax && dirMax) || (d == .exactMin && !dirMax)

def rawSetDir (s : St) (d : DirArg) : Except Err St :=
  match d.target with
  | some b => .ok { s with dirMax := b }
  | none => .error .value

/-- the loop of `Reaction.add_metabolites` over metabolites that exist in the model, then the solver row
update for every metabolite of the reaction and the removal of zero coefficients (a zero coefficient *is*
absence in this representation, so only the back-reference has to follow) -/
def lookupA (acc : List (Id × Rat)) (m : Id) : Option Rat :=
  match acc.find? (fun p => p.1 == m) with
  | some p => some p.2
  | none => none

/-- the loop: `acc` collects the new coefficients of reaction `r` (newest first) as *data*; the coefficient a
step sees is the newest one in `acc`, else the one in the state -/
def addMetsLoop (combine : Bool) (base : Id → Rat) (present : Id → Bool) : List (Id × Rat) → List (Id × Rat) → List (Id × Rat)
  | [], acc => acc
  | (m, c) :: ps, acc =>
    let cur := (lookupA acc m).getD (base m)
    addMetsLoop combine base present ps ((m, if present m ∧ combine then cur + c else c) :: acc)

def addMetsRaw (s : St) (r : Id) (ps : List (Id × Rat)) (combine : Bool) : St :=
  let present (m : Id) : Bool := decide (s.st r m ≠ 0)       -- `_id_to_metabolites`, computed before the loop
  let acc := addMetsLoop combine (s.st r) present ps []
  let st' : Id → Id → Rat := fun x y => if x = r then (lookupA acc y).getD (s.st x y) else s.st x y
  let touched (m : Id) : Bool := ps.any (fun p => p.1 == m)
  { s with
    st := st',
    mr := fun m x =>
      if x = r ∧ touched m then
        (if st' r m = 0 then false else if present m then s.mr m r else true)
      else s.mr m x,
    co := fun m v =>
      if touched m ∨ present m then
        (if v = r then st' r m else if v = s.rev r then -(st' r m) else s.co m v)
      else s.co m v }

/-! ### removing a reaction (`Model.remove_reactions([r], remove_orphans=False)`) -/

/-- the reaction leaves the model: it is no longer listed, its two variables leave the solver (with them their columns in every constraint and
    the objective), its metabolites and genes stop listing it.  What the detached reaction object keeps for itself (bounds, stoichiometry, rule)
    is kept here under its id as well; nothing reads it while `hasR r = false`. -/
def removeRxnRaw (s : St) (r : Id) : St :=
  { s with hasR := upd s.hasR r false,
           hasV := upd (upd s.hasV r false) (s.rev r) false,
           mr := fun m x => if x = r then false else s.mr m x,
           gr := fun g x => if x = r then false else s.gr g x }

def readdRxnRaw (s : St) (r : Id) (mrCol grCol : Id → Bool) : St :=
  { s with hasR := upd s.hasR r true,
           hasV := upd (upd s.hasV r true) (s.rev r) true,
           mr := fun m x => if x = r then mrCol m else s.mr m x,
           gr := fun g x => if x = r then grCol g else s.gr g x }

/-! ### adding a new reaction (`Model.add_reactions([Reaction(r, …)])`, metabolites of the model, no rule) -/

def getSlot (s : St) (r : Id) : RxnSlot :=
  { lb := s.lb r, ub := s.ub r, st := s.st r, rule := s.rule r, rg := s.rg r, mrCol := fun m => s.mr m r, grCol := fun g => s.gr g r,
    hasVf := s.hasV r, hasVr := s.hasV (s.rev r), vlbf := s.vlb r, vubf := s.vub r, vlbr := s.vlb (s.rev r), vubr := s.vub (s.rev r),
    cof := fun m => s.co m r, cor := fun m => s.co m (s.rev r), objf := s.obj r, objr := s.obj (s.rev r) }

def putSlot (s : St) (r : Id) (listed : Bool) (k : RxnSlot) : St :=
  { s with
    hasR := upd s.hasR r listed,
    lb := upd s.lb r k.lb, ub := upd s.ub r k.ub,
    st := fun x m => if x = r then k.st m else s.st x m,
    rule := upd s.rule r k.rule,
    rg := fun x g => if x = r then k.rg g else s.rg x g,
    mr := fun m x => if x = r then k.mrCol m else s.mr m x,
    gr := fun g x => if x = r then k.grCol g else s.gr g x,
    hasV := upd (upd s.hasV (s.rev r) k.hasVr) r k.hasVf,
    vlb := upd (upd s.vlb (s.rev r) k.vlbr) r k.vlbf,
    vub := upd (upd s.vub (s.rev r) k.vubr) r k.vubf,
    co := fun m v => if v = r then k.cof m else if v = s.rev r then k.cor m else s.co m v,
    obj := upd (upd s.obj (s.rev r) k.objr) r k.objf }

/-- the coefficient of `m` in a stoichiometry given as pairs (first entry wins; absent = 0) -/
def stOf (ps : List (Id × Rat)) (m : Id) : Rat :=
  match ps.find? (fun p => p.1 == m) with
  | some p => p.2
  | none => 0

/-- the slot of a freshly built reaction: bounds, stoichiometry over metabolites of the model, no rule, two variables with the boxes of
    `update_variable_bounds`, its column in every steady-state row, objective coefficient zero -/
def newSlot (lb ub : EB) (ps : List (Id × Rat)) : RxnSlot :=
  { lb := lb, ub := ub, st := stOf ps, rule := none, rg := fun _ => false, mrCol := fun m => decide (stOf ps m ≠ 0), grCol := fun _ => false,
    hasVf := true, hasVr := true,
    vlbf := (splitBounds lb ub).1.1, vubf := (splitBounds lb ub).1.2, vlbr := (splitBounds lb ub).2.1, vubr := (splitBounds lb ub).2.2,
    cof := stOf ps, cor := fun m => -(stOf ps m), objf := 0, objr := 0 }

def addRxnRaw (s : St) (r : Id) (lb ub : EB) (ps : List (Id × Rat)) : St := putSlot s r true (newSlot lb ub ps)

/-! ### adding / removing a metabolite of the model (`Model.add_metabolites([Metabolite(m)])`, `Model.remove_metabolites([m])`) -/

def getMetSlot (s : St) (m : Id) : MetSlot := { hasM := s.hasM m, hasC := s.hasC m, coRow := s.co m, mrRow := s.mr m }

def putMetSlot (s : St) (m : Id) (k : MetSlot) : St :=
  { s with hasM := upd s.hasM m k.hasM, hasC := upd s.hasC m k.hasC,
           co := fun x v => if x = m then k.coRow v else s.co x v,
           mr := fun x r => if x = m then k.mrRow r else s.mr x r }

/-- a new `Metabolite(m)` joins the model: it is listed, lists no reaction, and gets an empty steady-state row (`Constraint(Zero, name=m, lb=0, ub=0)`)
    unless the solver already holds a constraint of that name -/
def addMetRaw (s : St) (m : Id) : St :=
  putMetSlot s m { hasM := true, hasC := true, coRow := if s.hasC m then s.co m else fun _ => 0, mrRow := fun _ => false }

/-- the metabolite and its row leave the model (after the loop over its reactions) -/
def dropMetRaw (s : St) (m : Id) : St :=
  putMetSlot s m { hasM := false, hasC := false, coRow := s.co m, mrRow := s.mr m }

/-! ### scaling a reaction (`reaction *= k`) -/

/-- `self._metabolites = {met: value * coefficient …}` -/
def scaleSt (s : St) (r : Id) (k : Rat) : St :=
  { s with st := fun x m => if x = r then s.st r m * k else s.st x m }

/-- `model._populate_solver([reaction])` for a reaction whose variables exist: the column of the reaction is rewritten in the row of each of
    its metabolites, the variable boxes are re-derived -/
def populateRaw (s : St) (r : Id) : St :=
  updateVariableBounds
    { s with co := fun m v => if s.st r m ≠ 0 then (if v = r then s.st r m else if v = s.rev r then -(s.st r m) else s.co m v) else s.co m v } r

/-- `reaction.__imul__(k)` with no context open (this is what the undo entry runs) -/
def imulRaw (s : St) (r : Id) (k : Rat) : Except Err St :=
  let s1 := scaleSt s r k
  if k < 0 then
    match rawSetBounds s1 r (s1.ub r).neg (s1.lb r).neg with
    | .ok s2 => .ok (populateRaw s2 r)
    | .error e => .error e
  else .ok (populateRaw s1 r)

/-! ### assigning a gene rule outside a context (`reaction.gene_reaction_rule = "…"`, then `update_genes_from_gpr`) -/

def genesOpt : Option G → List String
  | none => []
  | some g => genes g

/-- the rule is replaced; genes of the new rule that the model does not have are created (functional, listing only this reaction) and appended
    to `model.genes`; the reaction's gene set becomes the genes of the rule; genes of the rule list the reaction, genes that dropped out stop
    listing it (they stay in the model) -/
def setRuleRaw (s : St) (r : Id) (rule : Option G) : St :=
  let new (g : Id) : Bool := (genesOpt rule).contains g
  let created (g : Id) : Bool := new g && !s.hasG g
  { s with rule := upd s.rule r rule,
           hasG := fun g => s.hasG g || new g,
           gf := fun g => if created g then true else s.gf g,
           rg := fun x g => if x = r then new g else s.rg x g,
           gr := fun g x => if created g then decide (x = r) else if x = r then new g else s.gr g x }

/-! ### undo -/

def runUndo (s : St) : Undo → Except Err St
  | .rawSetLb r v => rawSetLb s r v
  | .rawSetUb r v => rawSetUb s r v
  | .rawSetBounds r lb ub => rawSetBounds s r lb ub
  | .rawSetGf g v => .ok { s with gf := upd s.gf g v }
  | .rawSetDir b => .ok { s with dirMax := b }
  | .objReset o d => .ok { s with obj := o, dirMax := d }
  | .addMetsRaw r ps combine => .ok (addMetsRaw s r ps combine)
  | .readdRxn r mrCol grCol => .ok (readdRxnRaw s r mrCol grCol)
  | .putSlot r listed k => .ok (putSlot s r listed k)
  | .putMetSlot m k => .ok (putMetSlot s m k)
  | .populate r => .ok (populateRaw s r)
  | .imul r k => imulRaw s r k
  | .setHasG g b => .ok { s with hasG := upd s.hasG g b }

/-- `HistoryManager.reset`: newest first; an undo function that raises ends the replay -/
def replay (s : St) : List Undo → St × Option Err
  | [] => (s, none)
  | u :: us => match runUndo s u with
    | .ok s' => replay s' us
    | .error e => (s, some e)

/-! ### operations -/

/-- the three built-in kinds of boundary reaction -/
inductive BType where
  | exchange | demand | sink
deriving DecidableEq, Repr

/-- prefix, lower and upper bound `Model.add_boundary` uses for a built-in type (the `types` table) -/
def BType.pre : BType → String
  | .exchange => "EX"
  | .demand => "DM"
  | .sink => "SK"
def BType.bounds (t : BType) (dlb dub : EB) : EB × EB :=
  match t with
  | .demand => (EB.zero, dub)
  | _ => (dlb, dub)

/-- the identifier of the boundary reaction of metabolite `m` -/
def BType.rid (t : BType) (m : Id) : Id := t.pre ++ "_" ++ m

inductive Op where
  | setLb (r : Id) (v : EB)
  | setUb (r : Id) (v : EB)
  | setBounds (r : Id) (lb ub : EB)
  | koRxn (r : Id)
  | koGene (g : Id)
  | koGenes (gs : List Id)
  | objCoef (r : Id) (v : Rat)
  | setObj (coefs : List (Id × Rat))
  | setDir (d : DirArg)
  | addMets (r : Id) (ps : List (Id × Rat)) (combine : Bool) (neg : Bool)   -- neg = subtract_metabolites
  | removeRxn (r : Id)
  | addRxn (r : Id) (lb ub : EB) (ps : List (Id × Rat))
  | addMet (m : Id)
  | rmMet (m : Id)
  | rmMetD (m : Id)                  -- remove_metabolites([m], destructive=True)
  | removeRxnO (r : Id)              -- remove_reactions([r], remove_orphans=True)
  | setRule (r : Id) (rule : Option G)   -- reaction.gene_reaction_rule = "…" (the text parsed by `GPRM.fromString`), outside a context
  | removeRxns (rs : List Id) (orphans : Bool)   -- remove_reactions([…]): identifiers that are not in the model are skipped with a warning
  | imul (r : Id) (k : Rat)
  | removeGenes (gs : List Id) (rr : Bool)      -- cobra.manipulation.remove_genes(model, gs, remove_reactions=rr), outside a context
  | addRxnR (r : Id) (lb ub : EB) (ps : List (Id × Rat)) (rule : Option G)   -- add_reactions([R]) for a new reaction that carries a gene rule, outside a context
  | addBoundary (m : Id) (t : BType) (external : Bool) (dlb dub : EB)   -- model.add_boundary(metabolite, type); `external`: the metabolite sits in the external compartment; `dlb`, `dub`: the configured default bounds
  | observe                          -- calls that only look: `slim_optimize()`, `reaction.copy()`, `a + b` / `a - b` on reactions of the model
  | enter
  | exit

/-- `reaction.lower_bound = v` through the `resettable` wrapper -/
def setLb (y : Sys) (r : Id) (v : EB) : Sys × Option Err :=
  if inCtx y ∧ y.s.lb r = v then (y, none) else
  let y := if inCtx y then push y (.rawSetLb r (y.s.lb r)) else y
  match rawSetLb y.s r v with
  | .ok s' => ({ y with s := s' }, none)
  | .error e => (y, some e)

def setUb (y : Sys) (r : Id) (v : EB) : Sys × Option Err :=
  if inCtx y ∧ y.s.ub r = v then (y, none) else
  let y := if inCtx y then push y (.rawSetUb r (y.s.ub r)) else y
  match rawSetUb y.s r v with
  | .ok s' => ({ y with s := s' }, none)
  | .error e => (y, some e)

def setBounds (y : Sys) (r : Id) (lb ub : EB) : Sys × Option Err :=
  if inCtx y ∧ y.s.lb r = lb ∧ y.s.ub r = ub then (y, none) else
  let y := if inCtx y then push y (.rawSetBounds r (y.s.lb r) (y.s.ub r)) else y
  match rawSetBounds y.s r lb ub with
  | .ok s' => ({ y with s := s' }, none)
  | .error e => (y, some e)

/-- `reaction.functional`: the rule evaluated with the reaction's non-functional genes absent -/
def functional (s : St) (r : Id) : Bool :=
  evalGPR (fun g => s.rg r g && !s.gf g) (s.rule r)

/-- the loop of `Gene.knock_out` over the gene's reactions (taken in pool order; the bodies commute) -/
def koLoop (g : Id) : List Id → Sys → Sys
  | [], y => y
  | r :: rs, y =>
    if y.s.gr g r && !(functional y.s r) then koLoop g rs (setBounds y r EB.zero EB.zero).1
    else koLoop g rs y

def koGene (y : Sys) (g : Id) : Sys :=
  -- self.functional = False  (resettable: recorded only when it changes something)
  let y := if inCtx y ∧ y.s.gf g = false then y else
    let y := if inCtx y then push y (.rawSetGf g (y.s.gf g)) else y
    { y with s := { y.s with gf := upd y.s.gf g false } }
  koLoop g y.s.univR y

def koGenes : List Id → Sys → Sys
  | [], y => y
  | g :: gs, y => koGenes gs (koGene y g)

/-- `set_objective(model, {reaction: coef}, additive)` -/
def setObjective (y : Sys) (coefs : List (Id × Rat)) (additive : Bool) : Sys :=
  let old := y.s.obj
  let base : Id → Rat := if additive then old else fun _ => 0
  let o := coefs.foldl (fun o (p : Id × Rat) => upd (upd o p.1 p.2) (y.s.rev p.1) (-p.2)) base
  let y' : Sys := { y with s := { y.s with obj := o } }
  if inCtx y then push y' (.objReset old y.s.dirMax) else y'

def setDir (y : Sys) (d : DirArg) : Sys × Option Err :=
  if inCtx y ∧ d.isExact y.s.dirMax = true then (y, none) else
  let y := if inCtx y then push y (.rawSetDir y.s.dirMax) else y
  match rawSetDir y.s d with
  | .ok s' => ({ y with s := s' }, none)
  | .error e => (y, some e)

def addMets (y : Sys) (r : Id) (ps : List (Id × Rat)) (combine neg : Bool) : Sys × Option Err :=
  let ps := if neg then ps.map (fun p => (p.1, -p.2)) else ps
  -- unknown metabolite identifiers are rejected before anything changes
  if ps.any (fun p => !(y.s.hasM p.1)) then (y, some .key) else
  let old := y.s.st
  let y' : Sys := { y with s := addMetsRaw y.s r ps combine }
  if inCtx y then
    if combine then
      -- subtract_metabolites(metabolites_to_add, combine=True, reversibly=False)
      (push y' (.addMetsRaw r (ps.map (fun p => (p.1, -p.2))) true), none)
    else
      -- add_metabolites({key: old coefficient or 0}, combine=False, reversibly=False)
      (push y' (.addMetsRaw r (ps.map (fun p => (p.1, old r p.1))) false), none)
  else (y', none)

/-- `model.remove_reactions([r])` -/
def removeRxn (y : Sys) (r : Id) : Sys :=
  let y1 := if inCtx y then push y (.readdRxn r (fun m => y.s.mr m r) (fun g => y.s.gr g r)) else y
  { y1 with s := removeRxnRaw y.s r }

/-- the names of a new reaction do not clash with anything in the solver (the pools of the harness guarantee it; the code would refuse) -/
def freshNames (s : St) (r : Id) : Bool :=
  decide (s.rev r ≠ r) && s.univR.all (fun x => !s.hasR x || (decide (s.rev x ≠ r) && decide (s.rev r ≠ x) && decide (s.rev x ≠ s.rev r)))

/-- `model.add_reactions([R])` for a reaction that is new to the model -/
def addRxn (y : Sys) (r : Id) (lb ub : EB) (ps : List (Id × Rat)) : Sys :=
  let y1 := if inCtx y then push y (.putSlot r (y.s.hasR r) (getSlot y.s r)) else y
  { y1 with s := addRxnRaw y.s r lb ub ps }

/-- `model.add_metabolites([Metabolite(m)])` for an id that is new to the model -/
def addMet (y : Sys) (m : Id) : Sys :=
  let y1 := if inCtx y then push y (.putMetSlot m (getMetSlot y.s m)) else y
  { y1 with s := addMetRaw y.s m }

/-- the loop of `remove_metabolites` over the reactions that list the metabolite (taken in pool order; the bodies touch different reactions):
    `the_reaction.subtract_metabolites({x: the_reaction._metabolites[x]})`, context-aware -/
def rmMetLoop (m : Id) : List Id → Sys → Sys
  | [], y => y
  | r :: rs, y =>
    if y.s.mr m r then rmMetLoop m rs (addMets y r [(m, y.s.st r m)] true true).1
    else rmMetLoop m rs y

/-- `model.remove_metabolites([m], destructive=False)` -/
def rmMet (y : Sys) (m : Id) : Sys :=
  let y1 := rmMetLoop m y.s.univR y
  let y2 := if inCtx y1 then push y1 (.putMetSlot m (getMetSlot y1.s m)) else y1
  { y2 with s := dropMetRaw y1.s m }

/-- the loop of `remove_metabolites(…, destructive=True)`: every reaction that lists the metabolite is removed from the model
    (`x2.remove_from_model()`, i.e. `model.remove_reactions([x2])`) -/
def rmMetDLoop (m : Id) : List Id → Sys → Sys
  | [], y => y
  | r :: rs, y =>
    if y.s.mr m r then rmMetDLoop m rs (removeRxn y r)
    else rmMetDLoop m rs y

/-- `model.remove_metabolites([m], destructive=True)` -/
def rmMetD (y : Sys) (m : Id) : Sys :=
  let y1 := rmMetDLoop m y.s.univR y
  let y2 := if inCtx y1 then push y1 (.putMetSlot m (getMetSlot y1.s m)) else y1
  { y2 with s := dropMetRaw y1.s m }

/-! ### `model.remove_reactions([r], remove_orphans=True)` -/

/-- `len(met._reaction) == 0` / `len(gene._reaction) == 0` -/
def orphanM (s : St) (m : Id) : Bool := s.univR.all (fun x => !s.mr m x)
def orphanG (s : St) (g : Id) : Bool := s.univR.all (fun x => !s.gr g x)

/-- the metabolites of the removed reaction that no reaction lists any more leave the model: `self.remove_metabolites(met)` -/
def orphanMetLoop (r : Id) : List Id → Sys → Sys
  | [], y => y
  | m :: ms, y =>
    if decide (y.s.st r m ≠ 0) && y.s.hasM m && orphanM y.s m then orphanMetLoop r ms (rmMet y m)
    else orphanMetLoop r ms y

/-- `self.genes.remove(gene)`, recorded -/
def dropGene (y : Sys) (g : Id) : Sys :=
  let y1 := if inCtx y then push y (.setHasG g true) else y
  { y1 with s := { y.s with hasG := upd y.s.hasG g false } }

def orphanGeneLoop (r : Id) : List Id → Sys → Sys
  | [], y => y
  | g :: gs, y =>
    if y.s.rg r g && y.s.hasG g && orphanG y.s g then orphanGeneLoop r gs (dropGene y g)
    else orphanGeneLoop r gs y

def removeRxnO (y : Sys) (r : Id) : Sys :=
  let y1 := removeRxn y r
  let y2 := orphanMetLoop r y1.s.univM y1
  orphanGeneLoop r y2.s.univG y2

/-- `remove_reactions(list, remove_orphans)`: one reaction after the other; what is not (or no longer) in the model is skipped -/
def removeRxns (orphans : Bool) : List Id → Sys → Sys
  | [], y => y
  | r :: rs, y =>
    if y.s.hasR r then removeRxns orphans rs (if orphans then removeRxnO y r else removeRxn y r)
    else removeRxns orphans rs y

/-- the rule `_GeneRemover` leaves for reaction `r` -/
def prunedRule (s : St) (ks : Id → Bool) (r : Id) : Option G :=
  match s.rule r with
  | some t => if s.hasR r then GPRM.remove ks t else some t
  | none => none

/-- `remove_genes(model, genes, remove_reactions=False)` on the content: every reaction of the model gets the rule the remover leaves, its gene set
and the back-references of the genes follow the new rule (`update_genes_from_gpr`), and the genes leave `model.genes` -/
def removeGenesRaw (s : St) (ks : Id → Bool) : St :=
  { s with rule := prunedRule s ks,
           rg := fun r g => if s.hasR r then (genesOpt (prunedRule s ks r)).contains g else s.rg r g,
           hasG := fun g => s.hasG g && !ks g,
           gr := fun g r => if s.hasR r then (genesOpt (prunedRule s ks r)).contains g else s.gr g r }

/-- the reactions `remove_genes(…, remove_reactions=True)` removes: those with a rule that is false without the genes -/
def geneTargets (s : St) (ks : Id → Bool) : List Id :=
  s.univR.filter (fun r => s.hasR r && (match s.rule r with | some t => !GPRM.eval ks t | none => false))

/-- `reaction *= k` -/
def imul (y : Sys) (r : Id) (k : Rat) : Sys × Option Err :=
  let y1 : Sys := { y with s := scaleSt y.s r k }
  let p : Sys × Option Err := if k < 0 then setBounds y1 r (y1.s.ub r).neg (y1.s.lb r).neg else (y1, none)
  match p.2 with
  | some e => (p.1, some e)
  | none =>
    let y3 : Sys := { p.1 with s := populateRaw p.1.s r }
    (if inCtx y3 then push (push y3 (.populate r)) (.imul r (1 / k)) else y3, none)

def enter (y : Sys) : Sys := { y with ctx := [] :: y.ctx }

def exit (y : Sys) : Sys × Option Err :=
  match y.ctx with
  | [] => (y, some .index)
  | c :: cs =>
    let (s', e) := replay y.s c
    ({ s := s', ctx := cs }, e)

def apply (y : Sys) : Op → Sys × Option Err
  | .setLb r v => if y.s.hasR r then setLb y r v else (y, some .key)
  | .setUb r v => if y.s.hasR r then setUb y r v else (y, some .key)
  | .setBounds r lb ub => if y.s.hasR r then setBounds y r lb ub else (y, some .key)
  | .koRxn r => if y.s.hasR r then setBounds y r EB.zero EB.zero else (y, some .key)
  | .koGene g => if y.s.hasG g then (koGene y g, none) else (y, some .key)
  | .koGenes gs => if gs.all y.s.hasG then (koGenes gs y, none) else (y, some .key)
  | .objCoef r v => if y.s.hasR r then (setObjective y [(r, v)] true, none) else (y, some .key)
  | .setObj coefs => if coefs.all (fun p => y.s.hasR p.1) then (setObjective y coefs false, none) else (y, some .key)
  | .setDir d => setDir y d
  | .addMets r ps combine neg => if y.s.hasR r then addMets y r ps combine neg else (y, some .key)
  | .removeRxn r => if y.s.hasR r then (removeRxn y r, none) else (y, some .key)
  | .addRxn r lb ub ps =>
    if EB.lt ub lb then (y, some .value)               -- `Reaction(…, lower_bound, upper_bound)` refuses, before the model is involved
    else if y.s.hasR r then (y, none)                  -- an id that is taken: the reaction is ignored (a warning is logged)
    else if decide (r ∈ y.s.univR) && freshNames y.s r && ps.all (fun p => y.s.hasM p.1 && decide (p.2 ≠ 0)) then (addRxn y r lb ub ps, none)
    else (y, some .type)                               -- outside the modelled fragment (never sent by the harness)
  | .addMet m =>
    if y.s.hasM m then (y, none)                       -- an id that is taken: filtered out, nothing happens
    else (addMet y m, none)
  | .rmMet m => if y.s.hasM m then (rmMet y m, none) else (y, none)       -- metabolites that are not in the model are filtered out
  | .setRule r rule =>
    if !y.s.hasR r then (y, some .key)
    else if inCtx y then (y, some .type)               -- inside a context: outside the modelled fragment (never sent by the harness)
    else ({ y with s := setRuleRaw y.s r rule }, none)
  | .removeRxnO r => if y.s.hasR r then (removeRxnO y r, none) else (y, some .key)
  | .removeRxns rs orphans => (removeRxns orphans rs y, none)
  | .rmMetD m => if y.s.hasM m then (rmMetD y m, none) else (y, none)
  | .imul r k =>
    if !y.s.hasR r then (y, some .key)
    else if k = 0 then (y, some .type)                 -- outside the modelled fragment (never sent by the harness)
    else imul y r k
  | .removeGenes gs rr =>
    if !gs.all y.s.hasG then (y, some .key)              -- `model.genes.get_by_id` of an unknown gene
    else if inCtx y then (y, some .type)                 -- inside a context: outside the modelled fragment (never sent by the harness)
    else
      let ks : Id → Bool := fun g => gs.contains g
      -- reactions whose rule is false without the genes leave the model (`model.remove_reactions(target_reactions)`); the others get the pruned rule
      let y1 := if rr then removeRxns false (geneTargets y.s ks) y else y
      ({ y1 with s := removeGenesRaw y1.s ks }, none)
  | .addRxnR r lb ub ps rule =>
    -- as `addRxn`; the genes of the rule the model lacks join `model.genes`, the others are the model's own objects from now on
    -- (`reaction._dissociate_gene(gene)`, `reaction._associate_gene(model_gene)`): the effect of `setRuleRaw` on the freshly added reaction
    if EB.lt ub lb then (y, some .value)
    else if y.s.hasR r then (y, none)
    else if inCtx y then (y, some .type)                 -- inside a context: outside the modelled fragment (never sent by the harness)
    else if decide (r ∈ y.s.univR) && freshNames y.s r && ps.all (fun p => y.s.hasM p.1 && decide (p.2 ≠ 0)) then
      ({ y with s := setRuleRaw (addRxnRaw y.s r lb ub ps) r rule }, none)
    else (y, some .type)
  | .addBoundary m t external dlb dub =>
    if !y.s.hasM m then (y, some .key)                          -- the metabolite is looked up in the model first
    else if t = .exchange && !external then (y, some .value)     -- "The metabolite is not an external metabolite"
    else if y.s.hasR (t.rid m) then (y, some .value)            -- "Boundary reaction … already exists"
    else
      -- Reaction(id, lower_bound, upper_bound); add_metabolites({metabolite: -1}); add_reactions([rxn])
      let r := t.rid m
      let lb := (t.bounds dlb dub).1
      let ub := (t.bounds dlb dub).2
      if EB.lt ub lb then (y, some .value)
      else if decide (r ∈ y.s.univR) && freshNames y.s r then (addRxn y r lb ub [(m, -1)], none)
      else (y, some .type)                                       -- outside the modelled fragment (never sent by the harness)
  | .observe => (y, none)
  | .enter => (enter y, none)
  | .exit => exit y

end Core

/-!
# Effect summaries of the analyses  (C13)

An analysis is abstracted to what it does to the components of the model it was given: it replaces a component through a context-aware
setter (`ctxWrite`: an undo is recorded in the innermost open context, if any), modifies the installed object in place (`rawWrite`: no undo is
recorded anywhere), opens its own context (`withModel`), protects a region with `try … finally`, may raise at a solver call or a lookup
(`mayRaise`), works on a copy (`onCopy`), branches and loops.  The terms are generated from the source by harness/translate_effects.py.

The state keeps, per component, which object is installed, the content of every object, and the stack of open contexts with their undo records
(the caller's contexts are at the bottom of the stack).
-/

namespace Effects

inductive Comp | bounds | objective | direction | consvars | structure | genes | solver | medium
  deriving DecidableEq, Repr

inductive Stmt
  | skip
  | seq (a b : Stmt)
  | ctxWrite (c : Comp)
  | rawWrite (c : Comp)
  | withModel (body : Stmt)
  | tryFinally (body fin : Stmt)
  | mayRaise
  | onCopy (body : Stmt)
  | branch (a b : Stmt)
  | loop (body : Stmt)
  deriving Repr

structure St where
  inst : Comp → Nat                  -- the object installed for each component
  content : Nat → Nat                -- the content of every object
  next : Nat                         -- objects created so far
  ctx : List (List (Comp × Nat))     -- open contexts, innermost first; undo records, newest first

def upd {α} (f : Comp → α) (c : Comp) (v : α) : Comp → α := fun x => if x = c then v else f x

def updN (f : Nat → Nat) (i v : Nat) : Nat → Nat := fun x => if x = i then v else f x

/-- apply undo records, newest first -/
def undo : List (Comp × Nat) → (Comp → Nat) → (Comp → Nat)
  | [], i => i
  | (c, o) :: l, i => undo l (upd i c o)

def St.ctxWrite (σ : St) (c : Comp) : St :=
  { σ with inst := upd σ.inst c σ.next, next := σ.next + 1,
           ctx := match σ.ctx with
                  | [] => []
                  | top :: rest => ((c, σ.inst c) :: top) :: rest }

def St.rawWrite (σ : St) (c : Comp) : St :=
  { σ with content := updN σ.content (σ.inst c) (σ.content (σ.inst c) + 1) }

def St.push (σ : St) : St := { σ with ctx := [] :: σ.ctx }

def St.pop (σ : St) : St :=
  match σ.ctx with
  | [] => σ
  | top :: rest => { σ with inst := undo top σ.inst, ctx := rest }

inductive Out | ok | raised
  deriving DecidableEq, Repr

def Out.join : Out → Out → Out
  | .ok, .ok => .ok
  | _, _ => .raised

/-- big-step semantics; exceptions propagate, `with` and `finally` run on the way out -/
inductive Exec : Stmt → St → Out → St → Prop
  | skip (σ) : Exec .skip σ .ok σ
  | seqOk {a b σ σ1 o σ2} : Exec a σ .ok σ1 → Exec b σ1 o σ2 → Exec (.seq a b) σ o σ2
  | seqRaise {a b σ σ1} : Exec a σ .raised σ1 → Exec (.seq a b) σ .raised σ1
  | ctxWrite (c σ) : Exec (.ctxWrite c) σ .ok (σ.ctxWrite c)
  | rawWrite (c σ) : Exec (.rawWrite c) σ .ok (σ.rawWrite c)
  | withModel {b σ o σ2} : Exec b σ.push o σ2 → Exec (.withModel b) σ o σ2.pop
  | tryFinally {b f σ o1 σ1 o2 σ2} : Exec b σ o1 σ1 → Exec f σ1 o2 σ2 → Exec (.tryFinally b f) σ (o1.join o2) σ2
  | noRaise (σ) : Exec .mayRaise σ .ok σ
  | raise (σ) : Exec .mayRaise σ .raised σ
  | onCopy (b σ o) : Exec (.onCopy b) σ o σ
  | branchL {a b σ o σ1} : Exec a σ o σ1 → Exec (.branch a b) σ o σ1
  | branchR {a b σ o σ1} : Exec b σ o σ1 → Exec (.branch a b) σ o σ1
  | loopDone (b σ) : Exec (.loop b) σ .ok σ
  | loopStep {b σ σ1 o σ2} : Exec b σ .ok σ1 → Exec (.loop b) σ1 o σ2 → Exec (.loop b) σ o σ2
  | loopRaise {b σ σ1} : Exec b σ .raised σ1 → Exec (.loop b) σ .raised σ1

/-- The syntactic check.  `inCtx`: inside a context the analysis opened itself.  `fresh`: components whose installed object was put there by the
    analysis inside its own context (modifying it in place cannot be seen once the context is left).  Returns the fresh set afterwards. -/
def safe (inCtx : Bool) (fresh : List Comp) : Stmt → Option (List Comp)
  | .skip => some fresh
  | .seq a b => match safe inCtx fresh a with
    | some f1 => safe inCtx f1 b
    | none => none
  | .ctxWrite c => if inCtx then some (c :: fresh) else none
  | .rawWrite c => if c ∈ fresh then some fresh else none
  | .withModel b => match safe true fresh b with
    | some _ => some fresh
    | none => none
  | .tryFinally b f => match safe inCtx fresh b, safe inCtx fresh f with
    | some f1, some _ => some f1
    | _, _ => none
  | .mayRaise => some fresh
  | .onCopy _ => some fresh
  | .branch a b => match safe inCtx fresh a, safe inCtx fresh b with
    | some f1, some f2 => some (f1.filter (· ∈ f2))
    | _, _ => none
  | .loop b => match safe inCtx fresh b with
    | some _ => some fresh
    | none => none

/-- an analysis is safe when its summary passes the check from the outside: no own context open, nothing fresh -/
def Safe (s : Stmt) : Bool := (safe false [] s).isSome

end Effects

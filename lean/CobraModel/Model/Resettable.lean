/-!
# `resettable` setters inside a context (src/cobra/util/context.py, Reaction.lower_bound / upper_bound / bounds)

A bound setter stores the value in the private field first and pushes it to the solver afterwards (`update_variable_bounds`); the solver
interface refuses some values the setter's own check lets through (NaN, numbers left as strings).  The `resettable` wrapper records the undo
— "call the setter with the old value" — *before* it calls the setter.  Leaving the context pops the undos newest first; an undo that raises
ends the unwinding.
-/
namespace ResetM

/-- a value for the field: a number, or something the solver interface refuses -/
inductive Val
  | num (q : Rat)
  | junk (tag : Nat)
deriving DecidableEq, Repr

structure St where
  field : Val
  solver : Rat
  hist : List Val
deriving Repr

/-- the undecorated setter: store, then push to the solver.  For a refused value (NaN) `update_variable_bounds` takes its last branch, has
already put the forward variable's lower bound to 0 when the reverse variable refuses `-NaN`: the solver side is left at 0 -/
def rawSet (s : St) (v : Val) : St × Bool :=
  match v with
  | .num q => ({ s with field := v, solver := q }, true)
  | .junk _ => ({ s with field := v, solver := 0 }, false)

/-- the decorated setter inside a context: nothing for an unchanged value; otherwise record the undo, then call the setter -/
def set (s : St) (v : Val) : St × Bool :=
  if s.field = v then (s, true) else rawSet { s with hist := s.field :: s.hist } v

/-- the variant that records only after the setter has returned (not what the code does): a refused value leaves no undo behind -/
def setLate (s : St) (v : Val) : St × Bool :=
  if s.field = v then (s, true)
  else
    let old := s.field
    let (s', ok) := rawSet s v
    if ok then ({ s' with hist := old :: s'.hist }, true) else (s', false)

def run (f : St → Val → St × Bool) (s : St) (vs : List Val) : St := vs.foldl (fun st v => (f st v).1) s

/-- leaving the context -/
def exitLoop : List Val → St → St × Bool
  | [], s => ({ s with hist := [] }, true)
  | v :: rest, s =>
    let (s', ok) := rawSet s v
    if ok then exitLoop rest s' else ({ s' with hist := rest }, false)

def exit (s : St) : St × Bool := exitLoop s.hist s

def init (q : Rat) : St := ⟨.num q, q, []⟩

end ResetM

/-!
# The key scheme of `cobra.io.dict`  (C11)

Every object kind (reaction, metabolite, gene, model) is written the same way (`_update_optional`): the required keys always, an optional key only
when the attribute differs from its default; loading sets every key found in the dictionary on a freshly constructed object, whose attributes start
at the defaults.  The key tables themselves are generated from the source (Gen/DictKeys.lean).
-/

namespace DictScheme

variable {V : Type} [DecidableEq V]

structure Scheme (V : Type) where
  required : List String
  optional : List (String × V)      -- key and default, in the order written

def Scheme.keys (s : Scheme V) : List String := s.required ++ s.optional.map (·.1)

/-- an optional key is written when the attribute differs from the default -/
def written (a : String → V) (p : String × V) : Bool := !decide (a p.1 = p.2)

/-- the optional part of the dictionary -/
def optPart (a : String → V) (opt : List (String × V)) : List (String × V) :=
  (opt.filter (written a)).map (fun p => (p.1, a p.1))

/-- `_<kind>_to_dict` -/
def toDict (s : Scheme V) (a : String → V) : List (String × V) :=
  s.required.map (fun k => (k, a k)) ++ optPart a s.optional

def lookup (k : String) : List (String × V) → Option V
  | [] => none
  | (k', v) :: rest => if k' = k then some v else lookup k rest

/-- the attribute values of a freshly constructed object -/
def defaultOf (s : Scheme V) (fallback : V) (k : String) : V := (lookup k s.optional).getD fallback

/-- `_<kind>_from_dict`: every key of the dictionary is set, everything else stays at its default -/
def fromDict (s : Scheme V) (fallback : V) (d : List (String × V)) : String → V :=
  fun k => match lookup k d with
    | some v => v
    | none => defaultOf s fallback k

end DictScheme

/-!
# Executable model of `Model.medium` and of the big-M constant of `minimal_medium(minimize_components=…)`

Exchange reactions are written either way round: `isReactant = true` for `met -->` (import is negative flux, import capacity
`-lower_bound`), `false` for `--> met` (import capacity `upper_bound`).  The getter is `is_active` / `get_active_bound`, the setter
`set_active_bound` for the listed exchanges and "import closed" for all others (`cobra/core/model.py`); `bigM` is the constant of
`add_mip_obj` (`cobra/medium/minimal_medium.py`).
-/
namespace MediumM

structure Ex where
  isReactant : Bool
  lb : Rat
  ub : Rat
deriving DecidableEq, Repr

/-- `get_active_bound` -/
def importCap (e : Ex) : Rat := if e.isReactant then -e.lb else e.ub
/-- the bound on the export side -/
def exportBound (e : Ex) : Rat := if e.isReactant then e.ub else e.lb
/-- `is_active` -/
def isActive (e : Ex) : Bool := (!e.isReactant && decide (0 < e.ub)) || (e.isReactant && decide (e.lb < 0))
/-- `set_active_bound` -/
def setActive (e : Ex) (b : Rat) : Ex := if e.isReactant then { e with lb := -b } else { e with ub := b }
/-- what the setter does to an exchange that is not listed -/
def closeImport (e : Ex) : Ex := setActive e (min 0 (importCap e))

def lookup (med : List (String × Rat)) (k : String) : Option Rat := (med.find? (fun p => p.1 == k)).map (·.2)

/-- `model.medium = med` -/
def setMedium (exs : List (String × Ex)) (med : List (String × Rat)) : List (String × Ex) :=
  exs.map (fun p => (p.1, match lookup med p.1 with | some b => setActive p.2 b | none => closeImport p.2))

/-- `model.medium` -/
def getMedium (exs : List (String × Ex)) : List (String × Rat) :=
  exs.filterMap (fun p => if isActive p.2 then some (p.1, importCap p.2) else none)

def absR (q : Rat) : Rat := if q < 0 then -q else q

/-- `big_m = max(abs(b) for r in exchange_rxns for b in r.bounds)` -/
def bigM (exs : List (String × Ex)) : Rat :=
  exs.foldl (fun acc p => max acc (max (absR p.2.lb) (absR p.2.ub))) 0

end MediumM

import CobraModel.Model.LP
/-!
# LP formulations built on top of the flux-balance problem (FVA, pFBA, MOMA, …)

These follow what the analyses in `cobra.flux_analysis` construct, at the level of the net-flux problem:
an extra row for "objective at or beyond a fraction of the optimum", unit objectives for the flux ranges,
the split `v = p - n`, `p, n ≥ 0` with the objective / cap `Σ (p + n)` for total absolute flux.
-/
namespace LPM

/-- unit vector `e_r` of length `n` -/
def unit : Nat → Nat → List Rat
  | 0, _ => []
  | n + 1, 0 => 1 :: List.replicate n 0
  | n + 1, r + 1 => 0 :: unit n r

def negV (c : List Rat) : List Rat := c.map (fun a => -a)

/-- the problem with one more row -/
def LP.addRow (p : LP) (a : List Rat) (b : Bnd) : LP := { p with rows := p.rows ++ [(a, b)] }

/-- the problem with another objective -/
def LP.withObj (p : LP) (c : List Rat) : LP := { p with obj := c }

/-- FVA region for a maximisation model: the original objective stays at or above `t = fraction × optimum`
(the `fva_old_objective` variable with lower bound `t` and the equality row tying it to the objective) -/
def LP.fvaRegion (p : LP) (t : Rat) : LP := p.addRow p.obj ⟨some t, none⟩

/-- the LP solved by `_fva_step` for reaction `r`: maximise `v_r` (sense max) or `-v_r` (sense min) -/
def LP.fvaStep (p : LP) (t : Rat) (r : Nat) (maximise : Bool) : LP :=
  (p.fvaRegion t).withObj (if maximise then unit p.n r else negV (unit p.n r))

end LPM

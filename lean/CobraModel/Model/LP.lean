/-!
# Linear programs over `Rat` and an executable certificate checker

Dense list representation: `n` variables with boxes, rows with bounds, an objective to **maximise**
(a minimisation problem is passed with the negated objective).
`checkOpt`, `checkInfeas`, `checkUnbdd` accept exact rational certificates produced by an *untrusted* solver
(`harness/exact_lp.py`); their soundness is proved in `CobraModel/Lemmas/LP.lean`.
-/
namespace LPM

structure Bnd where
  lo : Option Rat
  hi : Option Rat
deriving Repr

def Bnd.has (b : Bnd) (v : Rat) : Bool :=
  (match b.lo with | none => true | some l => decide (l ≤ v)) &&
  (match b.hi with | none => true | some u => decide (v ≤ u))

def dot : List Rat → List Rat → Rat
  | a :: as, b :: bs => a * b + dot as bs
  | _, _ => 0

structure LP where
  n : Nat
  vb : List Bnd                 -- variable boxes, length n
  rows : List (List Rat × Bnd)  -- dense rows (length n) with row bounds
  obj : List Rat                -- length n; maximise

def allBox : List Bnd → List Rat → Bool
  | [], [] => true
  | b :: bs, v :: vs => b.has v && allBox bs vs
  | _, _ => false

def allRows (x : List Rat) : List (List Rat × Bnd) → Bool
  | [] => true
  | (a, b) :: rs => (a.length == x.length) && b.has (dot a x) && allRows x rs

def LP.feasible (p : LP) (x : List Rat) : Bool :=
  (x.length == p.n) && allBox p.vb x && allRows x p.rows

def addV : List Rat → List Rat → List Rat
  | a :: as, b :: bs => (a + b) :: addV as bs
  | _, _ => []
def scaleV (k : Rat) : List Rat → List Rat
  | [] => []
  | a :: as => (k * a) :: scaleV k as
/-- `yᵀA` -/
def yA (n : Nat) : List Rat → List (List Rat × Bnd) → List Rat
  | y :: ys, (a, _) :: rs => addV (scaleV y a) (yA n ys rs)
  | _, _ => List.replicate n 0
def subV : List Rat → List Rat → List Rat
  | a :: as, b :: bs => (a - b) :: subV as bs
  | _, _ => []

/-- sign condition of a multiplier `m` against a box `b` at value `v`:
`m > 0` ⇒ `v` sits at a finite upper bound, `m < 0` ⇒ `v` sits at a finite lower bound -/
def signOK (m : Rat) (b : Bnd) (v : Rat) : Bool :=
  (decide (m ≤ 0) || (match b.hi with | some u => decide (v = u) | none => false)) &&
  (decide (0 ≤ m) || (match b.lo with | some l => decide (v = l) | none => false))

def signsVars : List Rat → List Bnd → List Rat → Bool
  | [], [], [] => true
  | d :: ds, b :: bs, v :: vs => signOK d b v && signsVars ds bs vs
  | _, _, _ => false
def signsRows (x : List Rat) : List Rat → List (List Rat × Bnd) → Bool
  | [], [] => true
  | y :: ys, (a, b) :: rs => signOK y b (dot a x) && signsRows x ys rs
  | _, _ => false

/-- optimality certificate: primal `x`, row multipliers `y` (reduced costs are `c - yᵀA`) -/
def LP.checkOpt (p : LP) (x y : List Rat) : Bool :=
  p.feasible x && (p.obj.length == p.n) &&
  signsVars (subV p.obj (yA p.n y p.rows)) p.vb x && signsRows x y p.rows

/-- largest value `m * v` can take for `v` in the box, `none` if unbounded above -/
def supTerm (m : Rat) (b : Bnd) : Option Rat :=
  if m = 0 then some 0
  else if 0 < m then b.hi.map (fun u => m * u)
  else b.lo.map (fun l => m * l)

/-- smallest value `m * v` can take for `v` in the box, `none` if unbounded below -/
def infTerm (m : Rat) (b : Bnd) : Option Rat :=
  if m = 0 then some 0
  else if 0 < m then b.lo.map (fun l => m * l)
  else b.hi.map (fun u => m * u)

/-- upper bound of `Σ yᵢ (aᵢ·x)` from the row bounds -/
def supRows : List Rat → List (List Rat × Bnd) → Option Rat
  | y :: ys, (_, b) :: rs => match supTerm y b, supRows ys rs with
    | some t, some r => some (t + r)
    | _, _ => none
  | _, _ => some 0

/-- lower bound of `g·x` from the variable boxes -/
def infVars : List Rat → List Bnd → Option Rat
  | [], [] => some 0
  | g :: gs, b :: bs => match infTerm g b, infVars gs bs with
    | some t, some r => some (t + r)
    | _, _ => none
  | _, _ => none

/-- a box with `lo > hi` contains nothing -/
def Bnd.empty (b : Bnd) : Bool :=
  match b.lo, b.hi with
  | some l, some u => decide (u < l)
  | _, _ => false

def rowsHaveLen (n : Nat) : List (List Rat × Bnd) → Bool
  | [] => true
  | (a, _) :: rs => (a.length == n) && rowsHaveLen n rs

/-- Farkas certificate of infeasibility: with `g = yᵀA`, every point of the box has `g·x ≥ L` while the row
bounds force `g·x ≤ R`, and `R < L` -/
def LP.checkInfeas (p : LP) (y : List Rat) : Bool :=
  p.vb.any Bnd.empty ||
  (rowsHaveLen p.n p.rows && (p.vb.length == p.n) &&
  match supRows y p.rows, infVars (yA p.n y p.rows) p.vb with
  | some r, some l => decide (r < l)
  | _, _ => false)

/-- `z` is a recession direction of the box `b` -/
def rayOK (b : Bnd) (z : Rat) : Bool :=
  (match b.lo with | none => true | some _ => decide (0 ≤ z)) &&
  (match b.hi with | none => true | some _ => decide (z ≤ 0))

def rayVars : List Bnd → List Rat → Bool
  | [], [] => true
  | b :: bs, z :: zs => rayOK b z && rayVars bs zs
  | _, _ => false
def rayRows (z : List Rat) : List (List Rat × Bnd) → Bool
  | [] => true
  | (a, b) :: rs => (a.length == z.length) && rayOK b (dot a z) && rayRows z rs

/-- unboundedness certificate: a feasible point and an improving recession direction -/
def LP.checkUnbdd (p : LP) (x z : List Rat) : Bool :=
  p.feasible x && (z.length == p.n) && (p.obj.length == p.n) && rayVars p.vb z && rayRows z p.rows &&
  decide (0 < dot p.obj z)

end LPM

import CobraModel.Model.LP
/-!
# Geometry of one hit-and-run step  (src/cobra/sampling/core.py:18, hr_sampler.py)

Exact arithmetic (`Rat`) model of `step`: the permissible step lengths from the (scaled) variable boxes, the choice of the range
`[max of the non-positive ones, min of the positive ones]`, the new point, the bound check and the retry from the centre.
Randomness (the step length within the range, the warm-up direction of a retry) enters as parameters.
Inequality rows are treated like variables after multiplying out (`prob.inequalities.dot`), so the model keeps one list of boxed coordinates.
-/
open LPM

namespace Sampling

/-- candidate step lengths of one coordinate: `(lo - x) / δ` and `(hi - x) / δ`; coordinates that hardly move (`|δ| ≤ tol`) and fixed ones give none -/
def alphasOf (tol : Rat) (fixed : Bool) (lo hi x d : Rat) : List Rat :=
  if fixed || decide ((if d < 0 then -d else d) ≤ tol) then [] else [(lo - x) / d, (hi - x) / d]

/-- `valid = (|delta| > feasibility_tol) & ~variable_fixed` -/
def alphas (tol : Rat) : List Bool → List Rat → List Rat → List Rat → List Rat → List Rat
  | fx :: fxs, lo :: los, hi :: his, x :: xs, d :: ds => alphasOf tol fx lo hi x d ++ alphas tol fxs los his xs ds
  | _, _, _, _, _ => []

def maxL : List Rat → Rat → Rat
  | [], m => m
  | a :: as, m => maxL as (if m < a then a else m)

def minL : List Rat → Rat → Rat
  | [], m => m
  | a :: as, m => minL as (if a < m then a else m)

/-- `alpha_range`: `[neg_alphas.max() or 0, pos_alphas.min() or 0]` -/
def alphaRange (as : List Rat) : Rat × Rat :=
  let neg := as.filter (fun a => decide (a ≤ 0))
  let pos := as.filter (fun a => decide (0 < a))
  (match neg with | [] => 0 | a :: r => maxL r a, match pos with | [] => 0 | a :: r => minL r a)

/-- `x + alpha * delta` -/
def move (x d : List Rat) (a : Rat) : List Rat := addV x (scaleV a d)

/-- `np.any(_bounds_dist(p) < -bounds_tol)` fails, i.e. every coordinate is within `tol` of its box -/
def withinTol (tol : Rat) : List Rat → List Rat → List Rat → Bool
  | lo :: los, hi :: his, p :: ps => decide (lo - tol ≤ p) && decide (p ≤ hi + tol) && withinTol tol los his ps
  | _, _, _ => true

def absR (a : Rat) : Rat := if a < 0 then -a else a

def maxAbs : List Rat → Rat
  | [] => 0
  | a :: as => if maxAbs as < absR a then absR a else maxAbs as

/-- `np.abs(np.abs(alpha_range).max() * delta).max() < bounds_tol`: the walk got stuck -/
def stuck (tol : Rat) (r : Rat × Rat) (d : List Rat) : Bool :=
  decide ((if absR r.1 < absR r.2 then absR r.2 else absR r.1) * maxAbs d < tol)

/-- `step` with a bound on the retries (`MAX_TRIES`): `none` is the `RuntimeError`.  The candidates come from the scaled boxes `(1 - tol) * bounds`
    (`slo`, `shi`), the check after the move uses the bounds themselves (`lo`, `hi`).  `pickAlpha` chooses within the range, `newDir` the
    warm-up direction of a retry. -/
def step (tol : Rat) (fixed : List Bool) (slo shi lo hi centre : List Rat) (pickAlpha : Rat × Rat → Rat) (newDir : Nat → List Rat) :
    Nat → List Rat → List Rat → Option (List Rat)
  | 0, _, _ => none
  | fuel + 1, x, d =>
    let r := alphaRange (alphas tol fixed slo shi x d)
    let p := move x d (pickAlpha r)
    if withinTol tol lo hi p && !stuck tol r d then some p
    else step tol fixed slo shi lo hi centre pickAlpha newDir fuel centre (subV (newDir fuel) centre)

end Sampling

/-!
# Pure model of the flux tables of `ModelSummary` / `MetaboliteSummary`

A row is `(reaction, factor, flux)` plus optional FVA `(minimum, maximum)`; `factor` is the stoichiometric
coefficient of the metabolite in the reaction. The model follows `_generate`: scale by the factor, zero what is
below the tolerance, scale and (for negative factors) swap the FVA range, split into the producing (uptake) and
consuming (secretion) tables, percentages.
-/
namespace SummaryM

structure Row where
  rxn : String
  factor : Rat
  flux : Rat            -- solution flux of the reaction
  range : Option (Rat × Rat) := none   -- FVA minimum, maximum of the reaction

structure Out where
  rxn : String
  factor : Rat
  flux : Rat
  range : Option (Rat × Rat)

def absR (x : Rat) : Rat := if x < 0 then -x else x
def zeroSmall (tol x : Rat) : Rat := if absR x < tol then 0 else x

/-- one row of the `flux` frame after scaling / zeroing / swapping -/
def scale (tol : Rat) (r : Row) : Out :=
  { rxn := r.rxn, factor := r.factor, flux := zeroSmall tol (r.flux * r.factor),
    range := r.range.map (fun mm =>
      let lo := zeroSmall tol mm.1 * r.factor
      let hi := zeroSmall tol mm.2 * r.factor
      if r.factor < 0 then (hi, lo) else (lo, hi)) }

def isProduced (o : Out) : Bool := decide (0 < o.flux) || (decide (o.flux = 0) && decide (0 < o.factor))
def isConsumed (o : Out) : Bool := decide (o.flux < 0) || (decide (o.flux = 0) && decide (o.factor < 0))

def producing (tol : Rat) (rows : List Row) : List Out := (rows.map (scale tol)).filter isProduced
def consuming (tol : Rat) (rows : List Row) : List Out := (rows.map (scale tol)).filter isConsumed

def total (l : List Out) : Rat := (l.map (fun o => absR o.flux)).sum
/-- the `percent` column -/
def percents (l : List Out) : List Rat := l.map (fun o => absR o.flux / total l)

end SummaryM

/-!
# The main loop of `fastcc` (src/cobra/flux_analysis/fastcc.py)

The LP solves are external: the model takes their answers — the list of reactions with `|flux| > zero_cutoff` that each solve returned — in
order and does the bookkeeping the code does around them:

* first `_find_sparse_mode` over the irreversible reactions (no solve at all when there are none);
* `rxns_to_check = all \ keep`; while it is not empty: `_find_sparse_mode` over *all of* `rxns_to_check`, `keep += answer`;
  if `rxns_to_check ∩ keep ≠ ∅` then `rxns_to_check := rxns_to_check \ keep`, else flip the reversible ones among `rxns_to_check`, solve once
  more (`min`), `keep += answer`, stop.

The result records every solve (which reactions it was given, flipped or not, what it answered); the correspondence check compares that
record with the calls the real `fastcc` makes on the same model and the kept set with the reactions of the model it returns.
-/
namespace FastccM

def diff (a b : List Nat) : List Nat := a.filter (fun i => !b.contains i)
def inter (a b : List Nat) : List Nat := a.filter (fun i => b.contains i)

structure Call where
  j : List Nat
  flipped : Bool
  ans : List Nat
deriving Repr, DecidableEq

structure Res where
  kept : List Nat
  calls : List Call
  /-- false: the answers ran out before the loop ended (the trace does not belong to this loop) -/
  complete : Bool
deriving Repr

/-- the `while rxns_to_check:` loop -/
def loop (irr : List Nat) : List (List Nat) → List Nat → List Nat → List Call → Res
  | [], keep, check, calls => ⟨keep, calls, check.isEmpty⟩
  | a :: rest, keep, check, calls =>
    if check.isEmpty then ⟨keep, calls, false⟩          -- an answer nobody asked for
    else
      let keep' := keep ++ a
      let calls' := calls ++ [⟨check, false, a⟩]
      if (inter check keep').isEmpty then
        match rest with
        | [b] => ⟨keep' ++ b, calls' ++ [⟨diff check irr, true, b⟩], true⟩
        | _ => ⟨keep', calls', false⟩
      else loop irr rest keep' (diff check keep') calls'

def fastcc (all irr : List Nat) (answers : List (List Nat)) : Res :=
  if irr.isEmpty then loop irr answers [] (diff all []) []
  else match answers with
    | [] => ⟨[], [], false⟩
    | a :: rest => loop irr rest a (diff all a) [⟨irr, false, a⟩]

end FastccM

/-!
# What `find_blocked_reactions` does with the numbers it gets (src/cobra/flux_analysis/variability.py)

The first solve and the FVA at fraction 0 are external; the function keeps, of the requested reactions, those whose flux in the first solution
is below the cutoff in absolute value (only these go to the FVA) and, of these, those whose larger end of the range is below the cutoff in
absolute value.
-/
namespace BlockedM

def absR (q : Rat) : Rat := if q < 0 then -q else q

def toFva (cut : Rat) (sol : Nat → Rat) (req : List Nat) : List Nat := req.filter (fun i => decide (absR (sol i) < cut))

def blocked (cut : Rat) (sol : Nat → Rat) (rng : Nat → Rat × Rat) (req : List Nat) : List Nat :=
  (toFva cut sol req).filter (fun i => decide (max (absR (rng i).1) (absR (rng i).2) < cut))

end BlockedM

import CobraModel.Gen.StatusTable
/-!
# Decision logic of `Model.slim_optimize` / `assert_optimal` / `check_solver_status` over a solver reply
-/
namespace ReplyM

inductive Outcome where
  | value (v : Rat)          -- the objective value is returned
  | errValue                 -- the caller's `error_value` is returned
  | raises (exc : String)    -- an exception of this class is raised
deriving DecidableEq, Repr

/-- `OPTLANG_TO_EXCEPTIONS_DICT.get(status, OptimizationError)` -/
def excFor (status : String) : String :=
  match Gen.statusExceptions.find? (fun p => p.1 == status) with
  | some p => p.2
  | none => "OptimizationError"

/-- `slim_optimize(error_value)` after the solver answered with `status` and `objective` -/
def slimOptimize (status : String) (objective : Rat) (hasErrValue : Bool) : Outcome :=
  if status == "optimal" then .value objective
  else if hasErrValue then .errValue
  else .raises (excFor status)

/-- `check_solver_status(status, raise_error)`: `none` = returns normally (possibly with a warning) -/
def checkSolverStatus (status : Option String) (raiseError : Bool) : Option String :=
  match status with
  | none => some "OptimizationError"
  | some s =>
    if s == "optimal" then none
    else if Gen.hasPrimals.contains s && !raiseError then none
    else some "OptimizationError"

end ReplyM

/-!
# SBML identifier layer and bound parameters  (src/cobra/io/sbml.py:100-389, 1479-1537)

`_f_<kind>_rev` : every character outside `[0-9_a-zA-Z]` becomes `__<ord>__`, then the kind's prefix is attached.
`_f_<kind>`     : `re.sub(r"__(\d+)__", chr(int(..)))` (leftmost, non-overlapping, greedy digits), then the prefix is clipped;
                  genes first replace `__SBML_DOT__` by `.`.
`_create_bound` : the choice between the five shared parameters and a per-reaction parameter.

Identifiers are lists of characters.  `chr` raises `ValueError` beyond U+10FFFF: `none`.
-/

namespace SbmlId

abbrev Str := List Char

/-- `[0-9_a-zA-Z]` -/
def plain (c : Char) : Bool := c.isAlphanum || c == '_'

/-- `_escape_non_alphanum` -/
def escChar (c : Char) : Str :=
  if plain c then [c] else '_' :: '_' :: (Nat.toDigits 10 c.toNat ++ ['_', '_'])

/-- `pattern_to_sbml.sub(_escape_non_alphanum, sid)` -/
def esc : Str → Str
  | [] => []
  | c :: s => escChar c ++ esc s

/-- longest run of decimal digits at the front (`\d+` is greedy and what follows it is not a digit) -/
def takeDigits : Str → Str × Str
  | [] => ([], [])
  | c :: s => if c.isDigit then ((takeDigits s).1.cons c, (takeDigits s).2) else ([], c :: s)

/-- does `__(\d+)__` match at the very front?  the number and what follows the match -/
def tokenOf : Str × Str → Option (Nat × Str)
  | (d :: ds, '_' :: '_' :: r) => some (Nat.ofDigitChars 10 (d :: ds) 0, r)
  | _ => none

def tryToken : Str → Option (Nat × Str)
  | '_' :: '_' :: t => tokenOf (takeDigits t)
  | _ => none

theorem takeDigits_length (s : Str) : (takeDigits s).2.length ≤ s.length := by
  induction s with
  | nil => simp [takeDigits]
  | cons c s ih => unfold takeDigits; split <;> simp <;> omega

theorem tryToken_length {s : Str} {n : Nat} {r : Str} (h : tryToken s = some (n, r)) : r.length < s.length := by
  unfold tryToken at h
  split at h
  · rename_i t
    have := takeDigits_length t
    unfold tokenOf at h
    split at h
    · rename_i d ds r' heq
      simp at h
      rw [heq] at this
      simp at this
      rw [← h.2]; simp; omega
    · simp at h
  · simp at h

/-- `pattern_from_sbml.sub(_number_to_chr, sid)`; `none` when `chr` raises -/
def unesc (s : Str) : Option Str :=
  match s with
  | [] => some []
  | c :: rest =>
    match _h : tryToken (c :: rest) with
    | some (n, r) =>
      if n.isValidChar then (unesc r).map (fun x => Char.ofNat n :: x) else none
    | none => (unesc rest).map (fun x => c :: x)
termination_by s.length
decreasing_by
  · exact tryToken_length _h
  · simp

/-- `_clip` -/
def clip (pre s : Str) : Str := if pre.isPrefixOf s then s.drop pre.length else s

def sbmlDot : Str := "__SBML_DOT__".toList

/-- `sid.replace(SBML_DOT, ".")` : leftmost, non-overlapping -/
def replDot (s : Str) : Str :=
  match s with
  | [] => []
  | c :: rest =>
    if sbmlDot.isPrefixOf (c :: rest) then '.' :: replDot (rest.drop 11) else c :: replDot rest
termination_by s.length
decreasing_by
  · simp; omega
  · simp

/-- `sid.replace(".", SBML_DOT)` -/
def dotToSbml : Str → Str
  | [] => []
  | c :: s => (if c = '.' then sbmlDot else [c]) ++ dotToSbml s

inductive Kind | gene | specie | reaction | group
  deriving DecidableEq, Repr

def Kind.prefix : Kind → Str
  | .gene => ['G', '_'] | .specie => ['M', '_'] | .reaction => ['R', '_'] | .group => ['G', '_']

/-- `_f_<kind>_rev` -/
def fRev (k : Kind) (s : Str) : Str :=
  match k with
  | .gene => k.prefix ++ dotToSbml (esc s)
  | _ => k.prefix ++ esc s

/-- `_f_<kind>` -/
def f (k : Kind) (t : Str) : Option Str :=
  match k with
  | .gene => (unesc (replDot t)).map (clip k.prefix)
  | _ => (unesc t).map (clip k.prefix)

/-- no `__` directly followed by a digit -/
def noUUd : Str → Bool
  | a :: b :: c :: rest => !(a == '_' && b == '_' && c.isDigit) && noUUd (b :: c :: rest)
  | _ => true

/-- `__SBML_DOT__` occurs nowhere -/
def dotFree : Str → Bool
  | [] => true
  | c :: rest => !(sbmlDot.isPrefixOf (c :: rest)) && dotFree rest

/-- The decidable condition under which an identifier survives write -> read. -/
def SafeId (k : Kind) (s : Str) : Bool :=
  noUUd (k.prefix ++ s) && (k != .gene || dotFree (k.prefix ++ esc s))

/-! ## bound parameters -/

/-- a flux bound: the finite values are only ever compared for equality -/
inductive Val (α : Type) | ninf | fin (v : α) | pinf
  deriving DecidableEq, Repr

inductive ParamRef (α : Type) | defaultLb | zero | defaultUb | minusInf | plusInf | own (v : Val α)
  deriving DecidableEq, Repr

structure Cfg (α : Type) where
  lb : Val α
  ub : Val α

/-- `_create_bound` -/
def createBound {α} [DecidableEq α] (zero : α) (cfg : Cfg α) (v : Val α) : ParamRef α :=
  if v = cfg.lb then .defaultLb
  else if v = .fin zero then .zero
  else if v = cfg.ub then .defaultUb
  else if v = .ninf then .minusInf
  else if v = .pinf then .plusInf
  else .own v

/-- the parameter list `_model_to_sbml` writes, as read back by `model.getParameter(id).getValue()` -/
def paramValue {α} (zero : α) (cfg : Cfg α) : ParamRef α → Val α
  | .defaultLb => cfg.lb
  | .zero => .fin zero
  | .defaultUb => cfg.ub
  | .minusInf => .ninf
  | .plusInf => .pinf
  | .own v => v

end SbmlId

import CobraModel.Gen.GprTables
/-!
# Executable model of gene-reaction rules (`cobra.core.gene.GPR`, `_GeneRemover`)

* `G`/`GL`: the rule tree (`ast.Name`, `ast.BoolOp(And|Or, values)`), `GPR := Option G` (empty rule = `none`).
* `eval`, `genes`, `toStr` follow `_eval_gpr`, `GPRWalker`, `_ast2str`.
* `fromString` follows `GPR.from_string`: strip, the `replacements` table, keyword / leading-digit escaping,
  removal of `()`, Python's expression grammar for the fragment the rules use (tokenizer + parser),
  `GPRCleaner`, the upper-case `AND`/`OR` fallback, and the empty rule on a second failure.
* `remove` follows `_GeneRemover`.
The tables (`replacements`, keyword list) are generated from the source into `Gen/GprTables.lean`.
-/
namespace GPRM

mutual
inductive G where
  | name (s : String)
  | and (cs : GL)
  | or (cs : GL)
inductive GL where
  | nil
  | cons (g : G) (t : GL)
end

mutual
def G.beq : G → G → Bool
  | .name a, .name b => a == b
  | .and a, .and b => GL.beq a b
  | .or a, .or b => GL.beq a b
  | _, _ => false
def GL.beq : GL → GL → Bool
  | .nil, .nil => true
  | .cons a s, .cons b t => G.beq a b && GL.beq s t
  | _, _ => false
end

def GL.ofList : List G → GL
  | [] => .nil
  | g :: t => .cons g (GL.ofList t)

def GL.toList : GL → List G
  | .nil => []
  | .cons g t => g :: t.toList

def GL.length : GL → Nat
  | .nil => 0
  | .cons _ t => t.length + 1

/-! ### evaluation and gene set -/

mutual
/-- `_eval_gpr`: `ko s = true` means gene `s` is knocked out -/
def eval (ko : String → Bool) : G → Bool
  | .name s => !ko s
  | .and cs => evalAll ko cs
  | .or cs => evalAny ko cs
def evalAll (ko : String → Bool) : GL → Bool
  | .nil => true
  | .cons g t => eval ko g && evalAll ko t
def evalAny (ko : String → Bool) : GL → Bool
  | .nil => false
  | .cons g t => eval ko g || evalAny ko t
end

/-- an empty rule is always true -/
def evalGPR (ko : String → Bool) : Option G → Bool
  | none => true
  | some g => eval ko g

mutual
def genes : G → List String
  | .name s => [s]
  | .and cs => genesL cs
  | .or cs => genesL cs
def genesL : GL → List String
  | .nil => []
  | .cons g t => genes g ++ genesL t
end

/-! ### text form (`_ast2str`) -/

inductive Tok where
  | name (s : String) | lp | rp | amp | bar | kand | kor
deriving DecidableEq, Repr

mutual
/-- tokens of a child (level > 0): a name, or a parenthesised operator node -/
def atomToks : G → List Tok
  | .name s => [.name s]
  | .and cs => .lp :: (sepToks .kand cs ++ [.rp])
  | .or cs => .lp :: (sepToks .kor cs ++ [.rp])
/-- children separated by the operator token -/
def sepToks (sep : Tok) : GL → List Tok
  | .nil => []
  | .cons g .nil => atomToks g
  | .cons g t => atomToks g ++ sep :: sepToks sep t
end

/-- tokens at level 0 (no outer parentheses) -/
def toks0 : G → List Tok
  | .name s => [.name s]
  | .and cs => sepToks .kand cs
  | .or cs => sepToks .kor cs

mutual
def atomStr : G → String
  | .name s => s
  | .and cs => "(" ++ sepStr " and " cs ++ ")"
  | .or cs => "(" ++ sepStr " or " cs ++ ")"
def sepStr (sep : String) : GL → String
  | .nil => ""
  | .cons g .nil => atomStr g
  | .cons g t => atomStr g ++ sep ++ sepStr sep t
end

def toStr : Option G → String
  | none => ""
  | some (.name s) => s
  | some (.and cs) => sepStr " and " cs
  | some (.or cs) => sepStr " or " cs

/-! ### parser for the fragment of Python's expression grammar that rules use

`or` < `and` < `|` < `&` < atom; `a and b and c` is one n-ary `BoolOp`; `a & b & c` is
`BinOp(BinOp(a, b), c)`, which `GPRCleaner.visit_BinOp` turns into nested binary `BoolOp`s.
The parser is a fold over the tokens with an explicit stack of frames (one per open
parenthesis), so it is total and structurally recursive. -/

structure Frame where
  orDone : List G := []      -- finished `and`-groups of the current `or` chain, newest first
  andDone : List G := []     -- finished `|`-terms of the current `and` chain, newest first
  bor : Option G := none     -- left-associated `|` chain so far
  band : Option G := none    -- left-associated `&` chain so far
  cur : Option G := none     -- operand just read, waiting for an operator

def mk2 (isAnd : Bool) (a b : G) : G :=
  if isAnd then .and (.cons a (.cons b .nil)) else .or (.cons a (.cons b .nil))

/-- one operand is passed up unchanged, several form an n-ary node -/
def mkN (isAnd : Bool) : List G → Option G
  | [] => none
  | [x] => some x
  | xs => some (if isAnd then .and (GL.ofList xs) else .or (GL.ofList xs))

def Frame.closeBand (f : Frame) : Option G :=
  match f.cur with
  | none => none
  | some c => some (match f.band with | none => c | some a => mk2 true a c)

def Frame.closeBor (f : Frame) : Option G :=
  match f.closeBand with
  | none => none
  | some x => some (match f.bor with | none => x | some a => mk2 false a x)

def Frame.closeAnd (f : Frame) : Option G :=
  match f.closeBor with
  | none => none
  | some y => mkN true (y :: f.andDone).reverse

def Frame.closeOr (f : Frame) : Option G :=
  match f.closeAnd with
  | none => none
  | some z => mkN false (z :: f.orDone).reverse

/-- consume one token; `none` = syntax error (or a construct outside the fragment) -/
def feed1 : List Frame → Tok → Option (List Frame)
  | top :: rest, .name s =>
    if top.cur.isNone then some ({ top with cur := some (.name s) } :: rest) else none
  | top :: rest, .lp =>
    if top.cur.isNone then some ({} :: top :: rest) else none
  | top :: parent :: rest, .rp =>
    match top.closeOr with
    | some g => some ({ parent with cur := some g } :: rest)
    | none => none
  | top :: rest, .amp =>
    match top.closeBand with
    | some x => some ({ top with band := some x, cur := none } :: rest)
    | none => none
  | top :: rest, .bar =>
    match top.closeBor with
    | some y => some ({ top with bor := some y, band := none, cur := none } :: rest)
    | none => none
  | top :: rest, .kand =>
    match top.closeBor with
    | some y => some ({ top with andDone := y :: top.andDone, bor := none, band := none, cur := none } :: rest)
    | none => none
  | top :: rest, .kor =>
    match top.closeAnd with
    | some z => some ({ top with orDone := z :: top.orDone, andDone := [], bor := none, band := none, cur := none } :: rest)
    | none => none
  | _, _ => none

def feed : List Frame → List Tok → Option (List Frame)
  | st, [] => some st
  | st, t :: ts => match feed1 st t with
    | some st' => feed st' ts
    | none => none

def parseToks (ts : List Tok) : Option G :=
  match feed [{}] ts with
  | some [top] => top.closeOr
  | _ => none

/-! ### character level -/

def isWordChar (c : Char) : Bool := c.isAlphanum || c == '_'

/-- Python's `str.replace(pat, rep)` (leftmost, non-overlapping); `pat` non-empty -/
def replaceAll (pat rep : List Char) : List Char → List Char
  | [] => []
  | c :: cs =>
    if pat.isPrefixOf (c :: cs) ∧ pat ≠ [] then
      rep ++ replaceAll pat rep ((c :: cs).drop pat.length)
    else c :: replaceAll pat rep cs
termination_by l => l.length
decreasing_by
  all_goals simp_wf
  · rename_i h
    have : pat.length ≥ 1 := by cases pat <;> simp_all
    omega

def applyReplacements (s : List Char) : List Char :=
  Gen.replacements.foldl (fun acc (p : String × String) => replaceAll p.1.toList p.2.toList acc) s

def undoReplacements (s : List Char) : List Char :=
  Gen.replacements.foldl (fun acc (p : String × String) => replaceAll p.2.toList p.1.toList acc) s

def escapePrefix : List Char := "__cobra_escape__".toList

/-- split into maximal runs of word / non-word characters -/
def runs : List Char → List (List Char)
  | [] => []
  | c :: cs =>
    match runs cs with
    | [] => [[c]]
    | r :: rs =>
      match r with
      | [] => [c] :: rs
      | d :: _ => if isWordChar c == isWordChar d then (c :: r) :: rs else [c] :: r :: rs

/-- `keyword_re.sub` then `number_start_re.sub`: prefix every maximal word that is a keyword,
then every maximal word starting with a digit -/
def escapeWords (s : List Char) : List Char :=
  let p1 := (runs s).map (fun r => if Gen.keywords.contains (String.ofList r) then escapePrefix ++ r else r)
  let s1 := p1.flatten
  let p2 := (runs s1).map (fun r => match r with
    | c :: _ => if c.isDigit then escapePrefix ++ r else r
    | [] => r)
  p2.flatten

/-- `re.sub(r"\bAND\b", "and")`, `re.sub(r"\bOR\b", "or")` -/
def lowerOps (s : List Char) : List Char :=
  ((runs s).map (fun r => if r == "AND".toList then "and".toList else if r == "OR".toList then "or".toList else r)).flatten

def isIdentStart (c : Char) : Bool := c.isAlpha || c == '_'

/-- tokenizer for the fragment: identifiers, parentheses, `&`, `|`, blanks -/
def tokenizeRuns : List (List Char) → Option (List Tok)
  | [] => some []
  | r :: rs =>
    match tokenizeRuns rs with
    | none => none
    | some ts =>
      match r with
      | [] => some ts
      | c :: _ =>
        if isWordChar c then
          if isIdentStart c then
            let w := String.ofList r
            some ((if w == "and" then Tok.kand else if w == "or" then Tok.kor else Tok.name w) :: ts)
          else none        -- a number: not part of the fragment
        else
          -- a run of punctuation / blanks: character by character
          let rec punct : List Char → Option (List Tok)
            | [] => some []
            | ch :: t =>
              match punct t with
              | none => none
              | some ps =>
                if ch == ' ' || ch == '\t' then some ps
                else if ch == '(' then some (Tok.lp :: ps)
                else if ch == ')' then some (Tok.rp :: ps)
                else if ch == '&' then some (Tok.amp :: ps)
                else if ch == '|' then some (Tok.bar :: ps)
                else none
          match punct r with
          | none => none
          | some ps => some (ps ++ ts)

def tokenize (s : List Char) : Option (List Tok) := tokenizeRuns (runs s)

/-- `GPRCleaner.visit_Name` -/
def cleanName (s : String) : String :=
  let l := s.toList
  let l := if escapePrefix.isPrefixOf l then l.drop 16 else l
  String.ofList (undoReplacements l)

mutual
def clean : G → G
  | .name s => .name (cleanName s)
  | .and cs => .and (cleanL cs)
  | .or cs => .or (cleanL cs)
def cleanL : GL → GL
  | .nil => .nil
  | .cons g t => .cons (clean g) (cleanL t)
end

def containsSub (pat : List Char) : List Char → Bool
  | [] => pat.isEmpty
  | c :: cs => pat.isPrefixOf (c :: cs) || containsSub pat cs

def pyStrip (s : List Char) : List Char :=
  let ws (c : Char) : Bool := c == ' ' || c == '\t' || c == '\n' || c == '\r' || c == '\x0b' || c == '\x0c'
  ((s.dropWhile ws).reverse.dropWhile ws).reverse

inductive Parsed where
  | rule (g : Option G)      -- a rule (possibly the empty one from an empty string)
  | malformed                -- both parse attempts failed: the code warns and returns the empty rule,
                             -- or Python accepted a construct outside the fragment and the code raises
deriving Inhabited

/-- `GPR.from_string` -/
def fromString (str : String) : Parsed :=
  let s := pyStrip str.toList
  if s.isEmpty then .rule none else
  let s := applyReplacements s
  let s := escapeWords s
  let s := replaceAll "()".toList [] s
  -- `ast.parse(..., "eval")` rejects a text that starts with a blank ("unexpected indent"); the input was
  -- stripped, so this only happens when a leading `()` was removed
  let attempt (t : List Char) : Option G :=
    match t with
    | c :: _ => if c == ' ' || c == '\t' then none else tokenize t >>= parseToks
    | [] => none
  match attempt s with
  | some g => .rule (some (clean g))
  | none =>
    let s2 := if containsSub "AND".toList s || containsSub "OR".toList s then lowerOps s else s
    match attempt s2 with
    | some g => .rule (some (clean g))
    | none => .malformed

/-! ### `_GeneRemover` -/

mutual
/-- `visit`: `none` = the node is removed -/
def remove (ks : String → Bool) : G → Option G
  | .name s => if ks s then none else some (.name s)
  | .and cs =>
    let cs' := removeL ks cs
    if cs'.length = 0 then none
    else if cs'.length < cs.length then none
    else match cs' with
      | .cons g .nil => some g
      | _ => some (.and cs')
  | .or cs =>
    let cs' := removeL ks cs
    match cs' with
    | .nil => none
    | .cons g .nil => some g
    | _ => some (.or cs')
def removeL (ks : String → Bool) : GL → GL
  | .nil => .nil
  | .cons g t => match remove ks g with
    | none => removeL ks t
    | some g' => .cons g' (removeL ks t)
end

mutual
/-- renaming of genes (`_Renamer`) -/
def rename (f : String → String) : G → G
  | .name s => .name (f s)
  | .and cs => .and (renameL f cs)
  | .or cs => .or (renameL f cs)
def renameL (f : String → String) : GL → GL
  | .nil => .nil
  | .cons g t => .cons (rename f g) (renameL f t)
end

/-! ### S-expression output for the driver -/
mutual
def sexp : G → String
  | .name s => "n:" ++ s
  | .and cs => "(and" ++ sexpL cs ++ ")"
  | .or cs => "(or" ++ sexpL cs ++ ")"
def sexpL : GL → String
  | .nil => ""
  | .cons g t => " " ++ sexp g ++ sexpL t
end

end GPRM

/-!
# Worker pools  (C14)

`cobra.flux_analysis.variability` and `.deletion` hand the requested items to a pool: every worker process holds one mutable model (a module
global, initialised once) and runs the tasks it is given one after the other on that same model; the results come back in completion order and are
stored under the item's id.  With `processes = 1` the single "worker" is the calling process.

A task takes the worker's state to a result and a new state.
-/

namespace Schedule

variable {σ κ ρ : Type}

/-- one worker running its tasks in sequence, from the state the initialiser left -/
def runWorker (t : κ → σ → ρ × σ) : List κ → σ → List (κ × ρ)
  | [], _ => []
  | k :: ks, s => (k, (t k s).1) :: runWorker t ks (t k s).2

/-- every worker starts from the same state `s0` (its own unpickled copy of the model, or the model itself) and gets some of the tasks;
    `assignment` lists the tasks of each worker in the order it runs them (that covers the number of workers, the chunk size and which chunk goes
    where) -/
def poolOutputs (t : κ → σ → ρ × σ) (s0 : σ) (assignment : List (List κ)) : List (κ × ρ) :=
  assignment.flatMap (fun ks => runWorker t ks s0)

/-- the result of asking for one item alone -/
def alone (t : κ → σ → ρ × σ) (s0 : σ) (k : κ) : ρ := (t k s0).1

/-- `OptGPSampler.sample`: n rounded up to a multiple of the process count -/
def roundUp (n p : Nat) : Nat := ((n + p - 1) / p) * p

end Schedule

/-!
# Executable model of `cobra.core.dictlist.DictList`

A `DictList` is a Python `list` of objects plus a dict `_dict : id ↦ position`.
The model follows `src/cobra/core/dictlist.py` statement by statement: the same
checks in the same order, the same incremental updates of `_dict`, Python's index
normalisation (`list.insert` clamping, negative indices, `slice.indices`).

No imports: this file is run by the driver and reasoned about in
`CobraModel/Lemmas/DictList.lean` and `CobraModel/Props/C15.lean`.
-/

namespace DLM

/-- An element: its identifier and an object identity (so that "another object with
the same id" can be expressed). -/
structure Obj where
  id : String
  uid : Nat
deriving DecidableEq, Repr, Inhabited

/-- `_dict` as an association list; the first entry for a key wins (`set` shadows). -/
abbrev Idx := List (String × Nat)

def Idx.get : Idx → String → Option Nat
  | [], _ => none
  | (a, b) :: es, k => if k = a then some b else Idx.get es k
def Idx.set (ix : Idx) (k : String) (v : Nat) : Idx := (k, v) :: ix
def Idx.erase : Idx → String → Idx
  | [], _ => []
  | (a, b) :: es, k => if a = k then Idx.erase es k else (a, b) :: Idx.erase es k
def Idx.mapVals (f : Nat → Nat) : Idx → Idx
  | [] => []
  | (a, b) :: es => (a, f b) :: Idx.mapVals f es

/-- `{v.id: k for k, v in enumerate(self)}`: a later element with the same id overrides an
earlier one, so the association list is built with the last element in front. -/
def genFrom : Nat → List Obj → Idx → Idx
  | _, [], acc => acc
  | n, o :: os, acc => genFrom (n + 1) os (Idx.set acc o.id n)

def generate (l : List Obj) : Idx := genFrom 0 l []

structure DL where
  items : List Obj
  index : Idx
deriving Repr

def DL.empty : DL := ⟨[], []⟩

inductive Err | value | index | key
deriving DecidableEq, Repr

/-- Argument of `remove` / `index` / `-=`: an id string or an object. -/
inductive Ref
  | byId (k : String)
  | byObj (o : Obj)
deriving Repr

structure Slice where
  start : Option Int
  stop : Option Int
  step : Option Int
deriving Repr

inductive Op
  | append (o : Obj)
  | insert (i : Int) (o : Obj)
  | extend (os : List Obj)          -- also `+=` and `add`
  | union (os : List Obj)
  | isub (xs : List Ref)
  | setItem (i : Int) (o : Obj)
  | setSlice (s : Slice) (os : List Obj)
  | delItem (i : Int)
  | delSlice (s : Slice)
  | pop (i : Option Int)
  | remove (x : Ref)
  | sort (rev : Bool)
  | reverse
  -- operations that return a new DictList; the trace continues on the result
  | plus (os : List Obj)
  | minus (xs : List Ref)
  | copy
  | pickle
  | getSlice (s : Slice)
  | query (ids : List String)        -- `query(lambda o: o.id in ids)`
  | initFrom                         -- `DictList(self)`
deriving Repr

/-! ### Python index arithmetic -/

/-- `list[i]` position for an `int` index, `none` = `IndexError`. -/
def normIdx (len : Nat) (i : Int) : Option Nat :=
  if 0 ≤ i then (if i.toNat < len then some i.toNat else none)
  else if -(len : Int) ≤ i then some (i + len).toNat else none

/-- position at which `list.insert(i, x)` puts the element -/
def clampInsert (len : Nat) (i : Int) : Nat :=
  if i < 0 then (i + len).toNat else min i.toNat len

/-- `slice.indices(len)`: `(start, stop, step)`; `none` when `step == 0` (`ValueError`). -/
def sliceIndices (len : Nat) (s : Slice) : Option (Int × Int × Int) :=
  let step := s.step.getD 1
  if step = 0 then none else
  let n : Int := len
  let lower : Int := if step < 0 then -1 else 0
  let upper : Int := if step < 0 then n - 1 else n
  let clip (v : Int) : Int := if v < 0 then max (v + n) lower else min v upper
  let start := match s.start with
    | none => if step < 0 then upper else lower
    | some v => clip v
  let stop := match s.stop with
    | none => if step < 0 then lower else upper
    | some v => clip v
  some (start, stop, step)

/-- `list(range(start, stop, step))` restricted to natural positions (fuel = an upper
bound on the number of elements). -/
def rangeList : Nat → Int → Int → Int → List Nat
  | 0, _, _, _ => []
  | fuel + 1, start, stop, step =>
    if (0 < step ∧ start < stop) ∨ (step < 0 ∧ stop < start) then
      start.toNat :: rangeList fuel (start + step) stop step
    else []

def slicePositions (len : Nat) (s : Slice) : Option (List Nat) :=
  match sliceIndices len s with
  | none => none
  | some (start, stop, step) => some (rangeList (len + 1) start stop step)

/-! ### the operations -/

def check (d : DL) (k : String) : Bool := (d.index.get k).isNone   -- `true` = id is free

def append (d : DL) (o : Obj) : DL × Option Err :=
  if check d o.id then (⟨d.items ++ [o], d.index.set o.id d.items.length⟩, none)
  else (d, some .value)

/-- the loop of `extend`: register the new elements one by one -/
def extendLoop : Nat → List Obj → Idx → Option Idx
  | _, [], ix => some ix
  | n, o :: os, ix =>
    match ix.get o.id with
    | none => extendLoop (n + 1) os (ix.set o.id n)
    | some _ => none

def extend (d : DL) (os : List Obj) : DL × Option Err :=
  match extendLoop d.items.length os d.index with
  | some ix => (⟨d.items ++ os, ix⟩, none)
  | none => (d, some .value)          -- rolled back: elements and index entries removed

def union (d : DL) : List Obj → DL
  | [] => d
  | o :: os => if (d.index.get o.id).isSome then union d os else union (append d o).1 os

def insert (d : DL) (i : Int) (o : Obj) : DL × Option Err :=
  if check d o.id then
    let p := clampInsert d.items.length i
    (⟨d.items.take p ++ o :: d.items.drop p,
      (d.index.mapVals (fun j => if j ≥ p then j + 1 else j)).set o.id p⟩, none)
  else (d, some .value)

/-- `DictList.index(x)` -/
def indexOf (d : DL) : Ref → Except Err Nat
  | .byId k => match d.index.get k with
    | some i => .ok i
    | none => .error .value
  | .byObj o => match d.index.get o.id with
    | some i => if d.items[i]? = some o then .ok i else .error .value
    | none => .error .value

/-- `pop(i)` for an in-range natural position `p` -/
def popAt (d : DL) (p : Nat) : DL :=
  match d.items[p]? with
  | none => d
  | some v =>
    match d.index.get v.id with
    | none => d   -- KeyError after the list was changed; unreachable under the invariant
    | some ix =>
      ⟨d.items.eraseIdx p, (d.index.erase v.id).mapVals (fun j => if j > ix then j - 1 else j)⟩

def pop (d : DL) (i : Option Int) : DL × Option Err :=
  match i with
  | none => if d.items.isEmpty then (d, some .index) else (popAt d (d.items.length - 1), none)
  | some i => match normIdx d.items.length i with
    | none => (d, some .index)
    | some p => (popAt d p, none)

def remove (d : DL) (x : Ref) : DL × Option Err :=
  match indexOf d x with
  | .error e => (d, some e)
  | .ok p => (popAt d p, none)

def removeAll (d : DL) : List Ref → DL × Option Err
  | [] => (d, none)
  | x :: xs => match remove d x with
    | (d', none) => removeAll d' xs
    | (d', some e) => (d', some e)

def resolveAll (d : DL) : List Ref → Option (List Nat)
  | [] => some []
  | x :: xs => match indexOf d x, resolveAll d xs with
    | .ok p, some ps => some (p :: ps)
    | _, _ => none

/-- `len(set(ps)) != len(ps)` -/
def hasDup : List Nat → Bool
  | [] => false
  | x :: xs => xs.contains x || hasDup xs

def isub (d : DL) (xs : List Ref) : DL × Option Err :=
  match resolveAll d xs with
  | none => (d, some .value)
  | some ps => if hasDup ps then (d, some .value) else removeAll d xs

def setItem (d : DL) (i : Int) (y : Obj) : DL × Option Err :=
  match normIdx d.items.length i with
  | none => (d, some .index)
  | some p =>
    match d.items[p]? with
    | none => (d, some .index)
    | some old =>
      let replaces := d.index.get old.id == some p
      if !(replaces && y.id == old.id) && !(check d y.id) then (d, some .value)
      else
        let ix := if replaces then d.index.erase old.id else d.index
        (⟨d.items.set p y, ix.set y.id p⟩, none)

def allFree (d : DL) : List Obj → List String → Bool
  | [], _ => true
  | o :: os, seen => check d o.id && !(seen.contains o.id) && allFree d os (o.id :: seen)

/-- extended-slice assignment: element `j` of `ys` goes to position `ps[j]` -/
def assignAt (l : List Obj) : List Nat → List Obj → List Obj
  | p :: ps, y :: ys => assignAt (l.set p y) ps ys
  | _, _ => l

def setSlice (d : DL) (s : Slice) (ys : List Obj) : DL × Option Err :=
  if !(allFree d ys []) then (d, some .value) else
  match sliceIndices d.items.length s with
  | none => (d, some .value)
  | some (start, stop, step) =>
    if step = 1 then
      let a := start.toNat
      let b := max a stop.toNat
      let l := d.items.take a ++ ys ++ d.items.drop b
      (⟨l, generate l⟩, none)
    else
      let ps := rangeList (d.items.length + 1) start stop step
      if ps.length != ys.length then (d, some .value)
      else
        let l := assignAt d.items ps ys
        (⟨l, generate l⟩, none)

def delItem (d : DL) (i : Int) : DL × Option Err :=
  match normIdx d.items.length i with
  | none => (d, some .index)
  | some p =>
    match d.items[p]? with
    | none => (d, some .index)
    | some v =>
      (⟨d.items.eraseIdx p, (d.index.erase v.id).mapVals (fun j => if j > p then j - 1 else j)⟩, none)

/-- drop the elements whose position is listed -/
def dropPositions (l : List Obj) (ps : List Nat) : List Obj :=
  (l.zipIdx.filter (fun e => !(ps.contains e.2))).map (·.1)

def delSlice (d : DL) (s : Slice) : DL × Option Err :=
  match slicePositions d.items.length s with
  | none => (d, some .value)
  | some ps => let l := dropPositions d.items ps; (⟨l, generate l⟩, none)

def getSlice (d : DL) (s : Slice) : DL × Option Err :=
  match slicePositions d.items.length s with
  | none => (d, some .value)
  | some ps => let l := ps.filterMap (fun p => d.items[p]?); (⟨l, generate l⟩, none)

/-- insertion of one element into a list sorted by `le` (stable) -/
def insertSorted (le : Obj → Obj → Bool) (o : Obj) : List Obj → List Obj
  | [] => [o]
  | x :: xs => if le x o then x :: insertSorted le o xs else o :: x :: xs

/-- stable sort by id (ascending: after equal keys; `reverse=True` keeps stability too) -/
def sortById (rev : Bool) (l : List Obj) : List Obj :=
  let le : Obj → Obj → Bool := if rev then (fun x o => decide (o.id ≤ x.id)) else (fun x o => decide (x.id ≤ o.id))
  l.foldl (fun acc o => insertSorted le o acc) []

def step (d : DL) : Op → DL × Option Err
  | .append o => append d o
  | .insert i o => insert d i o
  | .extend os => extend d os
  | .union os => (union d os, none)
  | .isub xs => isub d xs
  | .setItem i o => setItem d i o
  | .setSlice s os => setSlice d s os
  | .delItem i => delItem d i
  | .delSlice s => delSlice d s
  | .pop i => pop d i
  | .remove x => remove d x
  | .sort rev => let l := sortById rev d.items; (⟨l, generate l⟩, none)
  | .reverse => let l := d.items.reverse; (⟨l, generate l⟩, none)
  | .plus os =>
    -- total = DictList(); total.extend(self); total.extend(other)
    match extend DL.empty d.items with
    | (t, none) => (match extend t os with
        | (t', none) => (t', none)
        | (_, some e) => (d, some e))
    | (_, some e) => (d, some e)
  | .minus xs =>
    match extend DL.empty d.items with
    | (t, none) => (match removeAll t xs with
        | (t', none) => (t', none)
        | (_, some e) => (d, some e))
    | (_, some e) => (d, some e)
  | .copy => (⟨d.items, d.index⟩, none)
  | .pickle => (⟨d.items, generate d.items⟩, none)
  | .getSlice s => getSlice d s
  | .query ids => let l := d.items.filter (fun o => ids.contains o.id); (⟨l, generate l⟩, none)
  | .initFrom => (⟨d.items, d.index⟩, none)

/-! ### observers -/

def getById (d : DL) (k : String) : Option Obj :=
  match d.index.get k with
  | some i => d.items[i]?
  | none => none

def hasId (d : DL) (k : String) : Bool := (d.index.get k).isSome

end DLM

import CobraModel.Model.AuxProb
import CobraModel.Lemmas.SplitRange
import CobraModel.Lemmas.LP
import Mathlib.Tactic.NormNum
/-!
# Semantics of the auxiliary problems and what their optima mean for the net fluxes

`Prob.Feasible p x`: the assignment `x` of the solver variables respects every variable box and every row of `p`.
`Net.Feasible n v`: the net fluxes `v` are at steady state and inside the reaction bounds.
The lemmas relate the two through `netOf x i = x (fwd i) − x (rev i)` and its right inverse `splitOf`.
-/
namespace AuxM
open Core (EB splitBounds inBox)

def lin (co : List (V × Rat)) (x : V → Rat) : Rat := (co.map (fun p => p.2 * x p.1)).sum

/-- a value is admissible for a variable: inside its box, and 0 or 1 / integral when the variable is binary / integer -/
def Var.ok (w : Var) (q : Rat) : Prop :=
  inBox (w.lb, w.ub) q ∧ (w.kind = .bin → (q = 0 ∨ q = 1)) ∧ (w.kind = .int → ∃ k : Int, q = k)

def Prob.Feasible (p : Prob) (x : V → Rat) : Prop :=
  (∀ v ∈ p.vars, v.ok (x v.v)) ∧ (∀ r ∈ p.rows, inBox (r.lb, r.ub) (lin r.co x))

theorem ok_cont (v : V) (lb ub : EB) (q : Rat) : Var.ok ⟨v, lb, ub, .cont⟩ q ↔ inBox (lb, ub) q := by
  simp [Var.ok]

def Prob.value (p : Prob) (x : V → Rat) : Rat := lin p.obj x

/-- `x` is an optimum of `p` in the direction of `p` -/
def Prob.IsOpt (p : Prob) (x : V → Rat) : Prop :=
  p.Feasible x ∧ ∀ x', p.Feasible x' → if p.dirMax then p.value x' ≤ p.value x else p.value x ≤ p.value x'

def netOf (x : V → Rat) (i : Nat) : Rat := x (.fwd i) - x (.rev i)

/-- steady state and bounds, over net fluxes -/
def Net.Feasible (n : Net) (v : Nat → Rat) : Prop :=
  (∀ i ∈ n.idx, inBox ((n.rx i).lb, (n.rx i).ub) (v i)) ∧
  (∀ m ∈ n.mets, (n.idx.map (fun i => coefOf (n.rx i).st m * v i)).sum = 0)

def Net.objVal (n : Net) (v : Nat → Rat) : Rat := (n.obj.map (fun p => p.2 * v p.1)).sum

/-- no reaction has lower bound `+∞` or upper bound `−∞` -/
def Net.Proper (n : Net) : Prop := ∀ i ∈ n.idx, (n.rx i).lb ≠ .pinf ∧ (n.rx i).ub ≠ .ninf

/-- positive and negative part of the net fluxes as an assignment of the forward / reverse variables -/
def splitOf (v : Nat → Rat) : V → Rat
  | .fwd i => max (v i) 0
  | .rev i => max (-(v i)) 0
  | _ => 0

theorem lin_nil (x : V → Rat) : lin [] x = 0 := rfl
theorem lin_cons (a : V × Rat) (l : List (V × Rat)) (x : V → Rat) : lin (a :: l) x = a.2 * x a.1 + lin l x := by
  simp [lin]
theorem lin_append (a b : List (V × Rat)) (x : V → Rat) : lin (a ++ b) x = lin a x + lin b x := by
  simp [lin, List.sum_append]
theorem lin_flatMap {α : Type} (l : List α) (f : α → List (V × Rat)) (x : V → Rat) :
    lin (l.flatMap f) x = (l.map (fun a => lin (f a) x)).sum := by
  induction l with
  | nil => rfl
  | cons a l ih => simp [List.flatMap_cons, lin_append, ih]
theorem lin_map {α : Type} (l : List α) (f : α → V × Rat) (x : V → Rat) :
    lin (l.map f) x = (l.map (fun a => (f a).2 * x (f a).1)).sum := by
  simp [lin, List.map_map, Function.comp_def]

theorem lin_flux (i : Nat) (c : Rat) (x : V → Rat) : lin (flux i c) x = c * netOf x i := by
  simp [flux, lin, netOf]; ring

theorem netOf_splitOf (v : Nat → Rat) : netOf (splitOf v) = v := by
  funext i
  simp only [netOf, splitOf]
  rcases le_total 0 (v i) with h | h
  · rw [max_eq_left h, max_eq_right (by linarith)]; ring
  · rw [max_eq_right h, max_eq_left (by linarith)]; ring

theorem splitOf_sum (v : Nat → Rat) (i : Nat) : splitOf v (.fwd i) + splitOf v (.rev i) = |v i| := by
  simp only [splitOf]
  rcases le_total 0 (v i) with h | h
  · rw [max_eq_left h, max_eq_right (by linarith), abs_of_nonneg h]; ring
  · rw [max_eq_right h, max_eq_left (by linarith), abs_of_nonpos h]; ring

theorem splitBounds_ninf_fin (b : Rat) :
    splitBounds .ninf (.fin b) = if b < 0 then ((.fin 0, .fin 0), (.fin (-b), .pinf)) else ((.fin 0, .fin b), (.fin 0, .pinf)) := by
  unfold splitBounds
  have h1 : EB.lt (.fin 0) .ninf = false := rfl
  simp only [h1, EB.zero, Core.lt_fin, EB.isInf, EB.neg, Bool.false_eq_true, if_false, if_true, decide_eq_true_eq]
theorem splitBounds_ninf_pinf : splitBounds .ninf .pinf = ((.fin 0, .pinf), (.fin 0, .pinf)) := by
  unfold splitBounds
  have h1 : EB.lt (.fin 0) .ninf = false := rfl
  have h2 : EB.lt .pinf (.fin 0) = false := rfl
  simp only [h1, h2, EB.zero, EB.isInf, Bool.false_eq_true, if_false, if_true]
theorem splitBounds_fin_pinf (a : Rat) :
    splitBounds (.fin a) .pinf = if 0 < a then ((.fin a, .pinf), (.fin 0, .fin 0)) else ((.fin 0, .pinf), (.fin 0, .fin (-a))) := by
  unfold splitBounds
  have h2 : EB.lt .pinf (.fin 0) = false := rfl
  simp only [h2, EB.zero, Core.lt_fin, EB.isInf, EB.neg, Bool.false_eq_true, if_false, if_true, decide_eq_true_eq]

theorem inBox_ninf_fin (b x : Rat) : inBox (.ninf, .fin b) x ↔ x ≤ b := by simp [inBox, EB.le]
theorem inBox_fin_pinf (a x : Rat) : inBox (.fin a, .pinf) x ↔ a ≤ x := by simp [inBox, EB.le]
theorem inBox_ninf_pinf (x : Rat) : inBox (.ninf, .pinf) x ↔ True := by simp [inBox, EB.le]

/-- **the boxes of `update_variable_bounds` are sound**: values inside them give a net flux inside the reaction bounds,
and both are non-negative — every combination of finite and infinite bounds -/
theorem split_sound (lb ub : EB) (hl : lb ≠ .pinf) (hu : ub ≠ .ninf) (f r : Rat)
    (hf : inBox (splitBounds lb ub).1 f) (hr : inBox (splitBounds lb ub).2 r) :
    inBox (lb, ub) (f - r) ∧ 0 ≤ f ∧ 0 ≤ r := by
  cases lb with
  | pinf => exact absurd rfl hl
  | ninf =>
    cases ub with
    | ninf => exact absurd rfl hu
    | pinf =>
      rw [splitBounds_ninf_pinf] at hf hr
      simp only [Core.inBox_fin, inBox_fin_pinf, inBox_ninf_pinf] at *
      exact ⟨trivial, hf, hr⟩
    | fin b =>
      rw [splitBounds_ninf_fin] at hf hr
      by_cases hb : b < 0
      · rw [if_pos hb] at hf hr
        simp only [Core.inBox_fin, inBox_fin_pinf, inBox_ninf_fin] at *
        refine ⟨by linarith, hf.1, by linarith⟩
      · rw [if_neg hb] at hf hr
        simp only [Core.inBox_fin, inBox_fin_pinf, inBox_ninf_fin] at *
        refine ⟨by linarith, hf.1, hr⟩
  | fin a =>
    cases ub with
    | ninf => exact absurd rfl hu
    | pinf =>
      rw [splitBounds_fin_pinf] at hf hr
      by_cases ha : 0 < a
      · rw [if_pos ha] at hf hr
        simp only [Core.inBox_fin, inBox_fin_pinf] at *
        refine ⟨by linarith, by linarith, hr.1⟩
      · rw [if_neg ha] at hf hr
        simp only [Core.inBox_fin, inBox_fin_pinf] at *
        refine ⟨by linarith, hf, hr.1⟩
    | fin b =>
      rw [Core.splitBounds_fin] at hf hr
      by_cases ha : 0 < a
      · rw [if_pos ha] at hf hr
        simp only [Core.inBox_fin] at *
        refine ⟨⟨by linarith, by linarith⟩, by linarith, hr.1⟩
      · rw [if_neg ha] at hf hr
        by_cases hb : b < 0
        · rw [if_pos hb] at hf hr
          simp only [Core.inBox_fin] at *
          refine ⟨⟨by linarith, by linarith⟩, hf.1, by linarith⟩
        · rw [if_neg hb] at hf hr
          simp only [Core.inBox_fin] at *
          refine ⟨⟨by linarith, by linarith⟩, hf.1, hr.1⟩

/-- **and complete**: the positive and negative part of a net flux inside the reaction bounds lie inside the boxes -/
theorem split_complete (lb ub : EB) (v : Rat) (h : inBox (lb, ub) v) :
    inBox (splitBounds lb ub).1 (max v 0) ∧ inBox (splitBounds lb ub).2 (max (-v) 0) := by
  cases lb with
  | pinf => simp [inBox, EB.le] at h
  | ninf =>
    cases ub with
    | ninf => simp [inBox, EB.le] at h
    | pinf =>
      rw [splitBounds_ninf_pinf]
      simp only [inBox_fin_pinf]
      exact ⟨le_max_right _ _, le_max_right _ _⟩
    | fin b =>
      rw [splitBounds_ninf_fin]
      rw [inBox_ninf_fin] at h
      split
      · simp only [Core.inBox_fin, inBox_fin_pinf]
        rw [max_eq_right (by linarith), max_eq_left (by linarith)]
        exact ⟨⟨le_refl _, le_refl _⟩, by linarith⟩
      · simp only [Core.inBox_fin, inBox_fin_pinf]
        refine ⟨⟨le_max_right _ _, max_le h (by linarith)⟩, le_max_right _ _⟩
  | fin a =>
    cases ub with
    | ninf => simp [inBox, EB.le] at h
    | pinf =>
      rw [splitBounds_fin_pinf]
      rw [inBox_fin_pinf] at h
      split
      · simp only [Core.inBox_fin, inBox_fin_pinf]
        rw [max_eq_left (by linarith), max_eq_right (by linarith)]
        exact ⟨h, le_refl _, le_refl _⟩
      · simp only [Core.inBox_fin, inBox_fin_pinf]
        refine ⟨le_max_right _ _, le_max_right _ _, max_le (by linarith) (by linarith)⟩
    | fin b =>
      rw [Core.splitBounds_fin]
      rw [Core.inBox_fin] at h
      split
      · simp only [Core.inBox_fin]
        rw [max_eq_left (by linarith), max_eq_right (by linarith)]
        exact ⟨⟨h.1, h.2⟩, le_refl _, le_refl _⟩
      · split
        · simp only [Core.inBox_fin]
          rw [max_eq_right (by linarith), max_eq_left (by linarith)]
          exact ⟨⟨le_refl _, le_refl _⟩, by linarith, by linarith⟩
        · simp only [Core.inBox_fin]
          refine ⟨⟨le_max_right _ _, max_le h.2 (by linarith)⟩, le_max_right _ _, max_le (by linarith) (by linarith)⟩

/-! ### the flux-balance part of every problem -/

/-- the variables and rows every builder takes over from the flux-balance problem -/
def FbaPart (n : Net) (x : V → Rat) : Prop :=
  (∀ v ∈ n.fbaVars, inBox (v.lb, v.ub) (x v.v)) ∧ (∀ r ∈ n.mets.map n.metRow, inBox (r.lb, r.ub) (lin r.co x))

/-- `x` carries the positive / negative parts of `v` on the forward / reverse variables -/
def Splits (x : V → Rat) (v : Nat → Rat) : Prop := ∀ i, x (.fwd i) = max (v i) 0 ∧ x (.rev i) = max (-(v i)) 0

theorem Splits.net {x : V → Rat} {v : Nat → Rat} (h : Splits x v) (i : Nat) : netOf x i = v i := by
  have := congrFun (netOf_splitOf v) i
  simpa [netOf, splitOf, (h i).1, (h i).2] using this

theorem Splits.sum {x : V → Rat} {v : Nat → Rat} (h : Splits x v) (i : Nat) : x (.fwd i) + x (.rev i) = |v i| := by
  have := splitOf_sum v i
  simpa [splitOf, (h i).1, (h i).2] using this

theorem splits_splitOf (v : Nat → Rat) : Splits (splitOf v) v := fun _ => ⟨rfl, rfl⟩

theorem metRow_lin (n : Net) (m : String) (x : V → Rat) :
    lin (n.metRow m).co x = (n.idx.map (fun i => coefOf (n.rx i).st m * netOf x i)).sum := by
  simp [Net.metRow, lin_flatMap, lin_flux]

theorem objExpr_lin (n : Net) (x : V → Rat) : lin n.objExpr x = n.objVal (netOf x) := by
  simp [Net.objExpr, lin_flatMap, lin_flux, Net.objVal]

theorem allFlux_lin (n : Net) (x : V → Rat) : lin n.allFlux x = (n.idx.map (fun i => x (.fwd i) + x (.rev i))).sum := by
  simp [Net.allFlux, lin_flatMap, lin_cons, lin_nil]

theorem inBox_zero (q : Rat) : inBox (.fin 0, .fin 0) q ↔ q = 0 := by
  rw [Core.inBox_fin]; constructor
  · rintro ⟨a, b⟩; exact le_antisymm b a
  · rintro rfl; exact ⟨le_refl _, le_refl _⟩

theorem fbaPart_sound (n : Net) (hp : n.Proper) (x : V → Rat) (h : FbaPart n x) :
    n.Feasible (netOf x) ∧ ∀ i ∈ n.idx, 0 ≤ x (.fwd i) ∧ 0 ≤ x (.rev i) := by
  have key : ∀ i ∈ n.idx, inBox ((n.rx i).lb, (n.rx i).ub) (netOf x i) ∧ 0 ≤ x (.fwd i) ∧ 0 ≤ x (.rev i) := by
    intro i hi
    have h1 := h.1 ⟨.fwd i, (splitBounds (n.rx i).lb (n.rx i).ub).1.1, (splitBounds (n.rx i).lb (n.rx i).ub).1.2, .cont⟩
      (by simp only [Net.fbaVars, List.mem_flatMap]; exact ⟨i, hi, by simp [Net.pairVars]⟩)
    have h2 := h.1 ⟨.rev i, (splitBounds (n.rx i).lb (n.rx i).ub).2.1, (splitBounds (n.rx i).lb (n.rx i).ub).2.2, .cont⟩
      (by simp only [Net.fbaVars, List.mem_flatMap]; exact ⟨i, hi, by simp [Net.pairVars]⟩)
    exact split_sound _ _ (hp i hi).1 (hp i hi).2 _ _ h1 h2
  refine ⟨⟨fun i hi => (key i hi).1, ?_⟩, fun i hi => (key i hi).2⟩
  intro m hm
  have := h.2 (n.metRow m) (List.mem_map.2 ⟨m, hm, rfl⟩)
  rw [metRow_lin] at this
  exact (inBox_zero _).1 this

theorem fbaPart_complete (n : Net) (v : Nat → Rat) (hv : n.Feasible v) (x : V → Rat) (hx : Splits x v) : FbaPart n x := by
  constructor
  · intro w hw
    simp only [Net.fbaVars, List.mem_flatMap] at hw
    obtain ⟨i, hi, hw⟩ := hw
    have hc := split_complete _ _ _ (hv.1 i hi)
    simp only [Net.pairVars, List.mem_cons, List.not_mem_nil, or_false] at hw
    rcases hw with rfl | rfl
    · simpa [(hx i).1] using hc.1
    · simpa [(hx i).2] using hc.2
  · intro r hr
    obtain ⟨m, hm, rfl⟩ := List.mem_map.1 hr
    have : lin (n.metRow m).co x = 0 := by
      rw [metRow_lin]
      have := hv.2 m hm
      simpa [hx.net] using this
    show inBox (.fin 0, .fin 0) _
    exact (inBox_zero _).2 this

theorem fbaVars_ok (n : Net) (x : V → Rat) :
    (∀ v ∈ n.fbaVars, v.ok (x v.v)) ↔ (∀ v ∈ n.fbaVars, inBox (v.lb, v.ub) (x v.v)) := by
  have hk : ∀ v ∈ n.fbaVars, v.kind = .cont := by
    intro v hv
    simp only [Net.fbaVars, List.mem_flatMap] at hv
    obtain ⟨i, _, hv⟩ := hv
    simp only [Net.pairVars, List.mem_cons, List.not_mem_nil, or_false] at hv
    rcases hv with rfl | rfl <;> rfl
  constructor
  · intro h v hv; exact (h v hv).1
  · intro h v hv; exact ⟨h v hv, by simp [hk v hv], by simp [hk v hv]⟩

theorem fba_feasible_iff (n : Net) (x : V → Rat) : n.fba.Feasible x ↔ FbaPart n x := by
  unfold Prob.Feasible FbaPart
  simp only [Net.fba, fbaVars_ok]

/-- **the flux-balance problem projects onto the net-flux polytope**, and its objective is the objective on net fluxes -/
theorem fba_sound (n : Net) (hp : n.Proper) (x : V → Rat) (h : n.fba.Feasible x) :
    n.Feasible (netOf x) ∧ n.fba.value x = n.objVal (netOf x) :=
  ⟨(fbaPart_sound n hp x ((fba_feasible_iff n x).1 h)).1, objExpr_lin n x⟩

/-- … and every feasible net flux vector is the projection of a feasible point -/
theorem fba_complete (n : Net) (v : Nat → Rat) (hv : n.Feasible v) :
    n.fba.Feasible (splitOf v) ∧ netOf (splitOf v) = v ∧ n.fba.value (splitOf v) = n.objVal v := by
  refine ⟨(fba_feasible_iff n _).2 (fbaPart_complete n v hv _ (splits_splitOf v)), netOf_splitOf v, ?_⟩
  show lin n.objExpr _ = _
  rw [objExpr_lin, netOf_splitOf]

/-! ### objective kept at or beyond a value; pFBA -/

/-- the original objective at or beyond `t` in the model's direction -/
def Net.threshold (n : Net) (t : Rat) (v : Nat → Rat) : Prop := if n.dirMax then t ≤ n.objVal v else n.objVal v ≤ t

/-- total absolute flux -/
def Net.sumAbs (n : Net) (v : Nat → Rat) : Rat := (n.idx.map (fun i => |v i|)).sum

theorem sum_map_le {α : Type} (l : List α) (f g : α → Rat) (h : ∀ a ∈ l, f a ≤ g a) : (l.map f).sum ≤ (l.map g).sum := by
  induction l with
  | nil => simp
  | cons a l ih =>
    simp only [List.map_cons, List.sum_cons]
    have := h a (by simp)
    have := ih (fun b hb => h b (by simp [hb]))
    linarith

theorem sum_map_congr {α : Type} (l : List α) (f g : α → Rat) (h : ∀ a ∈ l, f a = g a) : (l.map f).sum = (l.map g).sum := by
  induction l with
  | nil => simp
  | cons a l ih =>
    simp only [List.map_cons, List.sum_cons]
    rw [h a (by simp), ih (fun b hb => h b (by simp [hb]))]

theorem fixRow_ok (n : Net) (name : String) (t : Rat) (x : V → Rat) :
    inBox ((n.fixRow name t).lb, (n.fixRow name t).ub) (lin (n.fixRow name t).co x) ↔ n.threshold t (netOf x) := by
  unfold Net.fixRow Net.threshold
  split <;> simp [inBox_fin_pinf, inBox_ninf_fin, objExpr_lin]

theorem fixObjective_feasible_iff (n : Net) (name : String) (t : Rat) (x : V → Rat) :
    (n.fixObjective name t).Feasible x ↔ FbaPart n x ∧ n.threshold t (netOf x) := by
  unfold Net.fixObjective Prob.Feasible FbaPart
  simp only [Net.fba, List.mem_append, List.mem_singleton, fbaVars_ok]
  constructor
  · rintro ⟨h1, h2⟩
    exact ⟨⟨h1, fun r hr => h2 r (Or.inl hr)⟩, (fixRow_ok n name t x).1 (h2 _ (Or.inr rfl))⟩
  · rintro ⟨⟨h1, h2⟩, h3⟩
    refine ⟨h1, fun r hr => ?_⟩
    rcases hr with hr | rfl
    · exact h2 r hr
    · exact (fixRow_ok n name t x).2 h3

theorem pfba_feasible_iff (n : Net) (name : String) (t : Rat) (x : V → Rat) :
    (n.pfba name t).Feasible x ↔ FbaPart n x ∧ n.threshold t (netOf x) :=
  fixObjective_feasible_iff n name t x

theorem pfba_value (n : Net) (name : String) (t : Rat) (x : V → Rat) :
    (n.pfba name t).value x = (n.idx.map (fun i => x (.fwd i) + x (.rev i))).sum := allFlux_lin n x

/-- every feasible point of the pFBA problem projects to a feasible flux vector that keeps the objective, and its
objective value is at least the total absolute flux of that vector -/
theorem pfba_sound (n : Net) (hp : n.Proper) (name : String) (t : Rat) (x : V → Rat) (h : (n.pfba name t).Feasible x) :
    n.Feasible (netOf x) ∧ n.threshold t (netOf x) ∧ n.sumAbs (netOf x) ≤ (n.pfba name t).value x := by
  obtain ⟨hf, ht⟩ := (pfba_feasible_iff n name t x).1 h
  obtain ⟨h1, h2⟩ := fbaPart_sound n hp x hf
  refine ⟨h1, ht, ?_⟩
  rw [pfba_value]
  apply sum_map_le
  intro i hi
  obtain ⟨a, b⟩ := h2 i hi
  simp only [netOf]
  rw [abs_le]; constructor <;> linarith

/-- every feasible flux vector that keeps the objective is the projection of a feasible point whose objective value is
exactly its total absolute flux -/
theorem pfba_complete (n : Net) (name : String) (t : Rat) (v : Nat → Rat) (hv : n.Feasible v) (ht : n.threshold t v) :
    (n.pfba name t).Feasible (splitOf v) ∧ netOf (splitOf v) = v ∧ (n.pfba name t).value (splitOf v) = n.sumAbs v := by
  refine ⟨(pfba_feasible_iff n name t _).2 ⟨fbaPart_complete n v hv _ (splits_splitOf v), by rw [netOf_splitOf]; exact ht⟩,
    netOf_splitOf v, ?_⟩
  rw [pfba_value]
  exact sum_map_congr _ _ _ (fun i _ => splitOf_sum v i)

/-- **pFBA**: at an optimum of the problem `add_pfba` builds, the net fluxes are feasible, keep the objective at or beyond
`t`, have the smallest total absolute flux among all such flux vectors, and the optimal value is that total -/
theorem pfba_optimum (n : Net) (hp : n.Proper) (name : String) (t : Rat) (x : V → Rat) (h : (n.pfba name t).IsOpt x) :
    n.Feasible (netOf x) ∧ n.threshold t (netOf x) ∧ (n.pfba name t).value x = n.sumAbs (netOf x) ∧
    ∀ v, n.Feasible v → n.threshold t v → n.sumAbs (netOf x) ≤ n.sumAbs v := by
  obtain ⟨h1, h2, h3⟩ := pfba_sound n hp name t x h.1
  have hmin : ∀ v, n.Feasible v → n.threshold t v → (n.pfba name t).value x ≤ n.sumAbs v := by
    intro v hv ht
    obtain ⟨c1, _, c3⟩ := pfba_complete n name t v hv ht
    have := h.2 _ c1
    simp only [Net.pfba, Bool.false_eq_true, if_false] at this
    rw [← c3]; exact this
  refine ⟨h1, h2, le_antisymm (hmin _ h1 h2) h3, fun v hv ht => le_trans h3 (hmin v hv ht)⟩

/-! ### flux variability analysis -/

/-- the region FVA explores: feasible flux vectors that keep the objective at or beyond `t` and, with `pfba_factor`,
whose total absolute flux is at most the cap -/
def Net.Region (n : Net) (t : Rat) (cap : Option Rat) (v : Nat → Rat) : Prop :=
  n.Feasible v ∧ n.threshold t v ∧ ∀ c, cap = some c → n.sumAbs v ≤ c

theorem fvaOldVar_ok (n : Net) (t : Rat) (q : Rat) :
    (n.fvaOldVar t).ok q ↔ (if n.dirMax then t ≤ q else q ≤ t) := by
  unfold Net.fvaOldVar
  split <;> simp [ok_cont, inBox_fin_pinf, inBox_ninf_fin]

theorem fvaOldVar_v (n : Net) (t : Rat) : (n.fvaOldVar t).v = .oldObj := by
  unfold Net.fvaOldVar; split <;> rfl

theorem oldObjRow_lin (n : Net) (name : String) (x : V → Rat) :
    lin (n.oldObjRow name).co x = n.objVal (netOf x) - x .oldObj := by
  simp [Net.oldObjRow, lin_append, objExpr_lin, lin_cons, lin_nil]; ring

theorem fvaSetup_feasible_iff (n : Net) (t : Rat) (cap : Option Rat) (x : V → Rat) :
    (n.fvaSetup t cap).Feasible x ↔
      FbaPart n x ∧ (if n.dirMax then t ≤ x .oldObj else x .oldObj ≤ t) ∧ x .oldObj = n.objVal (netOf x) ∧
      ∀ c, cap = some c → x .fluxSum ≤ c ∧ x .fluxSum = (n.idx.map (fun i => x (.fwd i) + x (.rev i))).sum := by
  unfold Net.fvaSetup Prob.Feasible FbaPart
  simp only [Net.fba, List.forall_mem_append, List.forall_mem_singleton, fvaOldVar_ok, fvaOldVar_v, fbaVars_ok]
  have hrow : inBox ((n.oldObjRow "fva_old_objective_constraint").lb, (n.oldObjRow "fva_old_objective_constraint").ub)
      (lin (n.oldObjRow "fva_old_objective_constraint").co x) ↔ x .oldObj = n.objVal (netOf x) := by
    rw [oldObjRow_lin]
    show inBox (.fin 0, .fin 0) _ ↔ _
    rw [inBox_zero]; constructor <;> intro h <;> linarith
  cases cap with
  | none =>
    simp only [capVars, Net.capRows, List.not_mem_nil, false_imp_iff, imp_true_iff, and_true, hrow, reduceCtorEq]
    tauto
  | some c =>
    simp only [capVars, Net.capRows, List.forall_mem_singleton, hrow, Option.some.injEq, forall_eq', ok_cont, inBox_ninf_fin]
    have hcap : inBox (EB.fin 0, EB.fin 0) (lin (n.allFlux ++ [(V.fluxSum, -1)]) x) ↔
        x .fluxSum = (n.idx.map (fun i => x (.fwd i) + x (.rev i))).sum := by
      rw [inBox_zero, lin_append, allFlux_lin, lin_cons, lin_nil]
      constructor <;> intro h <;> linarith
    rw [hcap]
    tauto

/-- the point of the FVA problem above a flux vector -/
def fvaPoint (n : Net) (v : Nat → Rat) : V → Rat
  | .oldObj => n.objVal v
  | .fluxSum => n.sumAbs v
  | w => splitOf v w

theorem splits_fvaPoint (n : Net) (v : Nat → Rat) : Splits (fvaPoint n v) v := fun _ => ⟨rfl, rfl⟩

theorem netOf_congr {x : V → Rat} {v : Nat → Rat} (h : Splits x v) : netOf x = v := funext h.net

theorem fva_sound (n : Net) (hp : n.Proper) (t : Rat) (cap : Option Rat) (i : Nat) (mx : Bool) (x : V → Rat)
    (h : (n.fvaStep t cap i mx).Feasible x) :
    n.Region t cap (netOf x) ∧ (n.fvaStep t cap i mx).value x = netOf x i := by
  have h' : (n.fvaSetup t cap).Feasible x := h
  obtain ⟨hf, ht, ho, hc⟩ := (fvaSetup_feasible_iff n t cap x).1 h'
  obtain ⟨h1, h2⟩ := fbaPart_sound n hp x hf
  refine ⟨⟨h1, ?_, ?_⟩, ?_⟩
  · unfold Net.threshold; rw [← ho]; exact ht
  · intro c hcap
    obtain ⟨a, b⟩ := hc c hcap
    refine le_trans ?_ a
    rw [b]
    apply sum_map_le
    intro j hj
    obtain ⟨p, q⟩ := h2 j hj
    simp only [netOf]
    rw [abs_le]; constructor <;> linarith
  · show lin (flux i 1) x = _
    rw [lin_flux]; ring

theorem fva_complete (n : Net) (t : Rat) (cap : Option Rat) (i : Nat) (mx : Bool) (v : Nat → Rat) (hv : n.Region t cap v) :
    (n.fvaStep t cap i mx).Feasible (fvaPoint n v) ∧ netOf (fvaPoint n v) = v ∧
    (n.fvaStep t cap i mx).value (fvaPoint n v) = v i := by
  have hs := splits_fvaPoint n v
  have hn := netOf_congr hs
  refine ⟨?_, hn, ?_⟩
  · show (n.fvaSetup t cap).Feasible _
    rw [fvaSetup_feasible_iff]
    refine ⟨fbaPart_complete n v hv.1 _ hs, ?_, by rw [hn]; rfl, ?_⟩
    · exact hv.2.1
    · intro c hc
      refine ⟨hv.2.2 c hc, ?_⟩
      show n.sumAbs v = _
      exact sum_map_congr _ _ _ (fun j _ => (hs.sum j).symm)
  · show lin (flux i 1) _ = _
    rw [lin_flux, hn]; ring

/-- **FVA**: an optimum of the step problem for reaction `i` is the true extreme of `v_i` over the region -/
theorem fva_optimum (n : Net) (hp : n.Proper) (t : Rat) (cap : Option Rat) (i : Nat) (mx : Bool) (x : V → Rat)
    (h : (n.fvaStep t cap i mx).IsOpt x) :
    n.Region t cap (netOf x) ∧ (n.fvaStep t cap i mx).value x = netOf x i ∧
    ∀ v, n.Region t cap v → if mx then v i ≤ netOf x i else netOf x i ≤ v i := by
  obtain ⟨h1, h2⟩ := fva_sound n hp t cap i mx x h.1
  refine ⟨h1, h2, fun v hv => ?_⟩
  obtain ⟨c1, _, c3⟩ := fva_complete n t cap i mx v hv
  have := h.2 _ c1
  rw [c3, h2] at this
  exact this

/-! ### linear MOMA -/

/-- summed absolute distance to the reference fluxes -/
def Net.dist (n : Net) (ref : List Rat) (v : Nat → Rat) : Rat := (n.idx.map (fun i => |v i - ref.getD i 0|)).sum

theorem moma_feasible_iff (n : Net) (ref : List Rat) (x : V → Rat) :
    (n.moma ref).Feasible x ↔
      FbaPart n x ∧ x .oldObj = n.objVal (netOf x) ∧
      ∀ i ∈ n.idx, 0 ≤ x (.dist i) ∧ netOf x i - x (.dist i) ≤ ref.getD i 0 ∧ ref.getD i 0 ≤ netOf x i + x (.dist i) := by
  unfold Net.moma Prob.Feasible FbaPart
  simp only [Net.fba, List.forall_mem_append, List.forall_mem_singleton, List.forall_mem_map, List.forall_mem_flatMap, fbaVars_ok, ok_cont]
  have hrow : inBox ((n.oldObjRow "moma_old_objective_constraint").lb, (n.oldObjRow "moma_old_objective_constraint").ub)
      (lin (n.oldObjRow "moma_old_objective_constraint").co x) ↔ x .oldObj = n.objVal (netOf x) := by
    rw [oldObjRow_lin]
    show inBox (.fin 0, .fin 0) _ ↔ _
    rw [inBox_zero]; constructor <;> intro h <;> linarith
  have hrows : ∀ i, (∀ r ∈ n.momaRows ref i, inBox (r.lb, r.ub) (lin r.co x)) ↔
      (netOf x i - x (.dist i) ≤ ref.getD i 0 ∧ ref.getD i 0 ≤ netOf x i + x (.dist i)) := by
    intro i
    simp only [Net.momaRows, List.forall_mem_cons, List.not_mem_nil, false_imp_iff, imp_true_iff, and_true,
      inBox_ninf_fin, inBox_fin_pinf, lin_append, lin_flux, lin_cons, lin_nil]
    constructor <;> rintro ⟨a, b⟩ <;> constructor <;> linarith
  simp only [hrow, hrows, inBox_ninf_pinf, inBox_fin_pinf]
  constructor
  · rintro ⟨⟨⟨h1, _⟩, h3⟩, ⟨h4, h5⟩, h6⟩
    exact ⟨⟨h1, h4⟩, h5, fun i hi => ⟨h3 i hi, h6 i hi⟩⟩
  · rintro ⟨⟨h1, h4⟩, h5, h6⟩
    exact ⟨⟨⟨h1, trivial⟩, fun i hi => (h6 i hi).1⟩, ⟨h4, h5⟩, fun i hi => (h6 i hi).2⟩

theorem moma_value (n : Net) (ref : List Rat) (x : V → Rat) : (n.moma ref).value x = (n.idx.map (fun i => x (.dist i))).sum := by
  show lin (n.idx.map (fun i => (V.dist i, (1 : Rat)))) x = _
  rw [lin_map]; simp

def momaPoint (n : Net) (ref : List Rat) (v : Nat → Rat) : V → Rat
  | .oldObj => n.objVal v
  | .dist i => |v i - ref.getD i 0|
  | w => splitOf v w

theorem moma_sound (n : Net) (hp : n.Proper) (ref : List Rat) (x : V → Rat) (h : (n.moma ref).Feasible x) :
    n.Feasible (netOf x) ∧ n.dist ref (netOf x) ≤ (n.moma ref).value x := by
  obtain ⟨hf, _, hd⟩ := (moma_feasible_iff n ref x).1 h
  refine ⟨(fbaPart_sound n hp x hf).1, ?_⟩
  rw [moma_value]
  apply sum_map_le
  intro i hi
  obtain ⟨_, b, c⟩ := hd i hi
  rw [abs_le]; constructor <;> linarith

theorem moma_complete (n : Net) (ref : List Rat) (v : Nat → Rat) (hv : n.Feasible v) :
    (n.moma ref).Feasible (momaPoint n ref v) ∧ netOf (momaPoint n ref v) = v ∧
    (n.moma ref).value (momaPoint n ref v) = n.dist ref v := by
  have hs : Splits (momaPoint n ref v) v := fun _ => ⟨rfl, rfl⟩
  have hn := netOf_congr hs
  refine ⟨?_, hn, ?_⟩
  · rw [moma_feasible_iff]
    refine ⟨fbaPart_complete n v hv _ hs, by rw [hn]; rfl, fun i _ => ?_⟩
    rw [hn]
    show 0 ≤ |v i - ref.getD i 0| ∧ v i - |v i - ref.getD i 0| ≤ ref.getD i 0 ∧ ref.getD i 0 ≤ v i + |v i - ref.getD i 0|
    have h1 := abs_nonneg (v i - ref.getD i 0)
    have h2 := le_abs_self (v i - ref.getD i 0)
    have h3 := neg_abs_le (v i - ref.getD i 0)
    refine ⟨h1, by linarith, by linarith⟩
  · rw [moma_value]; rfl

/-- **linear MOMA**: at an optimum of the problem `add_moma(linear=True)` builds, the net fluxes are feasible for the model,
their summed absolute distance to the reference is the smallest possible, and the optimal value is that distance -/
theorem moma_optimum (n : Net) (hp : n.Proper) (ref : List Rat) (x : V → Rat) (h : (n.moma ref).IsOpt x) :
    n.Feasible (netOf x) ∧ (n.moma ref).value x = n.dist ref (netOf x) ∧
    ∀ v, n.Feasible v → n.dist ref (netOf x) ≤ n.dist ref v := by
  obtain ⟨h1, h3⟩ := moma_sound n hp ref x h.1
  have hmin : ∀ v, n.Feasible v → (n.moma ref).value x ≤ n.dist ref v := by
    intro v hv
    obtain ⟨c1, _, c3⟩ := moma_complete n ref v hv
    have := h.2 _ c1
    simp only [Net.moma, Bool.false_eq_true, if_false] at this
    rw [← c3]; exact this
  exact ⟨h1, le_antisymm (hmin _ h1) h3, fun v hv => le_trans h3 (hmin v hv)⟩

/-! ### ROOM -/

/-- every reaction has finite bounds (the coefficients of `add_room` subtract from them) -/
def Net.Finite (n : Net) : Prop := ∀ i ∈ n.idx, (n.rx i).lb = .fin (EB.toRat (n.rx i).lb) ∧ (n.rx i).ub = .fin (EB.toRat (n.rx i).ub)

/-- upper / lower end of the tolerance band around the reference flux of reaction `i` -/
def Net.wu (n : Net) (ref : List Rat) (tol delta eps : Rat) (i : Nat) : Rat :=
  roomFlux tol (n.rx i).lb (n.rx i).ub (ref.getD i 0) + delta * absR (roomFlux tol (n.rx i).lb (n.rx i).ub (ref.getD i 0)) + eps
def Net.wl (n : Net) (ref : List Rat) (tol delta eps : Rat) (i : Nat) : Rat :=
  roomFlux tol (n.rx i).lb (n.rx i).ub (ref.getD i 0) - delta * absR (roomFlux tol (n.rx i).lb (n.rx i).ub (ref.getD i 0)) - eps

theorem roomRows_eq (n : Net) (ref : List Rat) (tol d e : Rat) (i : Nat) :
    n.roomRows ref tol d e i =
      [⟨"room_constraint_upper_" ++ (n.rx i).id, .ninf, .fin (n.wu ref tol d e i),
          flux i 1 ++ [(.y i, -(EB.toRat (n.rx i).ub - n.wu ref tol d e i))]⟩,
       ⟨"room_constraint_lower_" ++ (n.rx i).id, .fin (n.wl ref tol d e i), .pinf,
          flux i 1 ++ [(.y i, -(EB.toRat (n.rx i).lb - n.wl ref tol d e i))]⟩] := rfl

/-- the flux of reaction `i` leaves the band -/
def Net.outside (n : Net) (ref : List Rat) (tol d e : Rat) (v : Nat → Rat) (i : Nat) : Prop :=
  v i < n.wl ref tol d e i ∨ n.wu ref tol d e i < v i

instance (n : Net) (ref : List Rat) (tol d e : Rat) (v : Nat → Rat) (i : Nat) : Decidable (n.outside ref tol d e v i) := by
  unfold Net.outside; infer_instance

/-- number of fluxes that leave their band -/
def Net.changed (n : Net) (ref : List Rat) (tol d e : Rat) (v : Nat → Rat) : Rat :=
  (n.idx.map (fun i => if n.outside ref tol d e v i then (1 : Rat) else 0)).sum

/-- the rows and boxes of `y_i`, integrality aside -/
def RoomRows (n : Net) (ref : List Rat) (tol d e : Rat) (x : V → Rat) (i : Nat) : Prop :=
  0 ≤ x (.y i) ∧ x (.y i) ≤ 1 ∧
  netOf x i - x (.y i) * (EB.toRat (n.rx i).ub - n.wu ref tol d e i) ≤ n.wu ref tol d e i ∧
  n.wl ref tol d e i ≤ netOf x i - x (.y i) * (EB.toRat (n.rx i).lb - n.wl ref tol d e i)

theorem room_feasible_iff (n : Net) (ref : List Rat) (old tol : Rat) (linear : Bool) (delta eps : Rat) (x : V → Rat) :
    (n.room ref old tol linear delta eps).Feasible x ↔
      FbaPart n x ∧ x .oldObj ≤ old ∧ x .oldObj = n.objVal (netOf x) ∧
      ∀ i ∈ n.idx, RoomRows n ref tol (if linear then 0 else delta) (if linear then 0 else eps) x i ∧
        (linear = false → (x (.y i) = 0 ∨ x (.y i) = 1)) := by
  unfold Net.room Prob.Feasible FbaPart
  simp only [Net.fba, List.forall_mem_append, List.forall_mem_singleton, List.forall_mem_map, List.forall_mem_flatMap, fbaVars_ok, ok_cont]
  have hrow : inBox ((n.oldObjRow "room_old_objective_constraint").lb, (n.oldObjRow "room_old_objective_constraint").ub)
      (lin (n.oldObjRow "room_old_objective_constraint").co x) ↔ x .oldObj = n.objVal (netOf x) := by
    rw [oldObjRow_lin]
    show inBox (.fin 0, .fin 0) _ ↔ _
    rw [inBox_zero]; constructor <;> intro h <;> linarith
  have hrows : ∀ d e i, (∀ r ∈ n.roomRows ref tol d e i, inBox (r.lb, r.ub) (lin r.co x)) ↔
      (netOf x i - x (.y i) * (EB.toRat (n.rx i).ub - n.wu ref tol d e i) ≤ n.wu ref tol d e i ∧
       n.wl ref tol d e i ≤ netOf x i - x (.y i) * (EB.toRat (n.rx i).lb - n.wl ref tol d e i)) := by
    intro d e i
    rw [roomRows_eq]
    simp only [List.forall_mem_cons, List.not_mem_nil, false_imp_iff, imp_true_iff, and_true,
      inBox_ninf_fin, inBox_fin_pinf, lin_append, lin_flux, lin_cons, lin_nil]
    constructor <;> rintro ⟨a, b⟩ <;> constructor <;> linarith
  have hy : ∀ i, Var.ok ⟨.y i, .fin 0, .fin 1, if linear then .cont else .bin⟩ (x (.y i)) ↔
      (0 ≤ x (.y i) ∧ x (.y i) ≤ 1) ∧ (linear = false → (x (.y i) = 0 ∨ x (.y i) = 1)) := by
    intro i
    cases linear <;> simp [Var.ok, Core.inBox_fin]
  simp only [hrow, hrows, hy, inBox_ninf_fin, RoomRows]
  constructor
  · rintro ⟨⟨⟨h1, h2⟩, h3⟩, ⟨h4, h5⟩, h6⟩
    exact ⟨⟨h1, h4⟩, h2, h5, fun i hi => ⟨⟨(h3 i hi).1.1, (h3 i hi).1.2, (h6 i hi).1, (h6 i hi).2⟩, (h3 i hi).2⟩⟩
  · rintro ⟨⟨h1, h4⟩, h2, h5, h6⟩
    exact ⟨⟨⟨h1, h2⟩, fun i hi => ⟨⟨(h6 i hi).1.1, (h6 i hi).1.2.1⟩, (h6 i hi).2⟩⟩, ⟨h4, h5⟩,
      fun i hi => ⟨(h6 i hi).1.2.2.1, (h6 i hi).1.2.2.2⟩⟩

theorem room_value (n : Net) (ref : List Rat) (old tol : Rat) (linear : Bool) (delta eps : Rat) (x : V → Rat) :
    (n.room ref old tol linear delta eps).value x = (n.idx.map (fun i => x (.y i))).sum := by
  show lin (n.idx.map (fun i => (V.y i, (1 : Rat)))) x = _
  rw [lin_map]; simp

/-- **linear ROOM is the relaxation**: the problem built with `linear=True` is the problem built with `linear=False`,
`delta = epsilon = 0`, with the integrality of the `y_i` dropped -/
theorem room_linear_is_relaxation (n : Net) (ref : List Rat) (old tol delta eps : Rat) (x : V → Rat) :
    (n.room ref old tol true delta eps).Feasible x ↔
      FbaPart n x ∧ x .oldObj ≤ old ∧ x .oldObj = n.objVal (netOf x) ∧ ∀ i ∈ n.idx, RoomRows n ref tol 0 0 x i := by
  rw [room_feasible_iff]
  simp

def roomPoint (n : Net) (ref : List Rat) (tol d e : Rat) (v : Nat → Rat) : V → Rat
  | .oldObj => n.objVal v
  | .y i => if n.outside ref tol d e v i then 1 else 0
  | w => splitOf v w

/-- feasible points of the ROOM problem (binary `y`): feasible fluxes, old objective at most its reference value, and every
flux whose `y` is 0 stays inside its band — so the objective value is at least the number of fluxes that leave it -/
theorem room_sound (n : Net) (hp : n.Proper) (ref : List Rat) (old tol delta eps : Rat) (x : V → Rat)
    (h : (n.room ref old tol false delta eps).Feasible x) :
    n.Feasible (netOf x) ∧ n.objVal (netOf x) ≤ old ∧
    n.changed ref tol delta eps (netOf x) ≤ (n.room ref old tol false delta eps).value x := by
  obtain ⟨hf, ho, he, hr⟩ := (room_feasible_iff n ref old tol false delta eps x).1 h
  refine ⟨(fbaPart_sound n hp x hf).1, by rw [← he]; exact ho, ?_⟩
  rw [room_value]
  apply sum_map_le
  intro i hi
  obtain ⟨⟨y0, y1, ru, rl⟩, hb⟩ := hr i hi
  simp only [Bool.false_eq_true, if_false] at ru rl
  rcases hb rfl with hy | hy
  · rw [hy] at ru rl ⊢
    have : ¬ n.outside ref tol delta eps (netOf x) i := by
      unfold Net.outside; push Not; constructor <;> linarith
    simp [this]
  · rw [hy]; split <;> norm_num

theorem room_complete (n : Net) (hfin : n.Finite) (ref : List Rat) (old tol delta eps : Rat) (v : Nat → Rat)
    (hv : n.Feasible v) (ho : n.objVal v ≤ old) :
    (n.room ref old tol false delta eps).Feasible (roomPoint n ref tol delta eps v) ∧
    netOf (roomPoint n ref tol delta eps v) = v ∧
    (n.room ref old tol false delta eps).value (roomPoint n ref tol delta eps v) = n.changed ref tol delta eps v := by
  have hs : Splits (roomPoint n ref tol delta eps v) v := fun _ => ⟨rfl, rfl⟩
  have hn := netOf_congr hs
  refine ⟨?_, hn, ?_⟩
  · rw [room_feasible_iff]
    refine ⟨fbaPart_complete n v hv _ hs, ho, by rw [hn]; rfl, fun i hi => ?_⟩
    simp only [Bool.false_eq_true, if_false, RoomRows, hn]
    have hb := hv.1 i hi
    rw [(hfin i hi).1, (hfin i hi).2, Core.inBox_fin] at hb
    show (0 ≤ (if n.outside ref tol delta eps v i then (1 : Rat) else 0) ∧ (if n.outside ref tol delta eps v i then (1 : Rat) else 0) ≤ 1 ∧
      v i - (if n.outside ref tol delta eps v i then (1 : Rat) else 0) * _ ≤ _ ∧
      _ ≤ v i - (if n.outside ref tol delta eps v i then (1 : Rat) else 0) * _) ∧ _
    by_cases hout : n.outside ref tol delta eps v i
    · simp only [hout, if_true]
      refine ⟨⟨by norm_num, le_refl _, by linarith, by linarith⟩, fun _ => Or.inr (by show (if n.outside ref tol delta eps v i then (1 : Rat) else 0) = 1; simp [hout])⟩
    · simp only [hout, if_false]
      have hout' := hout
      unfold Net.outside at hout; push Not at hout
      refine ⟨⟨le_refl _, by norm_num, by linarith, by linarith⟩, fun _ => Or.inl (by show (if n.outside ref tol delta eps v i then (1 : Rat) else 0) = 0; simp [hout'])⟩
  · rw [room_value]; rfl

/-- **ROOM**: at an optimum of the problem `add_room` builds (binary `y`, finite bounds), the net fluxes are feasible, keep the
old objective at most its reference value, leave their tolerance bands in the smallest possible number of reactions, and
the optimal value is that number -/
theorem room_optimum (n : Net) (hp : n.Proper) (hfin : n.Finite) (ref : List Rat) (old tol delta eps : Rat) (x : V → Rat)
    (h : (n.room ref old tol false delta eps).IsOpt x) :
    n.Feasible (netOf x) ∧ n.objVal (netOf x) ≤ old ∧
    (n.room ref old tol false delta eps).value x = n.changed ref tol delta eps (netOf x) ∧
    ∀ v, n.Feasible v → n.objVal v ≤ old → n.changed ref tol delta eps (netOf x) ≤ n.changed ref tol delta eps v := by
  obtain ⟨h1, h2, h3⟩ := room_sound n hp ref old tol delta eps x h.1
  have hmin : ∀ v, n.Feasible v → n.objVal v ≤ old → (n.room ref old tol false delta eps).value x ≤ n.changed ref tol delta eps v := by
    intro v hv ho
    obtain ⟨c1, _, c3⟩ := room_complete n hfin ref old tol delta eps v hv ho
    have := h.2 _ c1
    simp only [Net.room, Bool.false_eq_true, if_false] at this
    rw [← c3]; exact this
  exact ⟨h1, h2, le_antisymm (hmin _ h1 h2) h3, fun v hv ho => le_trans h3 (hmin v hv ho)⟩

/-! ### CycleFreeFlux (`loopless_solution`) -/

theorem idx_mem (n : Net) (i : Nat) : i ∈ n.idx ↔ i < n.rxns.length := by simp [Net.idx]

theorem rx_eq (n : Net) (i : Nat) (h : i < n.rxns.length) : n.rx i = n.rxns[i] := by
  simp [Net.rx, List.getD_eq_getElem?_getD, h]

theorem cycleFreeNet_length (n : Net) (fl : List Rat) : (n.cycleFreeNet fl).rxns.length = n.rxns.length := by
  simp [Net.cycleFreeNet]

theorem cycleFreeNet_idx (n : Net) (fl : List Rat) : (n.cycleFreeNet fl).idx = n.idx := by
  simp [Net.idx, cycleFreeNet_length]

theorem cycleFreeNet_rx (n : Net) (fl : List Rat) (i : Nat) (h : i ∈ n.idx) :
    (n.cycleFreeNet fl).rx i = { id := (n.rx i).id, rev := (n.rx i).rev, lb := (cycleFreeBounds (n.rx i) (fl.getD i 0)).1,
                                 ub := (cycleFreeBounds (n.rx i) (fl.getD i 0)).2, st := (n.rx i).st } := by
  rw [idx_mem] at h
  rw [rx_eq _ _ (by rw [cycleFreeNet_length]; exact h), rx_eq _ _ h]
  simp [Net.cycleFreeNet]

theorem maxQ_nonneg (b : EB) : 0 ≤ EB.maxQ 0 b := by
  cases b <;> simp only [EB.maxQ, maxR, le_refl]
  split <;> linarith

theorem minQ_nonpos (b : EB) : EB.minQ 0 b ≤ 0 := by
  cases b <;> simp only [EB.minQ, minR, le_refl]
  split <;> linarith

theorem cycleFreeBounds_fin (r : Rxn) (v : Rat) :
    ∃ a b, cycleFreeBounds r v = (.fin a, .fin b) ∧
      (r.boundary = false → 0 ≤ v → 0 ≤ a) ∧ (r.boundary = false → v < 0 → b ≤ 0) := by
  by_cases hb : r.boundary = true
  · exact ⟨v, v, by simp [cycleFreeBounds, hb], fun h => by simp [hb] at h, fun h => by simp [hb] at h⟩
  · by_cases hv : 0 ≤ v
    · exact ⟨EB.maxQ 0 r.lb, maxR (EB.maxQ 0 r.lb) (EB.minQ v r.ub), by simp [cycleFreeBounds, hb, hv],
        fun _ _ => maxQ_nonneg _, fun _ h => absurd hv (not_le.2 h)⟩
    · exact ⟨minR (EB.minQ 0 r.ub) (EB.maxQ v r.lb), EB.minQ 0 r.ub, by simp [cycleFreeBounds, hb, hv],
        fun _ h => absurd h hv, fun _ _ => minQ_nonpos _⟩

theorem cycleFreeNet_proper (n : Net) (fl : List Rat) : (n.cycleFreeNet fl).Proper := by
  intro i hi
  rw [cycleFreeNet_idx] at hi
  rw [cycleFreeNet_rx n fl i hi]
  obtain ⟨a, b, h, _⟩ := cycleFreeBounds_fin (n.rx i) (fl.getD i 0)
  show (cycleFreeBounds (n.rx i) (fl.getD i 0)).1 ≠ .pinf ∧ (cycleFreeBounds (n.rx i) (fl.getD i 0)).2 ≠ .ninf
  rw [h]; exact ⟨by simp, by simp⟩

/-- total flux through the internal (non-boundary) reactions -/
def Net.sumAbsInt (n : Net) (v : Nat → Rat) : Rat := (n.idx.map (fun i => if (n.rx i).boundary then 0 else |v i|)).sum

theorem cycleFreeObj_lin (n : Net) (fl : List Rat) (x : V → Rat) :
    lin (n.cycleFreeObj fl) x =
      (n.idx.map (fun i => if (n.rx i).boundary then 0 else if 0 ≤ fl.getD i 0 then x (.fwd i) else x (.rev i))).sum := by
  unfold Net.cycleFreeObj
  rw [lin_flatMap]
  apply sum_map_congr
  intro i _
  split
  · rfl
  · split <;> simp [lin_cons, lin_nil]

theorem cycleFree_feasible_iff (n : Net) (fl : List Rat) (opt : Rat) (x : V → Rat) :
    (n.cycleFree fl opt).Feasible x ↔ FbaPart (n.cycleFreeNet fl) x ∧ n.threshold opt (netOf x) := by
  unfold Net.cycleFree Prob.Feasible FbaPart
  simp only [Net.fba, List.forall_mem_append, List.forall_mem_singleton, fbaVars_ok, fixRow_ok]
  tauto

/-- a lower bound that is not negative leaves the reverse variable at zero; an upper bound that is not positive the forward one -/
theorem split_signs (a b f r : Rat) (hf : inBox (splitBounds (.fin a) (.fin b)).1 f) (hr : inBox (splitBounds (.fin a) (.fin b)).2 r) :
    (0 ≤ a → r = 0 ∧ 0 ≤ f) ∧ (b ≤ 0 → f = 0 ∧ 0 ≤ r) := by
  rw [Core.splitBounds_fin] at hf hr
  by_cases ha : 0 < a
  · rw [if_pos ha] at hf hr
    simp only [Core.inBox_fin] at *
    exact ⟨fun _ => ⟨le_antisymm hr.2 hr.1, by linarith⟩, fun hb => ⟨by linarith, hr.1⟩⟩
  · rw [if_neg ha] at hf hr
    by_cases hb : b < 0
    · rw [if_pos hb] at hf hr
      simp only [Core.inBox_fin] at *
      exact ⟨fun h0 => ⟨by linarith, hf.1⟩, fun _ => ⟨le_antisymm hf.2 hf.1, by linarith⟩⟩
    · rw [if_neg hb] at hf hr
      simp only [Core.inBox_fin] at *
      exact ⟨fun h0 => ⟨by linarith, hf.1⟩, fun hb' => ⟨by linarith, hr.1⟩⟩

/-- on a feasible point of the CycleFreeFlux problem the objective is the total flux through the internal reactions -/
theorem cycleFree_value (n : Net) (fl : List Rat) (opt : Rat) (x : V → Rat) (h : FbaPart (n.cycleFreeNet fl) x) :
    (n.cycleFree fl opt).value x = n.sumAbsInt (netOf x) := by
  show lin (n.cycleFreeObj fl) x = _
  rw [cycleFreeObj_lin]
  apply sum_map_congr
  intro i hi
  by_cases hb : (n.rx i).boundary = true
  · simp [hb]
  · simp only [hb, Bool.false_eq_true, if_false]
    obtain ⟨a, b, hab, h1, h2⟩ := cycleFreeBounds_fin (n.rx i) (fl.getD i 0)
    have hi' : i ∈ (n.cycleFreeNet fl).idx := by rw [cycleFreeNet_idx]; exact hi
    have hrx := cycleFreeNet_rx n fl i hi
    have hf := h.1 ⟨.fwd i, (splitBounds ((n.cycleFreeNet fl).rx i).lb ((n.cycleFreeNet fl).rx i).ub).1.1,
      (splitBounds ((n.cycleFreeNet fl).rx i).lb ((n.cycleFreeNet fl).rx i).ub).1.2, .cont⟩
      (by simp only [Net.fbaVars, List.mem_flatMap]; exact ⟨i, hi', by simp [Net.pairVars]⟩)
    have hr := h.1 ⟨.rev i, (splitBounds ((n.cycleFreeNet fl).rx i).lb ((n.cycleFreeNet fl).rx i).ub).2.1,
      (splitBounds ((n.cycleFreeNet fl).rx i).lb ((n.cycleFreeNet fl).rx i).ub).2.2, .cont⟩
      (by simp only [Net.fbaVars, List.mem_flatMap]; exact ⟨i, hi', by simp [Net.pairVars]⟩)
    rw [hrx] at hf hr
    simp only [hab] at hf hr
    obtain ⟨s1, s2⟩ := split_signs a b _ _ hf hr
    have hbf : (n.rx i).boundary = false := by simpa using hb
    by_cases hv : 0 ≤ fl.getD i 0
    · simp only [hv, if_true]
      obtain ⟨r0, f0⟩ := s1 (h1 hbf hv)
      simp only [netOf, r0, sub_zero, abs_of_nonneg f0]
    · simp only [hv, if_false]
      obtain ⟨f0, r0⟩ := s2 (h2 hbf (not_le.1 hv))
      simp only [netOf, f0, zero_sub, abs_neg, abs_of_nonneg r0]

/-- the region CycleFreeFlux optimises over: feasible for the model with the bounds `_add_cycle_free` set (boundary fluxes
fixed, directions kept, magnitudes capped by the start fluxes), objective kept at or beyond `opt` -/
def Net.CycleFreeRegion (n : Net) (fl : List Rat) (opt : Rat) (v : Nat → Rat) : Prop :=
  (n.cycleFreeNet fl).Feasible v ∧ n.threshold opt v

theorem cycleFree_sound (n : Net) (fl : List Rat) (opt : Rat) (x : V → Rat) (h : (n.cycleFree fl opt).Feasible x) :
    n.CycleFreeRegion fl opt (netOf x) ∧ (n.cycleFree fl opt).value x = n.sumAbsInt (netOf x) := by
  obtain ⟨hf, ht⟩ := (cycleFree_feasible_iff n fl opt x).1 h
  exact ⟨⟨(fbaPart_sound _ (cycleFreeNet_proper n fl) x hf).1, ht⟩, cycleFree_value n fl opt x hf⟩

theorem cycleFree_complete (n : Net) (fl : List Rat) (opt : Rat) (v : Nat → Rat) (hv : n.CycleFreeRegion fl opt v) :
    (n.cycleFree fl opt).Feasible (splitOf v) ∧ netOf (splitOf v) = v ∧ (n.cycleFree fl opt).value (splitOf v) = n.sumAbsInt v := by
  have hp := fbaPart_complete _ v hv.1 _ (splits_splitOf v)
  refine ⟨(cycleFree_feasible_iff n fl opt _).2 ⟨hp, by rw [netOf_splitOf]; exact hv.2⟩, netOf_splitOf v, ?_⟩
  rw [cycleFree_value n fl opt _ hp, netOf_splitOf]

/-- **CycleFreeFlux**: an optimum of the problem `loopless_solution` builds is a flux vector of the region with the smallest
total internal flux — no other vector of the region (none obtained by removing a cycle, in particular) has less -/
theorem cycleFree_optimum (n : Net) (fl : List Rat) (opt : Rat) (x : V → Rat) (h : (n.cycleFree fl opt).IsOpt x) :
    n.CycleFreeRegion fl opt (netOf x) ∧ (n.cycleFree fl opt).value x = n.sumAbsInt (netOf x) ∧
    ∀ v, n.CycleFreeRegion fl opt v → n.sumAbsInt (netOf x) ≤ n.sumAbsInt v := by
  obtain ⟨h1, h2⟩ := cycleFree_sound n fl opt x h.1
  refine ⟨h1, h2, fun v hv => ?_⟩
  obtain ⟨c1, _, c3⟩ := cycleFree_complete n fl opt v hv
  have := h.2 _ c1
  simp only [Net.cycleFree, Bool.false_eq_true, if_false] at this
  rw [← h2, ← c3]; exact this

theorem maxR_eq (a b : Rat) : maxR a b = max a b := by
  unfold maxR; split
  · rw [max_eq_right]; assumption
  · rw [max_eq_left]; linarith
theorem minR_eq (a b : Rat) : minR a b = min a b := by
  unfold minR; split
  · rw [min_eq_left]; assumption
  · rw [min_eq_right]; linarith

theorem maxQ_spec (q c : Rat) (b : EB) (hq : q ≤ c) (hb : EB.le b (.fin c) = true) :
    q ≤ EB.maxQ q b ∧ EB.le b (.fin (EB.maxQ q b)) = true ∧ EB.maxQ q b ≤ c := by
  cases b with
  | ninf => exact ⟨le_refl _, rfl, hq⟩
  | pinf => simp [EB.le] at hb
  | fin a =>
    have ha : a ≤ c := by simpa [EB.le] using hb
    simp only [EB.maxQ, maxR_eq, EB.le, decide_eq_true_eq]
    exact ⟨le_max_left _ _, le_max_right _ _, max_le hq ha⟩

theorem minQ_spec (q c : Rat) (b : EB) (hq : c ≤ q) (hb : EB.le (.fin c) b = true) :
    EB.minQ q b ≤ q ∧ EB.le (.fin (EB.minQ q b)) b = true ∧ c ≤ EB.minQ q b := by
  cases b with
  | pinf => exact ⟨le_refl _, rfl, hq⟩
  | ninf => simp [EB.le] at hb
  | fin a =>
    have ha : c ≤ a := by simpa [EB.le] using hb
    simp only [EB.minQ, minR_eq, EB.le, decide_eq_true_eq]
    exact ⟨min_le_left _ _, min_le_right _ _, le_min hq ha⟩

theorem EB.le_trans_fin (b : EB) (p q : Rat) (h1 : EB.le b (.fin p) = true) (h2 : p ≤ q) : EB.le b (.fin q) = true := by
  cases b with
  | ninf => rfl
  | pinf => simp [EB.le] at h1
  | fin a => have : a ≤ p := by simpa [EB.le] using h1
             simp only [EB.le, decide_eq_true_eq]; linarith
theorem EB.fin_le_trans (b : EB) (p q : Rat) (h1 : EB.le (.fin q) b = true) (h2 : p ≤ q) : EB.le (.fin p) b = true := by
  cases b with
  | pinf => rfl
  | ninf => simp [EB.le] at h1
  | fin a => have : q ≤ a := by simpa [EB.le] using h1
             simp only [EB.le, decide_eq_true_eq]; linarith

/-- **what the bounds of `_add_cycle_free` mean**, for a start flux `fl` inside the reaction bounds: a boundary flux is fixed
at its start value; an internal flux keeps its direction, is capped by the start flux, and stays inside the bounds -/
theorem cycleFreeBounds_spec (r : Rxn) (fl v : Rat) (hfl : inBox (r.lb, r.ub) fl) (hv : inBox (cycleFreeBounds r fl) v) :
    (r.boundary = true → v = fl) ∧
    (r.boundary = false → (0 ≤ fl → 0 ≤ v ∧ v ≤ fl) ∧ (fl < 0 → fl ≤ v ∧ v ≤ 0) ∧ inBox (r.lb, r.ub) v) := by
  constructor
  · intro hb
    simp only [cycleFreeBounds, hb, if_true, Core.inBox_fin] at hv
    exact le_antisymm hv.2 hv.1
  · intro hb
    by_cases h0 : 0 ≤ fl
    · simp only [cycleFreeBounds, hb, Bool.false_eq_true, if_false, h0, if_true, Core.inBox_fin, maxR_eq] at hv
      obtain ⟨m1, m2, m3⟩ := maxQ_spec 0 fl r.lb h0 hfl.1
      obtain ⟨n1, n2, n3⟩ := minQ_spec fl fl r.ub (le_refl _) hfl.2
      have hmin : EB.minQ fl r.ub = fl := le_antisymm n1 n3
      rw [hmin, max_eq_right m3] at hv
      refine ⟨fun _ => ⟨by linarith, hv.2⟩, fun h => absurd h0 (not_le.2 h), ?_, ?_⟩
      · exact EB.le_trans_fin _ _ _ m2 hv.1
      · exact EB.fin_le_trans _ _ _ hfl.2 hv.2
    · have h0' : fl < 0 := not_le.1 h0
      simp only [cycleFreeBounds, hb, Bool.false_eq_true, if_false, h0, Core.inBox_fin, minR_eq] at hv
      obtain ⟨m1, m2, m3⟩ := minQ_spec 0 fl r.ub (le_of_lt h0') hfl.2
      obtain ⟨n1, n2, n3⟩ := maxQ_spec fl fl r.lb (le_refl _) hfl.1
      have hmax : EB.maxQ fl r.lb = fl := le_antisymm n3 n1
      rw [hmax, min_eq_right m3] at hv
      refine ⟨fun h => absurd h h0, fun _ => ⟨hv.1, by linarith⟩, ?_, ?_⟩
      · exact EB.le_trans_fin _ _ _ hfl.1 hv.1
      · exact EB.fin_le_trans _ _ _ m2 hv.2

/-! ### minimal medium -/

/-- the import flux of an exchange: the negative part of the flux when written `met -->` (export), the positive part otherwise -/
def importOf (v : Nat → Rat) (e : Nat × Bool) : Rat := if e.2 then max (-(v e.1)) 0 else max (v e.1) 0

/-- total import over the exchanges -/
def totalImport (exch : List (Nat × Bool)) (v : Nat → Rat) : Rat := (exch.map (importOf v)).sum

theorem importVar_splitOf (v : Nat → Rat) (e : Nat × Bool) : splitOf v (importVar e) = importOf v e := by
  unfold importVar importOf; split <;> rfl

theorem importVar_ge (n : Net) (x : V → Rat) (h : ∀ i ∈ n.idx, 0 ≤ x (.fwd i) ∧ 0 ≤ x (.rev i)) (e : Nat × Bool) (he : e.1 ∈ n.idx) :
    importOf (netOf x) e ≤ x (importVar e) := by
  obtain ⟨a, b⟩ := h e.1 he
  unfold importVar importOf netOf
  split
  · apply max_le <;> linarith
  · apply max_le <;> linarith

theorem mediumRow_ok (n : Net) (q : Rat) (x : V → Rat) :
    inBox (EB.fin q, EB.pinf) (lin n.objExpr x) ↔ q ≤ n.objVal (netOf x) := by
  rw [inBox_fin_pinf, objExpr_lin]

theorem mediumLinear_feasible_iff (n : Net) (exch : List (Nat × Bool)) (q : Rat) (x : V → Rat) :
    (n.mediumLinear exch q).Feasible x ↔ FbaPart n x ∧ q ≤ n.objVal (netOf x) := by
  unfold Net.mediumLinear Prob.Feasible FbaPart
  simp only [Net.fba, List.forall_mem_append, List.forall_mem_singleton, fbaVars_ok, mediumRow_ok]
  tauto

theorem mediumLinear_value (n : Net) (exch : List (Nat × Bool)) (q : Rat) (x : V → Rat) :
    (n.mediumLinear exch q).value x = (exch.map (fun e => x (importVar e))).sum := by
  show lin (exch.map (fun e => (importVar e, (1 : Rat)))) x = _
  rw [lin_map]; simp

/-- **minimal medium (linear)**: at an optimum of the problem `minimal_medium` builds, the net fluxes are feasible, reach the
requested objective value, have the smallest total import among all such flux vectors, and the optimal value is that total -/
theorem mediumLinear_optimum (n : Net) (hp : n.Proper) (exch : List (Nat × Bool)) (hex : ∀ e ∈ exch, e.1 ∈ n.idx) (q : Rat)
    (x : V → Rat) (h : (n.mediumLinear exch q).IsOpt x) :
    n.Feasible (netOf x) ∧ q ≤ n.objVal (netOf x) ∧ (n.mediumLinear exch q).value x = totalImport exch (netOf x) ∧
    ∀ v, n.Feasible v → q ≤ n.objVal v → totalImport exch (netOf x) ≤ totalImport exch v := by
  obtain ⟨hf, hq⟩ := (mediumLinear_feasible_iff n exch q x).1 h.1
  obtain ⟨h1, h2⟩ := fbaPart_sound n hp x hf
  have h3 : totalImport exch (netOf x) ≤ (n.mediumLinear exch q).value x := by
    rw [mediumLinear_value]
    exact sum_map_le _ _ _ (fun e he => importVar_ge n x h2 e (hex e he))
  have hmin : ∀ v, n.Feasible v → q ≤ n.objVal v → (n.mediumLinear exch q).value x ≤ totalImport exch v := by
    intro v hv hqv
    have c1 : (n.mediumLinear exch q).Feasible (splitOf v) :=
      (mediumLinear_feasible_iff n exch q _).2 ⟨fbaPart_complete n v hv _ (splits_splitOf v), by rw [netOf_splitOf]; exact hqv⟩
    have := h.2 _ c1
    simp only [Net.mediumLinear, Bool.false_eq_true, if_false] at this
    have c3 : (n.mediumLinear exch q).value (splitOf v) = totalImport exch v := by
      rw [mediumLinear_value]
      exact sum_map_congr _ _ _ (fun e _ => importVar_splitOf v e)
    rw [← c3]; exact this
  exact ⟨h1, hq, le_antisymm (hmin _ h1 hq) h3, fun v hv hqv => le_trans h3 (hmin v hv hqv)⟩

/-- number of exchanges with a positive import -/
def components (exch : List (Nat × Bool)) (v : Nat → Rat) : Rat :=
  (exch.map (fun e => if 0 < importOf v e then (1 : Rat) else 0)).sum

theorem mediumMip_feasible_iff (n : Net) (exch : List (Nat × Bool)) (q M : Rat) (x : V → Rat) :
    (n.mediumMip exch q M).Feasible x ↔
      FbaPart n x ∧ q ≤ n.objVal (netOf x) ∧
      ∀ e ∈ exch, (x (.ind e.1) = 0 ∨ x (.ind e.1) = 1) ∧ x (importVar e) ≤ M * x (.ind e.1) := by
  unfold Net.mediumMip Prob.Feasible FbaPart
  simp only [Net.fba, List.forall_mem_append, List.forall_mem_singleton, List.forall_mem_map, fbaVars_ok, mediumRow_ok]
  have hv : ∀ e : Nat × Bool, Var.ok ⟨.ind e.1, .fin 0, .fin 1, .bin⟩ (x (.ind e.1)) ↔ (x (.ind e.1) = 0 ∨ x (.ind e.1) = 1) := by
    intro e
    simp only [Var.ok, Core.inBox_fin, reduceCtorEq, false_imp_iff, and_true, true_imp_iff]
    constructor
    · exact fun h => h.2
    · intro h; refine ⟨?_, h⟩
      rcases h with h | h <;> rw [h] <;> norm_num
  have hr : ∀ e : Nat × Bool, inBox (EB.ninf, EB.fin 0) (lin [(importVar e, (1 : Rat)), (V.ind e.1, -M)] x) ↔ x (importVar e) ≤ M * x (.ind e.1) := by
    intro e
    rw [inBox_ninf_fin, lin_cons, lin_cons, lin_nil]
    constructor <;> intro h <;> simp only at * <;> linarith
  simp only [hv, hr]
  constructor
  · rintro ⟨⟨h1, h2⟩, ⟨h3, h4⟩, h5⟩
    exact ⟨⟨h1, h3⟩, h4, fun e he => ⟨h2 e he, h5 e he⟩⟩
  · rintro ⟨⟨h1, h3⟩, h4, h5⟩
    exact ⟨⟨h1, fun e he => (h5 e he).1⟩, ⟨h3, h4⟩, fun e he => (h5 e he).2⟩

theorem mediumMip_value (n : Net) (exch : List (Nat × Bool)) (q M : Rat) (x : V → Rat) :
    (n.mediumMip exch q M).value x = (exch.map (fun e => x (.ind e.1))).sum := by
  show lin (exch.map (fun e => (V.ind e.1, (1 : Rat)))) x = _
  rw [lin_map]; simp

/-- the indicator assignment above a flux vector, for exchanges whose indices are pairwise distinct -/
def mipPointE (exch : List (Nat × Bool)) (v : Nat → Rat) : V → Rat
  | .ind i => match exch.find? (fun e => e.1 == i) with
    | some e => if 0 < importOf v e then 1 else 0
    | none => 0
  | w => splitOf v w

/-- every feasible point of the MIP opens (indicator 1) at least the exchanges that import: its objective value is at least
the number of components of the medium it stands for -/
theorem mediumMip_sound (n : Net) (hp : n.Proper) (exch : List (Nat × Bool)) (hex : ∀ e ∈ exch, e.1 ∈ n.idx) (q M : Rat)
    (x : V → Rat) (h : (n.mediumMip exch q M).Feasible x) :
    n.Feasible (netOf x) ∧ q ≤ n.objVal (netOf x) ∧ components exch (netOf x) ≤ (n.mediumMip exch q M).value x := by
  obtain ⟨hf, hq, hi⟩ := (mediumMip_feasible_iff n exch q M x).1 h
  obtain ⟨h1, h2⟩ := fbaPart_sound n hp x hf
  refine ⟨h1, hq, ?_⟩
  rw [mediumMip_value]
  apply sum_map_le
  intro e he
  obtain ⟨hb, hr⟩ := hi e he
  have hge := importVar_ge n x h2 e (hex e he)
  rcases hb with hb | hb
  · rw [hb] at hr ⊢
    have : ¬ 0 < importOf (netOf x) e := by
      intro hpos; linarith
    simp [this]
  · rw [hb]; split <;> norm_num

theorem find_by_index (exch : List (Nat × Bool)) (hnd : (exch.map (·.1)).Nodup) :
    ∀ e ∈ exch, exch.find? (fun e' => e'.1 == e.1) = some e := by
  intro e he
  induction exch with
  | nil => simp at he
  | cons a l ih =>
    simp only [List.map_cons, List.nodup_cons, List.mem_map, not_exists, not_and] at hnd
    rcases List.mem_cons.1 he with rfl | hl
    · simp
    · have hne : a.1 ≠ e.1 := fun heq => hnd.1 e hl heq.symm
      rw [List.find?_cons_of_neg (by simpa using hne)]
      exact ih hnd.2 hl

/-- … and a flux vector whose imports stay below the big-M constant is reached with exactly that number (exchange indices
pairwise distinct) -/
theorem mediumMip_complete (n : Net) (exch : List (Nat × Bool)) (hnd : (exch.map (·.1)).Nodup) (q M : Rat) (v : Nat → Rat)
    (hv : n.Feasible v) (hq : q ≤ n.objVal v) (hM : ∀ e ∈ exch, importOf v e ≤ M) :
    (n.mediumMip exch q M).Feasible (mipPointE exch v) ∧ netOf (mipPointE exch v) = v ∧
    (n.mediumMip exch q M).value (mipPointE exch v) = components exch v := by
  have hs : Splits (mipPointE exch v) v := fun _ => ⟨rfl, rfl⟩
  have hn := netOf_congr hs
  have hfind := find_by_index exch hnd
  have hind : ∀ e ∈ exch, mipPointE exch v (.ind e.1) = if 0 < importOf v e then 1 else 0 := by
    intro e he
    show (match exch.find? (fun e' => e'.1 == e.1) with | some e => if 0 < importOf v e then (1 : Rat) else 0 | none => 0) = _
    rw [hfind e he]
  have himp : ∀ e : Nat × Bool, mipPointE exch v (importVar e) = importOf v e := by
    intro e
    have : mipPointE exch v (importVar e) = splitOf v (importVar e) := by
      unfold importVar; split <;> rfl
    rw [this, importVar_splitOf]
  refine ⟨?_, hn, ?_⟩
  · rw [mediumMip_feasible_iff]
    refine ⟨fbaPart_complete n v hv _ hs, by rw [hn]; exact hq, fun e he => ?_⟩
    rw [hind e he, himp e]
    have h0 : 0 ≤ importOf v e := by unfold importOf; split <;> exact le_max_right _ _
    by_cases hpos : 0 < importOf v e
    · simp only [hpos, if_true]
      exact ⟨by norm_num, by have := hM e he; linarith⟩
    · simp only [hpos, if_false]
      exact ⟨by norm_num, by linarith⟩
  · rw [mediumMip_value]
    exact sum_map_congr _ _ _ (fun e he => hind e he)

/-- **minimal medium (components)**: at an optimum of the MIP `minimal_medium(minimize_components=True)` builds, the net fluxes are
feasible, reach the requested objective value, and no flux vector that does so with imports below the big-M constant uses
fewer components; the optimal value is the number of components of the optimum -/
theorem mediumMip_optimum (n : Net) (hp : n.Proper) (exch : List (Nat × Bool)) (hex : ∀ e ∈ exch, e.1 ∈ n.idx)
    (hnd : (exch.map (·.1)).Nodup) (q M : Rat) (x : V → Rat) (h : (n.mediumMip exch q M).IsOpt x)
    (hxM : ∀ e ∈ exch, importOf (netOf x) e ≤ M) :
    n.Feasible (netOf x) ∧ q ≤ n.objVal (netOf x) ∧ (n.mediumMip exch q M).value x = components exch (netOf x) ∧
    ∀ v, n.Feasible v → q ≤ n.objVal v → (∀ e ∈ exch, importOf v e ≤ M) → components exch (netOf x) ≤ components exch v := by
  obtain ⟨h1, h2, h3⟩ := mediumMip_sound n hp exch hex q M x h.1
  have hmin : ∀ v, n.Feasible v → q ≤ n.objVal v → (∀ e ∈ exch, importOf v e ≤ M) → (n.mediumMip exch q M).value x ≤ components exch v := by
    intro v hv hqv hvM
    obtain ⟨c1, _, c3⟩ := mediumMip_complete n exch hnd q M v hv hqv hvM
    have := h.2 _ c1
    simp only [Net.mediumMip, Bool.false_eq_true, if_false] at this
    rw [← c3]; exact this
  exact ⟨h1, h2, le_antisymm (hmin _ h1 h2 hxM) h3, fun v hv hqv hvM => le_trans h3 (hmin v hv hqv hvM)⟩

theorem absR_eq (q : Rat) : absR q = |q| := by
  unfold absR; split
  · rw [abs_of_neg]; assumption
  · rw [abs_of_nonneg]; linarith

theorem foldl_maxR_ge {α : Type} (g : α → Rat) (l : List α) (acc : Rat) :
    acc ≤ l.foldl (fun a e => maxR a (g e)) acc ∧ ∀ e ∈ l, g e ≤ l.foldl (fun a e => maxR a (g e)) acc := by
  induction l generalizing acc with
  | nil => simp
  | cons a l ih =>
    simp only [List.foldl_cons, List.mem_cons, forall_eq_or_imp]
    obtain ⟨h1, h2⟩ := ih (maxR acc (g a))
    rw [maxR_eq] at h1 h2 ⊢
    exact ⟨le_trans (le_max_left _ _) h1, le_trans (le_max_right _ _) h1, h2⟩

/-- with finite exchange bounds, no import of a feasible flux vector exceeds the big-M constant of `add_mip_obj` -/
theorem import_le_bigM (n : Net) (exch : List (Nat × Bool)) (hex : ∀ e ∈ exch, e.1 ∈ n.idx)
    (hfin : ∀ e ∈ exch, (n.rx e.1).lb = .fin (EB.toRat (n.rx e.1).lb) ∧ (n.rx e.1).ub = .fin (EB.toRat (n.rx e.1).ub))
    (v : Nat → Rat) (hv : n.Feasible v) : ∀ e ∈ exch, importOf v e ≤ n.bigM exch := by
  intro e he
  have hb := hv.1 e.1 (hex e he)
  rw [(hfin e he).1, (hfin e he).2, Core.inBox_fin] at hb
  have hg := (foldl_maxR_ge (fun e : Nat × Bool => maxR (absR (EB.toRat (n.rx e.1).lb)) (absR (EB.toRat (n.rx e.1).ub))) exch 0).2 e he
  refine le_trans ?_ hg
  simp only [maxR_eq, absR_eq]
  have h1 := neg_abs_le (EB.toRat (n.rx e.1).lb)
  have h2 := le_abs_self (EB.toRat (n.rx e.1).ub)
  have h3 := abs_nonneg (EB.toRat (n.rx e.1).lb)
  unfold importOf
  split
  · apply max_le
    · exact le_trans (by linarith) (le_max_left _ _)
    · exact le_trans h3 (le_max_left _ _)
  · apply max_le
    · exact le_trans (by linarith) (le_max_right _ _)
    · exact le_trans h3 (le_max_left _ _)

/-! ### fastcc, LP-7 -/

theorem fastcc_feasible_iff (n : Net) (sub : List Nat) (thr : Rat) (x : V → Rat) :
    (n.fastcc sub thr [] false).Feasible x ↔
      FbaPart n x ∧ ∀ i ∈ sub, 0 ≤ x (.auxv i) ∧ x (.auxv i) ≤ thr ∧ x (.auxv i) ≤ x (.fwd i) + x (.rev i) := by
  unfold Net.fastcc Prob.Feasible FbaPart
  simp only [Net.fba, List.forall_mem_append, List.forall_mem_map, fbaVars_ok, ok_cont, Core.inBox_fin, inBox_fin_pinf,
    Bool.false_and, Bool.false_eq_true, if_false, lin_cons, lin_nil]
  constructor
  · rintro ⟨⟨h1, h2⟩, h3, h4⟩
    exact ⟨⟨h1, h3⟩, fun i hi => ⟨(h2 i hi).1, (h2 i hi).2, by have := h4 i hi; linarith⟩⟩
  · rintro ⟨⟨h1, h3⟩, h4⟩
    exact ⟨⟨h1, fun i hi => ⟨(h4 i hi).1, (h4 i hi).2.1⟩⟩, h3, fun i hi => by have := (h4 i hi).2.2; linarith⟩

/-- **LP-7 is sound for irreversible reactions**: at a feasible point the auxiliary variable of a reaction whose lower bound is
not negative is at most its net flux — a positive auxiliary variable means the reaction carries flux in a feasible flux
vector.  (For a reversible reaction the row only bounds it by `forward + reverse`, which does not force a net flux.) -/
theorem lp7_sound (n : Net) (hp : n.Proper) (sub : List Nat) (thr : Rat) (x : V → Rat) (h : (n.fastcc sub thr [] false).Feasible x) :
    n.Feasible (netOf x) ∧
    ∀ i ∈ sub, i ∈ n.idx → (∃ a b, (n.rx i).lb = .fin a ∧ (n.rx i).ub = .fin b ∧ 0 ≤ a) → x (.auxv i) ≤ netOf x i := by
  obtain ⟨hf, hz⟩ := (fastcc_feasible_iff n sub thr x).1 h
  refine ⟨(fbaPart_sound n hp x hf).1, fun i hi hidx ⟨a, b, ha, hb, h0⟩ => ?_⟩
  have h1 := hf.1 ⟨.fwd i, (splitBounds (n.rx i).lb (n.rx i).ub).1.1, (splitBounds (n.rx i).lb (n.rx i).ub).1.2, .cont⟩
    (by simp only [Net.fbaVars, List.mem_flatMap]; exact ⟨i, hidx, by simp [Net.pairVars]⟩)
  have h2 := hf.1 ⟨.rev i, (splitBounds (n.rx i).lb (n.rx i).ub).2.1, (splitBounds (n.rx i).lb (n.rx i).ub).2.2, .cont⟩
    (by simp only [Net.fbaVars, List.mem_flatMap]; exact ⟨i, hidx, by simp [Net.pairVars]⟩)
  simp only [ha, hb] at h1 h2
  obtain ⟨r0, _⟩ := (split_signs a b _ _ h1 h2).1 h0
  have := (hz i hi).2.2
  simp only [netOf]; linarith

/-- the optimum of LP-7 is at least what any feasible flux vector offers: `Σ min(threshold, |v_i|)` over the chosen reactions -/
theorem lp7_optimum_ge (n : Net) (sub : List Nat) (thr : Rat) (hthr : 0 ≤ thr) (x : V → Rat) (h : (n.fastcc sub thr [] false).IsOpt x)
    (v : Nat → Rat) (hv : n.Feasible v) :
    (sub.map (fun i => min thr |v i|)).sum ≤ (n.fastcc sub thr [] false).value x := by
  let p : V → Rat := fun w => match w with
    | .auxv i => min thr |v i|
    | w => splitOf v w
  have hs : Splits p v := fun _ => ⟨rfl, rfl⟩
  have c1 : (n.fastcc sub thr [] false).Feasible p := by
    rw [fastcc_feasible_iff]
    refine ⟨fbaPart_complete n v hv _ hs, fun i _ => ?_⟩
    show 0 ≤ min thr |v i| ∧ min thr |v i| ≤ thr ∧ min thr |v i| ≤ p (.fwd i) + p (.rev i)
    rw [hs.sum i]
    exact ⟨le_min hthr (abs_nonneg _), min_le_left _ _, min_le_right _ _⟩
  have := h.2 _ c1
  simp only [Net.fastcc, if_true] at this
  have hval : ∀ z : V → Rat, lin (sub.map (fun i => (V.auxv i, if false = true then (-1 : Rat) else 1))) z = (sub.map (fun i => z (.auxv i))).sum := by
    intro z; rw [lin_map]; simp
  simp only [Prob.value] at this
  rw [hval p, hval x] at this
  show _ ≤ lin (sub.map (fun i => (V.auxv i, if false = true then (-1 : Rat) else 1))) x
  rw [hval]
  exact this

/-! ### flux balance analysis itself, and a worked instance -/

/-- **FBA**: an optimum of the flux-balance problem is, on net fluxes, an optimum of the objective over the steady-state,
in-bounds flux vectors, and the optimal value is the objective on the net fluxes -/
theorem fba_optimum (n : Net) (hp : n.Proper) (x : V → Rat) (h : n.fba.IsOpt x) :
    n.Feasible (netOf x) ∧ n.fba.value x = n.objVal (netOf x) ∧
    ∀ v, n.Feasible v → if n.dirMax then n.objVal v ≤ n.objVal (netOf x) else n.objVal (netOf x) ≤ n.objVal v := by
  obtain ⟨h1, h2⟩ := fba_sound n hp x h.1
  refine ⟨h1, h2, fun v hv => ?_⟩
  obtain ⟨c1, _, c3⟩ := fba_complete n v hv
  have := h.2 _ c1
  rw [c3, h2] at this
  exact this

/-- `--> M` with flux in `[1, 2]`, `M -->` with flux in `[0, 10]`, maximise the second -/
def demoNet : Net :=
  { rxns := [⟨"R0", "R0_reverse", .fin 1, .fin 2, [("M", 1)]⟩, ⟨"R1", "R1_reverse", .fin 0, .fin 10, [("M", -1)]⟩],
    mets := ["M"], obj := [(1, 1)], dirMax := true }

theorem demoNet_proper : demoNet.Proper := by
  intro i hi
  simp only [Net.idx, demoNet, List.length_cons, List.length_nil, List.mem_range] at hi
  have : i = 0 ∨ i = 1 := by omega
  rcases this with rfl | rfl <;> simp [Net.rx, demoNet]

theorem demoNet_feasible (v : Nat → Rat) : demoNet.Feasible v ↔ (1 ≤ v 0 ∧ v 0 ≤ 2) ∧ (0 ≤ v 1 ∧ v 1 ≤ 10) ∧ v 0 = v 1 := by
  unfold Net.Feasible
  have hidx : demoNet.idx = [0, 1] := rfl
  have h0 : demoNet.rx 0 = ⟨"R0", "R0_reverse", .fin 1, .fin 2, [("M", 1)]⟩ := rfl
  have h1 : demoNet.rx 1 = ⟨"R1", "R1_reverse", .fin 0, .fin 10, [("M", -1)]⟩ := rfl
  have hm : demoNet.mets = ["M"] := rfl
  simp only [hidx, hm, List.forall_mem_cons, List.not_mem_nil, false_imp_iff, imp_true_iff, and_true, h0, h1,
    Core.inBox_fin, List.map_cons, List.map_nil, List.sum_cons, List.sum_nil]
  have c0 : coefOf [("M", (1 : Rat))] "M" = 1 := by decide +kernel
  have c1 : coefOf [("M", (-1 : Rat))] "M" = -1 := by decide +kernel
  rw [c0, c1]
  constructor
  · rintro ⟨⟨a, b⟩, c⟩; exact ⟨a, b, by linarith⟩
  · rintro ⟨a, b, c⟩; exact ⟨⟨a, b⟩, by linarith⟩

theorem demoNet_objVal (v : Nat → Rat) : demoNet.objVal v = v 1 := by simp [Net.objVal, demoNet]
theorem demoNet_sumAbs (v : Nat → Rat) : demoNet.sumAbs v = |v 0| + |v 1| := by
  have hidx : demoNet.idx = [0, 1] := rfl
  simp [Net.sumAbs, hidx]

/-- the flux vector `(1, 1)` -/
def demoV : Nat → Rat := fun _ => 1

/-- the hypotheses of `pfba_optimum` are met by a concrete optimum: on `demoNet` with the objective kept at `1`, the split of
`(1, 1)` is an optimum of the pFBA problem (total flux 2) -/
theorem demo_pfba_isOpt : (demoNet.pfba "fixed_objective_obj" 1).IsOpt (splitOf demoV) := by
  have hv : demoNet.Feasible demoV := (demoNet_feasible _).2 (by simp only [demoV]; norm_num)
  have ht : demoNet.threshold 1 demoV := by
    unfold Net.threshold; rw [demoNet_objVal]; simp [demoV, demoNet]
  obtain ⟨c1, _, c3⟩ := pfba_complete demoNet "fixed_objective_obj" 1 demoV hv ht
  refine ⟨c1, fun x' hx' => ?_⟩
  obtain ⟨s1, _, s3⟩ := pfba_sound demoNet demoNet_proper _ 1 x' hx'
  obtain ⟨⟨a, _⟩, ⟨b, _⟩, c⟩ := (demoNet_feasible _).1 s1
  rw [demoNet_sumAbs, abs_of_nonneg (by linarith), abs_of_nonneg b] at s3
  have h2 : (demoNet.pfba "fixed_objective_obj" 1).value (splitOf demoV) = 2 := by
    rw [c3, demoNet_sumAbs]; simp only [demoV]; norm_num
  have hd : (demoNet.pfba "fixed_objective_obj" 1).dirMax = false := rfl
  rw [hd]
  simp only [Bool.false_eq_true, if_false]
  rw [h2]; linarith

/-! ### add_loopless -/

/-- driving forces and net fluxes of the internal reactions, in the order of `internal` -/
def Net.forces (n : Net) (x : V → Rat) : List Rat := n.internal.map (fun i => x (.deltaG i))
def Net.internalFluxes (n : Net) (x : V → Rat) : List Rat := n.internal.map (netOf x)

theorem nullRow_lin (n : Net) (cutoff : Rat) (p : List Rat × Nat) (x : V → Rat) :
    lin (n.nullRow cutoff p).co x = LPM.dot (filterRow cutoff p.1) (n.forces x) := by
  unfold Net.nullRow Net.forces
  generalize n.internal = l
  generalize filterRow cutoff p.1 = r
  induction l generalizing r with
  | nil => cases r <;> simp [lin, LPM.dot]
  | cons a l ih =>
    cases r with
    | nil => simp [lin, LPM.dot]
    | cons c r =>
      simp only [List.zip_cons_cons, List.map_cons, lin_cons, LPM.dot]
      rw [ih r]

/-- the conditions `add_loopless` puts on one internal reaction: binary indicator `a`, `−M (1 − a) ≤ v ≤ M a`,
`1 ≤ G_i + (G + 1) a ≤ G` -/
def LooplessRows (n : Net) (M G : Rat) (x : V → Rat) (i : Nat) : Prop :=
  (x (.indicator i) = 0 ∨ x (.indicator i) = 1) ∧
  -M ≤ netOf x i - M * x (.indicator i) ∧ netOf x i - M * x (.indicator i) ≤ 0 ∧
  1 ≤ x (.deltaG i) + (G + 1) * x (.indicator i) ∧ x (.deltaG i) + (G + 1) * x (.indicator i) ≤ G

theorem loopless_feasible_iff (n : Net) (ns : List (List Rat)) (cutoff : Rat) (x : V → Rat) :
    (n.loopless ns cutoff).Feasible x ↔
      FbaPart n x ∧ (∀ i ∈ n.internal, LooplessRows n n.maxBound (maxR n.maxBound 1000) x i) ∧
      ∀ p ∈ ns.zipIdx, LPM.dot (filterRow cutoff p.1) (n.forces x) = 0 := by
  unfold Net.loopless Prob.Feasible FbaPart
  simp only [Net.fba, List.forall_mem_append, List.forall_mem_map, List.forall_mem_flatMap, fbaVars_ok]
  have hv : ∀ i, (∀ w ∈ Net.looplessVars i, w.ok (x w.v)) ↔ (x (.indicator i) = 0 ∨ x (.indicator i) = 1) := by
    intro i
    simp only [Net.looplessVars, List.forall_mem_cons, List.not_mem_nil, false_imp_iff, imp_true_iff, and_true, ok_cont, inBox_ninf_pinf]
    simp only [Var.ok, Core.inBox_fin, reduceCtorEq, false_imp_iff, and_true, true_imp_iff]
    constructor
    · exact fun h => h.2
    · intro h; refine ⟨?_, h⟩
      rcases h with h | h <;> rw [h] <;> norm_num
  have hr : ∀ M G i, (∀ r ∈ n.looplessRows M G i, inBox (r.lb, r.ub) (lin r.co x)) ↔
      (-M ≤ netOf x i - M * x (.indicator i) ∧ netOf x i - M * x (.indicator i) ≤ 0 ∧
       1 ≤ x (.deltaG i) + (G + 1) * x (.indicator i) ∧ x (.deltaG i) + (G + 1) * x (.indicator i) ≤ G) := by
    intro M G i
    simp only [Net.looplessRows, List.forall_mem_cons, List.not_mem_nil, false_imp_iff, imp_true_iff, and_true,
      Core.inBox_fin, lin_append, lin_flux, lin_cons, lin_nil]
    constructor
    · rintro ⟨⟨a, b⟩, c, d⟩; refine ⟨by linarith, by linarith, by linarith, by linarith⟩
    · rintro ⟨a, b, c, d⟩; exact ⟨⟨by linarith, by linarith⟩, by linarith, by linarith⟩
  have hn : ∀ p : List Rat × Nat, inBox ((n.nullRow cutoff p).lb, (n.nullRow cutoff p).ub) (lin (n.nullRow cutoff p).co x) ↔
      LPM.dot (filterRow cutoff p.1) (n.forces x) = 0 := by
    intro p
    rw [nullRow_lin]
    show inBox (.fin 0, .fin 0) _ ↔ _
    exact inBox_zero _
  simp only [hv, hr, hn, LooplessRows]
  constructor
  · rintro ⟨⟨h1, h2⟩, ⟨h3, h4⟩, h5⟩
    exact ⟨⟨h1, h3⟩, fun i hi => ⟨h2 i hi, h4 i hi⟩, h5⟩
  · rintro ⟨⟨h1, h3⟩, h4, h5⟩
    exact ⟨⟨h1, fun i hi => (h4 i hi).1⟩, ⟨h3, fun i hi => (h4 i hi).2⟩, h5⟩

theorem getD_map_of_lt {α : Type} (l : List α) (f : α → Rat) (j : Nat) (h : j < l.length) : (l.map f).getD j 0 = f l[j] := by
  simp [List.getD_eq_getElem?_getD, h]

theorem getD_of_ge (l : List Rat) (j : Nat) (h : l.length ≤ j) : l.getD j 0 = 0 := by
  simp [List.getD_eq_getElem?_getD, h]

/-- **the driving force of an internal reaction opposes its flux** at every feasible point of the `add_loopless` problem -/
theorem loopless_forces (n : Net) (ns : List (List Rat)) (cutoff : Rat) (x : V → Rat) (h : (n.loopless ns cutoff).Feasible x) (j : Nat) :
    (0 < (n.internalFluxes x).getD j 0 → (n.forces x).getD j 0 < 0) ∧ ((n.internalFluxes x).getD j 0 < 0 → 0 < (n.forces x).getD j 0) := by
  obtain ⟨_, hi, _⟩ := (loopless_feasible_iff n ns cutoff x).1 h
  by_cases hj : j < n.internal.length
  · unfold Net.internalFluxes Net.forces
    rw [getD_map_of_lt _ _ _ hj, getD_map_of_lt _ _ _ hj]
    obtain ⟨ha, h1, h2, h3, h4⟩ := hi _ (List.getElem_mem hj)
    have hG : n.maxBound ≤ maxR n.maxBound 1000 := by rw [maxR_eq]; exact le_max_left _ _
    rcases ha with ha | ha <;> rw [ha] at h1 h2 h3 h4
    · constructor <;> intro hv <;> linarith
    · constructor <;> intro hv <;> linarith
  · have hj' : n.internal.length ≤ j := Nat.le_of_not_lt hj
    unfold Net.internalFluxes Net.forces
    rw [getD_of_ge _ _ (by simpa using hj'), getD_of_ge _ _ (by simpa using hj')]
    constructor <;> intro h0 <;> exact absurd h0 (lt_irrefl _)

theorem dot_comm (a b : List Rat) : LPM.dot a b = LPM.dot b a := by
  induction a generalizing b with
  | nil => cases b <;> simp [LPM.dot]
  | cons x a ih =>
    cases b with
    | nil => simp [LPM.dot]
    | cons y b => simp only [LPM.dot]; rw [ih b]; ring

theorem wsum_zero (g : List Rat) (lam : List Rat) (rows : List (List Rat × LPM.Bnd)) (h : ∀ r ∈ rows, LPM.dot r.1 g = 0) :
    LPM.wsum g lam rows = 0 := by
  induction lam generalizing rows with
  | nil => simp [LPM.wsum]
  | cons y ys ih =>
    cases rows with
    | nil => simp [LPM.wsum]
    | cons r rs =>
      obtain ⟨a, b⟩ := r
      simp only [LPM.wsum]
      rw [h (a, b) (by simp), ih rs (fun r hr => h r (by simp [hr]))]
      ring

/-- the null-space rows as dense rows (vectors with the entries at or below the cut-off dropped) -/
def nullRows (cutoff : Rat) (ns : List (List Rat)) : List (List Rat × LPM.Bnd) := ns.map (fun r => (filterRow cutoff r, ⟨some 0, some 0⟩))

/-- **the driving forces are orthogonal to every combination of the null-space rows** -/
theorem loopless_orthogonal (n : Net) (ns : List (List Rat)) (cutoff : Rat) (x : V → Rat) (h : (n.loopless ns cutoff).Feasible x)
    (hlen : ∀ r ∈ ns, r.length = n.internal.length) (lam : List Rat) :
    LPM.dot (n.forces x) (LPM.yA n.internal.length lam (nullRows cutoff ns)) = 0 := by
  obtain ⟨_, _, ho⟩ := (loopless_feasible_iff n ns cutoff x).1 h
  rw [dot_comm, LPM.dot_yA]
  · apply wsum_zero
    intro r hr
    obtain ⟨row, hrow, rfl⟩ := List.mem_map.1 hr
    obtain ⟨k, hk⟩ : ∃ k, (row, k) ∈ ns.zipIdx := by
      obtain ⟨k, hk, rfl⟩ := List.getElem_of_mem hrow
      exact ⟨k, by simp [List.mem_zipIdx_iff_getElem?, hk]⟩
    exact ho _ hk
  · unfold nullRows
    have : ∀ l : List (List Rat), (∀ r ∈ l, r.length = n.internal.length) → LPM.rowsLen n.internal.length (l.map (fun r => (filterRow cutoff r, (⟨some 0, some 0⟩ : LPM.Bnd)))) := by
      intro l hl
      induction l with
      | nil => simp [LPM.rowsLen]
      | cons a l ih =>
        simp only [List.map_cons, LPM.rowsLen]
        exact ⟨by simp [filterRow, hl a (by simp)], ih (fun r hr => hl r (by simp [hr]))⟩
    exact this ns hlen

/-! ### reduced costs of the flux-balance problem -/

/-- reduced cost of the variable `w` under row multipliers `y` (indexed by row name): `c_w − Σ_rows y_row · a_{row,w}` -/
def Prob.rc (p : Prob) (y : String → Rat) (w : V) : Rat := coefAt p.obj w - (p.rows.map (fun r => y r.name * coefAt r.co w)).sum

/-- objective coefficient of reaction `i` -/
def Net.objCoef (n : Net) (i : Nat) : Rat := (n.obj.map (fun p => if p.1 = i then p.2 else 0)).sum

theorem coefAt_flatMap {α : Type} (l : List α) (f : α → List (V × Rat)) (w : V) :
    coefAt (l.flatMap f) w = (l.map (fun a => coefAt (f a) w)).sum := by
  induction l with
  | nil => rfl
  | cons a l ih =>
    have happ : ∀ u v : List (V × Rat), coefAt (u ++ v) w = coefAt u w + coefAt v w := by
      intro u v; simp [coefAt, List.sum_append]
    simp [List.flatMap_cons, happ, ih]

theorem coefAt_flux_fwd (j i : Nat) (c : Rat) : coefAt (flux j c) (.fwd i) = if j = i then c else 0 := by
  simp [coefAt, flux]

theorem coefAt_flux_rev (j i : Nat) (c : Rat) : coefAt (flux j c) (.rev i) = if j = i then -c else 0 := by
  simp [coefAt, flux]

theorem sum_map_zero {α : Type} (l : List α) : (l.map (fun _ => (0 : Rat))).sum = 0 := by
  induction l with
  | nil => rfl
  | cons a l ih => simp only [List.map_cons, List.sum_cons, ih]; norm_num

theorem sum_ite_eq (l : List Nat) (hnd : l.Nodup) (i : Nat) (hi : i ∈ l) (f : Nat → Rat) :
    (l.map (fun j => if j = i then f j else 0)).sum = f i := by
  induction l with
  | nil => simp at hi
  | cons a l ih =>
    simp only [List.nodup_cons] at hnd
    simp only [List.map_cons, List.sum_cons]
    rcases List.mem_cons.1 hi with rfl | hl
    · have : (l.map (fun j => if j = i then f j else 0)).sum = 0 := by
        have h0 : ∀ j ∈ l, (fun j => if j = i then f j else 0) j = (fun _ => (0 : Rat)) j := by
          intro j hj
          have : j ≠ i := fun h => hnd.1 (h ▸ hj)
          simp only [this, if_false]
        rw [sum_map_congr _ _ _ h0]
        exact sum_map_zero l
      simp [this]
    · have hne : a ≠ i := fun h => hnd.1 (h ▸ hl)
      simp [hne, ih hnd.2 hl]

theorem idx_nodup (n : Net) : n.idx.Nodup := List.nodup_range

/-- **reduced costs are `c − Sᵀy`**: in the flux-balance problem, under any row multipliers `y` (the shadow prices, by metabolite), the reduced cost
of the forward variable of reaction `i` — the value cobrapy reports as the reaction's reduced cost — is the objective coefficient minus the
stoichiometric column times `y`, and the reduced cost of the reverse variable is its negative -/
theorem fba_reduced_cost (n : Net) (y : String → Rat) (i : Nat) (hi : i ∈ n.idx) :
    n.fba.rc y (.fwd i) = n.objCoef i - (n.mets.map (fun m => y m * coefOf (n.rx i).st m)).sum ∧
    n.fba.rc y (.rev i) = -(n.objCoef i - (n.mets.map (fun m => y m * coefOf (n.rx i).st m)).sum) := by
  have hobjF : coefAt n.objExpr (.fwd i) = n.objCoef i := by
    unfold Net.objExpr Net.objCoef
    rw [coefAt_flatMap]
    exact sum_map_congr _ _ _ (fun p _ => coefAt_flux_fwd p.1 i p.2)
  have hobjR : coefAt n.objExpr (.rev i) = -n.objCoef i := by
    unfold Net.objExpr Net.objCoef
    rw [coefAt_flatMap]
    have : ∀ l : List (Nat × Rat), (l.map (fun p => coefAt (flux p.1 p.2) (.rev i))).sum = -(l.map (fun p => if p.1 = i then p.2 else 0)).sum := by
      intro l
      induction l with
      | nil => simp
      | cons a l ih =>
        simp only [List.map_cons, List.sum_cons]
        rw [ih, coefAt_flux_rev]
        split <;> ring
    exact this n.obj
  have hrowF : ∀ m, coefAt (n.metRow m).co (.fwd i) = coefOf (n.rx i).st m := by
    intro m
    unfold Net.metRow
    rw [coefAt_flatMap]
    have := sum_ite_eq n.idx (idx_nodup n) i hi (fun j => coefOf (n.rx j).st m)
    rw [← this]
    exact sum_map_congr _ _ _ (fun j _ => coefAt_flux_fwd j i _)
  have hrowR : ∀ m, coefAt (n.metRow m).co (.rev i) = -coefOf (n.rx i).st m := by
    intro m
    unfold Net.metRow
    rw [coefAt_flatMap]
    have := sum_ite_eq n.idx (idx_nodup n) i hi (fun j => -coefOf (n.rx j).st m)
    rw [← this]
    exact sum_map_congr _ _ _ (fun j _ => coefAt_flux_rev j i _)
  have hname : ∀ m, (n.metRow m).name = m := fun _ => rfl
  unfold Prob.rc
  simp only [Net.fba, List.map_map, Function.comp_def, hobjF, hobjR, hrowF, hrowR, hname]
  refine ⟨trivial, ?_⟩
  have : (n.mets.map (fun m => y m * -coefOf (n.rx i).st m)).sum = -(n.mets.map (fun m => y m * coefOf (n.rx i).st m)).sum := by
    induction n.mets with
    | nil => simp
    | cons a l ih => simp only [List.map_cons, List.sum_cons, ih]; ring
  rw [this]; ring

/-! ### deletions -/

theorem close_length (n : Net) (ks : List Nat) : (n.close ks).rxns.length = n.rxns.length := by simp [Net.close]
theorem close_idx (n : Net) (ks : List Nat) : (n.close ks).idx = n.idx := by simp [Net.idx, close_length]

theorem close_rx (n : Net) (ks : List Nat) (i : Nat) (h : i ∈ n.idx) :
    (n.close ks).rx i = if ks.contains i then { id := (n.rx i).id, rev := (n.rx i).rev, lb := .fin 0, ub := .fin 0, st := (n.rx i).st } else n.rx i := by
  rw [idx_mem] at h
  rw [rx_eq _ _ (by rw [close_length]; exact h), rx_eq _ _ h]
  simp [Net.close]

theorem close_st (n : Net) (ks : List Nat) (i : Nat) (h : i ∈ n.idx) : ((n.close ks).rx i).st = (n.rx i).st := by
  rw [close_rx n ks i h]; split <;> rfl

/-- **what closing reactions means**: the flux vectors of the content with the reactions `ks` closed are the steady-state vectors that
are zero on `ks` and inside the bounds everywhere else -/
theorem close_feasible_iff (n : Net) (ks : List Nat) (v : Nat → Rat) :
    (n.close ks).Feasible v ↔
      (∀ i ∈ n.idx, if ks.contains i then v i = 0 else inBox ((n.rx i).lb, (n.rx i).ub) (v i)) ∧
      (∀ m ∈ n.mets, (n.idx.map (fun i => coefOf (n.rx i).st m * v i)).sum = 0) := by
  unfold Net.Feasible
  rw [close_idx]
  have hm : (n.close ks).mets = n.mets := rfl
  rw [hm]
  have h1 : (∀ i ∈ n.idx, inBox (((n.close ks).rx i).lb, ((n.close ks).rx i).ub) (v i)) ↔
      (∀ i ∈ n.idx, if ks.contains i then v i = 0 else inBox ((n.rx i).lb, (n.rx i).ub) (v i)) := by
    constructor <;> intro h i hi <;> have := h i hi <;> rw [close_rx n ks i hi] at * <;> split at * <;> simp_all [inBox_zero]
  have h2 : ∀ m, (n.idx.map (fun i => coefOf ((n.close ks).rx i).st m * v i)).sum = (n.idx.map (fun i => coefOf (n.rx i).st m * v i)).sum := by
    intro m
    exact sum_map_congr _ _ _ (fun i hi => by rw [close_st n ks i hi])
  simp only [h1, h2]

theorem close_proper (n : Net) (hp : n.Proper) (ks : List Nat) : (n.close ks).Proper := by
  intro i hi
  rw [close_idx] at hi
  rw [close_rx n ks i hi]
  split
  · exact ⟨by simp, by simp⟩
  · exact hp i hi

/-- **a deletion row is the optimum of the knocked-out model**: any optimum of the problem a deletion solves is, on net fluxes, an optimum of
the objective over the steady-state flux vectors that are zero on the closed reactions and inside the bounds elsewhere -/
theorem deletion_optimum (n : Net) (hp : n.Proper) (ks : List Nat) (x : V → Rat) (h : (n.reactionDeletion ks).IsOpt x) :
    (n.close ks).Feasible (netOf x) ∧ (∀ i ∈ n.idx, ks.contains i = true → netOf x i = 0) ∧
    ∀ v, (n.close ks).Feasible v → if n.dirMax then n.objVal v ≤ n.objVal (netOf x) else n.objVal (netOf x) ≤ n.objVal v := by
  obtain ⟨h1, _, h3⟩ := fba_optimum (n.close ks) (close_proper n hp ks) x h
  refine ⟨h1, fun i hi hk => ?_, h3⟩
  have := ((close_feasible_iff n ks _).1 h1).1 i hi
  rw [if_pos hk] at this
  exact this

/-! ### the matrix form the samplers work on -/

/-- a point (one value per variable, in the order of the problem) satisfies the sampler's matrix problem: equalities, boxed inequalities, variable boxes -/
def SamplerProb.Sat (sp : SamplerProb) (xs : List Rat) : Prop :=
  (∀ q ∈ sp.equalities.zip sp.b, LPM.dot q.1 xs = q.2) ∧
  (∀ q ∈ sp.inequalities.zip sp.bounds, inBox q.2 (LPM.dot q.1 xs)) ∧
  (∀ q ∈ xs.zip sp.varBounds, inBox q.2 q.1)

theorem dot_map_zero {α : Type} (l : List α) (g : α → Rat) : LPM.dot (l.map (fun _ => (0 : Rat))) (l.map g) = 0 := by
  induction l with
  | nil => rfl
  | cons a l ih => simp [LPM.dot, ih]

theorem dot_map_add {α : Type} (l : List α) (f1 f2 g : α → Rat) :
    LPM.dot (l.map (fun a => f1 a + f2 a)) (l.map g) = LPM.dot (l.map f1) (l.map g) + LPM.dot (l.map f2) (l.map g) := by
  induction l with
  | nil => simp [LPM.dot]
  | cons a l ih => simp only [List.map_cons, LPM.dot, ih]; ring

theorem dot_map_indicator (vs : List V) (hnd : vs.Nodup) (w : V) (c : Rat) (x : V → Rat) (hw : w ∈ vs) :
    LPM.dot (vs.map (fun u => if w = u then c else 0)) (vs.map x) = c * x w := by
  induction vs with
  | nil => simp at hw
  | cons a l ih =>
    simp only [List.nodup_cons] at hnd
    simp only [List.map_cons, LPM.dot]
    rcases List.mem_cons.1 hw with rfl | hl
    · have h0 : LPM.dot (l.map (fun u => if w = u then c else 0)) (l.map x) = 0 := by
        have : l.map (fun u => if w = u then c else 0) = l.map (fun _ => (0 : Rat)) := by
          apply List.map_congr_left
          intro u hu
          have : w ≠ u := fun h => hnd.1 (h ▸ hu)
          simp [this]
        rw [this, dot_map_zero]
      simp [h0]
    · have hne : w ≠ a := fun h => hnd.1 (h ▸ hl)
      simp [hne, ih hnd.2 hl]

/-- **a dense row times the point is the row evaluated at the assignment** (distinct variables, the row mentions only variables of the problem) -/
theorem dot_dense (vs : List V) (hnd : vs.Nodup) (co : List (V × Rat)) (hco : ∀ q ∈ co, q.1 ∈ vs) (x : V → Rat) :
    LPM.dot (vs.map (fun w => coefAt co w)) (vs.map x) = lin co x := by
  induction co with
  | nil =>
    have : vs.map (fun w => coefAt [] w) = vs.map (fun _ => (0 : Rat)) := by
      apply List.map_congr_left; intro u _; simp [coefAt]
    rw [this, dot_map_zero]; rfl
  | cons a co ih =>
    have hsplit : vs.map (fun w => coefAt (a :: co) w) = vs.map (fun w => (if a.1 = w then a.2 else 0) + coefAt co w) := by
      apply List.map_congr_left; intro u _; simp [coefAt]
    rw [hsplit, dot_map_add, dot_map_indicator vs hnd a.1 a.2 x (hco a (by simp)), ih (fun q hq => hco q (by simp [hq])), lin_cons]

/-- the variables of a problem are pairwise distinct and every row mentions only them -/
structure Prob.Closed (p : Prob) : Prop where
  nodup : (p.vars.map (·.v)).Nodup
  rows : ∀ r ∈ p.rows, ∀ q ∈ r.co, q.1 ∈ p.vars.map (·.v)
  cont : ∀ w ∈ p.vars, w.kind = .cont

/-- rows the sampler treats as equalities really are equalities whose right-hand side survives the snapping to zero -/
def Prob.ExactEq (p : Prob) (tol : Rat) : Prop :=
  ∀ r ∈ p.rows, isEq tol r.lb r.ub = true → r.ub = r.lb ∧ (tol < absR (EB.toRat r.lb) ∨ EB.toRat r.lb = 0)

theorem isEq_fin {tol : Rat} {lb ub : EB} (h : isEq tol lb ub = true) : lb = .fin (EB.toRat lb) ∧ ub = .fin (EB.toRat ub) := by
  cases lb <;> cases ub <;> simp_all [isEq, EB.toRat]

theorem dense_dot (p : Prob) (hc : p.Closed) (r : Row) (hr : r ∈ p.rows) (x : V → Rat) :
    LPM.dot (p.dense r.co) (p.vars.map (fun w => x w.v)) = lin r.co x := by
  have := dot_dense (p.vars.map (·.v)) hc.nodup r.co (hc.rows r hr) x
  simpa [Prob.dense, List.map_map, Function.comp_def] using this

theorem zip_append_eq {α β : Type} (a1 a2 : List α) (b1 b2 : List β) (h : a1.length = b1.length) :
    (a1 ++ a2).zip (b1 ++ b2) = a1.zip b1 ++ a2.zip b2 := List.zip_append h

/-- **a point that satisfies the sampler's matrix problem is a feasible point of the solver problem** -/
theorem sampler_sat_feasible (p : Prob) (tol : Rat) (hc : p.Closed) (hx : p.ExactEq tol) (x : V → Rat)
    (h : (p.sampler tol).Sat (p.vars.map (fun w => x w.v))) : p.Feasible x := by
  obtain ⟨he, hi, hv⟩ := h
  constructor
  · intro w hw
    have : ((x w.v, (w.lb, w.ub)) : Rat × (EB × EB)) ∈ (p.vars.map (fun w => x w.v)).zip (p.sampler tol).varBounds := by
      simp only [Prob.sampler, List.zip_map']
      exact List.mem_map.2 ⟨w, hw, rfl⟩
    have hb := hv _ this
    have hk := hc.cont w hw
    exact ⟨hb, by simp [hk], by simp [hk]⟩
  · intro r hr
    by_cases hq : isEq tol r.lb r.ub = true
    · -- an equality row
      have hmem : ((p.dense r.co, if tol < absR (EB.toRat r.lb) then EB.toRat r.lb else 0) : List Rat × Rat) ∈
          (p.sampler tol).equalities.zip (p.sampler tol).b := by
        simp only [Prob.sampler]
        rw [zip_append_eq _ _ _ _ (by simp), List.zip_map']
        exact List.mem_append_left _ (List.mem_map.2 ⟨r, List.mem_filter.2 ⟨hr, hq⟩, rfl⟩)
      have hd := he _ hmem
      simp only at hd
      rw [dense_dot p hc r hr x] at hd
      obtain ⟨hub, hz⟩ := hx r hr hq
      obtain ⟨hl, _⟩ := isEq_fin hq
      have hval : lin r.co x = EB.toRat r.lb := by
        rcases hz with hz | hz
        · rw [if_pos hz] at hd; exact hd
        · rw [hd, hz]; split <;> rfl
      rw [hub, hl, hval, Core.inBox_fin]
      exact ⟨le_refl _, le_refl _⟩
    · have hq' : (!isEq tol r.lb r.ub) = true := by simpa using hq
      have hmem : ((p.dense r.co, (r.lb, r.ub)) : List Rat × (EB × EB)) ∈ (p.sampler tol).inequalities.zip (p.sampler tol).bounds := by
        simp only [Prob.sampler, List.zip_map']
        exact List.mem_map.2 ⟨r, List.mem_filter.2 ⟨hr, hq'⟩, rfl⟩
      have hd := hi _ hmem
      simp only at hd
      rwa [dense_dot p hc r hr x] at hd

theorem fbaVars_v (n : Net) : n.fbaVars.map (·.v) = n.idx.flatMap (fun i => [V.fwd i, V.rev i]) := by
  unfold Net.fbaVars
  rw [List.map_flatMap]
  rfl

theorem mem_fbaVars_v (n : Net) (w : V) : w ∈ n.fbaVars.map (·.v) ↔ ∃ i ∈ n.idx, w = .fwd i ∨ w = .rev i := by
  rw [fbaVars_v]
  simp [List.mem_flatMap]

theorem fbaVars_nodup (n : Net) : (n.fbaVars.map (·.v)).Nodup := by
  rw [fbaVars_v]
  have : ∀ l : List Nat, l.Nodup → (l.flatMap (fun i => [V.fwd i, V.rev i])).Nodup := by
    intro l hl
    induction l with
    | nil => simp
    | cons a l ih =>
      simp only [List.nodup_cons] at hl
      have hf : V.fwd a ∉ l.flatMap (fun i => [V.fwd i, V.rev i]) := by
        simp only [List.mem_flatMap, List.mem_cons, List.not_mem_nil, or_false, not_exists, not_and]
        intro i hi h
        rcases h with h | h
        · exact hl.1 ((V.fwd.inj h) ▸ hi)
        · cases h
      have hr : V.rev a ∉ l.flatMap (fun i => [V.fwd i, V.rev i]) := by
        simp only [List.mem_flatMap, List.mem_cons, List.not_mem_nil, or_false, not_exists, not_and]
        intro i hi h
        rcases h with h | h
        · cases h
        · exact hl.1 ((V.rev.inj h) ▸ hi)
      simp only [List.flatMap_cons, List.cons_append, List.nil_append, List.nodup_cons, List.mem_cons]
      exact ⟨fun h => by rcases h with h | h; cases h; exact hf h, hr, ih hl.2⟩
  exact this _ (idx_nodup n)

theorem extraRow_lin (name : String) (lb ub : EB) (co : List (Nat × Rat)) (x : V → Rat) :
    lin (extraRow name lb ub co).co x = (co.map (fun q => q.2 * netOf x q.1)).sum := by
  simp [extraRow, lin_flatMap, lin_flux]

/-- user constraints over fluxes of reactions of the model -/
structure Extra where
  name : String
  lb : EB
  ub : EB
  co : List (Nat × Rat)

def Extra.row (e : Extra) : Row := extraRow e.name e.lb e.ub e.co

theorem fbaWith_closed (n : Net) (extra : List Extra) (hidx : ∀ e ∈ extra, ∀ q ∈ e.co, q.1 ∈ n.idx) :
    (n.fbaWith (extra.map Extra.row)).Closed := by
  refine ⟨fbaVars_nodup n, ?_, ?_⟩
  · intro r hr q hq
    show q.1 ∈ n.fbaVars.map (·.v)
    rw [mem_fbaVars_v]
    simp only [Net.fbaWith, Net.fba, List.mem_append, List.mem_map] at hr
    rcases hr with ⟨m, _, rfl⟩ | ⟨e, he, rfl⟩
    · simp only [Net.metRow, List.mem_flatMap, flux, List.mem_cons, List.not_mem_nil, or_false] at hq
      obtain ⟨i, hi, rfl | rfl⟩ := hq
      · exact ⟨i, hi, Or.inl rfl⟩
      · exact ⟨i, hi, Or.inr rfl⟩
    · simp only [Extra.row, extraRow, List.mem_flatMap, flux, List.mem_cons, List.not_mem_nil, or_false] at hq
      obtain ⟨c, hc, rfl | rfl⟩ := hq
      · exact ⟨c.1, hidx e he c hc, Or.inl rfl⟩
      · exact ⟨c.1, hidx e he c hc, Or.inr rfl⟩
  · intro w hw
    have hk : ∀ v ∈ n.fbaVars, v.kind = .cont := by
      intro v hv
      simp only [Net.fbaVars, List.mem_flatMap] at hv
      obtain ⟨i, _, hv⟩ := hv
      simp only [Net.pairVars, List.mem_cons, List.not_mem_nil, or_false] at hv
      rcases hv with rfl | rfl <;> rfl
    exact hk w hw

/-- **a point of the sampler's matrix problem is a feasible flux distribution**: for the problem of a model with user constraints over fluxes,
a point that satisfies the matrices `HRSampler.__build_problem` builds gives net fluxes at steady state, inside the reaction bounds and inside
every user constraint -/
theorem sampler_point_is_feasible_flux (n : Net) (hp : n.Proper) (extra : List Extra) (hidx : ∀ e ∈ extra, ∀ q ∈ e.co, q.1 ∈ n.idx)
    (tol : Rat) (hx : (n.fbaWith (extra.map Extra.row)).ExactEq tol) (x : V → Rat)
    (h : ((n.fbaWith (extra.map Extra.row)).sampler tol).Sat ((n.fbaWith (extra.map Extra.row)).vars.map (fun w => x w.v))) :
    n.Feasible (netOf x) ∧ ∀ e ∈ extra, inBox (e.lb, e.ub) ((e.co.map (fun q => q.2 * netOf x q.1)).sum) := by
  have hf := sampler_sat_feasible _ tol (fbaWith_closed n extra hidx) hx x h
  have hpart : FbaPart n x := by
    constructor
    · exact (fbaVars_ok n x).1 hf.1
    · intro r hr
      exact hf.2 r (by simp only [Net.fbaWith, Net.fba, List.mem_append]; exact Or.inl hr)
  refine ⟨(fbaPart_sound n hp x hpart).1, fun e he => ?_⟩
  have := hf.2 e.row (by simp only [Net.fbaWith, List.mem_append, List.mem_map]; exact Or.inr ⟨e, he, rfl⟩)
  rw [Extra.row, extraRow_lin] at this
  exact this

/-! ### certificates checked on the problem a builder produces -/

theorem has_toBnd (lb ub : EB) (h : bndOK lb ub = true) (v : Rat) : (toBnd lb ub).has v = true ↔ inBox (lb, ub) v := by
  cases lb <;> cases ub <;> simp_all [toBnd, bndOK, LPM.Bnd.has, inBox, EB.le]

theorem closedB_spec (p : Prob) (h : p.closedB = true) :
    (p.vars.map (·.v)).Nodup ∧ (∀ r ∈ p.rows, (∀ q ∈ r.co, q.1 ∈ p.vars.map (·.v)) ∧ bndOK r.lb r.ub = true) ∧
    (∀ q ∈ p.obj, q.1 ∈ p.vars.map (·.v)) ∧ ∀ w ∈ p.vars, w.kind = .cont ∧ bndOK w.lb w.ub = true := by
  simp only [Prob.closedB, Bool.and_eq_true, decide_eq_true_eq, List.all_eq_true, List.contains_iff_mem, beq_iff_eq] at h
  obtain ⟨⟨⟨h1, h2⟩, h3⟩, h4⟩ := h
  exact ⟨h1, fun r hr => ⟨fun q hq => (h2 r hr).1 q hq, (h2 r hr).2⟩, h3, h4⟩

theorem closed_of_closedB (p : Prob) (h : p.closedB = true) : p.Closed := by
  obtain ⟨h1, h2, _, h4⟩ := closedB_spec p h
  exact ⟨h1, fun r hr => (h2 r hr).1, fun w hw => (h4 w hw).1⟩

theorem map_assignOf (vs : List V) (hnd : vs.Nodup) (xs : List Rat) (hl : vs.length = xs.length) : vs.map (assignOf vs xs) = xs := by
  induction vs generalizing xs with
  | nil => cases xs <;> simp_all
  | cons v vs ih =>
    cases xs with
    | nil => simp at hl
    | cons x xs =>
      simp only [List.nodup_cons] at hnd
      simp only [List.map_cons, assignOf, if_true]
      congr 1
      have hrest : vs.map (fun w => if w = v then x else assignOf vs xs w) = vs.map (assignOf vs xs) := by
        apply List.map_congr_left
        intro w hw
        have : w ≠ v := fun e => hnd.1 (e ▸ hw)
        simp [this]
      rw [hrest]
      exact ih hnd.2 xs (by simpa using hl)

theorem allBox_iff (vars : List Var) (hb : ∀ w ∈ vars, bndOK w.lb w.ub = true) (x : V → Rat) :
    LPM.allBox (vars.map (fun w => toBnd w.lb w.ub)) (vars.map (fun w => x w.v)) = true ↔ ∀ w ∈ vars, inBox (w.lb, w.ub) (x w.v) := by
  induction vars with
  | nil => simp [LPM.allBox]
  | cons a l ih =>
    simp only [List.map_cons, LPM.allBox, Bool.and_eq_true, List.forall_mem_cons]
    rw [has_toBnd _ _ (hb a (by simp)), ih (fun w hw => hb w (by simp [hw]))]

theorem allRows_iff (p : Prob) (rows : List Row) (hb : ∀ r ∈ rows, bndOK r.lb r.ub = true) (xs : List Rat) (hl : xs.length = p.vars.length) :
    LPM.allRows xs (rows.map (fun r => (p.dense r.co, toBnd r.lb r.ub))) = true ↔ ∀ r ∈ rows, inBox (r.lb, r.ub) (LPM.dot (p.dense r.co) xs) := by
  induction rows with
  | nil => simp [LPM.allRows]
  | cons a l ih =>
    simp only [List.map_cons, LPM.allRows, Bool.and_eq_true, List.forall_mem_cons, beq_iff_eq]
    rw [has_toBnd _ _ (hb a (by simp)), ih (fun r hr => hb r (by simp [hr]))]
    have : (p.dense a.co).length = xs.length := by simp [Prob.dense, hl]
    simp [this]

/-- the dense form has exactly the feasible points of the problem -/
theorem toDense_feasible_iff (p : Prob) (h : p.closedB = true) (x : V → Rat) :
    p.toDense.feasible (p.vars.map (fun w => x w.v)) = true ↔ p.Feasible x := by
  obtain ⟨_, h2, _, h4⟩ := closedB_spec p h
  have hc := closed_of_closedB p h
  unfold LPM.LP.feasible Prob.toDense Prob.Feasible
  simp only [Bool.and_eq_true, beq_iff_eq, List.length_map, true_and]
  rw [allBox_iff p.vars (fun w hw => (h4 w hw).2) x, allRows_iff p p.rows (fun r hr => (h2 r hr).2) _ (by simp)]
  constructor
  · rintro ⟨hv, hr⟩
    refine ⟨fun w hw => ⟨hv w hw, by simp [(h4 w hw).1], by simp [(h4 w hw).1]⟩, fun r hr' => ?_⟩
    have := hr r hr'
    rwa [dense_dot p hc r hr' x] at this
  · rintro ⟨hv, hr⟩
    refine ⟨fun w hw => (hv w hw).1, fun r hr' => ?_⟩
    rw [dense_dot p hc r hr' x]
    exact hr r hr'

theorem dot_map_neg (a z : List Rat) : LPM.dot (a.map (fun c => -c)) z = -LPM.dot a z := by
  induction a generalizing z with
  | nil => simp [LPM.dot]
  | cons x a ih =>
    cases z with
    | nil => simp [LPM.dot]
    | cons y z => simp only [List.map_cons, LPM.dot, ih]; ring

theorem toDense_obj (p : Prob) (h : p.closedB = true) (x : V → Rat) :
    LPM.dot p.toDense.obj (p.vars.map (fun w => x w.v)) = if p.dirMax then p.value x else -p.value x := by
  obtain ⟨h1, _, h3, _⟩ := closedB_spec p h
  have hd : LPM.dot (p.dense p.obj) (p.vars.map (fun w => x w.v)) = lin p.obj x := by
    have := dot_dense (p.vars.map (·.v)) h1 p.obj h3 x
    simpa [Prob.dense, List.map_map, Function.comp_def] using this
  unfold Prob.toDense Prob.value
  by_cases hm : p.dirMax = true
  · simp only [hm, if_true, List.map_id']
    exact hd
  · have hm' : p.dirMax = false := by simpa using hm
    simp only [hm', Bool.false_eq_true, if_false]
    rw [dot_map_neg, hd]

/-- **a certificate accepted on the dense form of a builder's problem proves an optimum of that problem**: the point it names is feasible and no
feasible point is better in the direction of the problem — by the soundness of the checker (`LPM.LP.checkOpt_sound`) -/
theorem certOpt_isOpt (p : Prob) (xs ys : List Rat) (h : p.certOpt xs ys = true) :
    p.IsOpt (assignOf (p.vars.map (·.v)) xs) ∧ p.vars.map (fun w => assignOf (p.vars.map (·.v)) xs w.v) = xs := by
  simp only [Prob.certOpt, Bool.and_eq_true] at h
  obtain ⟨hcl, hck⟩ := h
  obtain ⟨hf, hopt⟩ := LPM.LP.checkOpt_sound _ _ _ hck
  have hlen : xs.length = p.vars.length := by
    have := hf
    simp only [LPM.LP.feasible, Bool.and_eq_true, beq_iff_eq] at this
    simpa [Prob.toDense] using this.1.1
  have hnd := (closedB_spec p hcl).1
  have hmap : p.vars.map (fun w => assignOf (p.vars.map (·.v)) xs w.v) = xs := by
    have := map_assignOf (p.vars.map (·.v)) hnd xs (by simp [hlen])
    simpa [List.map_map, Function.comp_def] using this
  refine ⟨⟨?_, fun x' hx' => ?_⟩, hmap⟩
  · rw [← toDense_feasible_iff p hcl, hmap]; exact hf
  · have hx'd := (toDense_feasible_iff p hcl x').2 hx'
    have hle := hopt _ hx'd
    rw [toDense_obj p hcl x'] at hle
    have hxs := toDense_obj p hcl (assignOf (p.vars.map (·.v)) xs)
    rw [hmap] at hxs
    rw [hxs] at hle
    by_cases hm : p.dirMax = true
    · simp only [hm, if_true] at hle ⊢; exact hle
    · have hm' : p.dirMax = false := by simpa using hm
      simp only [hm', Bool.false_eq_true, if_false] at hle ⊢; linarith

/-- … and an accepted Farkas certificate proves that the problem has no feasible point -/
theorem certInfeas_sound (p : Prob) (ys : List Rat) (h : p.certInfeas ys = true) : ¬ ∃ x, p.Feasible x := by
  simp only [Prob.certInfeas, Bool.and_eq_true] at h
  obtain ⟨hcl, hck⟩ := h
  rintro ⟨x, hx⟩
  have := (toDense_feasible_iff p hcl x).2 hx
  rw [LPM.LP.checkInfeas_sound _ _ hck _] at this
  exact Bool.noConfusion this

/-- the optimal value of a problem is unique: two optima of the same problem have the same objective value -/
theorem isOpt_value_unique (p : Prob) (x x' : V → Rat) (h : p.IsOpt x) (h' : p.IsOpt x') : p.value x = p.value x' := by
  have a := h.2 x' h'.1
  have b := h'.2 x h.1
  by_cases hm : p.dirMax = true
  · simp only [hm, if_true] at a b; exact le_antisymm b a
  · have hm' : p.dirMax = false := by simpa using hm
    simp only [hm', Bool.false_eq_true, if_false] at a b; exact le_antisymm a b

/-! ### mixed-integer problems: enumeration of the binary variables -/

theorem allAssign_complete (bs : List V) (x : V → Rat) (hx : ∀ b ∈ bs, x b = 0 ∨ x b = 1) :
    ∃ a ∈ allAssign bs, ∀ b ∈ bs, lookupA a b = x b := by
  induction bs with
  | nil => exact ⟨[], by simp [allAssign], fun b hb => by cases hb⟩
  | cons b bs ih =>
    obtain ⟨a, ha, hag⟩ := ih (fun c hc => hx c (by simp [hc]))
    refine ⟨(b, x b) :: a, ?_, ?_⟩
    · simp only [allAssign, List.mem_flatMap, List.mem_cons, List.not_mem_nil, or_false]
      refine ⟨a, ha, ?_⟩
      rcases hx b (by simp) with h | h <;> rw [h] <;> simp
    · intro c hc
      simp only [lookupA]
      by_cases hbc : b = c
      · simp [hbc]
      · simp only [hbc, if_false]
        rcases List.mem_cons.1 hc with h | h
        · exact absurd h.symm hbc
        · exact hag c h

theorem mem_zip_of_mem {α β : Type} (l1 : List α) (l2 : List β) (h : l1.length = l2.length) (a : α) (ha : a ∈ l1) : ∃ c, (a, c) ∈ l1.zip l2 := by
  induction l1 generalizing l2 with
  | nil => cases ha
  | cons x l1 ih =>
    cases l2 with
    | nil => simp at h
    | cons y l2 =>
      rcases List.mem_cons.1 ha with rfl | hl
      · exact ⟨y, by simp⟩
      · obtain ⟨c, hc⟩ := ih l2 (by simpa using h) hl
        exact ⟨c, by simp [hc]⟩

theorem fix_rows (p : Prob) (a : List (V × Rat)) : (p.fix a).rows = p.rows := rfl
theorem fix_obj (p : Prob) (a : List (V × Rat)) : (p.fix a).obj = p.obj := rfl
theorem fix_value (p : Prob) (a : List (V × Rat)) (x : V → Rat) : (p.fix a).value x = p.value x := rfl

/-- a feasible point of the mixed-integer problem is a feasible point of the leaf that fixes the binary variables at the values it gives them -/
theorem fix_feasible (p : Prob) (x : V → Rat) (a : List (V × Rat)) (hag : ∀ b ∈ p.binVars, lookupA a b = x b) (hx : p.Feasible x) :
    (p.fix a).Feasible x := by
  refine ⟨?_, hx.2⟩
  intro w hw
  simp only [Prob.fix, List.mem_map] at hw
  obtain ⟨w0, hw0, rfl⟩ := hw
  by_cases hb : (w0.kind == Kind.bin) = true
  · simp only [hb, if_true]
    have hmem : w0.v ∈ p.binVars := by
      simp only [Prob.binVars, List.mem_map, List.mem_filter]
      exact ⟨w0, ⟨hw0, hb⟩, rfl⟩
    rw [ok_cont, hag _ hmem, Core.inBox_fin]
    exact ⟨le_refl _, le_refl _⟩
  · simp only [hb, Bool.false_eq_true, if_false]
    exact hx.1 w0 hw0

theorem bins_binary (p : Prob) (x : V → Rat) (hx : p.Feasible x) : ∀ b ∈ p.binVars, x b = 0 ∨ x b = 1 := by
  intro b hb
  simp only [Prob.binVars, List.mem_map, List.mem_filter] at hb
  obtain ⟨w, ⟨hw, hk⟩, rfl⟩ := hb
  exact (hx.1 w hw).2.1 (by simpa using hk)

theorem dense_obj_dot (p : Prob) (h : p.closedB = true) (x : V → Rat) :
    LPM.dot (p.dense p.obj) (p.vars.map (fun w => x w.v)) = p.value x := by
  obtain ⟨h1, _, h3, _⟩ := closedB_spec p h
  have := dot_dense (p.vars.map (·.v)) h1 p.obj h3 x
  simpa [Prob.dense, Prob.value, List.map_map, Function.comp_def] using this

/-- **a certified enumeration of the binary variables bounds the mixed-integer minimum from below**: when every 0/1 assignment of the binary
variables leads to a leaf problem that is certified infeasible or certified optimal with a value of at least `L`, no feasible point of the
mixed-integer problem has an objective value below `L` -/
theorem certLeavesMin_bound (p : Prob) (certs : List LeafCert) (L : Rat) (h : p.certLeavesMin certs L = true) (x : V → Rat) (hx : p.Feasible x) :
    L ≤ p.value x := by
  simp only [Prob.certLeavesMin, Bool.and_eq_true, List.all_eq_true, beq_iff_eq, Bool.not_eq_true'] at h
  obtain ⟨⟨⟨hmin, _⟩, hlen⟩, hall⟩ := h
  obtain ⟨a, ha, hag⟩ := allAssign_complete p.binVars x (bins_binary p x hx)
  obtain ⟨c, hc⟩ := mem_zip_of_mem _ _ hlen a ha
  have hleaf := hall (a, c) hc
  have hfx := fix_feasible p x a hag hx
  cases c with
  | infeas ys =>
    simp only at hleaf
    exact absurd ⟨x, hfx⟩ (certInfeas_sound _ ys hleaf)
  | opt xs ys =>
    simp only [Bool.and_eq_true, decide_eq_true_eq] at hleaf
    obtain ⟨hco, hL⟩ := hleaf
    obtain ⟨hopt, hmap⟩ := certOpt_isOpt (p.fix a) xs ys hco
    have hcl : (p.fix a).closedB = true := by
      simp only [Prob.certOpt, Bool.and_eq_true] at hco; exact hco.1
    have hval := dense_obj_dot (p.fix a) hcl (assignOf ((p.fix a).vars.map (·.v)) xs)
    rw [hmap] at hval
    have hle := hopt.2 x hfx
    have hd : (p.fix a).dirMax = false := hmin
    simp only [hd, Bool.false_eq_true, if_false, fix_value] at hle
    have : (p.fix a).dense p.obj = (p.fix a).dense (p.fix a).obj := rfl
    rw [this, hval, fix_value] at hL
    linarith

theorem lookupA_binary (bs : List V) (a : List (V × Rat)) (ha : a ∈ allAssign bs) (w : V) : lookupA a w = 0 ∨ lookupA a w = 1 := by
  induction bs generalizing a with
  | nil =>
    simp only [allAssign, List.mem_singleton] at ha
    subst ha; exact Or.inl rfl
  | cons b bs ih =>
    simp only [allAssign, List.mem_flatMap, List.mem_cons, List.not_mem_nil, or_false] at ha
    obtain ⟨a0, ha0, rfl | rfl⟩ := ha
    · simp only [lookupA]
      split
      · exact Or.inl rfl
      · exact ih a0 ha0
    · simp only [lookupA]
      split
      · exact Or.inr rfl
      · exact ih a0 ha0

/-- … and the point a leaf certificate names is a feasible point of the mixed-integer problem (binary variables with the box `[0, 1]`): the bound
of `certLeavesMin_bound` is attained by the best leaf -/
theorem leaf_point_feasible (p : Prob) (a : List (V × Rat)) (ha : a ∈ allAssign p.binVars)
    (hbox : ∀ w ∈ p.vars, w.kind = .bin → w.lb = .fin 0 ∧ w.ub = .fin 1) (hni : ∀ w ∈ p.vars, w.kind ≠ .int)
    (x : V → Rat) (hx : (p.fix a).Feasible x) : p.Feasible x := by
  refine ⟨?_, hx.2⟩
  intro w hw
  have hfw := hx.1 (if w.kind == .bin then ⟨w.v, .fin (lookupA a w.v), .fin (lookupA a w.v), .cont⟩ else w)
    (by simp only [Prob.fix, List.mem_map]; exact ⟨w, hw, rfl⟩)
  by_cases hb : w.kind = .bin
  · have hb' : (w.kind == Kind.bin) = true := by simp [hb]
    rw [if_pos hb', ok_cont, Core.inBox_fin] at hfw
    have hval : x w.v = lookupA a w.v := le_antisymm hfw.2 hfw.1
    have h01 := lookupA_binary p.binVars a ha w.v
    obtain ⟨hl, hu⟩ := hbox w hw hb
    refine ⟨?_, fun _ => by rw [hval]; exact h01, fun hk => absurd hk (hni w hw)⟩
    rw [hl, hu, Core.inBox_fin, hval]
    rcases h01 with h | h <;> rw [h] <;> constructor <;> norm_num
  · have hb' : (w.kind == Kind.bin) = false := by simpa using hb
    rw [hb'] at hfw
    exact hfw

end AuxM

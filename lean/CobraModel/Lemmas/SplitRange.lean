import CobraModel.Model.Core
import Mathlib.Tactic.Linarith
import Mathlib.Tactic.Ring
import Mathlib.Tactic.Push
import Mathlib.Algebra.Order.Field.Rat
/-! The forward/reverse boxes of `update_variable_bounds` describe exactly the interval `[lb, ub]`. -/
namespace Core

/-- a rational lies in a box of extended bounds -/
def inBox (b : EB × EB) (x : Rat) : Prop := EB.le b.1 (.fin x) = true ∧ EB.le (.fin x) b.2 = true

theorem lt_fin (a b : Rat) : EB.lt (.fin a) (.fin b) = decide (a < b) := by
  unfold EB.lt EB.le
  by_cases h : a < b
  · have : a ≤ b := le_of_lt h
    have hne : ¬ a = b := ne_of_lt h
    simp [h, this, hne]
  · by_cases h2 : a = b
    · subst h2; simp
    · have : ¬ a ≤ b := fun hle => h (lt_of_le_of_ne hle h2)
      simp [h, this]

theorem splitBounds_fin (lb ub : Rat) :
    splitBounds (.fin lb) (.fin ub) =
      if 0 < lb then ((.fin lb, .fin ub), (.fin 0, .fin 0))
      else if ub < 0 then ((.fin 0, .fin 0), (.fin (-ub), .fin (-lb)))
      else ((.fin 0, .fin ub), (.fin 0, .fin (-lb))) := by
  unfold splitBounds
  simp only [EB.zero, lt_fin, EB.isInf, EB.neg, Bool.false_eq_true, if_false, decide_eq_true_eq]

theorem inBox_fin (a b x : Rat) : inBox (.fin a, .fin b) x ↔ a ≤ x ∧ x ≤ b := by
  simp [inBox, EB.le]

theorem split_range_fin (lb ub v : Rat) :
    (∃ f r : Rat, f - r = v ∧ inBox (splitBounds (.fin lb) (.fin ub)).1 f ∧ inBox (splitBounds (.fin lb) (.fin ub)).2 r)
      ↔ (lb ≤ v ∧ v ≤ ub) := by
  rw [splitBounds_fin]
  split
  · simp only [inBox_fin]
    constructor
    · rintro ⟨f, r, h, ⟨h1, h2⟩, h3, h4⟩
      have : r = 0 := le_antisymm h4 h3
      subst this; constructor <;> linarith
    · rintro ⟨h1, h2⟩; exact ⟨v, 0, by ring, ⟨h1, h2⟩, le_refl _, le_refl _⟩
  · split
    · simp only [inBox_fin]
      constructor
      · rintro ⟨f, r, h, ⟨h1, h2⟩, h3, h4⟩
        have : f = 0 := le_antisymm h2 h1
        subst this; constructor <;> linarith
      · rintro ⟨h1, h2⟩; exact ⟨0, -v, by ring, ⟨le_refl _, le_refl _⟩, by linarith, by linarith⟩
    · rename_i h1 h2
      simp only [inBox_fin]
      push Not at h1 h2
      constructor
      · rintro ⟨f, r, h, ⟨a1, a2⟩, a3, a4⟩; constructor <;> linarith
      · rintro ⟨a1, a2⟩
        by_cases hv : 0 ≤ v
        · exact ⟨v, 0, by ring, ⟨hv, a2⟩, le_refl _, by linarith⟩
        · push Not at hv
          exact ⟨0, -v, by ring, ⟨le_refl _, h2⟩, by linarith, by linarith⟩

end Core

import CobraModel.Model.Resettable
/-! Leaving the context restores a bound, as long as no refused value got onto the undo stack. -/
namespace ResetM

def Val.isNum : Val → Bool
  | .num _ => true
  | .junk _ => false

/-- the undo stack, oldest entry last: junk-free, and its oldest entry is the value at `__enter__` (or it is empty and the field still has it) -/
def Inv (q0 : Rat) (s : St) : Prop :=
  (∀ v ∈ s.hist, v.isNum = true) ∧ ((s.hist = [] ∧ s.field = .num q0 ∧ s.solver = q0) ∨ (s.hist ≠ [] ∧ s.hist.getLast? = some (.num q0)))

theorem exitLoop_restores (q0 : Rat) (h : List Val) (s : St) (hn : ∀ v ∈ h, v.isNum = true)
    (hl : (h = [] ∧ s.field = .num q0 ∧ s.solver = q0) ∨ (h ≠ [] ∧ h.getLast? = some (.num q0))) :
    (exitLoop h s).2 = true ∧ (exitLoop h s).1.field = .num q0 ∧ (exitLoop h s).1.solver = q0 ∧ (exitLoop h s).1.hist = [] := by
  induction h generalizing s with
  | nil =>
    rcases hl with ⟨_, hf, hs⟩ | ⟨hne, _⟩
    · exact ⟨rfl, hf, hs, rfl⟩
    · exact absurd rfl hne
  | cons v rest ih =>
    have hv := hn v List.mem_cons_self
    cases v with
    | junk t => simp [Val.isNum] at hv
    | num q =>
      simp only [exitLoop, rawSet]
      apply ih
      · intro w hw; exact hn w (List.mem_cons_of_mem _ hw)
      · rcases hl with ⟨hnil, _⟩ | ⟨_, hlast⟩
        · cases hnil
        · cases rest with
          | nil =>
            left
            simp only [List.getLast?_singleton, Option.some.injEq, Val.num.injEq] at hlast
            exact ⟨rfl, by rw [hlast], hlast⟩
          | cons w ws =>
            right
            refine ⟨by simp, ?_⟩
            rwa [List.getLast?_cons_cons] at hlast

/-- one decorated assignment keeps the invariant provided the field does not hold a refused value when it is made -/
theorem set_inv (q0 : Rat) (s : St) (v : Val) (hi : Inv q0 s) (hf : s.field.isNum = true) : Inv q0 (set s v).1 := by
  unfold set
  split
  · exact hi
  · obtain ⟨hn, hl⟩ := hi
    have hist' : ∀ w ∈ s.field :: s.hist, w.isNum = true := by
      intro w hw
      rcases List.mem_cons.1 hw with rfl | hw
      · exact hf
      · exact hn w hw
    have last' : (s.field :: s.hist).getLast? = some (.num q0) := by
      rcases hl with ⟨hnil, hfield, _⟩ | ⟨hne, hlast⟩
      · rw [hnil, hfield]; rfl
      · cases hh : s.hist with
        | nil => exact absurd hh hne
        | cons w ws => rw [List.getLast?_cons_cons, ← hh]; exact hlast
    cases v with
    | num q => exact ⟨hist', Or.inr ⟨by simp [rawSet], last'⟩⟩
    | junk t => exact ⟨hist', Or.inr ⟨by simp [rawSet], last'⟩⟩

/-- **leaving the context restores the bound and its solver variable, and does not raise**, after any sequence of assignments — accepted ones in
any number, and a refused one at the end -/
theorem accepted_then_refused_restores (q0 : Rat) (qs : List Rat) (last : Option Val) :
    let s := run set (init q0) (qs.map Val.num ++ last.toList)
    (exit s).2 = true ∧ (exit s).1.field = .num q0 ∧ (exit s).1.solver = q0 := by
  intro s
  have key : ∀ (qs : List Rat) (s0 : St), Inv q0 s0 → s0.field.isNum = true →
      Inv q0 (run set s0 (qs.map Val.num)) ∧ (run set s0 (qs.map Val.num)).field.isNum = true := by
    intro qs
    induction qs with
    | nil => intro s0 hi hf; exact ⟨hi, hf⟩
    | cons q rest ih =>
      intro s0 hi hf
      simp only [List.map_cons, run, List.foldl_cons]
      apply ih
      · exact set_inv q0 s0 (.num q) hi hf
      · unfold set
        split
        · exact hf
        · rfl
  have hinit : Inv q0 (init q0) := ⟨by simp [init], Or.inl ⟨rfl, rfl, rfl⟩⟩
  obtain ⟨hi, hf⟩ := key qs (init q0) hinit rfl
  have hs : Inv q0 s := by
    show Inv q0 (run set (init q0) (qs.map Val.num ++ last.toList))
    simp only [run, List.foldl_append]
    cases last with
    | none => exact hi
    | some v => exact set_inv q0 _ v hi hf
  have := exitLoop_restores q0 s.hist s hs.1 hs.2
  exact ⟨this.1, this.2.1, this.2.2.1⟩

end ResetM

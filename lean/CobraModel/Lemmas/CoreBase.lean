import CobraModel.Model.Core
namespace Core
open GPRM

/-- distinctness of solver names: reverse-variable names are not reaction ids and are pairwise distinct -/
structure NameSep (s : St) : Prop where
  rev_ne : ∀ r r', s.hasR r = true → s.hasR r' = true → s.rev r ≠ r'
  rev_inj : ∀ r r', s.hasR r = true → s.hasR r' = true → s.rev r = s.rev r' → r = r'

/-- cross-reference consistency of the Python-side content (C02) -/
structure WF (s : St) : Prop where
  mr_iff : ∀ m r, s.hasM m = true → s.hasR r = true → (s.mr m r = true ↔ s.st r m ≠ 0)
  st_has : ∀ r m, s.hasR r = true → s.st r m ≠ 0 → s.hasM m = true
  rg_rule : ∀ r g, s.hasR r = true → (s.rg r g = true ↔ g ∈ genesOpt (s.rule r))
  gr_iff : ∀ g r, s.hasG g = true → s.hasR r = true → (s.gr g r = true ↔ s.rg r g = true)
  rg_has : ∀ r g, s.hasR r = true → s.rg r g = true → s.hasG g = true
  bounds : ∀ r, s.hasR r = true → EB.le (s.lb r) (s.ub r) = true
  inUniv : ∀ r, s.hasR r = true → r ∈ s.univR
  gr_has : ∀ g r, s.hasG g = true → s.gr g r = true → s.hasR r = true
  mr_has : ∀ m r, s.hasM m = true → s.mr m r = true → s.hasR r = true

/-- the solver holds exactly the flux-balance problem of the content (C01) -/
structure Sync (s : St) : Prop where
  vars : ∀ v, s.hasV v = true ↔ ∃ r, s.hasR r = true ∧ (v = r ∨ v = s.rev r)
  box : ∀ r, s.hasR r = true →
    ((s.vlb r, s.vub r), (s.vlb (s.rev r), s.vub (s.rev r))) = splitBounds (s.lb r) (s.ub r)
  rows : ∀ m, s.hasC m = true ↔ s.hasM m = true
  coef : ∀ m r, s.hasM m = true → s.hasR r = true → s.co m r = s.st r m ∧ s.co m (s.rev r) = -(s.st r m)
  objrev : ∀ r, s.hasR r = true → s.obj (s.rev r) = -(s.obj r)

theorem updateVariableBounds_sync {s : St} (ns : NameSep s) (r : Id) (hr : s.hasR r = true)
    (h : Sync s) (lb ub : EB) :
    Sync (updateVariableBounds { s with lb := upd s.lb r lb, ub := upd s.ub r ub } r) := by
  have h1 := ns.rev_ne
  have h2 := ns.rev_inj
  constructor
  · exact h.vars
  · intro r' hr'
    have := h.box r' hr'
    simp only [updateVariableBounds, upd] at *
    have a1 : r' ≠ s.rev r' := fun e => h1 r' r' hr' hr' e.symm
    have a2 : r' ≠ s.rev r := fun e => h1 r r' hr hr' e.symm
    have a3 : s.rev r' ≠ r := fun e => h1 r' r hr' hr e
    by_cases hrr : r' = r
    · subst hrr; simp [a1]
    · have : s.rev r' ≠ s.rev r := fun e => hrr (h2 _ _ hr' hr e)
      simp_all
  · exact h.rows
  · exact h.coef
  · exact h.objrev

theorem EB.le_refl (a : EB) : EB.le a a = true := by cases a <;> simp [EB.le]
theorem EB.le_total (a b : EB) : EB.le a b = true ∨ EB.le b a = true := by
  cases a <;> cases b <;> simp [EB.le]
  exact Rat.le_total
theorem EB.not_lt_le {a b : EB} (h : EB.lt a b = false) : EB.le b a = true := by
  unfold EB.lt at h
  by_cases hab : a = b
  · subst hab; exact EB.le_refl a
  · have : (a == b) = false := by simpa using hab
    simp [this] at h
    rcases EB.le_total a b with h' | h'
    · rw [h] at h'; cases h'
    · exact h'

structure Good (s : St) : Prop where
  ns : NameSep s
  wf : WF s
  sync : Sync s

/-- setting both bounds of a reaction to an ordered pair and re-deriving its variable boxes keeps everything -/
theorem setBoundsCore_good {s : St} (g : Good s) (r : Id) (hr : s.hasR r = true) (lb ub : EB)
    (hle : EB.le lb ub = true) :
    Good (updateVariableBounds { s with lb := upd s.lb r lb, ub := upd s.ub r ub } r) := by
  refine ⟨⟨g.ns.rev_ne, g.ns.rev_inj⟩, ?_, updateVariableBounds_sync g.ns r hr g.sync lb ub⟩
  have w := g.wf
  constructor
  · exact w.mr_iff
  · exact w.st_has
  · exact w.rg_rule
  · exact w.gr_iff
  · exact w.rg_has
  · intro r' hr'
    have := w.bounds r' hr'
    simp only [updateVariableBounds, upd]
    by_cases hrr : r' = r
    · simp [hrr, hle]
    · simp [hrr, this]
  · exact w.inUniv
  · exact w.gr_has
  · exact w.mr_has

theorem rawSetBounds_good {s s' : St} (g : Good s) (r : Id) (hr : s.hasR r = true) (lb ub : EB)
    (h : rawSetBounds s r lb ub = .ok s') : Good s' := by
  unfold rawSetBounds at h
  split at h
  · cases h
  · rename_i hlt
    injection h with h; subst h
    exact setBoundsCore_good g r hr lb ub (EB.not_lt_le (by simpa using hlt))

theorem upd_self {β : Type} (f : Id → β) (k : Id) : upd f k (f k) = f := by
  funext x; simp [upd]; intro h; rw [h]

theorem rawSetLb_good {s s' : St} (g : Good s) (r : Id) (hr : s.hasR r = true) (v : EB)
    (h : rawSetLb s r v = .ok s') : Good s' := by
  unfold rawSetLb at h
  split at h
  · cases h
  · rename_i hlt
    injection h with h; subst h
    have := setBoundsCore_good g r hr v (s.ub r) (EB.not_lt_le (by simpa using hlt))
    rwa [upd_self s.ub r] at this

theorem rawSetUb_good {s s' : St} (g : Good s) (r : Id) (hr : s.hasR r = true) (v : EB)
    (h : rawSetUb s r v = .ok s') : Good s' := by
  unfold rawSetUb at h
  split at h
  · cases h
  · rename_i hlt
    injection h with h; subst h
    have := setBoundsCore_good g r hr (s.lb r) v (EB.not_lt_le (by simpa using hlt))
    rwa [upd_self s.lb r] at this



theorem St.ext' (s t : St) (h1 : s.univR = t.univR) (h2 : s.univM = t.univM) (h3 : s.univG = t.univG)
    (h4 : s.rev = t.rev) (h5 : s.hasR = t.hasR) (h6 : s.hasM = t.hasM) (h7 : s.hasG = t.hasG)
    (h8 : s.lb = t.lb) (h9 : s.ub = t.ub) (h10 : s.st = t.st) (h11 : s.rule = t.rule) (h12 : s.rg = t.rg)
    (h13 : s.mr = t.mr) (h14 : s.gr = t.gr) (h15 : s.gf = t.gf) (h16 : s.hasV = t.hasV) (h17 : s.vlb = t.vlb)
    (h18 : s.vub = t.vub) (h19 : s.hasC = t.hasC) (h20 : s.co = t.co) (h21 : s.obj = t.obj)
    (h22 : s.dirMax = t.dirMax) : s = t := by
  cases s; cases t; simp_all

/-- both bounds of `r` set, variable boxes re-derived -/
def setB (s : St) (r : Id) (lb ub : EB) : St :=
  updateVariableBounds { s with lb := upd s.lb r lb, ub := upd s.ub r ub } r

theorem upd_upd {β : Type} (f : Id → β) (k : Id) (a b : β) : upd (upd f k a) k b = upd f k b := by
  funext x; simp only [upd]; split <;> rfl

theorem setB_setB (s : St) (r : Id) (a b c d : EB) : setB (setB s r a b) r c d = setB s r c d := by
  apply St.ext' <;> try rfl
  · simp [setB, updateVariableBounds, upd_upd]
  · simp [setB, updateVariableBounds, upd_upd]
  · funext x; simp only [setB, updateVariableBounds, upd]; grind
  · funext x; simp only [setB, updateVariableBounds, upd]; grind

theorem setB_self {s : St} (g : Good s) (r : Id) (hr : s.hasR r = true) : setB s r (s.lb r) (s.ub r) = s := by
  have hb := g.sync.box r hr
  simp only [Prod.ext_iff] at hb
  obtain ⟨⟨h1, h2⟩, h3, h4⟩ := hb
  apply St.ext' <;> try rfl
  · simp [setB, updateVariableBounds, upd_self]
  · simp [setB, updateVariableBounds, upd_self]
  · funext x; simp only [setB, updateVariableBounds, upd, upd_self]; grind
  · funext x; simp only [setB, updateVariableBounds, upd, upd_self]; grind

theorem EB.le_antisymm {a b : EB} (h1 : EB.le a b = true) (h2 : EB.le b a = true) : a = b := by
  cases a <;> cases b <;> simp_all [EB.le]
  exact Rat.le_antisymm h1 h2

theorem EB.lt_false_of_le {a b : EB} (h : EB.le a b = true) : EB.lt b a = false := by
  unfold EB.lt
  by_cases he : b = a
  · simp [he]
  · cases hh : EB.le b a with
    | false => rfl
    | true => exact absurd (EB.le_antisymm hh h) he

/-- the undo entries `us` (newest first) take `s'` back to `s` without raising -/
def Undoes (us : List Undo) (s' s : St) : Prop := replay s' us = (s, none)

theorem replay_append (s : St) (a b : List Undo) :
    replay s (a ++ b) = match replay s a with
      | (s1, none) => replay s1 b
      | (s1, some e) => (s1, some e) := by
  induction a generalizing s with
  | nil => simp [replay]
  | cons u us ih =>
    simp only [List.cons_append, replay]
    cases runUndo s u with
    | ok s' => exact ih s'
    | error e => rfl

theorem Undoes.trans {us1 us2 : List Undo} {s0 s1 s2 : St} (h1 : Undoes us1 s1 s0) (h2 : Undoes us2 s2 s1) :
    Undoes (us2 ++ us1) s2 s0 := by
  unfold Undoes at *
  rw [replay_append, h2]; exact h1

/-- one step of the system: the invariant is kept, and whatever was recorded undoes the step -/
def Step (y y' : Sys) : Prop :=
  Good y'.s ∧ match y.ctx with
    | [] => y'.ctx = []
    | c :: cs => ∃ us, y'.ctx = (us ++ c) :: cs ∧ Undoes us y'.s y.s

theorem Step.refl {y : Sys} (g : Good y.s) : Step y y := by
  refine ⟨g, ?_⟩
  cases h : y.ctx with
  | nil => rfl
  | cons c cs => exact ⟨[], by simp, rfl⟩

theorem Step.trans {y0 y1 y2 : Sys} (h1 : Step y0 y1) (h2 : Step y1 y2) : Step y0 y2 := by
  refine ⟨h2.1, ?_⟩
  have a := h1.2
  have b := h2.2
  cases h0 : y0.ctx with
  | nil =>
    simp only [h0] at a
    simp only [a] at b
    simpa using b
  | cons c cs =>
    simp only [h0] at a
    obtain ⟨us1, hc1, hu1⟩ := a
    simp only [hc1] at b
    obtain ⟨us2, hc2, hu2⟩ := b
    exact ⟨us2 ++ us1, by simp [hc2], hu1.trans hu2⟩

theorem setBounds_step (y : Sys) (g : Good y.s) (r : Id) (hr : y.s.hasR r = true) (lb ub : EB) :
    Step y (setBounds y r lb ub).1 := by
  unfold setBounds
  split
  · exact Step.refl g
  · rename_i hne
    cases hc : y.ctx with
    | nil =>
      have hin : inCtx y = false := by simp [inCtx, hc]
      simp only [hin, Bool.false_eq_true, if_false]
      cases hraw : rawSetBounds y.s r lb ub with
      | error e => exact ⟨g, by simp [hc]⟩
      | ok s' => exact ⟨rawSetBounds_good g r hr lb ub hraw, by simp [hc]⟩
    | cons c cs =>
      have hin : inCtx y = true := by simp [inCtx, hc]
      simp only [hin, if_true, push, hc]
      have hrestore : ∀ s1 : St, s1 = y.s ∨ (∃ a b, s1 = setB y.s r a b) →
          runUndo s1 (.rawSetBounds r (y.s.lb r) (y.s.ub r)) = .ok y.s := by
        intro s1 h1
        have hle := g.wf.bounds r hr
        have hlt : EB.lt (y.s.ub r) (y.s.lb r) = false := by
          unfold EB.lt
          by_cases he : y.s.ub r = y.s.lb r
          · simp [he]
          · cases hh : EB.le (y.s.ub r) (y.s.lb r) with
            | false => rfl
            | true => exact absurd (EB.le_antisymm hh hle) he
        simp only [runUndo, rawSetBounds, hlt]
        rcases h1 with rfl | ⟨a, b, rfl⟩
        · simp; exact setB_self g r hr
        · simp; rw [show updateVariableBounds _ r = setB (setB y.s r a b) r (y.s.lb r) (y.s.ub r) from rfl, setB_setB]
          exact setB_self g r hr
      cases hraw : rawSetBounds y.s r lb ub with
      | error e =>
        refine ⟨g, ?_⟩
        simp only [hc]
        refine ⟨[.rawSetBounds r (y.s.lb r) (y.s.ub r)], by simp, ?_⟩
        simp [Undoes, replay, hrestore y.s (Or.inl rfl)]
      | ok s' =>
        refine ⟨rawSetBounds_good g r hr lb ub hraw, ?_⟩
        simp only [hc]
        refine ⟨[.rawSetBounds r (y.s.lb r) (y.s.ub r)], by simp, ?_⟩
        have hs' : s' = setB y.s r lb ub := by
          unfold rawSetBounds at hraw; split at hraw
          · cases hraw
          · injection hraw with hraw; exact hraw.symm
        simp [Undoes, replay, hrestore s' (Or.inr ⟨lb, ub, hs'⟩)]



theorem rawSetLb_eq (s : St) (r : Id) (v : EB) :
    rawSetLb s r v = if EB.lt (s.ub r) v then .error .value else .ok (setB s r v (s.ub r)) := by
  unfold rawSetLb setB; split <;> simp [upd_self]

theorem rawSetUb_eq (s : St) (r : Id) (v : EB) :
    rawSetUb s r v = if EB.lt v (s.lb r) then .error .value else .ok (setB s r (s.lb r) v) := by
  unfold rawSetUb setB; split <;> simp [upd_self]

theorem setB_lb (s : St) (r : Id) (a b : EB) : (setB s r a b).lb r = a := by simp [setB, updateVariableBounds, upd]
theorem setB_ub (s : St) (r : Id) (a b : EB) : (setB s r a b).ub r = b := by simp [setB, updateVariableBounds, upd]

/-- generic shape of the three `resettable` bound setters -/
theorem resettable_step (y : Sys) (g : Good y.s) (c : List Undo) (cs : List (List Undo)) (hc : y.ctx = c :: cs)
    (u : Undo) (res : Except Err St)
    (hgood : ∀ s', res = .ok s' → Good s')
    (hundo0 : runUndo y.s u = .ok y.s)
    (hundo1 : ∀ s', res = .ok s' → runUndo s' u = .ok y.s) :
    Step y (match res with
      | .ok s' => (({ (push y u) with s := s' } : Sys), (none : Option Err))
      | .error e => (push y u, some e)).1 := by
  cases res with
  | error e =>
    refine ⟨by simpa [push, hc] using g, ?_⟩
    simp only [hc, push]
    exact ⟨[u], by simp, by simp [Undoes, replay, hundo0]⟩
  | ok s' =>
    refine ⟨by simpa using hgood s' rfl, ?_⟩
    simp only [hc, push]
    exact ⟨[u], by simp, by simp [Undoes, replay, hundo1 s' rfl]⟩

theorem setLb_step (y : Sys) (g : Good y.s) (r : Id) (hr : y.s.hasR r = true) (v : EB) :
    Step y (setLb y r v).1 := by
  unfold setLb
  split
  · exact Step.refl g
  · cases hc : y.ctx with
    | nil =>
      have hin : inCtx y = false := by simp [inCtx, hc]
      simp only [hin, Bool.false_eq_true, if_false]
      cases hraw : rawSetLb y.s r v with
      | error e => exact ⟨g, by simp [hc]⟩
      | ok s' => exact ⟨rawSetLb_good g r hr v hraw, by simp [hc]⟩
    | cons c cs =>
      have hin : inCtx y = true := by simp [inCtx, hc]
      simp only [hin, if_true]
      have hlt := EB.lt_false_of_le (g.wf.bounds r hr)
      have := resettable_step y g c cs hc (.rawSetLb r (y.s.lb r)) (rawSetLb y.s r v)
        (fun s' h => rawSetLb_good g r hr v h)
        (by simp [runUndo, rawSetLb_eq, hlt, setB_self g r hr])
        (by
          intro s' h
          rw [rawSetLb_eq] at h
          split at h
          · cases h
          · injection h with h; subst h
            simp [runUndo, rawSetLb_eq, setB_ub, hlt, setB_setB, setB_self g r hr])
      have hp : (push y (.rawSetLb r (y.s.lb r))).s = y.s := by simp [push, hc]
      rw [hp]
      cases hraw : rawSetLb y.s r v <;> simp only [hraw] at this ⊢ <;> exact this

theorem setUb_step (y : Sys) (g : Good y.s) (r : Id) (hr : y.s.hasR r = true) (v : EB) :
    Step y (setUb y r v).1 := by
  unfold setUb
  split
  · exact Step.refl g
  · cases hc : y.ctx with
    | nil =>
      have hin : inCtx y = false := by simp [inCtx, hc]
      simp only [hin, Bool.false_eq_true, if_false]
      cases hraw : rawSetUb y.s r v with
      | error e => exact ⟨g, by simp [hc]⟩
      | ok s' => exact ⟨rawSetUb_good g r hr v hraw, by simp [hc]⟩
    | cons c cs =>
      have hin : inCtx y = true := by simp [inCtx, hc]
      simp only [hin, if_true]
      have hlt := EB.lt_false_of_le (g.wf.bounds r hr)
      have := resettable_step y g c cs hc (.rawSetUb r (y.s.ub r)) (rawSetUb y.s r v)
        (fun s' h => rawSetUb_good g r hr v h)
        (by simp [runUndo, rawSetUb_eq, hlt, setB_self g r hr])
        (by
          intro s' h
          rw [rawSetUb_eq] at h
          split at h
          · cases h
          · injection h with h; subst h
            simp [runUndo, rawSetUb_eq, setB_lb, hlt, setB_setB, setB_self g r hr])
      have hp : (push y (.rawSetUb r (y.s.ub r))).s = y.s := by simp [push, hc]
      rw [hp]
      cases hraw : rawSetUb y.s r v <;> simp only [hraw] at this ⊢ <;> exact this




/-- `Good` only reads these fields; any state agreeing on them is as good -/
theorem Good.of_eq {s t : St} (g : Good s)
    (h4 : t.rev = s.rev) (h5 : t.hasR = s.hasR) (h6 : t.hasM = s.hasM) (h7 : t.hasG = s.hasG)
    (h8 : t.lb = s.lb) (h9 : t.ub = s.ub) (h10 : t.st = s.st) (h11 : t.rule = s.rule) (h12 : t.rg = s.rg)
    (h13 : t.mr = s.mr) (h14 : t.gr = s.gr) (h16 : t.hasV = s.hasV) (h17 : t.vlb = s.vlb)
    (h18 : t.vub = s.vub) (h19 : t.hasC = s.hasC) (h20 : t.co = s.co) (h1 : t.univR = s.univR)
    (hobj : ∀ r, s.hasR r = true → t.obj (s.rev r) = -(t.obj r)) : Good t := by
  obtain ⟨⟨n1, n2⟩, w, y⟩ := g
  refine ⟨⟨?_, ?_⟩, ⟨?_, ?_, ?_, ?_, ?_, ?_, ?_, ?_, ?_⟩, ⟨?_, ?_, ?_, ?_, ?_⟩⟩
  · rw [h4, h5]; exact n1
  · rw [h4, h5]; exact n2
  · rw [h5, h6, h10, h13]; exact w.mr_iff
  · rw [h5, h6, h10]; exact w.st_has
  · rw [h5, h11, h12]; exact w.rg_rule
  · rw [h5, h7, h12, h14]; exact w.gr_iff
  · rw [h5, h7, h12]; exact w.rg_has
  · rw [h5, h8, h9]; exact w.bounds
  · rw [h5, h1]; exact w.inUniv
  · rw [h5, h7, h14]; exact w.gr_has
  · rw [h5, h6, h13]; exact w.mr_has
  · rw [h5, h4, h16]; exact y.vars
  · rw [h5, h4, h17, h18, h8, h9]; exact y.box
  · rw [h6, h19]; exact y.rows
  · rw [h5, h4, h6, h10, h20]; exact y.coef
  · rw [h5, h4]; exact hobj

theorem setDir_step (y : Sys) (g : Good y.s) (d : DirArg) : Step y (setDir y d).1 := by
  unfold setDir
  split
  · exact Step.refl g
  · have hg : ∀ b, Good { y.s with dirMax := b } := fun b =>
      g.of_eq rfl rfl rfl rfl rfl rfl rfl rfl rfl rfl rfl rfl rfl rfl rfl rfl rfl g.sync.objrev
    cases hc : y.ctx with
    | nil =>
      have hin : inCtx y = false := by simp [inCtx, hc]
      simp only [hin, Bool.false_eq_true, if_false, rawSetDir]
      cases d.target with
      | none => exact ⟨g, by simp [hc]⟩
      | some b => exact ⟨hg b, by simp [hc]⟩
    | cons c cs =>
      have hin : inCtx y = true := by simp [inCtx, hc]
      simp only [hin, if_true, rawSetDir, push, hc]
      cases d.target with
      | none =>
        refine ⟨g, ?_⟩
        simp only [hc]
        exact ⟨[.rawSetDir y.s.dirMax], by simp, by simp [Undoes, replay, runUndo]⟩
      | some b =>
        refine ⟨hg b, ?_⟩
        simp only [hc]
        exact ⟨[.rawSetDir y.s.dirMax], by simp, by simp [Undoes, replay, runUndo]⟩

/-- the objective stays antisymmetric on (forward, reverse) pairs -/
theorem objFold_rev {s : St} (ns : NameSep s) (coefs : List (Id × Rat)) (hall : ∀ p ∈ coefs, s.hasR p.1 = true)
    (o : Id → Rat) (ho : ∀ r, s.hasR r = true → o (s.rev r) = -(o r)) :
    ∀ r, s.hasR r = true →
      (coefs.foldl (fun o (p : Id × Rat) => upd (upd o p.1 p.2) (s.rev p.1) (-p.2)) o) (s.rev r) =
      -((coefs.foldl (fun o (p : Id × Rat) => upd (upd o p.1 p.2) (s.rev p.1) (-p.2)) o) r) := by
  induction coefs generalizing o with
  | nil => simpa using ho
  | cons p ps ih =>
    simp only [List.foldl_cons]
    apply ih (fun q hq => hall q (List.mem_cons_of_mem _ hq))
    intro r hr
    have hp := hall p (by simp)
    have a1 : s.rev r ≠ p.1 := ns.rev_ne r p.1 hr hp
    have a2 : r ≠ s.rev p.1 := fun e => ns.rev_ne p.1 r hp hr e.symm
    simp only [upd]
    by_cases hrp : r = p.1
    · subst hrp; simp [a2]
    · have : s.rev r ≠ s.rev p.1 := fun e => hrp (ns.rev_inj _ _ hr hp e)
      simp [this, a1, a2, hrp, ho r hr]

theorem setObjective_step (y : Sys) (g : Good y.s) (coefs : List (Id × Rat)) (additive : Bool)
    (hall : ∀ p ∈ coefs, y.s.hasR p.1 = true) : Step y (setObjective y coefs additive) := by
  unfold setObjective
  have hbase : ∀ r, y.s.hasR r = true →
      (if additive then y.s.obj else fun _ => (0 : Rat)) (y.s.rev r) = -((if additive then y.s.obj else fun _ => (0 : Rat)) r) := by
    intro r hr; cases additive <;> simp [g.sync.objrev r hr]
  have hgo : ∀ o : Id → Rat, (∀ r, y.s.hasR r = true → o (y.s.rev r) = -(o r)) → Good { y.s with obj := o } :=
    fun o ho => g.of_eq rfl rfl rfl rfl rfl rfl rfl rfl rfl rfl rfl rfl rfl rfl rfl rfl rfl ho
  have hg := hgo _ (objFold_rev g.ns coefs hall _ hbase)
  cases hc : y.ctx with
  | nil =>
    have hin : inCtx y = false := by simp [inCtx, hc]
    simp only [hin, Bool.false_eq_true, if_false]
    exact ⟨hg, by simp [hc]⟩
  | cons c cs =>
    have hin : inCtx y = true := by simp [inCtx, hc]
    simp only [hin, if_true, push]
    refine ⟨hg, ?_⟩
    simp only [hc]
    exact ⟨[.objReset y.s.obj y.s.dirMax], by simp, by simp [Undoes, replay, runUndo]⟩




theorem rawSetBounds_static {s s' : St} {r : Id} {a b : EB} (h : rawSetBounds s r a b = .ok s') :
    s'.hasG = s.hasG ∧ s'.gr = s.gr ∧ s'.hasR = s.hasR := by
  unfold rawSetBounds at h
  split at h
  · cases h
  · injection h with h; subst h; simp [updateVariableBounds]

theorem setBounds_hasG (y : Sys) (r : Id) (a b : EB) : (setBounds y r a b).1.s.hasG = y.s.hasG ∧
    (setBounds y r a b).1.s.gr = y.s.gr ∧ (setBounds y r a b).1.s.hasR = y.s.hasR := by
  unfold setBounds
  have hp : ∀ u, (push y u).s = y.s := by intro u; unfold push; split <;> rfl
  split
  · simp
  · split
    · simp only [hp]
      cases h : rawSetBounds y.s r a b with
      | error e => simp [hp, h]
      | ok s' => simpa [h] using rawSetBounds_static h
    · cases h : rawSetBounds y.s r a b with
      | error e => simp [h]
      | ok s' => simpa [h] using rawSetBounds_static h

theorem koLoop_step (g : Id) (rs : List Id) (y : Sys) (gd : Good y.s) (hg : y.s.hasG g = true) :
    Step y (koLoop g rs y) := by
  induction rs generalizing y with
  | nil => exact Step.refl gd
  | cons r rs ih =>
    simp only [koLoop]
    split
    · rename_i hcond
      simp only [Bool.and_eq_true] at hcond
      have hr := gd.wf.gr_has g r hg hcond.1
      have h1 := setBounds_step y gd r hr EB.zero EB.zero
      have hh := setBounds_hasG y r EB.zero EB.zero
      exact h1.trans (ih _ h1.1 (by rw [hh.1]; exact hg))
    · exact ih y gd hg

theorem koGene_step (y : Sys) (gd : Good y.s) (g : Id) (hg : y.s.hasG g = true) : Step y (koGene y g) := by
  unfold koGene
  have hgood : Good { y.s with gf := upd y.s.gf g false } :=
    gd.of_eq rfl rfl rfl rfl rfl rfl rfl rfl rfl rfl rfl rfl rfl rfl rfl rfl rfl gd.sync.objrev
  split
  · exact koLoop_step g _ y gd hg
  · cases hc : y.ctx with
    | nil =>
      have hin : inCtx y = false := by simp [inCtx, hc]
      simp only [hin, Bool.false_eq_true, if_false]
      have h1 : Step y { y with s := { y.s with gf := upd y.s.gf g false } } := ⟨hgood, by simp [hc]⟩
      exact h1.trans (koLoop_step g _ _ hgood hg)
    | cons c cs =>
      have hin : inCtx y = true := by simp [inCtx, hc]
      simp only [hin, if_true, push, hc]
      have h1 : Step y { s := { y.s with gf := upd y.s.gf g false }, ctx := (Undo.rawSetGf g (y.s.gf g) :: c) :: cs } := by
        refine ⟨hgood, ?_⟩
        simp only [hc]
        refine ⟨[.rawSetGf g (y.s.gf g)], by simp, ?_⟩
        simp only [Undoes, replay, runUndo, upd_upd, upd_self]
      exact h1.trans (koLoop_step g _ _ hgood hg)

theorem koGene_hasG (y : Sys) (g : Id) : (koGene y g).s.hasG = y.s.hasG := by
  have hl : ∀ rs (y : Sys), (koLoop g rs y).s.hasG = y.s.hasG := by
    intro rs
    induction rs with
    | nil => intro y; rfl
    | cons r rs ih =>
      intro y
      simp only [koLoop]
      split
      · rw [ih, (setBounds_hasG y r EB.zero EB.zero).1]
      · exact ih y
  unfold koGene
  rw [hl]
  split
  · rfl
  · split <;> simp [push] <;> (split <;> rfl)

theorem koGenes_step (gs : List Id) (y : Sys) (gd : Good y.s) (hall : ∀ g ∈ gs, y.s.hasG g = true) :
    Step y (koGenes gs y) := by
  induction gs generalizing y with
  | nil => exact Step.refl gd
  | cons g gs ih =>
    simp only [koGenes]
    have h1 := koGene_step y gd g (hall g (by simp))
    exact h1.trans (ih _ h1.1 (fun g' hg' => by rw [koGene_hasG]; exact hall g' (List.mem_cons_of_mem _ hg')))




def keysNodup (ps : List (Id × Rat)) : Prop := (ps.map (·.1)).Nodup

theorem lookupA_cons (a : Id) (v : Rat) (acc : List (Id × Rat)) (m : Id) :
    lookupA ((a, v) :: acc) m = if a = m then some v else lookupA acc m := by
  unfold lookupA
  simp only [List.find?_cons]
  by_cases h : a = m
  · simp [h]
  · have : (a == m) = false := by simpa using h
    simp [this, h]

theorem loop_lookup (combine : Bool) (base : Id → Rat) (present : Id → Bool) (ps acc : List (Id × Rat))
    (hn : keysNodup ps) (hd : ∀ p ∈ ps, lookupA acc p.1 = none) (m : Id) :
    lookupA (addMetsLoop combine base present ps acc) m =
      match ps.find? (fun p => p.1 == m) with
      | some p => some (if present m = true ∧ combine = true then base m + p.2 else p.2)
      | none => lookupA acc m := by
  induction ps generalizing acc with
  | nil => simp [addMetsLoop]
  | cons p ps ih =>
    obtain ⟨a, c⟩ := p
    simp only [keysNodup, List.map_cons, List.nodup_cons] at hn
    simp only [addMetsLoop]
    have hcur : lookupA acc a = none := hd (a, c) (by simp)
    rw [ih _ hn.2]
    · simp only [List.find?_cons]
      by_cases h : a = m
      · subst h
        have hnone : ps.find? (fun p => p.1 == a) = none := by
          apply List.find?_eq_none.2
          intro q hq hqa
          simp only [beq_iff_eq] at hqa
          exact hn.1 (List.mem_map.2 ⟨q, hq, hqa⟩)
        simp [hnone, lookupA_cons, hcur]
      · have : (a == m) = false := by simpa using h
        simp only [this]
        cases hf : ps.find? (fun p => p.1 == m) with
        | some q => rfl
        | none => simp [lookupA_cons, h]
    · intro q hq
      rw [lookupA_cons]
      have hne : a ≠ q.1 := fun e => hn.1 (List.mem_map.2 ⟨q, hq, e.symm⟩)
      simp [hne]
      exact hd q (List.mem_cons_of_mem _ hq)

theorem touched_iff (ps : List (Id × Rat)) (m : Id) :
    (ps.any (fun p => p.1 == m)) = true ↔ ∃ c, (m, c) ∈ ps := by
  simp only [List.any_eq_true, beq_iff_eq]
  constructor
  · rintro ⟨⟨a, c⟩, hp, rfl⟩; exact ⟨c, hp⟩
  · rintro ⟨c, hp⟩; exact ⟨(m, c), hp, rfl⟩


/-- closed form of the stoichiometry after `add_metabolites` -/
theorem addMets_st (s : St) (r : Id) (ps : List (Id × Rat)) (combine : Bool) (hn : keysNodup ps) (r' m : Id) :
    (addMetsRaw s r ps combine).st r' m =
      if r' = r then
        (match ps.find? (fun p => p.1 == m) with
         | some p => if s.st r m ≠ 0 ∧ combine = true then s.st r m + p.2 else p.2
         | none => s.st r m)
      else s.st r' m := by
  simp only [addMetsRaw]
  by_cases hr : r' = r
  · subst hr
    simp only [if_true]
    rw [loop_lookup combine _ _ ps [] hn (by intro p _; rfl)]
    cases hf : ps.find? (fun p => p.1 == m) with
    | none => simp [lookupA]
    | some p => simp
  · simp only [hr, if_false]

theorem touched_find (ps : List (Id × Rat)) (m : Id) :
    (ps.any (fun p => p.1 == m)) = (ps.find? (fun p => p.1 == m)).isSome := by
  induction ps with
  | nil => rfl
  | cons p ps ih => simp only [List.any_cons, List.find?_cons]; cases h : (p.1 == m) <;> simp [ih]

theorem addMets_mr (s : St) (r : Id) (ps : List (Id × Rat)) (combine : Bool) (m x : Id) :
    (addMetsRaw s r ps combine).mr m x =
      if x = r ∧ (ps.find? (fun p => p.1 == m)).isSome = true then
        (if (addMetsRaw s r ps combine).st r m = 0 then false else if s.st r m ≠ 0 then s.mr m r else true)
      else s.mr m x := by
  have := touched_find ps m
  simp only [addMetsRaw, this]; simp

theorem addMets_co (s : St) (r : Id) (ps : List (Id × Rat)) (combine : Bool) (m v : Id) :
    (addMetsRaw s r ps combine).co m v =
      if (ps.find? (fun p => p.1 == m)).isSome = true ∨ s.st r m ≠ 0 then
        (if v = r then (addMetsRaw s r ps combine).st r m
         else if v = s.rev r then -((addMetsRaw s r ps combine).st r m) else s.co m v)
      else s.co m v := by
  have := touched_find ps m
  simp only [addMetsRaw, this]; simp only [decide_not, Bool.not_eq_eq_eq_not, Bool.not_true, decide_eq_false_iff_not, ne_eq]

theorem addMets_static (s : St) (r : Id) (ps : List (Id × Rat)) (combine : Bool) :
    (addMetsRaw s r ps combine).hasR = s.hasR ∧ (addMetsRaw s r ps combine).hasM = s.hasM ∧
    (addMetsRaw s r ps combine).rev = s.rev := by simp [addMetsRaw]

theorem addMetsRaw_good {s : St} (g : Good s) (r : Id) (hr : s.hasR r = true) (ps : List (Id × Rat)) (combine : Bool)
    (hn : keysNodup ps) (hm : ∀ p ∈ ps, s.hasM p.1 = true) : Good (addMetsRaw s r ps combine) := by
  have hst := addMets_st s r ps combine hn
  have hfm : ∀ m p, ps.find? (fun p => p.1 == m) = some p → s.hasM m = true := by
    intro m p hf
    have := hm p (List.mem_of_find?_eq_some hf)
    have hk := List.find?_some hf
    simp only [beq_iff_eq] at hk
    rwa [hk] at this
  obtain ⟨⟨n1, n2⟩, w, y⟩ := g
  refine ⟨⟨n1, n2⟩, ⟨?_, ?_, w.rg_rule, w.gr_iff, w.rg_has, w.bounds, w.inUniv, w.gr_has, ?_⟩, ⟨y.vars, y.box, y.rows, ?_, y.objrev⟩⟩
  · -- mr_iff
    intro m r' hm' hr'
    have hm'' : s.hasM m = true := hm'
    have hr'' : s.hasR r' = true := hr'
    have h1 := w.mr_iff m r' hm'' hr''
    have h2 := w.mr_iff m r hm'' hr
    rw [addMets_mr, hst, hst]
    cases hf : ps.find? (fun p => p.1 == m) <;> grind
  · -- st_has
    intro r' m hr' hne
    rw [hst] at hne
    by_cases hrr : r' = r
    · subst hrr
      simp only [if_true] at hne
      cases hf : ps.find? (fun p => p.1 == m) with
      | none => rw [hf] at hne; exact w.st_has r' m hr' hne
      | some p => exact hfm m p hf
    · simp only [hrr, if_false] at hne; exact w.st_has r' m hr' hne
  · -- mr_has
    intro m r' hm' hmr
    rw [addMets_mr] at hmr
    split at hmr
    · rename_i hc; rw [hc.1]; exact hr
    · exact w.mr_has m r' hm' hmr
  · -- coef
    intro m r' hm' hr'
    have hm'' : s.hasM m = true := hm'
    have hr'' : s.hasR r' = true := hr'
    have hc := y.coef m r' hm'' hr''
    have hcr := y.coef m r hm'' hr
    have a1 : r' ≠ s.rev r := fun e => n1 r r' hr hr'' e.symm
    have a2 : s.rev r' ≠ r := n1 r' r hr'' hr
    have a3 : s.rev r' = s.rev r → r' = r := n2 _ _ hr'' hr
    show (addMetsRaw s r ps combine).co m r' = _ ∧ (addMetsRaw s r ps combine).co m (s.rev r') = _
    rw [addMets_co, addMets_co, hst, hst]
    cases hf : ps.find? (fun p => p.1 == m) <;> grind

theorem find_map (ps : List (Id × Rat)) (f : Id × Rat → Rat) (m : Id) :
    (ps.map (fun p => (p.1, f p))).find? (fun p => p.1 == m) =
      (ps.find? (fun p => p.1 == m)).map (fun p => (p.1, f p)) := by
  induction ps with
  | nil => rfl
  | cons p ps ih => simp only [List.map_cons, List.find?_cons]; cases h : (p.1 == m) <;> simp [ih]

theorem keysNodup_map (ps : List (Id × Rat)) (f : Id × Rat → Rat) (h : keysNodup ps) :
    keysNodup (ps.map (fun p => (p.1, f p))) := by
  unfold keysNodup at *; simpa [List.map_map, Function.comp_def] using h

@[simp] theorem addMets_rev (s : St) (r : Id) (ps : List (Id × Rat)) (c : Bool) : (addMetsRaw s r ps c).rev = s.rev := rfl

/-- undoing `add_metabolites(…, combine=True)` by subtracting the same dictionary -/
theorem addMets_restore_combine {s : St} (g : Good s) (r : Id) (hr : s.hasR r = true) (ps : List (Id × Rat))
    (hn : keysNodup ps) (hm : ∀ p ∈ ps, s.hasM p.1 = true) :
    addMetsRaw (addMetsRaw s r ps true) r (ps.map (fun p => (p.1, -p.2))) true = s := by
  have hn' := keysNodup_map ps (fun p => -p.2) hn
  have hfm : ∀ m p, ps.find? (fun p => p.1 == m) = some p → s.hasM m = true := by
    intro m p hf
    have := hm p (List.mem_of_find?_eq_some hf)
    have hk := List.find?_some hf
    simp only [beq_iff_eq] at hk
    rwa [hk] at this
  have h1 := addMets_st s r ps true hn
  have h2 := addMets_st (addMetsRaw s r ps true) r (ps.map (fun p => (p.1, -p.2))) true hn'
  have hst : ∀ r' m, (addMetsRaw (addMetsRaw s r ps true) r (ps.map (fun p => (p.1, -p.2))) true).st r' m = s.st r' m := by
    intro r' m
    rw [h2 r' m, find_map]
    simp only [h1]
    cases hf : ps.find? (fun p => p.1 == m) <;> simp <;> grind
  apply St.ext' <;> try rfl
  · funext r' m; exact hst r' m
  · funext m x
    simp only [addMets_mr, hst, h1, find_map]
    cases hf : ps.find? (fun p => p.1 == m) with
    | none => simp
    | some p =>
      have h3 := g.wf.mr_iff m r (hfm m p hf) hr
      simp; grind
  · funext m v
    simp only [addMets_co, hst, h1, find_map, addMets_rev]
    cases hf : ps.find? (fun p => p.1 == m) with
    | none =>
      simp
      by_cases hp : s.st r m = 0
      · simp [hp]
      · have hM := g.wf.st_has r m hr hp
        have hc := g.sync.coef m r hM hr
        simp [hp]; grind
    | some p =>
      have hc := g.sync.coef m r (hfm m p hf) hr
      simp; grind

/-- undoing `add_metabolites(…, combine=False)` by writing the old coefficients back -/
theorem addMets_restore_replace {s : St} (g : Good s) (r : Id) (hr : s.hasR r = true) (ps : List (Id × Rat))
    (hn : keysNodup ps) (hm : ∀ p ∈ ps, s.hasM p.1 = true) :
    addMetsRaw (addMetsRaw s r ps false) r (ps.map (fun p => (p.1, s.st r p.1))) false = s := by
  have hn' := keysNodup_map ps (fun p => s.st r p.1) hn
  have hfm : ∀ m p, ps.find? (fun p => p.1 == m) = some p → s.hasM m = true ∧ p.1 = m := by
    intro m p hf
    have := hm p (List.mem_of_find?_eq_some hf)
    have hk := List.find?_some hf
    simp only [beq_iff_eq] at hk
    exact ⟨by rwa [hk] at this, hk⟩
  have h1 := addMets_st s r ps false hn
  have h2 := addMets_st (addMetsRaw s r ps false) r (ps.map (fun p => (p.1, s.st r p.1))) false hn'
  have hst : ∀ r' m, (addMetsRaw (addMetsRaw s r ps false) r (ps.map (fun p => (p.1, s.st r p.1))) false).st r' m = s.st r' m := by
    intro r' m
    rw [h2 r' m, find_map]
    simp only [h1]
    cases hf : ps.find? (fun p => p.1 == m) with
    | none => simp; grind
    | some p => have := (hfm m p hf).2; simp; grind
  apply St.ext' <;> try rfl
  · funext r' m; exact hst r' m
  · funext m x
    simp only [addMets_mr, hst, h1, find_map]
    cases hf : ps.find? (fun p => p.1 == m) with
    | none => simp
    | some p =>
      have h3 := g.wf.mr_iff m r (hfm m p hf).1 hr
      simp; grind
  · funext m v
    simp only [addMets_co, hst, h1, find_map, addMets_rev]
    cases hf : ps.find? (fun p => p.1 == m) with
    | none =>
      simp
      by_cases hp : s.st r m = 0
      · simp [hp]
      · have hM := g.wf.st_has r m hr hp
        have hc := g.sync.coef m r hM hr
        simp [hp]; grind
    | some p =>
      have hc := g.sync.coef m r (hfm m p hf).1 hr
      simp; grind

/-- what `apply` requires of its argument beyond what the code checks: a Python dict has distinct keys -/
def OpOK : Op → Prop
  | .addMets _ ps _ _ => keysNodup ps
  | _ => True

theorem addMets_step (y : Sys) (g : Good y.s) (r : Id) (hr : y.s.hasR r = true) (ps : List (Id × Rat))
    (combine neg : Bool) (hn : keysNodup ps) : Step y (addMets y r ps combine neg).1 := by
  unfold addMets
  generalize hps : (if neg = true then ps.map (fun p => (p.1, -p.2)) else ps) = qs
  have hnq : keysNodup qs := by
    subst hps; split
    · exact keysNodup_map ps (fun p => -p.2) hn
    · exact hn
  simp only []
  split
  · exact Step.refl g
  · rename_i hval
    have hm : ∀ p ∈ qs, y.s.hasM p.1 = true := by
      intro p hp
      cases h : y.s.hasM p.1 with
      | true => rfl
      | false => exact absurd (List.any_eq_true.2 ⟨p, hp, by simp [h]⟩) hval
    have hgood := addMetsRaw_good g r hr qs combine hnq hm
    cases hc : y.ctx with
    | nil =>
      have hin : inCtx y = false := by simp [inCtx, hc]
      simp only [hin, Bool.false_eq_true, if_false]
      exact ⟨hgood, by simp [hc]⟩
    | cons c cs =>
      have hin : inCtx y = true := by simp [inCtx, hc]
      simp only [hin, if_true]
      cases combine with
      | true =>
        simp only [if_true, push]
        refine ⟨hgood, ?_⟩
        simp only [hc]
        refine ⟨[.addMetsRaw r (qs.map (fun p => (p.1, -p.2))) true], by simp, ?_⟩
        simp only [Undoes, replay, runUndo, addMets_restore_combine g r hr qs hnq hm]
      | false =>
        simp only [Bool.false_eq_true, if_false, push]
        refine ⟨hgood, ?_⟩
        simp only [hc]
        refine ⟨[.addMetsRaw r (qs.map (fun p => (p.1, y.s.st r p.1))) false], by simp, ?_⟩
        simp only [Undoes, replay, runUndo, addMets_restore_replace g r hr qs hnq hm]




/-! ### removing a reaction -/

theorem removeRxnRaw_good {s : St} (g : Good s) (r : Id) (hr : s.hasR r = true) : Good (removeRxnRaw s r) := by
  have ns := g.ns
  have w := g.wf
  have sy := g.sync
  -- membership after the removal
  have hR : ∀ x, (removeRxnRaw s r).hasR x = true → s.hasR x = true ∧ x ≠ r := by
    intro x hx
    simp only [removeRxnRaw, upd] at hx
    by_cases hxr : x = r
    · simp [hxr] at hx
    · simp only [hxr, if_false] at hx; exact ⟨hx, hxr⟩
  refine ⟨⟨?_, ?_⟩, ?_, ?_⟩
  · intro a b ha hb
    exact ns.rev_ne a b (hR a ha).1 (hR b hb).1
  · intro a b ha hb
    exact ns.rev_inj a b (hR a ha).1 (hR b hb).1
  · constructor
    · intro m x hm hx
      obtain ⟨hx1, hx2⟩ := hR x hx
      have := w.mr_iff m x hm hx1
      simpa [removeRxnRaw, hx2] using this
    · intro x m hx hst
      exact w.st_has x m (hR x hx).1 hst
    · intro x gg hx
      exact w.rg_rule x gg (hR x hx).1
    · intro gg x hg hx
      obtain ⟨hx1, hx2⟩ := hR x hx
      have := w.gr_iff gg x hg hx1
      simpa [removeRxnRaw, hx2] using this
    · intro x gg hx h
      exact w.rg_has x gg (hR x hx).1 h
    · intro x hx
      exact w.bounds x (hR x hx).1
    · intro x hx
      exact w.inUniv x (hR x hx).1
    · intro gg x hg h
      simp only [removeRxnRaw] at h
      by_cases hxr : x = r
      · simp [hxr] at h
      · simp only [hxr, if_false] at h
        have := w.gr_has gg x hg h
        simp [removeRxnRaw, upd, hxr, this]
    · intro m x hm h
      simp only [removeRxnRaw] at h
      by_cases hxr : x = r
      · simp [hxr] at h
      · simp only [hxr, if_false] at h
        have := w.mr_has m x hm h
        simp [removeRxnRaw, upd, hxr, this]
  · constructor
    · intro v
      simp only [removeRxnRaw, upd]
      constructor
      · intro hv
        by_cases h1 : v = s.rev r
        · simp [h1] at hv
        · by_cases h2 : v = r
          · simp [h1, h2] at hv
          · simp only [h1, h2, if_false] at hv
            obtain ⟨x, hx, hvx⟩ := (sy.vars v).mp hv
            have hxr : x ≠ r := by
              intro e; subst e
              rcases hvx with e | e
              · exact h2 e
              · exact h1 e
            exact ⟨x, by simp [hxr, hx], hvx⟩
      · rintro ⟨x, hx, hvx⟩
        by_cases hxr : x = r
        · simp [hxr] at hx
        · simp only [hxr, if_false] at hx
          have hv : s.hasV v = true := (sy.vars v).mpr ⟨x, hx, hvx⟩
          have h1 : v ≠ s.rev r := by
            rcases hvx with e | e
            · rw [e]; exact fun e' => ns.rev_ne r x hr hx e'.symm
            · rw [e]; exact fun e' => hxr (ns.rev_inj x r hx hr e')
          have h2 : v ≠ r := by
            rcases hvx with e | e
            · rw [e]; exact hxr
            · rw [e]; exact ns.rev_ne x r hx hr
          simp [h1, h2, hv]
    · intro x hx
      exact sy.box x (hR x hx).1
    · exact sy.rows
    · intro m x hm hx
      exact sy.coef m x hm (hR x hx).1
    · intro x hx
      exact sy.objrev x (hR x hx).1

/-- re-adding with the saved back-references is exactly the inverse -/
theorem readd_remove {s : St} (g : Good s) (r : Id) (hr : s.hasR r = true) :
    readdRxnRaw (removeRxnRaw s r) r (fun m => s.mr m r) (fun gg => s.gr gg r) = s := by
  have hv1 : s.hasV r = true := (g.sync.vars r).mpr ⟨r, hr, Or.inl rfl⟩
  have hv2 : s.hasV (s.rev r) = true := (g.sync.vars (s.rev r)).mpr ⟨r, hr, Or.inr rfl⟩
  apply St.ext' <;> try rfl
  · funext x; simp only [readdRxnRaw, removeRxnRaw, upd]; by_cases h : x = r <;> simp [h, hr]
  · funext m x; simp only [readdRxnRaw, removeRxnRaw]; by_cases h : x = r <;> simp [h]
  · funext gg x; simp only [readdRxnRaw, removeRxnRaw]; by_cases h : x = r <;> simp [h]
  · funext x; simp only [readdRxnRaw, removeRxnRaw, upd]
    by_cases h1 : x = s.rev r
    · simp [h1, hv2]
    · by_cases h2 : x = r
      · simp [h2, hv1]
      · simp [h1, h2]

theorem removeRxn_step (y : Sys) (g : Good y.s) (r : Id) (hr : y.s.hasR r = true) : Step y (removeRxn y r) := by
  have hgood := removeRxnRaw_good g r hr
  unfold removeRxn
  cases hc : y.ctx with
  | nil =>
    have hin : inCtx y = false := by simp [inCtx, hc]
    simp only [hin, Bool.false_eq_true, if_false]
    exact ⟨hgood, by simp [hc]⟩
  | cons c cs =>
    have hin : inCtx y = true := by simp [inCtx, hc]
    simp only [hin, if_true, push]
    refine ⟨hgood, ?_⟩
    simp only [hc]
    refine ⟨[.readdRxn r (fun m => y.s.mr m r) (fun gg => y.s.gr gg r)], by simp, ?_⟩
    simp only [Undoes, replay, runUndo, readd_remove g r hr]

/-- what `remove_reactions([r])` does, and what it leaves alone -/
theorem removeRxn_effect (y : Sys) (r : Id) :
    let s' := (removeRxn y r).s
    s'.hasR r = false ∧ (∀ x, x ≠ r → s'.hasR x = y.s.hasR x) ∧
    (∀ m, s'.mr m r = false) ∧ (∀ gg, s'.gr gg r = false) ∧ s'.hasV r = false ∧ s'.hasV (y.s.rev r) = false ∧
    (∀ m x, x ≠ r → s'.mr m x = y.s.mr m x) ∧ (∀ gg x, x ≠ r → s'.gr gg x = y.s.gr gg x) ∧
    s'.hasM = y.s.hasM ∧ s'.hasG = y.s.hasG ∧ s'.lb = y.s.lb ∧ s'.ub = y.s.ub ∧ s'.st = y.s.st ∧ s'.rule = y.s.rule ∧ s'.gf = y.s.gf ∧
    s'.dirMax = y.s.dirMax := by
  have hs : (removeRxn y r).s = removeRxnRaw y.s r := by
    unfold removeRxn; split <;> rfl
  show _ ∧ _
  rw [hs]
  refine ⟨by simp [removeRxnRaw, upd], fun x hx => by simp [removeRxnRaw, upd, hx], fun m => by simp [removeRxnRaw],
    fun gg => by simp [removeRxnRaw], ?_, by simp [removeRxnRaw, upd], fun m x hx => by simp [removeRxnRaw, hx],
    fun gg x hx => by simp [removeRxnRaw, hx], rfl, rfl, rfl, rfl, rfl, rfl, rfl, rfl⟩
  simp only [removeRxnRaw, upd]; split <;> simp

/-! ### adding a new reaction -/

/-- putting back what a slot held is exactly the inverse of overwriting it -/
theorem putSlot_restore (s : St) (r : Id) (b : Bool) (k : RxnSlot) :
    putSlot (putSlot s r b k) r (s.hasR r) (getSlot s r) = s := by
  apply St.ext' <;> try rfl
  · funext x; simp only [putSlot, getSlot, upd]; by_cases h : x = r <;> simp [h]
  · funext x; simp only [putSlot, getSlot, upd]; by_cases h : x = r <;> simp [h]
  · funext x; simp only [putSlot, getSlot, upd]; by_cases h : x = r <;> simp [h]
  · funext x m; simp only [putSlot, getSlot]; by_cases h : x = r <;> simp [h]
  · funext x; simp only [putSlot, getSlot, upd]; by_cases h : x = r <;> simp [h]
  · funext x g; simp only [putSlot, getSlot]; by_cases h : x = r <;> simp [h]
  · funext m x; simp only [putSlot, getSlot]; by_cases h : x = r <;> simp [h]
  · funext g x; simp only [putSlot, getSlot]; by_cases h : x = r <;> simp [h]
  · funext x; simp only [putSlot, getSlot, upd]
    by_cases h : x = r
    · simp [h]
    · by_cases h2 : x = s.rev r
      · simp [h, h2]; intro e; rw [e]
      · simp [h, h2]
  · funext x; simp only [putSlot, getSlot, upd]
    by_cases h : x = r
    · simp [h]
    · by_cases h2 : x = s.rev r
      · simp [h, h2]; intro e; rw [e]
      · simp [h, h2]
  · funext x; simp only [putSlot, getSlot, upd]
    by_cases h : x = r
    · simp [h]
    · by_cases h2 : x = s.rev r
      · simp [h, h2]; intro e; rw [e]
      · simp [h, h2]
  · funext m v; simp only [putSlot, getSlot]
    by_cases h : v = r
    · simp [h]
    · by_cases h2 : v = s.rev r
      · simp [h, h2]; intro e; rw [e]
      · simp [h, h2]
  · funext x; simp only [putSlot, getSlot, upd]
    by_cases h : x = r
    · simp [h]
    · by_cases h2 : x = s.rev r
      · simp [h, h2]; intro e; rw [e]
      · simp [h, h2]

theorem stOf_ne_zero_mem (ps : List (Id × Rat)) (m : Id) (h : stOf ps m ≠ 0) : ∃ p ∈ ps, p.1 = m := by
  unfold stOf at h
  cases hf : ps.find? (fun p => p.1 == m) with
  | none => simp [hf] at h
  | some p =>
    refine ⟨p, List.mem_of_find?_eq_some hf, ?_⟩
    have := List.find?_some hf
    simpa using this

/-- what the decidable side condition of `apply` gives -/
structure Fresh (s : St) (r : Id) : Prop where
  self : s.rev r ≠ r
  other : ∀ x, s.hasR x = true → s.rev x ≠ r ∧ s.rev r ≠ x ∧ s.rev x ≠ s.rev r

theorem fresh_of_freshNames {s : St} (w : WF s) (r : Id) (h : freshNames s r = true) : Fresh s r := by
  simp only [freshNames, Bool.and_eq_true, decide_eq_true_eq, List.all_eq_true, Bool.or_eq_true, Bool.not_eq_true'] at h
  refine ⟨h.1, ?_⟩
  intro x hx
  rcases h.2 x (w.inUniv x hx) with h' | h'
  · rw [hx] at h'; cases h'
  · exact ⟨h'.1.1, h'.1.2, h'.2⟩

theorem addRxnRaw_good {s : St} (g : Good s) (r : Id) (lb ub : EB) (ps : List (Id × Rat))
    (hnew : s.hasR r = false) (hle : EB.le lb ub = true) (hu : r ∈ s.univR) (fr : Fresh s r)
    (hm : ∀ p ∈ ps, s.hasM p.1 = true) : Good (addRxnRaw s r lb ub ps) := by
  have ns := g.ns
  have w := g.wf
  have sy := g.sync
  have hrev : (addRxnRaw s r lb ub ps).rev = s.rev := rfl
  -- membership after the addition
  have hR : ∀ x, (addRxnRaw s r lb ub ps).hasR x = true → x = r ∨ (x ≠ r ∧ s.hasR x = true) := by
    intro x hx
    simp only [addRxnRaw, putSlot, upd] at hx
    by_cases hxr : x = r
    · exact Or.inl hxr
    · simp only [hxr, if_false] at hx; exact Or.inr ⟨hxr, hx⟩
  have hRr : (addRxnRaw s r lb ub ps).hasR r = true := by simp [addRxnRaw, putSlot, upd]
  have hRo : ∀ x, x ≠ r → (addRxnRaw s r lb ub ps).hasR x = s.hasR x := by intro x hx; simp [addRxnRaw, putSlot, upd, hx]
  have hne : ∀ x, s.hasR x = true → x ≠ r := fun x hx e => by rw [e, hnew] at hx; cases hx
  refine ⟨⟨?_, ?_⟩, ?_, ?_⟩
  · -- rev_ne
    intro a b ha hb
    rw [hrev]
    rcases hR a ha with rfl | ⟨_, ha'⟩ <;> rcases hR b hb with rfl | ⟨_, hb'⟩
    · exact fr.self
    · exact (fr.other b hb').2.1
    · exact (fr.other a ha').1
    · exact ns.rev_ne a b ha' hb'
  · -- rev_inj
    intro a b ha hb hab
    rw [hrev] at hab
    rcases hR a ha with rfl | ⟨_, ha'⟩ <;> rcases hR b hb with rfl | ⟨_, hb'⟩
    · rfl
    · exact absurd hab.symm (fr.other b hb').2.2
    · exact absurd hab (fr.other a ha').2.2
    · exact ns.rev_inj a b ha' hb' hab
  · constructor
    · -- mr_iff
      intro m x hm' hx
      rcases hR x hx with rfl | ⟨hxr, hx'⟩
      · simp [addRxnRaw, putSlot, newSlot]
      · have := w.mr_iff m x hm' hx'
        simpa [addRxnRaw, putSlot, hxr] using this
    · -- st_has
      intro x m hx hst
      rcases hR x hx with rfl | ⟨hxr, hx'⟩
      · have : stOf ps m ≠ 0 := by simpa [addRxnRaw, putSlot, newSlot] using hst
        obtain ⟨p, hp, rfl⟩ := stOf_ne_zero_mem ps m this
        exact hm p hp
      · have : s.st x m ≠ 0 := by simpa [addRxnRaw, putSlot, hxr] using hst
        exact w.st_has x m hx' this
    · -- rg_rule
      intro x gg hx
      rcases hR x hx with rfl | ⟨hxr, hx'⟩
      · simp [addRxnRaw, putSlot, newSlot, upd, genesOpt]
      · have := w.rg_rule x gg hx'
        simpa [addRxnRaw, putSlot, upd, hxr] using this
    · -- gr_iff
      intro gg x hg hx
      rcases hR x hx with rfl | ⟨hxr, hx'⟩
      · simp [addRxnRaw, putSlot, newSlot]
      · have := w.gr_iff gg x hg hx'
        simpa [addRxnRaw, putSlot, hxr] using this
    · -- rg_has
      intro x gg hx h
      rcases hR x hx with rfl | ⟨hxr, hx'⟩
      · simp [addRxnRaw, putSlot, newSlot] at h
      · have : s.rg x gg = true := by simpa [addRxnRaw, putSlot, hxr] using h
        exact w.rg_has x gg hx' this
    · -- bounds
      intro x hx
      rcases hR x hx with rfl | ⟨hxr, hx'⟩
      · simpa [addRxnRaw, putSlot, newSlot, upd] using hle
      · have := w.bounds x hx'
        simpa [addRxnRaw, putSlot, upd, hxr] using this
    · -- inUniv
      intro x hx
      rcases hR x hx with rfl | ⟨_, hx'⟩
      · exact hu
      · exact w.inUniv x hx'
    · -- gr_has
      intro gg x hg h
      by_cases hxr : x = r
      · subst hxr; exact hRr
      · have : s.gr gg x = true := by simpa [addRxnRaw, putSlot, hxr] using h
        rw [hRo x hxr]; exact w.gr_has gg x hg this
    · -- mr_has
      intro m x hm' h
      by_cases hxr : x = r
      · subst hxr; exact hRr
      · have : s.mr m x = true := by simpa [addRxnRaw, putSlot, hxr] using h
        rw [hRo x hxr]; exact w.mr_has m x hm' this
  · -- Sync
    have hVr : s.hasV r = false := by
      cases hv : s.hasV r with
      | false => rfl
      | true =>
        obtain ⟨x, hx, hvx⟩ := (sy.vars r).mp hv
        rcases hvx with e | e
        · exact absurd e.symm (hne x hx)
        · exact absurd e.symm (fr.other x hx).1
    constructor
    · -- vars
      intro v
      simp only [addRxnRaw, putSlot, newSlot, upd]
      constructor
      · intro hv
        by_cases h1 : v = r
        · exact ⟨r, by simp, Or.inl h1⟩
        · by_cases h2 : v = s.rev r
          · exact ⟨r, by simp, Or.inr h2⟩
          · simp only [h1, h2, if_false] at hv
            obtain ⟨x, hx, hvx⟩ := (sy.vars v).mp hv
            exact ⟨x, by simp [hne x hx, hx], hvx⟩
      · rintro ⟨x, hx, hvx⟩
        by_cases hxr : x = r
        · subst hxr
          rcases hvx with e | e
          · simp [e]
          · by_cases h1 : v = x
            · simp [h1]
            · simp [h1, e]
        · simp only [hxr, if_false] at hx
          have hv : s.hasV v = true := (sy.vars v).mpr ⟨x, hx, hvx⟩
          by_cases h1 : v = r
          · simp [h1]
          · by_cases h2 : v = s.rev r <;> simp [h1, h2, hv]
    · -- box
      intro x hx
      rcases hR x hx with rfl | ⟨hxr, hx'⟩
      · have h1 : s.rev x ≠ x := fr.self
        simp [addRxnRaw, putSlot, newSlot, upd, h1]
      · have a1 := (fr.other x hx').1
        have a2 := (fr.other x hx').2.1
        have a3 := (fr.other x hx').2.2
        have := sy.box x hx'
        have e2 : x ≠ s.rev r := fun e => a2 e.symm
        simpa [addRxnRaw, putSlot, upd, hxr, a1, e2, a3] using this
    · exact sy.rows
    · -- coef
      intro m x hm' hx
      rcases hR x hx with rfl | ⟨hxr, hx'⟩
      · have h1 : s.rev x ≠ x := fr.self
        simp [addRxnRaw, putSlot, newSlot, h1]
      · have a1 := (fr.other x hx').1
        have a2 := (fr.other x hx').2.1
        have a3 := (fr.other x hx').2.2
        have e2 : x ≠ s.rev r := fun e => a2 e.symm
        have := sy.coef m x hm' hx'
        simpa [addRxnRaw, putSlot, hxr, a1, e2, a3] using this
    · -- objrev
      intro x hx
      rcases hR x hx with rfl | ⟨hxr, hx'⟩
      · have h1 : s.rev x ≠ x := fr.self
        simp [addRxnRaw, putSlot, newSlot, upd, h1]
      · have a1 := (fr.other x hx').1
        have a2 := (fr.other x hx').2.1
        have a3 := (fr.other x hx').2.2
        have e2 : x ≠ s.rev r := fun e => a2 e.symm
        have := sy.objrev x hx'
        simpa [addRxnRaw, putSlot, upd, hxr, a1, e2, a3] using this

theorem addRxn_step (y : Sys) (g : Good y.s) (r : Id) (lb ub : EB) (ps : List (Id × Rat))
    (hnew : y.s.hasR r = false) (hle : EB.le lb ub = true) (hu : r ∈ y.s.univR) (fr : Fresh y.s r)
    (hm : ∀ p ∈ ps, y.s.hasM p.1 = true) : Step y (addRxn y r lb ub ps) := by
  have hgood := addRxnRaw_good g r lb ub ps hnew hle hu fr hm
  unfold addRxn
  cases hc : y.ctx with
  | nil =>
    have hin : inCtx y = false := by simp [inCtx, hc]
    simp only [hin, Bool.false_eq_true, if_false]
    exact ⟨hgood, by simp [hc]⟩
  | cons c cs =>
    have hin : inCtx y = true := by simp [inCtx, hc]
    simp only [hin, if_true, push]
    refine ⟨hgood, ?_⟩
    simp only [hc]
    refine ⟨[.putSlot r (y.s.hasR r) (getSlot y.s r)], by simp, ?_⟩
    simp only [Undoes, replay, runUndo, addRxnRaw, putSlot_restore]

/-- what `add_reactions([R])` does for a new reaction, and what it leaves alone -/
theorem addRxn_effect (y : Sys) (r : Id) (lb ub : EB) (ps : List (Id × Rat)) :
    let s' := (addRxn y r lb ub ps).s
    s'.hasR r = true ∧ s'.lb r = lb ∧ s'.ub r = ub ∧ (∀ m, s'.st r m = stOf ps m) ∧ s'.rule r = none ∧ s'.obj r = 0 ∧
    (∀ x, x ≠ r → s'.hasR x = y.s.hasR x ∧ s'.lb x = y.s.lb x ∧ s'.ub x = y.s.ub x ∧ s'.rule x = y.s.rule x ∧
      (∀ m, s'.st x m = y.s.st x m) ∧ (∀ m, s'.mr m x = y.s.mr m x) ∧ (∀ gg, s'.gr gg x = y.s.gr gg x)) ∧
    s'.hasM = y.s.hasM ∧ s'.hasG = y.s.hasG ∧ s'.gf = y.s.gf ∧ s'.dirMax = y.s.dirMax := by
  have hs : (addRxn y r lb ub ps).s = addRxnRaw y.s r lb ub ps := by
    unfold addRxn; split <;> rfl
  show _ ∧ _
  rw [hs]
  refine ⟨by simp [addRxnRaw, putSlot, upd], by simp [addRxnRaw, putSlot, newSlot, upd], by simp [addRxnRaw, putSlot, newSlot, upd],
    fun m => by simp [addRxnRaw, putSlot, newSlot], by simp [addRxnRaw, putSlot, newSlot, upd], by simp [addRxnRaw, putSlot, newSlot, upd],
    fun x hx => ⟨by simp [addRxnRaw, putSlot, upd, hx], by simp [addRxnRaw, putSlot, upd, hx], by simp [addRxnRaw, putSlot, upd, hx],
      by simp [addRxnRaw, putSlot, upd, hx], fun m => by simp [addRxnRaw, putSlot, hx], fun m => by simp [addRxnRaw, putSlot, hx],
      fun gg => by simp [addRxnRaw, putSlot, hx]⟩, rfl, rfl, rfl, rfl⟩


end Core

import CobraModel.Lemmas.Core
import CobraModel.Lemmas.GPR
/-! Several gene knock-outs in a row: the closed form (C07). -/
namespace Core
open GPRM

/-- the gene states after knocking out the genes of `gs` -/
def gfAfter (gf : Id → Bool) (gs : List Id) : Id → Bool := fun g => gf g && !(gs.contains g)

def withGf (s : St) (f : Id → Bool) : St := { s with gf := f }

theorem koGene_fields (y : Sys) (g : Id) :
    (koGene y g).s.hasR = y.s.hasR ∧ (koGene y g).s.rg = y.s.rg ∧ (koGene y g).s.gr = y.s.gr ∧ (koGene y g).s.rule = y.s.rule := by
  have key : ∀ y1 : Sys, y1.s.hasR = y.s.hasR → y1.s.rg = y.s.rg → y1.s.gr = y.s.gr → y1.s.rule = y.s.rule →
      (koLoop g y1.s.univR y1).s.hasR = y.s.hasR ∧ (koLoop g y1.s.univR y1).s.rg = y.s.rg ∧
      (koLoop g y1.s.univR y1).s.gr = y.s.gr ∧ (koLoop g y1.s.univR y1).s.rule = y.s.rule := by
    intro y1 h1 h2 h3 h4
    obtain ⟨_, _, c⟩ := koLoop_effect g y1.s.univR y1
    obtain ⟨c1, _, c3, c4, c5, _, _⟩ := c
    exact ⟨c1.trans h1, c4.trans h2, c5.trans h3, c3.trans h4⟩
  have hp : ∀ u, (push y u).s = y.s := by intro u; unfold push; split <;> rfl
  simp only [koGene]
  split
  · exact key y rfl rfl rfl rfl
  · split
    · apply key <;> simp [hp]
    · apply key <;> rfl

/-- `functional` looks at the states of the reaction's own genes only -/
theorem functional_congr (s : St) (f f' : Id → Bool) (r : Id) (h : ∀ x, s.rg r x = true → f x = f' x) :
    functional (withGf s f) r = functional (withGf s f') r := by
  unfold functional withGf
  have : (fun g => s.rg r g && !f g) = (fun g => s.rg r g && !f' g) := by
    funext x
    cases hx : s.rg r x with
    | false => simp
    | true => simp [h x hx]
  simp only [this]

/-- fewer functional genes never switch a reaction on -/
theorem functional_mono (s : St) (f f' : Id → Bool) (r : Id) (h : ∀ x, f' x = true → f x = true)
    (hf : functional (withGf s f) r = false) : functional (withGf s f') r = false := by
  unfold functional withGf at *
  cases hr : s.rule r with
  | none => simp [hr, evalGPR] at hf
  | some gpr =>
    simp only [hr, evalGPR] at hf ⊢
    cases h2 : eval (fun g => s.rg r g && !f' g) gpr with
    | false => rfl
    | true =>
      have := eval_mono (fun g => s.rg r g && !f g) (fun g => s.rg r g && !f' g) (by
        intro x hx
        simp only [Bool.and_eq_true, Bool.not_eq_true'] at hx ⊢
        refine ⟨hx.1, ?_⟩
        cases hfx : f' x with
        | false => rfl
        | true => rw [h x hfx] at hx; exact absurd hx.2 (by simp)) gpr h2
      rw [this] at hf; cases hf

theorem gfAfter_cons (gf : Id → Bool) (g : Id) (gs : List Id) : gfAfter (upd gf g false) gs = gfAfter gf (g :: gs) := by
  funext x
  simp only [gfAfter, upd, List.contains_cons]
  by_cases h : x = g
  · subst h; simp
  · have : (x == g) = false := by simpa using h
    simp [h, this]

/-- **Several knock-outs, one after the other (any order) — the closed form.**  The knocked-out genes are non-functional; a reaction has both
    bounds zero exactly when one of the knocked-out genes is one of its genes and its rule is false with all non-functional genes absent; every other
    reaction keeps its bounds; `reaction.functional` is the rule with the non-functional genes absent. -/
theorem koGenes_closed_form (gs : List Id) : ∀ (y : Sys), Good y.s → (∀ g ∈ gs, y.s.hasG g = true) →
    (koGenes gs y).s.gf = gfAfter y.s.gf gs ∧
    (∀ r, y.s.hasR r = true →
      ((koGenes gs y).s.lb r, (koGenes gs y).s.ub r) =
        if (∃ g ∈ gs, y.s.gr g r = true) ∧ functional (withGf y.s (gfAfter y.s.gf gs)) r = false then (EB.zero, EB.zero)
        else (y.s.lb r, y.s.ub r)) ∧
    (∀ r, functional (koGenes gs y).s r = functional (withGf y.s (gfAfter y.s.gf gs)) r) := by
  induction gs with
  | nil =>
    intro y _ _
    have hgf : gfAfter y.s.gf [] = y.s.gf := by funext x; simp [gfAfter]
    refine ⟨by simp [koGenes, hgf], ?_, ?_⟩
    · intro r _; simp [koGenes]
    · intro r; simp only [koGenes, hgf]; rfl
  | cons g gs ih =>
    intro y gd hall
    have hg : y.s.hasG g = true := hall g (by simp)
    have w := gd.wf
    obtain ⟨e1, e2, e3⟩ := koGene_effect y w g hg
    obtain ⟨f1, f2, f3, f4⟩ := koGene_fields y g
    have gd1 : Good (koGene y g).s := (koGene_step y gd g hg).1
    have hall1 : ∀ g' ∈ gs, (koGene y g).s.hasG g' = true := fun g' hg' => by
      rw [koGene_hasG]; exact hall g' (List.mem_cons_of_mem _ hg')
    obtain ⟨i1, i2, i3⟩ := ih (koGene y g) gd1 hall1
    have hgf : gfAfter (koGene y g).s.gf gs = gfAfter y.s.gf (g :: gs) := by rw [e1, gfAfter_cons]
    -- `functional` on the intermediate state with the final gene states = the same on the initial state
    have hfun : ∀ r, functional (withGf (koGene y g).s (gfAfter y.s.gf (g :: gs))) r = functional (withGf y.s (gfAfter y.s.gf (g :: gs))) r := by
      intro r; unfold functional withGf; simp only [f2, f4]
    have hF1 : ∀ r, functional (markKO y.s g) r = functional (withGf y.s (upd y.s.gf g false)) r := fun r => rfl
    refine ⟨by simp only [koGenes]; rw [i1, hgf], ?_, ?_⟩
    · intro r hr
      have hr1 : (koGene y g).s.hasR r = true := by rw [f1]; exact hr
      have h2 := i2 r hr1
      simp only [koGenes]
      rw [h2, hgf, hfun r, f3]
      have h1 := e2 r hr
      by_cases ha : (∃ g' ∈ gs, y.s.gr g' r = true) ∧ functional (withGf y.s (gfAfter y.s.gf (g :: gs))) r = false
      · have hb : (∃ g' ∈ g :: gs, y.s.gr g' r = true) ∧ functional (withGf y.s (gfAfter y.s.gf (g :: gs))) r = false := by
          obtain ⟨⟨g', hg', hl⟩, hf⟩ := ha
          exact ⟨⟨g', List.mem_cons_of_mem _ hg', hl⟩, hf⟩
        rw [if_pos ha, if_pos hb]
      · rw [if_neg ha]
        have hlb : ((koGene y g).s.lb r, (koGene y g).s.ub r) = _ := h1
        rw [hlb]
        by_cases hb1 : y.s.gr g r = true ∧ functional (markKO y.s g) r = false
        · rw [if_pos hb1]
          have hfin : functional (withGf y.s (gfAfter y.s.gf (g :: gs))) r = false := by
            apply functional_mono y.s (upd y.s.gf g false) _ r _ (by rw [← hF1]; exact hb1.2)
            intro x hx
            rw [← gfAfter_cons] at hx
            simp only [gfAfter, Bool.and_eq_true] at hx
            exact hx.1
          rw [if_pos ⟨⟨g, by simp, hb1.1⟩, hfin⟩]
        · rw [if_neg hb1]
          have : ¬ ((∃ g' ∈ g :: gs, y.s.gr g' r = true) ∧ functional (withGf y.s (gfAfter y.s.gf (g :: gs))) r = false) := by
            rintro ⟨⟨g', hg', hl⟩, hf⟩
            -- no gene of `gs` is linked to r (else case `ha`)
            have hno : ∀ x ∈ gs, y.s.gr x r = false := by
              intro x hx
              cases hgr : y.s.gr x r with
              | false => rfl
              | true => exact absurd ⟨⟨x, hx, hgr⟩, hf⟩ ha
            have hgl : y.s.gr g r = true := by
              rcases List.mem_cons.mp hg' with rfl | hin
              · exact hl
              · rw [hno g' hin] at hl; cases hl
            -- on r's genes the final states are those after the first knock-out
            have heq : functional (withGf y.s (gfAfter y.s.gf (g :: gs))) r = functional (withGf y.s (upd y.s.gf g false)) r := by
              apply functional_congr
              intro x hx
              rw [← gfAfter_cons]
              simp only [gfAfter]
              have hxg : y.s.hasG x = true := w.rg_has r x hr hx
              have : gs.contains x = false := by
                cases hc : gs.contains x with
                | false => rfl
                | true =>
                  have hmem : x ∈ gs := by simpa using hc
                  have := (w.gr_iff x r hxg hr).mpr hx
                  rw [hno x hmem] at this; cases this
              rw [this]; simp
            rw [heq, ← hF1] at hf
            exact hb1 ⟨hgl, hf⟩
          rw [if_neg this]
    · intro r
      simp only [koGenes]
      rw [i3 r, hgf, hfun r]

end Core

import CobraModel.Model.GPR
/-! Helper lemmas for the GPR model (core Lean only). -/
namespace GPRM

mutual
/-- well-formed: every operator node has at least two operands (what the parser produces) -/
def G.wf : G → Bool
  | .name _ => true
  | .and cs => decide (2 ≤ cs.length) && GL.wf cs
  | .or cs => decide (2 ≤ cs.length) && GL.wf cs
def GL.wf : GL → Bool
  | .nil => true
  | .cons g t => G.wf g && GL.wf t
end

/-! ### evaluation -/
mutual
theorem eval_mono (ko ko' : String → Bool) (h : ∀ s, ko s = true → ko' s = true) :
    (g : G) → eval ko' g = true → eval ko g = true
  | .name s => by
      simp only [eval, Bool.not_eq_true']
      intro h1
      cases hk : ko s with
      | false => rfl
      | true => rw [h s hk] at h1; cases h1
  | .and cs => by simpa [eval] using evalAll_mono ko ko' h cs
  | .or cs => by simpa [eval] using evalAny_mono ko ko' h cs
theorem evalAll_mono (ko ko' : String → Bool) (h : ∀ s, ko s = true → ko' s = true) :
    (l : GL) → evalAll ko' l = true → evalAll ko l = true
  | .nil => by simp [evalAll]
  | .cons g t => by
      simp only [evalAll, Bool.and_eq_true]
      exact fun ⟨a, b⟩ => ⟨eval_mono ko ko' h g a, evalAll_mono ko ko' h t b⟩
theorem evalAny_mono (ko ko' : String → Bool) (h : ∀ s, ko s = true → ko' s = true) :
    (l : GL) → evalAny ko' l = true → evalAny ko l = true
  | .nil => by simp [evalAny]
  | .cons g t => by
      simp only [evalAny, Bool.or_eq_true]
      exact fun h1 => h1.elim (fun a => .inl (eval_mono ko ko' h g a)) (fun b => .inr (evalAny_mono ko ko' h t b))
end

mutual
theorem eval_none : (g : G) → G.wf g = true → eval (fun _ => false) g = true
  | .name _, _ => by simp [eval]
  | .and cs, h => by
      simp only [G.wf, Bool.and_eq_true] at h
      simpa [eval] using evalAll_none cs h.2
  | .or cs, h => by
      simp only [G.wf, Bool.and_eq_true, decide_eq_true_eq] at h
      simpa [eval] using evalAny_none cs (by omega) h.2
theorem evalAll_none : (l : GL) → GL.wf l = true → evalAll (fun _ => false) l = true
  | .nil, _ => by simp [evalAll]
  | .cons g t, h => by
      simp only [GL.wf, Bool.and_eq_true] at h
      simp [evalAll, eval_none g h.1, evalAll_none t h.2]
theorem evalAny_none : (l : GL) → 1 ≤ l.length → GL.wf l = true → evalAny (fun _ => false) l = true
  | .nil, h, _ => by simp [GL.length] at h
  | .cons g t, _, h => by
      simp only [GL.wf, Bool.and_eq_true] at h
      simp [evalAny, eval_none g h.1]
end

mutual
/-- the value depends only on the genes occurring in the rule -/
theorem eval_congr (ko ko' : String → Bool) : (g : G) → (∀ s ∈ genes g, ko s = ko' s) → eval ko g = eval ko' g
  | .name s, h => by simp [eval, h s (by simp [genes])]
  | .and cs, h => by simpa [eval] using evalAll_congr ko ko' cs (by simpa [genes] using h)
  | .or cs, h => by simpa [eval] using evalAny_congr ko ko' cs (by simpa [genes] using h)
theorem evalAll_congr (ko ko' : String → Bool) : (l : GL) → (∀ s ∈ genesL l, ko s = ko' s) → evalAll ko l = evalAll ko' l
  | .nil, _ => by simp [evalAll]
  | .cons g t, h => by
      simp only [evalAll]
      rw [eval_congr ko ko' g (fun s hs => h s (by simp [genesL, hs])),
          evalAll_congr ko ko' t (fun s hs => h s (by simp [genesL, hs]))]
theorem evalAny_congr (ko ko' : String → Bool) : (l : GL) → (∀ s ∈ genesL l, ko s = ko' s) → evalAny ko l = evalAny ko' l
  | .nil, _ => by simp [evalAny]
  | .cons g t, h => by
      simp only [evalAny]
      rw [eval_congr ko ko' g (fun s hs => h s (by simp [genesL, hs])),
          evalAny_congr ko ko' t (fun s hs => h s (by simp [genesL, hs]))]
end

mutual
theorem eval_rename (f : String → String) (ko : String → Bool) : (g : G) → eval ko (rename f g) = eval (fun s => ko (f s)) g
  | .name s => by simp [rename, eval]
  | .and cs => by simpa [rename, eval] using evalAll_rename f ko cs
  | .or cs => by simpa [rename, eval] using evalAny_rename f ko cs
theorem evalAll_rename (f : String → String) (ko : String → Bool) : (l : GL) → evalAll ko (renameL f l) = evalAll (fun s => ko (f s)) l
  | .nil => by simp [renameL, evalAll]
  | .cons g t => by simp [renameL, evalAll, eval_rename f ko g, evalAll_rename f ko t]
theorem evalAny_rename (f : String → String) (ko : String → Bool) : (l : GL) → evalAny ko (renameL f l) = evalAny (fun s => ko (f s)) l
  | .nil => by simp [renameL, evalAny]
  | .cons g t => by simp [renameL, evalAny, eval_rename f ko g, evalAny_rename f ko t]
end

/-! ### `_GeneRemover` -/

/-- knock-outs `ko` together with the removed genes `ks` -/
def both (ko ks : String → Bool) : String → Bool := fun s => ko s || ks s

theorem removeL_length_le (ks : String → Bool) : (l : GL) → (removeL ks l).length ≤ l.length
  | .nil => by simp [removeL, GL.length]
  | .cons g t => by
      have := removeL_length_le ks t
      simp only [removeL]
      split <;> simp only [GL.length] <;> omega

mutual
/-- the remover only drops genes: what is left mentions genes of the old rule, none of them removed -/
theorem genes_remove (ks : String → Bool) : (g : G) → ∀ g', remove ks g = some g' → ∀ x ∈ genes g', x ∈ genes g ∧ ks x = false
  | .name s => by
      intro g' h x hx
      simp only [remove] at h
      split at h
      · cases h
      · rename_i hk
        cases h
        simp only [genes, List.mem_singleton] at hx
        subst hx
        exact ⟨by simp [genes], by simpa using hk⟩
  | .and cs => by
      intro g' h x hx
      have ih := genesL_remove ks cs
      simp only [remove] at h
      split at h
      · cases h
      · split at h
        · cases h
        · split at h
          · rename_i g1 heq
            cases h
            exact ih x (by rw [heq]; simp [genesL, hx])
          · cases h
            exact ih x (by simpa [genes] using hx)
  | .or cs => by
      intro g' h x hx
      have ih := genesL_remove ks cs
      simp only [remove] at h
      split at h
      · cases h
      · rename_i g1 heq
        cases h
        exact ih x (by rw [heq]; simp [genesL, hx])
      · cases h
        exact ih x (by simpa [genes] using hx)
theorem genesL_remove (ks : String → Bool) : (l : GL) → ∀ x ∈ genesL (removeL ks l), x ∈ genesL l ∧ ks x = false
  | .nil => by intro x hx; simp [removeL, genesL] at hx
  | .cons g t => by
      intro x hx
      have iht := genesL_remove ks t
      simp only [removeL] at hx
      split at hx
      · obtain ⟨a, b⟩ := iht x hx
        exact ⟨by simp [genesL, a], b⟩
      · rename_i g' hg
        simp only [genesL, List.mem_append] at hx
        rcases hx with hx | hx
        · obtain ⟨a, b⟩ := genes_remove ks g g' hg x hx
          exact ⟨by simp [genesL, a], b⟩
        · obtain ⟨a, b⟩ := iht x hx
          exact ⟨by simp [genesL, a], b⟩
end

mutual
theorem remove_spec (ks ko : String → Bool) : (g : G) → G.wf g = true →
    (∀ g', remove ks g = some g' → eval ko g' = eval (both ko ks) g) ∧
    (remove ks g = none → eval (both ko ks) g = false)
  | .name s, _ => by
      constructor
      · intro g' h
        simp only [remove] at h
        split at h
        · cases h
        · injection h with h; subst h; simp_all [eval, both]
      · intro h
        simp only [remove] at h
        split at h
        · simp_all [eval, both]
        · cases h
  | .and cs, hw => by
      simp only [G.wf, Bool.and_eq_true, decide_eq_true_eq] at hw
      have hall := removeL_all ks ko cs hw.2
      have hlen := removeL_length_le ks cs
      simp only [remove, eval]
      constructor
      · intro g' h
        split at h
        · cases h
        · split at h
          · cases h
          · have heq : (removeL ks cs).length = cs.length := by omega
            rw [← hall.1 heq]
            split at h
            · rename_i g1 hg1
              injection h with h; subst h
              simp [hg1, evalAll]
            · injection h with h; subst h; simp [eval]
      · intro h
        split at h
        · exact hall.2 (by omega)
        · split at h
          · rename_i hlt; exact hall.2 hlt
          · split at h <;> cases h
  | .or cs, hw => by
      simp only [G.wf, Bool.and_eq_true, decide_eq_true_eq] at hw
      have hany := removeL_any ks ko cs hw.2
      simp only [remove, eval]
      constructor
      · intro g' h
        rw [← hany]
        split at h
        · cases h
        · rename_i g1 hg1
          injection h with h; subst h
          simp [hg1, evalAny]
        · injection h with h; subst h; simp [eval]
      · intro h
        rw [← hany]
        split at h
        · rename_i hn; simp [hn, evalAny]
        · cases h
        · cases h
theorem removeL_all (ks ko : String → Bool) : (l : GL) → GL.wf l = true →
    ((removeL ks l).length = l.length → evalAll ko (removeL ks l) = evalAll (both ko ks) l) ∧
    ((removeL ks l).length < l.length → evalAll (both ko ks) l = false)
  | .nil, _ => by simp [removeL, evalAll, GL.length]
  | .cons g t, hw => by
      simp only [GL.wf, Bool.and_eq_true] at hw
      have hg := remove_spec ks ko g hw.1
      have ht := removeL_all ks ko t hw.2
      have hlen := removeL_length_le ks t
      simp only [removeL]
      cases hr : remove ks g with
      | none =>
        simp only [GL.length, evalAll]
        constructor
        · intro h; omega
        · intro _; simp [hg.2 hr]
      | some g' =>
        simp only [GL.length, evalAll]
        constructor
        · intro h
          rw [hg.1 g' hr, ht.1 (by omega)]
        · intro h
          simp [ht.2 (by omega)]
theorem removeL_any (ks ko : String → Bool) : (l : GL) → GL.wf l = true →
    evalAny ko (removeL ks l) = evalAny (both ko ks) l
  | .nil, _ => by simp [removeL, evalAny]
  | .cons g t, hw => by
      simp only [GL.wf, Bool.and_eq_true] at hw
      have hg := remove_spec ks ko g hw.1
      have ht := removeL_any ks ko t hw.2
      simp only [removeL]
      cases hr : remove ks g with
      | none => simp [evalAny, hg.2 hr, ht]
      | some g' => simp [evalAny, hg.1 g' hr, ht]
end

end GPRM

namespace GPRM


theorem feed_append (st : List Frame) (a b : List Tok) :
    feed st (a ++ b) = (feed st a).bind (fun st' => feed st' b) := by
  induction a generalizing st with
  | nil => simp [feed]
  | cons t ts ih =>
    simp only [List.cons_append, feed]
    cases feed1 st t with
    | none => simp
    | some st' => simpa using ih st'

theorem ofList_toList : (l : GL) → GL.ofList l.toList = l
  | .nil => rfl
  | .cons g t => by simp [GL.toList, GL.ofList, ofList_toList t]

theorem toList_length : (l : GL) → l.toList.length = l.length
  | .nil => rfl
  | .cons g t => by simp [GL.toList, GL.length, toList_length t]

def pushAnd (F : Frame) (g : G) : Frame :=
  { F with andDone := g :: F.andDone, bor := none, band := none, cur := none }
def pushOr (F : Frame) (g : G) : Frame :=
  { F with orDone := g :: F.orDone, andDone := [], bor := none, band := none, cur := none }

def afterAnd : Frame → GL → Frame
  | F, .nil => F
  | F, .cons g .nil => { F with cur := some g }
  | F, .cons g t => afterAnd (pushAnd F g) t
def afterOr : Frame → GL → Frame
  | F, .nil => F
  | F, .cons g .nil => { F with cur := some g }
  | F, .cons g t => afterOr (pushOr F g) t

/-- a frame that is waiting for the first operand of an `and`/`or` chain -/
def Fresh (F : Frame) : Prop := F.cur = none ∧ F.bor = none ∧ F.band = none

theorem mkN_two (isAnd : Bool) (l : List G) (h : 2 ≤ l.length) :
    mkN isAnd l = some (if isAnd then .and (GL.ofList l) else .or (GL.ofList l)) := by
  match l, h with
  | a :: b :: t, _ => simp [mkN]

theorem afterAnd_close : (cs : GL) → (F : Frame) → Fresh F → 1 ≤ cs.length →
    (afterAnd F cs).closeAnd = mkN true (F.andDone.reverse ++ cs.toList) ∧ (afterAnd F cs).orDone = F.orDone
  | .nil, _, _, hne => by simp [GL.length] at hne
  | .cons g .nil, F, hF, _ => by
      obtain ⟨h1, h2, h3⟩ := hF
      simp [afterAnd, Frame.closeAnd, Frame.closeBor, Frame.closeBand, h2, h3, GL.toList]
  | .cons g (.cons g2 t2), F, _, _ => by
      have := afterAnd_close (.cons g2 t2) (pushAnd F g) ⟨rfl, rfl, rfl⟩ (by simp [GL.length])
      simp only [afterAnd]
      rw [this.1, this.2]
      simp [pushAnd, GL.toList]

theorem afterOr_close : (cs : GL) → (F : Frame) → Fresh F → F.andDone = [] → 1 ≤ cs.length →
    (afterOr F cs).closeOr = mkN false (F.orDone.reverse ++ cs.toList)
  | .nil, _, _, _, hne => by simp [GL.length] at hne
  | .cons g .nil, F, hF, ha, _ => by
      obtain ⟨h1, h2, h3⟩ := hF
      simp [afterOr, Frame.closeOr, Frame.closeAnd, Frame.closeBor, Frame.closeBand, h2, h3, ha, GL.toList, mkN]
  | .cons g (.cons g2 t2), F, _, _, _ => by
      have := afterOr_close (.cons g2 t2) (pushOr F g) ⟨rfl, rfl, rfl⟩ rfl (by simp [GL.length])
      simp only [afterOr]
      rw [this]
      simp [pushOr, GL.toList]

mutual
theorem feed_atom : (g : G) → G.wf g = true → ∀ (top : Frame) (rest : List Frame) (more : List Tok),
    top.cur = none → feed (top :: rest) (atomToks g ++ more) = feed ({ top with cur := some g } :: rest) more
  | .name s, _, top, rest, more, hc => by
      simp [atomToks, feed, feed1, hc]
  | .and cs, hw, top, rest, more, hc => by
      simp only [G.wf, Bool.and_eq_true, decide_eq_true_eq] at hw
      simp only [atomToks, List.cons_append, List.append_assoc, feed, feed1, hc, Option.isNone_none, if_true]
      rw [feed_and cs hw.2 (by omega) {} (top :: rest) _ ⟨rfl, rfl, rfl⟩]
      have hcl := afterAnd_close cs {} ⟨rfl, rfl, rfl⟩ (by omega)
      simp only [feed, feed1, Frame.closeOr, hcl.1, hcl.2]
      rw [mkN_two true _ (by simp [toList_length]; omega)]
      simp [mkN, ofList_toList]
  | .or cs, hw, top, rest, more, hc => by
      simp only [G.wf, Bool.and_eq_true, decide_eq_true_eq] at hw
      simp only [atomToks, List.cons_append, List.append_assoc, feed, feed1, hc, Option.isNone_none, if_true]
      rw [feed_or cs hw.2 (by omega) {} (top :: rest) _ ⟨rfl, rfl, rfl⟩ rfl]
      have hcl := afterOr_close cs {} ⟨rfl, rfl, rfl⟩ rfl (by omega)
      simp only [feed, feed1, hcl]
      rw [mkN_two false _ (by simp [toList_length]; omega)]
      simp [ofList_toList]
theorem feed_and : (cs : GL) → GL.wf cs = true → 1 ≤ cs.length → ∀ (F : Frame) (st : List Frame) (more : List Tok),
    Fresh F → feed (F :: st) (sepToks .kand cs ++ more) = feed (afterAnd F cs :: st) more
  | .nil, _, hne, _, _, _, _ => by simp [GL.length] at hne
  | .cons g .nil, hw, _, F, st, more, hF => by
      simp only [GL.wf, Bool.and_eq_true] at hw
      simp only [sepToks, afterAnd]
      exact feed_atom g hw.1 F st more hF.1
  | .cons g (.cons g2 t), hw, _, F, st, more, hF => by
      simp only [GL.wf, Bool.and_eq_true] at hw
      obtain ⟨h1, h2, h3⟩ := hF
      simp only [sepToks, afterAnd, List.append_assoc, List.cons_append]
      rw [feed_atom g hw.1 F st _ h1]
      simp only [feed, feed1, Frame.closeBor, Frame.closeBand, h2, h3]
      exact feed_and (.cons g2 t) (by simp [GL.wf, hw.2]) (by simp [GL.length]) (pushAnd F g) st more ⟨rfl, rfl, rfl⟩
theorem feed_or : (cs : GL) → GL.wf cs = true → 1 ≤ cs.length → ∀ (F : Frame) (st : List Frame) (more : List Tok),
    Fresh F → F.andDone = [] → feed (F :: st) (sepToks .kor cs ++ more) = feed (afterOr F cs :: st) more
  | .nil, _, hne, _, _, _, _, _ => by simp [GL.length] at hne
  | .cons g .nil, hw, _, F, st, more, hF, _ => by
      simp only [GL.wf, Bool.and_eq_true] at hw
      simp only [sepToks, afterOr]
      exact feed_atom g hw.1 F st more hF.1
  | .cons g (.cons g2 t), hw, _, F, st, more, hF, ha => by
      simp only [GL.wf, Bool.and_eq_true] at hw
      obtain ⟨h1, h2, h3⟩ := hF
      simp only [sepToks, afterOr, List.append_assoc, List.cons_append]
      rw [feed_atom g hw.1 F st _ h1]
      simp only [feed, feed1, Frame.closeAnd, Frame.closeBor, Frame.closeBand, h2, h3, ha]
      simp only [List.reverse_cons, List.reverse_nil, List.nil_append, mkN]
      exact feed_or (.cons g2 t) (by simp [GL.wf, hw.2]) (by simp [GL.length]) (pushOr F g) st more ⟨rfl, rfl, rfl⟩ rfl
end


/-- **print/parse round trip on tokens**: parsing the tokens of the text form returns the rule -/
theorem parse_toks0 (g : G) (hw : G.wf g = true) : parseToks (toks0 g) = some g := by
  unfold parseToks
  cases g with
  | name s => simp [toks0, feed, feed1, Frame.closeOr, Frame.closeAnd, Frame.closeBor, Frame.closeBand, mkN]
  | and cs =>
    simp only [G.wf, Bool.and_eq_true, decide_eq_true_eq] at hw
    have h := feed_and cs hw.2 (by omega) {} [] [] ⟨rfl, rfl, rfl⟩
    simp only [List.append_nil] at h
    have hcl := afterAnd_close cs {} ⟨rfl, rfl, rfl⟩ (by omega)
    simp only [toks0, h, feed, Frame.closeOr, hcl.1, hcl.2]
    rw [mkN_two true _ (by simp [toList_length]; omega)]
    simp [mkN, ofList_toList]
  | or cs =>
    simp only [G.wf, Bool.and_eq_true, decide_eq_true_eq] at hw
    have h := feed_or cs hw.2 (by omega) {} [] [] ⟨rfl, rfl, rfl⟩ rfl
    simp only [List.append_nil] at h
    have hcl := afterOr_close cs {} ⟨rfl, rfl, rfl⟩ rfl (by omega)
    simp only [toks0, h, feed, hcl]
    rw [mkN_two false _ (by simp [toList_length]; omega)]
    simp [ofList_toList]


end GPRM

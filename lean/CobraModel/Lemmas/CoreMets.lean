import CobraModel.Lemmas.CoreBase
import CobraModel.Lemmas.GPR
/-!
Metabolites joining and leaving the model, scaling a reaction: each keeps `Good`, and what it records on the context stack undoes it.
-/
namespace Core
open GPRM

/-! ### the slot of a metabolite -/

theorem putMetSlot_restore (s : St) (m : Id) (k : MetSlot) :
    putMetSlot (putMetSlot s m k) m (getMetSlot s m) = s := by
  apply St.ext' <;> try rfl
  · funext x; simp only [putMetSlot, getMetSlot, upd]; by_cases h : x = m <;> simp [h]
  · funext x r; simp only [putMetSlot, getMetSlot]; by_cases h : x = m <;> simp [h]
  · funext x; simp only [putMetSlot, getMetSlot, upd]; by_cases h : x = m <;> simp [h]
  · funext x v; simp only [putMetSlot, getMetSlot]; by_cases h : x = m <;> simp [h]

/-! ### a new metabolite -/

theorem addMetRaw_good {s : St} (g : Good s) (m : Id) (hm : s.hasM m = false) : Good (addMetRaw s m) := by
  have ns := g.ns
  have w := g.wf
  have sy := g.sync
  have hc : s.hasC m = false := by
    cases h : s.hasC m with
    | false => rfl
    | true => rw [(sy.rows m).mp h] at hm; cases hm
  have hst : ∀ r, s.hasR r = true → s.st r m = 0 := by
    intro r hr
    apply Classical.byContradiction
    intro h
    rw [w.st_has r m hr h] at hm; cases hm
  refine ⟨⟨ns.rev_ne, ns.rev_inj⟩, ?_, ?_⟩
  · constructor
    · intro x r hx hr
      simp only [addMetRaw, putMetSlot, upd] at hx ⊢
      by_cases hxm : x = m
      · subst hxm; simp [hst r hr]
      · simp only [hxm, if_false] at hx ⊢; exact w.mr_iff x r hx hr
    · intro r x hr h
      simp only [addMetRaw, putMetSlot, upd]
      by_cases hxm : x = m
      · simp [hxm]
      · simp only [hxm, if_false]; exact w.st_has r x hr h
    · exact w.rg_rule
    · exact w.gr_iff
    · exact w.rg_has
    · exact w.bounds
    · exact w.inUniv
    · exact w.gr_has
    · intro x r hx h
      simp only [addMetRaw, putMetSlot, upd] at hx h ⊢
      by_cases hxm : x = m
      · simp [hxm] at h
      · simp only [hxm, if_false] at hx h; exact w.mr_has x r hx h
  · constructor
    · exact sy.vars
    · exact sy.box
    · intro x
      simp only [addMetRaw, putMetSlot, upd]
      by_cases hxm : x = m
      · simp [hxm]
      · simp only [hxm, if_false]; exact sy.rows x
    · intro x r hx hr
      simp only [addMetRaw, putMetSlot, upd] at hx ⊢
      by_cases hxm : x = m
      · subst hxm; simp [hc, hst r hr]
      · simp only [hxm, if_false] at hx ⊢; exact sy.coef x r hx hr
    · exact sy.objrev

theorem addMet_step (y : Sys) (g : Good y.s) (m : Id) (hm : y.s.hasM m = false) : Step y (addMet y m) := by
  have hgood := addMetRaw_good g m hm
  unfold addMet
  cases hc : y.ctx with
  | nil =>
    have hin : inCtx y = false := by simp [inCtx, hc]
    simp only [hin, Bool.false_eq_true, if_false]
    exact ⟨hgood, by simp [hc]⟩
  | cons c cs =>
    have hin : inCtx y = true := by simp [inCtx, hc]
    simp only [hin, if_true, push]
    refine ⟨hgood, ?_⟩
    simp only [hc]
    refine ⟨[.putMetSlot m (getMetSlot y.s m)], by simp, ?_⟩
    simp only [Undoes, replay, runUndo, addMetRaw, putMetSlot_restore]

/-- what `add_metabolites([Metabolite(m)])` does, and what it leaves alone -/
theorem addMet_effect (y : Sys) (m : Id) :
    let s' := (addMet y m).s
    s'.hasM m = true ∧ s'.hasC m = true ∧ (∀ r, s'.mr m r = false) ∧ (y.s.hasC m = false → ∀ v, s'.co m v = 0) ∧
    (∀ x, x ≠ m → s'.hasM x = y.s.hasM x ∧ s'.hasC x = y.s.hasC x ∧ s'.co x = y.s.co x ∧ s'.mr x = y.s.mr x) ∧
    s'.hasR = y.s.hasR ∧ s'.hasG = y.s.hasG ∧ s'.lb = y.s.lb ∧ s'.ub = y.s.ub ∧ s'.st = y.s.st ∧ s'.rule = y.s.rule ∧ s'.gf = y.s.gf ∧
    s'.hasV = y.s.hasV ∧ s'.vlb = y.s.vlb ∧ s'.vub = y.s.vub ∧ s'.obj = y.s.obj ∧ s'.dirMax = y.s.dirMax := by
  have hs : (addMet y m).s = addMetRaw y.s m := by
    unfold addMet; split <;> rfl
  show _ ∧ _
  rw [hs]
  refine ⟨by simp [addMetRaw, putMetSlot, upd], by simp [addMetRaw, putMetSlot, upd], fun r => by simp [addMetRaw, putMetSlot],
    fun h v => by simp [addMetRaw, putMetSlot, h], fun x hx => ⟨by simp [addMetRaw, putMetSlot, upd, hx], by simp [addMetRaw, putMetSlot, upd, hx],
      by funext v; simp [addMetRaw, putMetSlot, hx], by funext v; simp [addMetRaw, putMetSlot, hx]⟩,
    rfl, rfl, rfl, rfl, rfl, rfl, rfl, rfl, rfl, rfl, rfl, rfl⟩

/-! ### a metabolite leaves the model -/

theorem dropMetRaw_good {s : St} (g : Good s) (m : Id) (hz : ∀ r, s.hasR r = true → s.st r m = 0) : Good (dropMetRaw s m) := by
  have ns := g.ns
  have w := g.wf
  have sy := g.sync
  have hM : ∀ x, (dropMetRaw s m).hasM x = true → s.hasM x = true ∧ x ≠ m := by
    intro x hx
    simp only [dropMetRaw, putMetSlot, upd] at hx
    by_cases hxm : x = m
    · simp [hxm] at hx
    · simp only [hxm, if_false] at hx; exact ⟨hx, hxm⟩
  refine ⟨⟨ns.rev_ne, ns.rev_inj⟩, ?_, ?_⟩
  · constructor
    · intro x r hx hr
      obtain ⟨hx1, hx2⟩ := hM x hx
      have := w.mr_iff x r hx1 hr
      simpa [dropMetRaw, putMetSlot, hx2] using this
    · intro r x hr h
      have hxm : x ≠ m := fun e => h (e ▸ hz r hr)
      have := w.st_has r x hr h
      simp [dropMetRaw, putMetSlot, upd, hxm, this]
    · exact w.rg_rule
    · exact w.gr_iff
    · exact w.rg_has
    · exact w.bounds
    · exact w.inUniv
    · exact w.gr_has
    · intro x r hx h
      obtain ⟨hx1, hx2⟩ := hM x hx
      have h' : s.mr x r = true := by simpa [dropMetRaw, putMetSlot, hx2] using h
      exact w.mr_has x r hx1 h'
  · constructor
    · exact sy.vars
    · exact sy.box
    · intro x
      simp only [dropMetRaw, putMetSlot, upd]
      by_cases hxm : x = m
      · simp [hxm]
      · simp only [hxm, if_false]; exact sy.rows x
    · intro x r hx hr
      obtain ⟨hx1, hx2⟩ := hM x hx
      have := sy.coef x r hx1 hr
      simpa [dropMetRaw, putMetSlot, hx2] using this
    · exact sy.objrev

/-- the state after `subtract_metabolites({m: c})` on a metabolite of the model -/
theorem addMets_single_s (y : Sys) (r m : Id) (c : Rat) (hm : y.s.hasM m = true) :
    (addMets y r [(m, c)] true true).1.s = addMetsRaw y.s r [(m, -c)] true := by
  unfold addMets
  simp only [if_true, List.map_cons, List.map_nil, List.any_cons, List.any_nil, hm, Bool.not_true, Bool.or_false,
    Bool.false_eq_true, if_false]
  split
  · unfold push; split <;> rfl
  · rfl

theorem keysNodup_single (m : Id) (c : Rat) : keysNodup [(m, c)] := by simp [keysNodup]

theorem rmMetLoop_step (m : Id) (rs : List Id) (y : Sys) (g : Good y.s) (hm : y.s.hasM m = true) :
    Step y (rmMetLoop m rs y) ∧ (rmMetLoop m rs y).s.hasM = y.s.hasM ∧ (rmMetLoop m rs y).s.hasR = y.s.hasR ∧
    (∀ r, y.s.st r m = 0 → (rmMetLoop m rs y).s.st r m = 0) ∧
    (∀ r ∈ rs, y.s.hasR r = true → (rmMetLoop m rs y).s.st r m = 0) ∧
    (∀ r x, x ≠ m → (rmMetLoop m rs y).s.st r x = y.s.st r x) := by
  induction rs generalizing y with
  | nil => exact ⟨Step.refl g, rfl, rfl, fun _ h => h, fun r hr => (by cases hr), fun _ _ _ => rfl⟩
  | cons r rs ih =>
    simp only [rmMetLoop]
    split
    · rename_i hmr
      have hr : y.s.hasR r = true := g.wf.mr_has m r hm hmr
      have hstep := addMets_step y g r hr [(m, y.s.st r m)] true true (keysNodup_single _ _)
      have hs := addMets_single_s y r m (y.s.st r m) hm
      generalize hy1 : (addMets y r [(m, y.s.st r m)] true true).1 = y1 at hstep hs
      have hst : ∀ r' x, y1.s.st r' x = if r' = r ∧ x = m then 0 else y.s.st r' x := by
        intro r' x
        rw [hs, addMets_st _ _ _ _ (keysNodup_single _ _)]
        by_cases hrr : r' = r
        · subst hrr
          by_cases hxm : x = m
          · subst hxm
            simp only [List.find?_cons, beq_self_eq_true, if_true, and_self]
            by_cases h0 : y.s.st r' x = 0
            · simp [h0]
            · simp only [ne_eq, h0, not_false_eq_true, and_self, if_true]
              exact Rat.add_neg_cancel _
          · have : ((m == x) = false) := by simpa using fun e => hxm e.symm
            simp [List.find?_cons, this, hxm]
        · simp [hrr]
      have hM1 : y1.s.hasM = y.s.hasM := by rw [hs]; exact (addMets_static _ _ _ _).2.1
      have hR1 : y1.s.hasR = y.s.hasR := by rw [hs]; exact (addMets_static _ _ _ _).1
      obtain ⟨i1, i2, i3, i4, i5, i6⟩ := ih y1 hstep.1 (by rw [hM1]; exact hm)
      refine ⟨hstep.trans i1, by rw [i2, hM1], by rw [i3, hR1], ?_, ?_, ?_⟩
      · intro r' h0
        apply i4
        rw [hst]; split
        · rfl
        · exact h0
      · intro r' hmem hr'
        rcases List.mem_cons.1 hmem with e | hmem
        · subst e; apply i4; rw [hst]; simp
        · exact i5 r' hmem (by rw [hR1]; exact hr')
      · intro r' x hx
        rw [i6 r' x hx, hst]; simp [hx]
    · rename_i hmr
      obtain ⟨i1, i2, i3, i4, i5, i6⟩ := ih y g hm
      refine ⟨i1, i2, i3, i4, ?_, i6⟩
      intro r' hmem hr'
      rcases List.mem_cons.1 hmem with e | hmem
      · subst e
        apply i4
        have := g.wf.mr_iff m r' hm hr'
        apply Classical.byContradiction
        intro h
        exact hmr (this.2 h)
      · exact i5 r' hmem hr'

theorem push_s (y : Sys) (u : Undo) : (push y u).s = y.s := by
  unfold push; split <;> rfl

theorem addMets_hasG (y : Sys) (r : Id) (ps : List (Id × Rat)) (c n : Bool) : (addMets y r ps c n).1.s.hasG = y.s.hasG := by
  unfold addMets
  simp only []
  repeat' split
  all_goals first | rfl | (simp only [push_s]; rfl)

theorem rmMetLoop_hasG (m : Id) (rs : List Id) (y : Sys) : (rmMetLoop m rs y).s.hasG = y.s.hasG := by
  induction rs generalizing y with
  | nil => rfl
  | cons r rs ih =>
    simp only [rmMetLoop]
    split
    · rw [ih, addMets_hasG]
    · exact ih y

theorem rmMet_step (y : Sys) (g : Good y.s) (m : Id) (hm : y.s.hasM m = true) : Step y (rmMet y m) := by
  obtain ⟨i1, i2, i3, i4, i5, _⟩ := rmMetLoop_step m y.s.univR y g hm
  unfold rmMet
  generalize rmMetLoop m y.s.univR y = y1 at *
  have hz : ∀ r, y1.s.hasR r = true → y1.s.st r m = 0 := by
    intro r hr
    rw [i3] at hr
    exact i5 r (g.wf.inUniv r hr) hr
  have hgood := dropMetRaw_good i1.1 m hz
  refine i1.trans ?_
  cases hc : y1.ctx with
  | nil =>
    have hin : inCtx y1 = false := by simp [inCtx, hc]
    simp only [hin, Bool.false_eq_true, if_false]
    exact ⟨hgood, by simp [hc]⟩
  | cons c cs =>
    have hin : inCtx y1 = true := by simp [inCtx, hc]
    simp only [hin, if_true, push]
    refine ⟨hgood, ?_⟩
    simp only [hc]
    refine ⟨[.putMetSlot m (getMetSlot y1.s m)], by simp, ?_⟩
    simp only [Undoes, replay, runUndo, dropMetRaw, putMetSlot_restore]

/-- what `remove_metabolites([m])` does: the metabolite is gone from the model and from every reaction of the model; all other coefficients
    and the reactions themselves stay -/
theorem rmMet_effect (y : Sys) (g : Good y.s) (m : Id) (hm : y.s.hasM m = true) :
    let s' := (rmMet y m).s
    s'.hasM m = false ∧ s'.hasC m = false ∧ (∀ x, x ≠ m → s'.hasM x = y.s.hasM x) ∧ s'.hasR = y.s.hasR ∧
    (∀ r, y.s.hasR r = true → s'.st r m = 0) ∧ (∀ r x, x ≠ m → s'.st r x = y.s.st r x) := by
  obtain ⟨i1, i2, i3, i4, i5, i6⟩ := rmMetLoop_step m y.s.univR y g hm
  have hs : (rmMet y m).s = dropMetRaw (rmMetLoop m y.s.univR y).s m := by
    unfold rmMet; simp only []
  show _ ∧ _
  rw [hs]
  generalize rmMetLoop m y.s.univR y = y1 at *
  refine ⟨by simp [dropMetRaw, putMetSlot, upd], by simp [dropMetRaw, putMetSlot, upd],
    fun x hx => by simp [dropMetRaw, putMetSlot, upd, hx, i2], i3, fun r hr => i5 r (g.wf.inUniv r hr) hr, fun r x hx => i6 r x hx⟩

/-! ### a metabolite leaves the model together with its reactions -/

theorem removeRxn_s (y : Sys) (r : Id) : (removeRxn y r).s = removeRxnRaw y.s r := by
  unfold removeRxn; split <;> rfl

theorem rmMetDLoop_step (m : Id) (rs : List Id) (y : Sys) (g : Good y.s) (hm : y.s.hasM m = true) :
    Step y (rmMetDLoop m rs y) ∧ (rmMetDLoop m rs y).s.hasM = y.s.hasM ∧
    (∀ r, y.s.mr m r = false → (rmMetDLoop m rs y).s.mr m r = false) ∧
    (∀ r ∈ rs, (rmMetDLoop m rs y).s.mr m r = false) ∧
    (∀ r, (rmMetDLoop m rs y).s.hasR r = true → y.s.hasR r = true) ∧
    (∀ r, y.s.hasR r = true → y.s.mr m r = false → (rmMetDLoop m rs y).s.hasR r = true) ∧
    (rmMetDLoop m rs y).s.st = y.s.st := by
  induction rs generalizing y with
  | nil => exact ⟨Step.refl g, rfl, fun _ h => h, fun r hr => (by cases hr), fun _ h => h, fun _ h _ => h, rfl⟩
  | cons r rs ih =>
    simp only [rmMetDLoop]
    split
    · rename_i hmr
      have hr : y.s.hasR r = true := g.wf.mr_has m r hm hmr
      have hstep := removeRxn_step y g r hr
      have hs := removeRxn_s y r
      generalize removeRxn y r = y1 at hstep hs
      have hM1 : y1.s.hasM = y.s.hasM := by rw [hs]; rfl
      have hmr1 : ∀ x, y1.s.mr m x = if x = r then false else y.s.mr m x := by
        intro x; rw [hs]; rfl
      have hR1 : ∀ x, y1.s.hasR x = if x = r then false else y.s.hasR x := by
        intro x; rw [hs]; simp [removeRxnRaw, upd]
      obtain ⟨i1, i2, i3, i4, i5, i6, i7⟩ := ih y1 hstep.1 (by rw [hM1]; exact hm)
      refine ⟨hstep.trans i1, by rw [i2, hM1], ?_, ?_, ?_, ?_, by rw [i7, hs]; rfl⟩
      · intro x hx
        apply i3; rw [hmr1]; split
        · rfl
        · exact hx
      · intro x hmem
        rcases List.mem_cons.1 hmem with e | hmem
        · subst e; apply i3; rw [hmr1]; simp
        · exact i4 x hmem
      · intro x hx
        have := i5 x hx
        rw [hR1] at this
        by_cases hxr : x = r
        · simp [hxr] at this
        · simpa [hxr] using this
      · intro x hx hnot
        apply i6 x
        · rw [hR1]
          have hxr : x ≠ r := fun e => by rw [e, hmr] at hnot; cases hnot
          simp [hxr, hx]
        · rw [hmr1]; split
          · rfl
          · exact hnot
    · rename_i hmr
      obtain ⟨i1, i2, i3, i4, i5, i6, i7⟩ := ih y g hm
      refine ⟨i1, i2, i3, ?_, i5, i6, i7⟩
      intro x hmem
      rcases List.mem_cons.1 hmem with e | hmem
      · subst e; exact i3 x (by simpa using hmr)
      · exact i4 x hmem

theorem rmMetD_step (y : Sys) (g : Good y.s) (m : Id) (hm : y.s.hasM m = true) : Step y (rmMetD y m) := by
  obtain ⟨i1, i2, i3, i4, i5, _, _⟩ := rmMetDLoop_step m y.s.univR y g hm
  unfold rmMetD
  generalize rmMetDLoop m y.s.univR y = y1 at *
  have hm1 : y1.s.hasM m = true := by rw [i2]; exact hm
  have hz : ∀ r, y1.s.hasR r = true → y1.s.st r m = 0 := by
    intro r hr
    have hmr : y1.s.mr m r = false := i4 r (g.wf.inUniv r (i5 r hr))
    apply Classical.byContradiction
    intro h
    rw [(i1.1.wf.mr_iff m r hm1 hr).2 h] at hmr
    cases hmr
  have hgood := dropMetRaw_good i1.1 m hz
  refine i1.trans ?_
  cases hc : y1.ctx with
  | nil =>
    have hin : inCtx y1 = false := by simp [inCtx, hc]
    simp only [hin, Bool.false_eq_true, if_false]
    exact ⟨hgood, by simp [hc]⟩
  | cons c cs =>
    have hin : inCtx y1 = true := by simp [inCtx, hc]
    simp only [hin, if_true, push]
    refine ⟨hgood, ?_⟩
    simp only [hc]
    refine ⟨[.putMetSlot m (getMetSlot y1.s m)], by simp, ?_⟩
    simp only [Undoes, replay, runUndo, dropMetRaw, putMetSlot_restore]

/-- what `remove_metabolites([m], destructive=True)` does: the metabolite is gone and so is exactly every reaction that listed it; the reactions
    that stay keep their stoichiometry -/
theorem rmMetD_effect (y : Sys) (g : Good y.s) (m : Id) (hm : y.s.hasM m = true) :
    let s' := (rmMetD y m).s
    s'.hasM m = false ∧ s'.hasC m = false ∧ (∀ x, x ≠ m → s'.hasM x = y.s.hasM x) ∧
    (∀ r, y.s.hasR r = true → (s'.hasR r = true ↔ y.s.st r m = 0)) ∧ (∀ r, s'.hasR r = true → y.s.hasR r = true) ∧ s'.st = y.s.st := by
  obtain ⟨i1, i2, i3, i4, i5, i6, i7⟩ := rmMetDLoop_step m y.s.univR y g hm
  have hs : (rmMetD y m).s = dropMetRaw (rmMetDLoop m y.s.univR y).s m := by
    unfold rmMetD; simp only []
  show _ ∧ _
  rw [hs]
  generalize rmMetDLoop m y.s.univR y = y1 at *
  have hm1 : y1.s.hasM m = true := by rw [i2]; exact hm
  refine ⟨by simp [dropMetRaw, putMetSlot, upd], by simp [dropMetRaw, putMetSlot, upd],
    fun x hx => by simp [dropMetRaw, putMetSlot, upd, hx, i2], ?_, fun r hr => i5 r hr, i7⟩
  intro r hr
  show y1.s.hasR r = true ↔ _
  constructor
  · intro h1
    have hmr : y1.s.mr m r = false := i4 r (g.wf.inUniv r hr)
    apply Classical.byContradiction
    intro h
    have : y1.s.st r m ≠ 0 := by rw [i7]; exact h
    rw [(i1.1.wf.mr_iff m r hm1 h1).2 this] at hmr
    cases hmr
  · intro h0
    apply i6 r hr
    cases hmr : y.s.mr m r with
    | false => rfl
    | true => exact absurd h0 ((g.wf.mr_iff m r hm hr).1 hmr)

/-! ### a reaction leaves the model together with what it orphans -/

theorem dropGene_good {s : St} (g : Good s) (gi : Id) (hg : s.hasG gi = true) (ho : orphanG s gi = true) :
    Good { s with hasG := upd s.hasG gi false } := by
  have w := g.wf
  have hno : ∀ x, s.hasR x = true → s.rg x gi = false := by
    intro x hx
    have hmem := w.inUniv x hx
    have : s.gr gi x = false := by
      have := List.all_eq_true.1 ho x hmem
      simpa using this
    cases h : s.rg x gi with
    | false => rfl
    | true => rw [(w.gr_iff gi x hg hx).2 h] at this; cases this
  have hG : ∀ x, (upd s.hasG gi false) x = true → s.hasG x = true ∧ x ≠ gi := by
    intro x hx
    simp only [upd] at hx
    by_cases hxg : x = gi
    · simp [hxg] at hx
    · simp only [hxg, if_false] at hx; exact ⟨hx, hxg⟩
  refine ⟨⟨g.ns.rev_ne, g.ns.rev_inj⟩, ?_, ⟨g.sync.vars, g.sync.box, g.sync.rows, g.sync.coef, g.sync.objrev⟩⟩
  constructor
  · exact w.mr_iff
  · exact w.st_has
  · exact w.rg_rule
  · intro gg x hgg hx
    exact w.gr_iff gg x (hG gg hgg).1 hx
  · intro x gg hx h
    have := w.rg_has x gg hx h
    have hne : gg ≠ gi := fun e => by rw [e, hno x hx] at h; cases h
    simp [upd, hne, this]
  · exact w.bounds
  · exact w.inUniv
  · intro gg x hgg h
    exact w.gr_has gg x (hG gg hgg).1 h
  · exact w.mr_has

theorem dropGene_step (y : Sys) (g : Good y.s) (gi : Id) (hg : y.s.hasG gi = true) (ho : orphanG y.s gi = true) :
    Step y (dropGene y gi) := by
  have hgood := dropGene_good g gi hg ho
  unfold dropGene
  cases hc : y.ctx with
  | nil =>
    have hin : inCtx y = false := by simp [inCtx, hc]
    simp only [hin, Bool.false_eq_true, if_false]
    exact ⟨hgood, by simp [hc]⟩
  | cons c cs =>
    have hin : inCtx y = true := by simp [inCtx, hc]
    simp only [hin, if_true, push]
    refine ⟨hgood, ?_⟩
    simp only [hc]
    refine ⟨[.setHasG gi true], by simp, ?_⟩
    simp only [Undoes, replay, runUndo]
    have : upd (upd y.s.hasG gi false) gi true = y.s.hasG := by
      funext x; simp only [upd]; by_cases h : x = gi <;> simp [h, hg]
    rw [this]

theorem orphanMetLoop_step (r : Id) (ms : List Id) (y : Sys) (g : Good y.s) :
    Step y (orphanMetLoop r ms y) ∧ (orphanMetLoop r ms y).s.hasR = y.s.hasR ∧ (orphanMetLoop r ms y).s.hasG = y.s.hasG ∧
    (∀ m, (orphanMetLoop r ms y).s.hasM m = true → y.s.hasM m = true) := by
  induction ms generalizing y with
  | nil => exact ⟨Step.refl g, rfl, rfl, fun _ h => h⟩
  | cons m ms ih =>
    simp only [orphanMetLoop]
    split
    · rename_i hcond
      simp only [Bool.and_eq_true, decide_eq_true_eq] at hcond
      have hm := hcond.1.2
      have hstep := rmMet_step y g m hm
      obtain ⟨e1, _, e3, e4, _, _⟩ := rmMet_effect y g m hm
      have eG : (rmMet y m).s.hasG = y.s.hasG := by
        obtain ⟨_, _, _, _, _, _⟩ := rmMetLoop_step m y.s.univR y g hm
        unfold rmMet; simp only [dropMetRaw, putMetSlot]
        exact rmMetLoop_hasG m y.s.univR y
      obtain ⟨i1, i2, i3, i4⟩ := ih (rmMet y m) hstep.1
      refine ⟨hstep.trans i1, by rw [i2]; exact e4, by rw [i3, eG], ?_⟩
      intro x hx
      have := i4 x hx
      by_cases hxm : x = m
      · rw [hxm]; exact hm
      · rw [← e3 x hxm]; exact this
    · exact ih y g

theorem orphanGeneLoop_step (r : Id) (gs : List Id) (y : Sys) (g : Good y.s) :
    Step y (orphanGeneLoop r gs y) ∧ (orphanGeneLoop r gs y).s.hasR = y.s.hasR ∧ (orphanGeneLoop r gs y).s.hasM = y.s.hasM ∧
    (∀ x, (orphanGeneLoop r gs y).s.hasG x = true → y.s.hasG x = true) := by
  induction gs generalizing y with
  | nil => exact ⟨Step.refl g, rfl, rfl, fun _ h => h⟩
  | cons gi gs ih =>
    simp only [orphanGeneLoop]
    split
    · rename_i hcond
      simp only [Bool.and_eq_true] at hcond
      have hstep := dropGene_step y g gi hcond.1.2 hcond.2
      have hs : (dropGene y gi).s = { y.s with hasG := upd y.s.hasG gi false } := by
        unfold dropGene; split <;> rfl
      obtain ⟨i1, i2, i3, i4⟩ := ih (dropGene y gi) hstep.1
      refine ⟨hstep.trans i1, by rw [i2, hs], by rw [i3, hs], ?_⟩
      intro x hx
      have := i4 x hx
      rw [hs] at this
      simp only [upd] at this
      by_cases hxg : x = gi
      · rw [hxg]; exact hcond.1.2
      · simpa [hxg] using this
    · exact ih y g

theorem removeRxnO_step (y : Sys) (g : Good y.s) (r : Id) (hr : y.s.hasR r = true) :
    Step y (removeRxnO y r) ∧ (removeRxnO y r).s.hasR r = false ∧ (∀ x, x ≠ r → (removeRxnO y r).s.hasR x = y.s.hasR x) ∧
    (∀ m, (removeRxnO y r).s.hasM m = true → y.s.hasM m = true) ∧ (∀ x, (removeRxnO y r).s.hasG x = true → y.s.hasG x = true) := by
  have h1 := removeRxn_step y g r hr
  have e1 := removeRxn_s y r
  unfold removeRxnO
  simp only []
  generalize removeRxn y r = y1 at h1 e1
  obtain ⟨a1, a2, a3, a4⟩ := orphanMetLoop_step r y1.s.univM y1 h1.1
  generalize orphanMetLoop r y1.s.univM y1 = y2 at a1 a2 a3 a4
  obtain ⟨b1, b2, b3, b4⟩ := orphanGeneLoop_step r y2.s.univG y2 a1.1
  refine ⟨(h1.trans a1).trans b1, ?_, ?_, ?_, ?_⟩
  · rw [b2, a2, e1]; simp [removeRxnRaw, upd]
  · intro x hx; rw [b2, a2, e1]; simp [removeRxnRaw, upd, hx]
  · intro m hm
    rw [b3] at hm
    have := a4 m hm
    rw [e1] at this; exact this
  · intro x hx
    have := b4 x hx
    rw [a3, e1] at this; exact this

theorem removeRxns_step (orphans : Bool) (rs : List Id) (y : Sys) (g : Good y.s) :
    Step y (removeRxns orphans rs y) ∧ (∀ r ∈ rs, (removeRxns orphans rs y).s.hasR r = false) ∧
    (∀ x, x ∉ rs → (removeRxns orphans rs y).s.hasR x = y.s.hasR x) := by
  induction rs generalizing y with
  | nil => exact ⟨Step.refl g, fun r hr => (by cases hr), fun _ _ => rfl⟩
  | cons r rs ih =>
    simp only [removeRxns]
    split
    · rename_i hr
      have hstep : Step y (if orphans = true then removeRxnO y r else removeRxn y r) := by
        split
        · exact (removeRxnO_step y g r hr).1
        · exact removeRxn_step y g r hr
      have hR : (if orphans = true then removeRxnO y r else removeRxn y r).s.hasR r = false ∧
          ∀ x, x ≠ r → (if orphans = true then removeRxnO y r else removeRxn y r).s.hasR x = y.s.hasR x := by
        split
        · exact ⟨(removeRxnO_step y g r hr).2.1, (removeRxnO_step y g r hr).2.2.1⟩
        · exact ⟨(removeRxn_effect y r).1, (removeRxn_effect y r).2.1⟩
      generalize (if orphans = true then removeRxnO y r else removeRxn y r) = y1 at hstep hR
      obtain ⟨i1, i2, i3⟩ := ih y1 hstep.1
      refine ⟨hstep.trans i1, ?_, ?_⟩
      · intro x hx
        rcases List.mem_cons.1 hx with e | hx
        · subst e
          by_cases hmem : x ∈ rs
          · exact i2 x hmem
          · rw [i3 x hmem]; exact hR.1
        · exact i2 x hx
      · intro x hx
        have h1 : x ≠ r := fun e => hx (by rw [e]; exact List.mem_cons_self ..)
        have h2 : x ∉ rs := fun e => hx (List.mem_cons_of_mem _ e)
        rw [i3 x h2, hR.2 x h1]
    · rename_i hr
      obtain ⟨i1, i2, i3⟩ := ih y g
      refine ⟨i1, ?_, ?_⟩
      · intro x hx
        rcases List.mem_cons.1 hx with e | hx
        · subst e
          by_cases hmem : x ∈ rs
          · exact i2 x hmem
          · rw [i3 x hmem]; simpa using hr
        · exact i2 x hx
      · intro x hx
        exact i3 x (fun e => hx (List.mem_cons_of_mem _ e))

/-! ### a new gene rule -/

theorem removeGenesRaw_good {s : St} (g : Good s) (ks : Id → Bool) : Good (removeGenesRaw s ks) := by
  have w := g.wf
  refine ⟨⟨g.ns.rev_ne, g.ns.rev_inj⟩, ?_, ⟨g.sync.vars, g.sync.box, g.sync.rows, g.sync.coef, g.sync.objrev⟩⟩
  have hsub : ∀ r x, s.hasR r = true → x ∈ genesOpt (prunedRule s ks r) → x ∈ genesOpt (s.rule r) ∧ ks x = false := by
    intro r x hr hx
    unfold prunedRule at hx
    cases hrule : s.rule r with
    | none => simp [hrule, genesOpt] at hx
    | some t =>
      simp only [hrule, hr, if_true] at hx
      cases hrem : GPRM.remove ks t with
      | none => simp [hrem, genesOpt] at hx
      | some t' =>
        simp only [hrem, genesOpt] at hx
        simpa [genesOpt] using GPRM.genes_remove ks t t' hrem x hx
  constructor
  · exact w.mr_iff
  · exact w.st_has
  · intro r x hr
    have hr' : s.hasR r = true := hr
    show (if s.hasR r = true then (genesOpt (prunedRule s ks r)).contains x else s.rg r x) = true ↔ x ∈ genesOpt (prunedRule s ks r)
    rw [if_pos hr']; simp
  · intro x r hx hr
    have hr' : s.hasR r = true := hr
    show (if s.hasR r = true then (genesOpt (prunedRule s ks r)).contains x else s.gr x r) = true ↔
      (if s.hasR r = true then (genesOpt (prunedRule s ks r)).contains x else s.rg r x) = true
    rw [if_pos hr', if_pos hr']
  · intro r x hr hrg
    have hr' : s.hasR r = true := hr
    have hrg' : (if s.hasR r = true then (genesOpt (prunedRule s ks r)).contains x else s.rg r x) = true := hrg
    rw [if_pos hr'] at hrg'
    obtain ⟨a, b⟩ := hsub r x hr' (by simpa using hrg')
    have : s.hasG x = true := w.rg_has r x hr' ((w.rg_rule r x hr').2 a)
    show (s.hasG x && !ks x) = true
    simp [this, b]
  · exact w.bounds
  · exact w.inUniv
  · intro x r hx hgr
    have hx' : (s.hasG x && !ks x) = true := hx
    have hgr' : (if s.hasR r = true then (genesOpt (prunedRule s ks r)).contains x else s.gr x r) = true := hgr
    by_cases hr : s.hasR r = true
    · exact hr
    · rw [if_neg hr] at hgr'
      simp only [Bool.and_eq_true] at hx'
      exact w.gr_has x r hx'.1 hgr'
  · exact w.mr_has

theorem setRuleRaw_good {s : St} (g : Good s) (r : Id) (hr : s.hasR r = true) (rule : Option G) : Good (setRuleRaw s r rule) := by
  have w := g.wf
  refine ⟨⟨g.ns.rev_ne, g.ns.rev_inj⟩, ?_, ⟨g.sync.vars, g.sync.box, g.sync.rows, g.sync.coef, g.sync.objrev⟩⟩
  constructor
  · exact w.mr_iff
  · exact w.st_has
  · intro x gg hx
    show (if x = r then (genesOpt rule).contains gg else s.rg x gg) = true ↔ gg ∈ genesOpt (upd s.rule r rule x)
    by_cases hxr : x = r
    · subst hxr; simp [upd]
    · simp only [hxr, if_false, upd]; exact w.rg_rule x gg hx
  · intro gg x hgg hx
    show (if ((genesOpt rule).contains gg && !s.hasG gg) = true then decide (x = r) else if x = r then (genesOpt rule).contains gg else s.gr gg x) = true ↔
      (if x = r then (genesOpt rule).contains gg else s.rg x gg) = true
    by_cases hc : ((genesOpt rule).contains gg && !s.hasG gg) = true
    · simp only [hc, if_true]
      simp only [Bool.and_eq_true, Bool.not_eq_true'] at hc
      have hm : gg ∈ genesOpt rule := by simpa using hc.1
      by_cases hxr : x = r
      · simp [hxr, hm]
      · simp only [hxr, decide_false, if_false]
        constructor
        · intro h; cases h
        · intro h
          have := w.rg_has x gg hx h
          rw [hc.2] at this; cases this
    · simp only [hc, if_false]
      by_cases hxr : x = r
      · simp [hxr]
      · simp only [hxr, if_false]
        have hG : s.hasG gg = true := by
          have h' : (s.hasG gg || (genesOpt rule).contains gg) = true := hgg
          cases h1 : s.hasG gg with
          | true => rfl
          | false =>
            rw [h1, Bool.false_or] at h'
            have hm : gg ∈ genesOpt rule := by simpa using h'
            simp [hm, h1] at hc
        exact w.gr_iff gg x hG hx
  · intro x gg hx h
    show (s.hasG gg || (genesOpt rule).contains gg) = true
    have h' : (if x = r then (genesOpt rule).contains gg else s.rg x gg) = true := h
    by_cases hxr : x = r
    · simp only [hxr, if_true] at h'
      have hm : gg ∈ genesOpt rule := by simpa using h'
      simp [hm]
    · simp only [hxr, if_false] at h'; simp [w.rg_has x gg hx h']
  · exact w.bounds
  · exact w.inUniv
  · intro gg x hgg h
    have h' : (if ((genesOpt rule).contains gg && !s.hasG gg) = true then decide (x = r) else if x = r then (genesOpt rule).contains gg else s.gr gg x) = true := h
    show s.hasR x = true
    by_cases hc : ((genesOpt rule).contains gg && !s.hasG gg) = true
    · simp only [hc, if_true, decide_eq_true_eq] at h'; rw [h']; exact hr
    · simp only [hc, if_false] at h'
      by_cases hxr : x = r
      · rw [hxr]; exact hr
      · simp only [hxr, if_false] at h'
        have hG : s.hasG gg = true := by
          have h'' : (s.hasG gg || (genesOpt rule).contains gg) = true := hgg
          cases h1 : s.hasG gg with
          | true => rfl
          | false =>
            rw [h1, Bool.false_or] at h''
            have hm : gg ∈ genesOpt rule := by simpa using h''
            simp [hm, h1] at hc
        exact w.gr_has gg x hG h'
  · exact w.mr_has

/-- what assigning a rule does: the reaction's genes are the genes of the rule, every gene of the rule is in the model and lists the reaction, no
    gene leaves the model, other reactions keep rule and genes, and nothing but rules and genes changes -/
theorem setRuleRaw_effect (s : St) (r : Id) (rule : Option G) :
    let s' := setRuleRaw s r rule
    s'.rule r = rule ∧ (∀ gg, s'.rg r gg = true ↔ gg ∈ genesOpt rule) ∧ (∀ gg, gg ∈ genesOpt rule → s'.hasG gg = true ∧ s'.gr gg r = true) ∧
    (∀ gg, s.hasG gg = true → s'.hasG gg = true) ∧ (∀ x, x ≠ r → s'.rule x = s.rule x ∧ s'.rg x = s.rg x) ∧
    s'.hasR = s.hasR ∧ s'.hasM = s.hasM ∧ s'.lb = s.lb ∧ s'.ub = s.ub ∧ s'.st = s.st ∧ s'.mr = s.mr ∧
    s'.hasV = s.hasV ∧ s'.vlb = s.vlb ∧ s'.vub = s.vub ∧ s'.hasC = s.hasC ∧ s'.co = s.co ∧ s'.obj = s.obj ∧ s'.dirMax = s.dirMax := by
  refine ⟨by simp [setRuleRaw, upd], fun gg => by simp [setRuleRaw], ?_, fun gg h => by simp [setRuleRaw, h],
    fun x hx => ⟨by simp [setRuleRaw, upd, hx], by funext gg; simp [setRuleRaw, hx]⟩, rfl, rfl, rfl, rfl, rfl, rfl, rfl, rfl, rfl, rfl, rfl, rfl, rfl⟩
  intro gg hgg
  have hc : (genesOpt rule).contains gg = true := by simpa using hgg
  constructor
  · simp [setRuleRaw, hgg]
  · show (if ((genesOpt rule).contains gg && !s.hasG gg) = true then decide (r = r) else if r = r then (genesOpt rule).contains gg else s.gr gg r) = true
    split <;> simp [hgg]

/-! ### scaling a reaction -/

theorem rat_scale_inv (a k : Rat) (hk : k ≠ 0) : a * k * (1 / k) = a := by
  rw [Rat.mul_assoc, Rat.div_def, Rat.one_mul, Rat.mul_inv_cancel k hk, Rat.mul_one]

theorem rat_mul_ne_zero (a k : Rat) (hk : k ≠ 0) : a * k ≠ 0 ↔ a ≠ 0 := by
  constructor
  · intro h e; exact h (by rw [e, Rat.zero_mul])
  · intro h e
    rcases Rat.mul_eq_zero.1 e with e | e
    · exact h e
    · exact hk e

theorem rat_one_div_neg (k : Rat) (hk : k ≠ 0) : 1 / k < 0 ↔ k < 0 := by
  rw [Rat.div_def, Rat.one_mul]
  have h1 : 0 < k⁻¹ ↔ 0 < k := Rat.inv_pos
  have h2 : k⁻¹ ≠ 0 := by
    intro e
    have := Rat.mul_inv_cancel k hk
    rw [e, Rat.mul_zero] at this
    exact absurd this (by decide)
  grind

theorem rat_one_div_ne_zero (k : Rat) (hk : k ≠ 0) : 1 / k ≠ 0 := by
  rw [Rat.div_def, Rat.one_mul]
  intro e
  have := Rat.mul_inv_cancel k hk
  rw [e, Rat.mul_zero] at this
  exact absurd this (by decide)

theorem EB.neg_neg (a : EB) : a.neg.neg = a := by cases a <;> simp [EB.neg]

theorem EB.neg_le_neg {a b : EB} (h : EB.le a b = true) : EB.le b.neg a.neg = true := by
  cases a <;> cases b <;> simp_all [EB.le, EB.neg]

/-- the column of reaction `r` rewritten in the rows of its metabolites (the coefficient part of `_populate_solver([r])`) -/
def coFix (s : St) (r : Id) : St :=
  { s with co := fun m v => if s.st r m ≠ 0 then (if v = r then s.st r m else if v = s.rev r then -(s.st r m) else s.co m v) else s.co m v }

theorem coFix_co (s : St) (r m v : Id) : (coFix s r).co m v =
    if s.st r m ≠ 0 then (if v = r then s.st r m else if v = s.rev r then -(s.st r m) else s.co m v) else s.co m v := rfl
theorem coFix_st (s : St) (r : Id) : (coFix s r).st = s.st := rfl
theorem coFix_rev (s : St) (r : Id) : (coFix s r).rev = s.rev := rfl
theorem scaleSt_st (s : St) (r : Id) (k : Rat) (x m : Id) : (scaleSt s r k).st x m = if x = r then s.st r m * k else s.st x m := rfl
theorem scaleSt_co (s : St) (r : Id) (k : Rat) : (scaleSt s r k).co = s.co := rfl
theorem scaleSt_rev (s : St) (r : Id) (k : Rat) : (scaleSt s r k).rev = s.rev := rfl

theorem coFix_scale_co (s : St) (r : Id) (k : Rat) (m v : Id) : (coFix (scaleSt s r k) r).co m v =
    if s.st r m * k ≠ 0 then (if v = r then s.st r m * k else if v = s.rev r then -(s.st r m * k) else s.co m v) else s.co m v := by
  rw [coFix_co, scaleSt_st, scaleSt_co, scaleSt_rev]; simp

theorem populateRaw_eq (s : St) (r : Id) : populateRaw s r = updateVariableBounds (coFix s r) r := rfl

theorem uvb_self {s : St} (g : Good s) (r : Id) (hr : s.hasR r = true) : updateVariableBounds s r = s := by
  have := setB_self g r hr
  simp only [setB, upd_self] at this
  exact this

theorem uvb_setB (s : St) (r : Id) (a b : EB) : updateVariableBounds (setB s r a b) r = setB s r a b := by
  apply St.ext' <;> try rfl
  · funext x; simp only [setB, updateVariableBounds, upd]; grind
  · funext x; simp only [setB, updateVariableBounds, upd]; grind

theorem coFix_setB (s : St) (r : Id) (a b : EB) : coFix (setB s r a b) r = setB (coFix s r) r a b := rfl
theorem scaleSt_setB (s : St) (r : Id) (k : Rat) (a b : EB) : scaleSt (setB s r a b) r k = setB (scaleSt s r k) r a b := rfl

/-- a Good state already holds the column of each of its reactions -/
theorem coFix_self {s : St} (g : Good s) (r : Id) (hr : s.hasR r = true) : coFix s r = s := by
  apply St.ext' <;> try rfl
  funext m v
  simp only [coFix]
  split
  · rename_i h
    have hm := g.wf.st_has r m hr h
    obtain ⟨c1, c2⟩ := g.sync.coef m r hm hr
    split
    · rename_i e; rw [e, c1]
    · split
      · rename_i e; rw [e, c2]
      · rfl
  · rfl

theorem scaleCo_good {s : St} (g : Good s) (r : Id) (hr : s.hasR r = true) (k : Rat) (hk : k ≠ 0) :
    Good (coFix (scaleSt s r k) r) := by
  have ns := g.ns
  have w := g.wf
  have sy := g.sync
  have hst : ∀ x m, (coFix (scaleSt s r k) r).st x m = if x = r then s.st r m * k else s.st x m := fun _ _ => rfl
  refine ⟨⟨ns.rev_ne, ns.rev_inj⟩, ?_, ?_⟩
  · constructor
    · intro m x hm hx
      rw [hst]
      by_cases hxr : x = r
      · subst hxr; simp only [if_true]; rw [rat_mul_ne_zero _ _ hk]; exact w.mr_iff m x hm hx
      · simp only [hxr, if_false]; exact w.mr_iff m x hm hx
    · intro x m hx h
      rw [hst] at h
      by_cases hxr : x = r
      · subst hxr; simp only [if_true] at h; exact w.st_has x m hx ((rat_mul_ne_zero _ _ hk).1 h)
      · simp only [hxr, if_false] at h; exact w.st_has x m hx h
    · exact w.rg_rule
    · exact w.gr_iff
    · exact w.rg_has
    · exact w.bounds
    · exact w.inUniv
    · exact w.gr_has
    · exact w.mr_has
  · constructor
    · exact sy.vars
    · exact sy.box
    · exact sy.rows
    · intro m x hm hx
      obtain ⟨c1, c2⟩ := sy.coef m x hm hx
      obtain ⟨d1, d2⟩ := sy.coef m r hm hr
      rw [hst]
      show _ ∧ (coFix (scaleSt s r k) r).co m (s.rev x) = _
      rw [coFix_scale_co, coFix_scale_co]
      by_cases hxr : x = r
      · subst hxr
        have a1 : s.rev x ≠ x := ns.rev_ne x x hx hx
        by_cases h0 : s.st x m * k = 0
        · have h0' : s.st x m = 0 := by
            apply Classical.byContradiction; intro h; exact (rat_mul_ne_zero _ _ hk).2 h h0
          simp [h0, c1, c2, h0']
        · simp [h0, a1]
      · have a1 : s.rev x ≠ r := ns.rev_ne x r hx hr
        have a2 : s.rev x ≠ s.rev r := fun e => hxr (ns.rev_inj x r hx hr e)
        have a3 : x ≠ s.rev r := fun e => ns.rev_ne r x hr hx e.symm
        simp only [hxr, a1, a2, a3, if_false]
        split <;> exact ⟨c1, c2⟩
    · exact sy.objrev

/-- scaling back and rewriting the column once more returns the state -/
theorem scaleCo_inv {s : St} (g : Good s) (r : Id) (hr : s.hasR r = true) (k : Rat) (hk : k ≠ 0) :
    coFix (scaleSt (coFix (scaleSt s r k) r) r (1 / k)) r = s := by
  have hst : ∀ x m, (scaleSt (coFix (scaleSt s r k) r) r (1 / k)).st x m = s.st x m := by
    intro x m
    rw [scaleSt_st, coFix_st, scaleSt_st, scaleSt_st]
    by_cases hxr : x = r
    · subst hxr; simp only [if_true]; exact rat_scale_inv _ _ hk
    · simp [hxr]
  have hco : ∀ m v, (coFix (scaleSt (coFix (scaleSt s r k) r) r (1 / k)) r).co m v = s.co m v := by
    intro m v
    rw [coFix_co, hst, scaleSt_co, scaleSt_rev, coFix_rev, scaleSt_rev, coFix_scale_co]
    by_cases h0 : s.st r m = 0
    · have : s.st r m * k = 0 := by rw [h0, Rat.zero_mul]
      simp [h0]
    · have hm := g.wf.st_has r m hr h0
      obtain ⟨c1, c2⟩ := g.sync.coef m r hm hr
      simp only [ne_eq, h0, not_false_eq_true, if_true]
      split
      · rename_i e; rw [e, c1]
      · split
        · rename_i e; rw [e, c2]
        · rename_i e1 e2; simp [e1, e2]
  have e1 : (coFix (scaleSt (coFix (scaleSt s r k) r) r (1 / k)) r).st = s.st := by
    funext x m; exact hst x m
  have e2 : (coFix (scaleSt (coFix (scaleSt s r k) r) r (1 / k)) r).co = s.co := by
    funext m v; exact hco m v
  have e0 : coFix (scaleSt (coFix (scaleSt s r k) r) r (1 / k)) r =
      { s with st := (coFix (scaleSt (coFix (scaleSt s r k) r) r (1 / k)) r).st,
               co := (coFix (scaleSt (coFix (scaleSt s r k) r) r (1 / k)) r).co } := rfl
  rw [e0, e1, e2]

/-- the state after `reaction *= k` -/
def imulSt (s : St) (r : Id) (k : Rat) : St :=
  coFix (scaleSt (if k < 0 then setB s r (s.ub r).neg (s.lb r).neg else s) r k) r

theorem imulSt_good {s : St} (g : Good s) (r : Id) (hr : s.hasR r = true) (k : Rat) (hk : k ≠ 0) : Good (imulSt s r k) := by
  unfold imulSt
  split
  · exact scaleCo_good (setBoundsCore_good g r hr _ _ (EB.neg_le_neg (g.wf.bounds r hr))) r hr k hk
  · exact scaleCo_good g r hr k hk

/-- the undo entry `reaction.__imul__(1 / k)` takes the scaled state back -/
theorem imulRaw_inv {s : St} (g : Good s) (r : Id) (hr : s.hasR r = true) (k : Rat) (hk : k ≠ 0) :
    imulRaw (imulSt s r k) r (1 / k) = .ok s := by
  unfold imulRaw imulSt
  by_cases hneg : k < 0
  · have hneg' : 1 / k < 0 := (rat_one_div_neg k hk).2 hneg
    have g0 : Good (setB s r (s.ub r).neg (s.lb r).neg) := setBoundsCore_good g r hr _ _ (EB.neg_le_neg (g.wf.bounds r hr))
    simp only [hneg, hneg', if_true]
    generalize hs0 : setB s r (s.ub r).neg (s.lb r).neg = s0 at g0
    have hub : (scaleSt (coFix (scaleSt s0 r k) r) r (1 / k)).ub r = (s.lb r).neg := by
      rw [← hs0]; exact setB_ub s r (s.ub r).neg (s.lb r).neg
    have hlb : (scaleSt (coFix (scaleSt s0 r k) r) r (1 / k)).lb r = (s.ub r).neg := by
      rw [← hs0]; exact setB_lb s r (s.ub r).neg (s.lb r).neg
    rw [hub, hlb, EB.neg_neg (s.lb r), EB.neg_neg (s.ub r)]
    unfold rawSetBounds
    rw [EB.lt_false_of_le (g.wf.bounds r hr)]
    simp only [Bool.false_eq_true, if_false]
    congr 1
    rw [populateRaw_eq]
    show updateVariableBounds (coFix (setB (scaleSt (coFix (scaleSt s0 r k) r) r (1 / k)) r (s.lb r) (s.ub r)) r) r = s
    rw [coFix_setB, uvb_setB, scaleCo_inv g0 r (by rw [← hs0]; exact hr) k hk, ← hs0, setB_setB, setB_self g r hr]
  · have hneg' : ¬ (1 / k < 0) := fun h => hneg ((rat_one_div_neg k hk).1 h)
    simp only [hneg, hneg', if_false]
    congr 1
    rw [populateRaw_eq, scaleCo_inv g r hr k hk, uvb_self g r hr]

theorem populateRaw_self {s : St} (g : Good s) (r : Id) (hr : s.hasR r = true) : populateRaw s r = s := by
  rw [populateRaw_eq, coFix_self g r hr, uvb_self g r hr]

theorem rawSetBounds_self {s : St} (g : Good s) (r : Id) (hr : s.hasR r = true) : rawSetBounds s r (s.lb r) (s.ub r) = .ok s := by
  unfold rawSetBounds
  rw [EB.lt_false_of_le (g.wf.bounds r hr)]
  simp only [Bool.false_eq_true, if_false]
  congr 1
  exact setB_self g r hr

theorem setBounds_scaled (y0 : Sys) (g : Good y0.s) (r : Id) (hr : y0.s.hasR r = true) (k : Rat) (a b : EB) (hle : EB.le a b = true) :
    ∃ us, (us = [] ∨ us = [Undo.rawSetBounds r (y0.s.lb r) (y0.s.ub r)]) ∧
      setBounds { y0 with s := scaleSt y0.s r k } r a b =
        (⟨scaleSt (setB y0.s r a b) r k, match y0.ctx with | [] => [] | c :: cs => (us ++ c) :: cs⟩, none) := by
  have hlt : EB.lt b a = false := EB.lt_false_of_le hle
  unfold setBounds
  by_cases hcond : inCtx { y0 with s := scaleSt y0.s r k } = true ∧ (scaleSt y0.s r k).lb r = a ∧ (scaleSt y0.s r k).ub r = b
  · refine ⟨[], Or.inl rfl, ?_⟩
    rw [if_pos hcond]
    obtain ⟨_, ha, hb⟩ := hcond
    have ha' : y0.s.lb r = a := ha
    have hb' : y0.s.ub r = b := hb
    rw [← ha', ← hb', setB_self g r hr]
    cases hc : y0.ctx <;> simp [hc]
  · rw [if_neg hcond]
    cases hc : y0.ctx with
    | nil =>
      refine ⟨[], Or.inl rfl, ?_⟩
      have hin : inCtx { y0 with s := scaleSt y0.s r k } = false := by simp [inCtx, hc]
      simp only [hin, Bool.false_eq_true, if_false, rawSetBounds, hlt, hc]
      rfl
    | cons c cs =>
      refine ⟨[Undo.rawSetBounds r (y0.s.lb r) (y0.s.ub r)], Or.inr rfl, ?_⟩
      have hin : inCtx { y0 with s := scaleSt y0.s r k } = true := by simp [inCtx, hc]
      simp only [hin, if_true, push, hc, rawSetBounds, hlt, Bool.false_eq_true, if_false]
      rfl

theorem imul_step (y : Sys) (g : Good y.s) (r : Id) (hr : y.s.hasR r = true) (k : Rat) (hk : k ≠ 0) :
    Step y (imul y r k).1 ∧ (imul y r k).2 = none ∧ (imul y r k).1.s = imulSt y.s r k := by
  have hgood := imulSt_good g r hr k hk
  have hinv := imulRaw_inv g r hr k hk
  -- the pair after the (possible) swap of the bounds
  have hp : ∃ us, (us = [] ∨ us = [Undo.rawSetBounds r (y.s.lb r) (y.s.ub r)]) ∧
      (if k < 0 then setBounds { y with s := scaleSt y.s r k } r ((scaleSt y.s r k).ub r).neg ((scaleSt y.s r k).lb r).neg
        else (({ y with s := scaleSt y.s r k } : Sys), (none : Option Err))) =
      (⟨scaleSt (if k < 0 then setB y.s r (y.s.ub r).neg (y.s.lb r).neg else y.s) r k,
        match y.ctx with | [] => [] | c :: cs => (us ++ c) :: cs⟩, none) := by
    by_cases hneg : k < 0
    · obtain ⟨us, hus, h⟩ := setBounds_scaled y g r hr k (y.s.ub r).neg (y.s.lb r).neg (EB.neg_le_neg (g.wf.bounds r hr))
      refine ⟨us, hus, ?_⟩
      simp only [hneg, if_true]
      exact h
    · refine ⟨[], Or.inl rfl, ?_⟩
      simp only [hneg, if_false]
      cases hc : y.ctx <;> simp [hc]
      all_goals (cases y; simp_all)
  obtain ⟨us, hus, hp⟩ := hp
  unfold imul
  simp only [hp]
  have hs3 : populateRaw (scaleSt (if k < 0 then setB y.s r (y.s.ub r).neg (y.s.lb r).neg else y.s) r k) r = imulSt y.s r k := by
    rw [populateRaw_eq]
    have : Good (coFix (scaleSt (if k < 0 then setB y.s r (y.s.ub r).neg (y.s.lb r).neg else y.s) r k) r) := hgood
    exact uvb_self this r (by
      show (if k < 0 then setB y.s r (y.s.ub r).neg (y.s.lb r).neg else y.s).hasR r = true
      split <;> exact hr)
  rw [hs3]
  cases hc : y.ctx with
  | nil =>
    simp only [inCtx, List.isEmpty_nil, Bool.not_true, Bool.false_eq_true, if_false]
    refine ⟨⟨hgood, by simp [hc]⟩, ?_⟩
    first | trivial | exact ⟨rfl, rfl⟩
  | cons c cs =>
    simp only [inCtx, List.isEmpty_cons, Bool.not_false, if_true, push]
    refine ⟨⟨hgood, ?_⟩, ?_⟩
    rotate_left
    · first | trivial | exact ⟨rfl, rfl⟩
    simp only [hc]
    refine ⟨[.imul r (1 / k), .populate r] ++ us, by simp, ?_⟩
    simp only [Undoes, List.cons_append, List.nil_append, replay, runUndo, hinv, populateRaw_self g r hr]
    rcases hus with e | e
    · subst e; rfl
    · subst e; simp only [replay, runUndo, rawSetBounds_self g r hr]

/-- what `reaction *= k` does: every coefficient of the reaction is multiplied, a negative factor swaps and negates the bounds, everything
    else of the content stays -/
theorem imulSt_effect (s : St) (r : Id) (k : Rat) :
    (∀ m, (imulSt s r k).st r m = s.st r m * k) ∧ (∀ x m, x ≠ r → (imulSt s r k).st x m = s.st x m) ∧
    ((imulSt s r k).lb r = if k < 0 then (s.ub r).neg else s.lb r) ∧ ((imulSt s r k).ub r = if k < 0 then (s.lb r).neg else s.ub r) ∧
    (∀ x, x ≠ r → (imulSt s r k).lb x = s.lb x ∧ (imulSt s r k).ub x = s.ub x) ∧
    (imulSt s r k).hasR = s.hasR ∧ (imulSt s r k).hasM = s.hasM ∧ (imulSt s r k).rule = s.rule ∧ (imulSt s r k).obj = s.obj := by
  unfold imulSt
  by_cases hneg : k < 0
  · simp only [hneg, if_true]
    refine ⟨fun m => by rw [coFix_st, scaleSt_st]; simp [setB, updateVariableBounds],
      fun x m hx => by rw [coFix_st, scaleSt_st]; simp [hx, setB, updateVariableBounds],
      setB_lb s r (s.ub r).neg (s.lb r).neg, setB_ub s r (s.ub r).neg (s.lb r).neg, fun x hx => by simp [coFix, scaleSt, setB, updateVariableBounds, upd, hx], rfl, rfl, rfl, rfl⟩
  · simp only [hneg, if_false]
    exact ⟨fun m => by rw [coFix_st, scaleSt_st]; simp, fun x m hx => by rw [coFix_st, scaleSt_st]; simp [hx], rfl, rfl,
      fun x _ => ⟨rfl, rfl⟩, rfl, rfl, rfl, rfl⟩

end Core

import CobraModel.Model.Effects
/-! Soundness of the syntactic check `Effects.safe` with respect to the big-step semantics `Effects.Exec`. -/

namespace Effects

def Fresh (N0 : Nat) (σ : St) (f : List Comp) : Prop := ∀ c ∈ f, N0 ≤ σ.inst c

/-- record `log` on top of the innermost context -/
def addLog (log : List (Comp × Nat)) : List (List (Comp × Nat)) → List (List (Comp × Nat))
  | [] => []
  | top :: rest => (log ++ top) :: rest

@[simp] theorem addLog_nil (ctx) : addLog [] ctx = ctx := by cases ctx <;> simp [addLog]

theorem addLog_addLog (l2 l1 ctx) : addLog l2 (addLog l1 ctx) = addLog (l2 ++ l1) ctx := by
  cases ctx <;> simp [addLog]

theorem addLog_ne_nil {log ctx} (h : ctx ≠ []) : addLog log ctx ≠ [] := by
  cases ctx with
  | nil => exact absurd rfl h
  | cons t r => simp [addLog]

theorem undo_append (l2 l1 : List (Comp × Nat)) (i : Comp → Nat) : undo (l2 ++ l1) i = undo l1 (undo l2 i) := by
  induction l2 generalizing i with
  | nil => rfl
  | cons p l ih => obtain ⟨c, o⟩ := p; simp [undo, ih]

theorem upd_upd_self (i : Comp → Nat) (c : Comp) (v : Nat) : upd (upd i c v) c (i c) = i := by
  funext x; by_cases h : x = c <;> simp [upd, h]

/-- the fresh set only grows along a sequence -/
theorem safe_grows {i : Bool} {f f' : List Comp} {s : Stmt} (h : safe i f s = some f') : ∀ c ∈ f, c ∈ f' := by
  induction s generalizing i f f' with
  | skip => simp [safe] at h; subst h; exact fun _ hc => hc
  | seq a b iha ihb =>
    simp only [safe] at h
    split at h
    · rename_i f1 h1; exact fun c hc => ihb h c (iha h1 c hc)
    · cases h
  | ctxWrite c =>
    simp only [safe] at h
    split at h
    · injection h with h; subst h; exact fun x hx => List.mem_cons_of_mem _ hx
    · cases h
  | rawWrite c =>
    simp only [safe] at h
    split at h
    · injection h with h; subst h; exact fun _ hc => hc
    · cases h
  | withModel b _ =>
    simp only [safe] at h
    split at h
    · injection h with h; subst h; exact fun _ hc => hc
    · cases h
  | tryFinally b fin ihb _ =>
    simp only [safe] at h
    split at h
    · rename_i f1 f2 h1 h2; injection h with h; subst h; exact ihb h1
    · cases h
  | mayRaise => simp [safe] at h; subst h; exact fun _ hc => hc
  | onCopy b _ => simp [safe] at h; subst h; exact fun _ hc => hc
  | branch a b iha ihb =>
    simp only [safe] at h
    split at h
    · rename_i f1 f2 h1 h2
      injection h with h; subst h
      intro c hc
      simp only [List.mem_filter, decide_eq_true_eq]
      exact ⟨iha h1 c hc, ihb h2 c hc⟩
    · cases h
  | loop b _ =>
    simp only [safe] at h
    split at h
    · injection h with h; subst h; exact fun _ hc => hc
    · cases h

/-- the check is monotone in the fresh set -/
theorem safe_mono {i : Bool} {f g f' : List Comp} {s : Stmt} (hfg : ∀ c ∈ f, c ∈ g) (h : safe i f s = some f') :
    ∃ g', safe i g s = some g' ∧ ∀ c ∈ f', c ∈ g' := by
  induction s generalizing i f g f' with
  | skip => simp [safe] at h; subst h; exact ⟨g, rfl, hfg⟩
  | seq a b iha ihb =>
    simp only [safe] at h
    split at h
    · rename_i f1 h1
      obtain ⟨g1, hg1, hs1⟩ := iha hfg h1
      obtain ⟨g2, hg2, hs2⟩ := ihb hs1 h
      exact ⟨g2, by simp [safe, hg1, hg2], hs2⟩
    · cases h
  | ctxWrite c =>
    simp only [safe] at h
    split at h
    · rename_i hi
      injection h with h; subst h
      refine ⟨c :: g, by simp [safe, hi], ?_⟩
      intro x hx
      rcases List.mem_cons.mp hx with rfl | hx
      · exact List.mem_cons_self
      · exact List.mem_cons_of_mem _ (hfg x hx)
    · cases h
  | rawWrite c =>
    simp only [safe] at h
    split at h
    · rename_i hc
      injection h with h; subst h
      exact ⟨g, by simp [safe, hfg c hc], hfg⟩
    · cases h
  | withModel b ihb =>
    simp only [safe] at h
    split at h
    · rename_i f1 h1
      injection h with h; subst h
      obtain ⟨g1, hg1, _⟩ := ihb hfg h1
      exact ⟨g, by simp [safe, hg1], hfg⟩
    · cases h
  | tryFinally b fin ihb ihf =>
    simp only [safe] at h
    split at h
    · rename_i f1 f2 h1 h2
      injection h with h; subst h
      obtain ⟨g1, hg1, hs1⟩ := ihb hfg h1
      obtain ⟨g2, hg2, _⟩ := ihf hfg h2
      exact ⟨g1, by simp [safe, hg1, hg2], hs1⟩
    · cases h
  | mayRaise => simp [safe] at h; subst h; exact ⟨g, rfl, hfg⟩
  | onCopy b _ => simp [safe] at h; subst h; exact ⟨g, rfl, hfg⟩
  | branch a b iha ihb =>
    simp only [safe] at h
    split at h
    · rename_i f1 f2 h1 h2
      injection h with h; subst h
      obtain ⟨g1, hg1, hs1⟩ := iha hfg h1
      obtain ⟨g2, hg2, hs2⟩ := ihb hfg h2
      refine ⟨g1.filter (· ∈ g2), by simp [safe, hg1, hg2], ?_⟩
      intro c hc
      simp only [List.mem_filter, decide_eq_true_eq] at hc ⊢
      exact ⟨hs1 c hc.1, hs2 c hc.2⟩
    · cases h
  | loop b ihb =>
    simp only [safe] at h
    split at h
    · rename_i f1 h1
      injection h with h; subst h
      obtain ⟨g1, hg1, _⟩ := ihb hfg h1
      exact ⟨g, by simp [safe, hg1], hfg⟩
    · cases h

/-- what one execution of a checked statement can do -/
structure Post (N0 : Nat) (inCtx : Bool) (f f' : List Comp) (σ : St) (o : Out) (σ' : St) : Prop where
  next_le : σ.next ≤ σ'.next
  content : ∀ id, id < N0 → σ'.content id = σ.content id
  fresh_in : Fresh N0 σ' f
  fresh_out : o = .ok → Fresh N0 σ' f'
  log : ∃ log, (inCtx = false → log = []) ∧ σ'.ctx = addLog log σ.ctx ∧ undo log σ'.inst = σ.inst

theorem sound {s : Stmt} {σ σ' : St} {o : Out} (h : Exec s σ o σ') :
    ∀ (inCtx : Bool) (f f' : List Comp) (N0 : Nat), safe inCtx f s = some f' → N0 ≤ σ.next → Fresh N0 σ f →
      (inCtx = true → σ.ctx ≠ []) → Post N0 inCtx f f' σ o σ' := by
  induction h with
  | skip σ =>
    intro i f f' N0 hs _ hf _
    simp [safe] at hs; subst hs
    exact ⟨Nat.le_refl _, fun _ _ => rfl, hf, fun _ => hf, [], fun _ => rfl, by simp, rfl⟩
  | @seqOk a b σ σ1 o σ2 _ _ iha ihb =>
    intro i f f' N0 hs hN hf hc
    simp only [safe] at hs
    split at hs
    · rename_i f1 h1
      have pa := iha i f f1 N0 h1 hN hf hc
      obtain ⟨l1, hl1, hctx1, hu1⟩ := pa.log
      have hc1 : i = true → σ1.ctx ≠ [] := fun hi => hctx1 ▸ addLog_ne_nil (hc hi)
      have pb := ihb i f1 f' N0 hs (Nat.le_trans hN pa.next_le) (pa.fresh_out rfl) hc1
      obtain ⟨l2, hl2, hctx2, hu2⟩ := pb.log
      refine ⟨Nat.le_trans pa.next_le pb.next_le, fun id hid => (pb.content id hid).trans (pa.content id hid), ?_, pb.fresh_out, ?_⟩
      · exact fun c hcf => pb.fresh_in c (safe_grows h1 c hcf)
      · refine ⟨l2 ++ l1, fun hi => by simp [hl1 hi, hl2 hi], ?_, ?_⟩
        · rw [hctx2, hctx1, addLog_addLog]
        · rw [undo_append, hu2, hu1]
    · cases hs
  | @seqRaise a b σ σ1 _ iha =>
    intro i f f' N0 hs hN hf hc
    simp only [safe] at hs
    split at hs
    · rename_i f1 h1
      have pa := iha i f f1 N0 h1 hN hf hc
      exact ⟨pa.next_le, pa.content, pa.fresh_in, (fun h => by cases h), pa.log⟩
    · cases hs
  | ctxWrite c σ =>
    intro i f f' N0 hs hN hf hc
    simp only [safe] at hs
    split at hs
    · rename_i hi
      injection hs with hs; subst hs
      have hne := hc hi
      have hfresh : Fresh N0 (σ.ctxWrite c) (c :: f) := by
        intro x hx
        simp only [St.ctxWrite, upd]
        by_cases hxc : x = c
        · simp [hxc]; exact hN
        · simp [hxc]
          rcases List.mem_cons.mp hx with h | h
          · exact absurd h hxc
          · exact hf x h
      refine ⟨by simp [St.ctxWrite], fun _ _ => rfl, fun x hx => hfresh x (List.mem_cons_of_mem _ hx), fun _ => hfresh, ?_⟩
      refine ⟨[(c, σ.inst c)], fun h => by simp [hi] at h, ?_, ?_⟩
      · cases hctx : σ.ctx with
        | nil => exact absurd hctx hne
        | cons t r => simp [St.ctxWrite, hctx, addLog]
      · simp [undo, St.ctxWrite, upd_upd_self]
    · cases hs
  | rawWrite c σ =>
    intro i f f' N0 hs hN hf hc
    simp only [safe] at hs
    split at hs
    · rename_i hcf
      injection hs with hs; subst hs
      have hge : N0 ≤ σ.inst c := hf c hcf
      refine ⟨Nat.le_refl _, ?_, hf, fun _ => hf, [], fun _ => rfl, by simp [St.rawWrite], rfl⟩
      intro id hid
      have : id ≠ σ.inst c := by omega
      simp [St.rawWrite, updN, this]
    · cases hs
  | @withModel b σ o σ2 _ ih =>
    intro i f f' N0 hs hN hf hc
    simp only [safe] at hs
    split at hs
    · rename_i f1 h1
      injection hs with hs; subst hs
      have p := ih true f f1 N0 h1 hN hf (fun _ => by simp [St.push])
      obtain ⟨l, _, hctx, hu⟩ := p.log
      have hctx2 : σ2.ctx = (l ++ []) :: σ.ctx := by simpa [St.push, addLog] using hctx
      have hinst : σ2.pop.inst = σ.inst := by
        simp only [St.pop, hctx2]
        simpa [St.push] using hu
      have hctx' : σ2.pop.ctx = σ.ctx := by simp [St.pop, hctx2]
      have hnext : σ2.pop.next = σ2.next := by simp [St.pop, hctx2]
      have hcont : σ2.pop.content = σ2.content := by simp [St.pop, hctx2]
      have hfr : Fresh N0 σ2.pop f := fun c hcf => by rw [hinst]; exact hf c hcf
      refine ⟨by rw [hnext]; exact p.next_le, fun id hid => by rw [hcont]; exact p.content id hid, hfr, fun _ => hfr, [], fun _ => rfl, ?_, ?_⟩
      · simp [hctx']
      · simp [undo, hinst]
    · cases hs
  | @tryFinally b fin σ o1 σ1 o2 σ2 _ _ ihb ihf =>
    intro i f f' N0 hs hN hf hc
    simp only [safe] at hs
    split at hs
    · rename_i f1 f2 h1 h2
      injection hs with hs; subst hs
      have pb := ihb i f f1 N0 h1 hN hf hc
      obtain ⟨l1, hl1, hctx1, hu1⟩ := pb.log
      have hc1 : i = true → σ1.ctx ≠ [] := fun hi => hctx1 ▸ addLog_ne_nil (hc hi)
      have pf := ihf i f f2 N0 h2 (Nat.le_trans hN pb.next_le) pb.fresh_in hc1
      obtain ⟨l2, hl2, hctx2, hu2⟩ := pf.log
      refine ⟨Nat.le_trans pb.next_le pf.next_le, fun id hid => (pf.content id hid).trans (pb.content id hid), pf.fresh_in, ?_, ?_⟩
      · intro hok
        have ho1 : o1 = .ok := by cases o1 <;> cases o2 <;> simp [Out.join] at hok ⊢
        -- the finally block, checked again with the larger fresh set the body ended with
        obtain ⟨g', hg', _⟩ := safe_mono (safe_grows h1) h2
        exact (ihf i f1 g' N0 hg' (Nat.le_trans hN pb.next_le) (pb.fresh_out ho1) hc1).fresh_in
      · refine ⟨l2 ++ l1, fun hi => by simp [hl1 hi, hl2 hi], ?_, ?_⟩
        · rw [hctx2, hctx1, addLog_addLog]
        · rw [undo_append, hu2, hu1]
    · cases hs
  | noRaise σ =>
    intro i f f' N0 hs _ hf _
    simp [safe] at hs; subst hs
    exact ⟨Nat.le_refl _, fun _ _ => rfl, hf, fun _ => hf, [], fun _ => rfl, by simp, rfl⟩
  | raise σ =>
    intro i f f' N0 hs _ hf _
    simp [safe] at hs; subst hs
    exact ⟨Nat.le_refl _, fun _ _ => rfl, hf, fun _ => hf, [], fun _ => rfl, by simp, rfl⟩
  | onCopy b σ o =>
    intro i f f' N0 hs _ hf _
    simp [safe] at hs; subst hs
    exact ⟨Nat.le_refl _, fun _ _ => rfl, hf, fun _ => hf, [], fun _ => rfl, by simp, rfl⟩
  | @branchL a b σ o σ1 _ ih =>
    intro i f f' N0 hs hN hf hc
    simp only [safe] at hs
    split at hs
    · rename_i f1 f2 h1 h2
      injection hs with hs; subst hs
      have p := ih i f f1 N0 h1 hN hf hc
      refine ⟨p.next_le, p.content, p.fresh_in, fun hok c hcm => ?_, p.log⟩
      simp only [List.mem_filter] at hcm
      exact p.fresh_out hok c hcm.1
    · cases hs
  | @branchR a b σ o σ1 _ ih =>
    intro i f f' N0 hs hN hf hc
    simp only [safe] at hs
    split at hs
    · rename_i f1 f2 h1 h2
      injection hs with hs; subst hs
      have p := ih i f f2 N0 h2 hN hf hc
      refine ⟨p.next_le, p.content, p.fresh_in, fun hok c hcm => ?_, p.log⟩
      simp only [List.mem_filter, decide_eq_true_eq] at hcm
      exact p.fresh_out hok c hcm.2
    · cases hs
  | loopDone b σ =>
    intro i f f' N0 hs _ hf _
    simp only [safe] at hs
    split at hs
    · injection hs with hs; subst hs
      exact ⟨Nat.le_refl _, fun _ _ => rfl, hf, fun _ => hf, [], fun _ => rfl, by simp, rfl⟩
    · cases hs
  | @loopStep b σ σ1 o σ2 _ _ ihb ihl =>
    intro i f f' N0 hs hN hf hc
    have hs0 := hs
    simp only [safe] at hs
    split at hs
    · rename_i f1 h1
      injection hs with hs; subst hs
      have pb := ihb i f f1 N0 h1 hN hf hc
      obtain ⟨l1, hl1, hctx1, hu1⟩ := pb.log
      have hc1 : i = true → σ1.ctx ≠ [] := fun hi => hctx1 ▸ addLog_ne_nil (hc hi)
      have pl := ihl i f f N0 hs0 (Nat.le_trans hN pb.next_le) pb.fresh_in hc1
      obtain ⟨l2, hl2, hctx2, hu2⟩ := pl.log
      refine ⟨Nat.le_trans pb.next_le pl.next_le, fun id hid => (pl.content id hid).trans (pb.content id hid), pl.fresh_in, fun _ => pl.fresh_in, ?_⟩
      refine ⟨l2 ++ l1, fun hi => by simp [hl1 hi, hl2 hi], ?_, ?_⟩
      · rw [hctx2, hctx1, addLog_addLog]
      · rw [undo_append, hu2, hu1]
    · cases hs
  | @loopRaise b σ σ1 _ ih =>
    intro i f f' N0 hs hN hf hc
    simp only [safe] at hs
    split at hs
    · rename_i f1 h1
      injection hs with hs; subst hs
      have p := ih i f f1 N0 h1 hN hf hc
      exact ⟨p.next_le, p.content, p.fresh_in, (fun h => by cases h), p.log⟩
    · cases hs

end Effects

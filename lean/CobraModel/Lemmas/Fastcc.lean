import CobraModel.Model.Fastcc
/-! Lemmas about the bookkeeping of `fastcc`'s main loop. -/
namespace FastccM

theorem mem_diff {a b : List Nat} {r : Nat} : r ∈ diff a b ↔ r ∈ a ∧ r ∉ b := by
  simp [diff]

theorem mem_inter {a b : List Nat} {r : Nat} : r ∈ inter a b ↔ r ∈ a ∧ r ∈ b := by
  simp [inter]

theorem inter_nil_iff {a b : List Nat} : (inter a b).isEmpty = true ↔ ∀ r ∈ a, r ∉ b := by
  rw [List.isEmpty_iff]
  constructor
  · intro h r hr hb
    have : r ∈ inter a b := mem_inter.2 ⟨hr, hb⟩
    rw [h] at this; cases this
  · intro h
    apply List.eq_nil_iff_forall_not_mem.2
    intro r hr
    exact h r (mem_inter.1 hr).1 (mem_inter.1 hr).2

theorem length_diff_add_inter (a b : List Nat) : (diff a b).length + (inter a b).length = a.length := by
  induction a with
  | nil => rfl
  | cons x xs ih =>
    simp only [diff, inter, List.filter_cons] at ih ⊢
    by_cases h : b.contains x = true
    · simp only [h, Bool.not_true, Bool.false_eq_true, if_false, if_true, List.length_cons]; omega
    · have h' : b.contains x = false := by simpa using h
      simp only [h', Bool.not_false, if_true, Bool.false_eq_true, if_false, List.length_cons]; omega

theorem diff_shorter {a b : List Nat} (h : (inter a b).isEmpty = false) : (diff a b).length < a.length := by
  have e := length_diff_add_inter a b
  have : 0 < (inter a b).length := by
    cases hh : inter a b with
    | nil => rw [hh] at h; simp at h
    | cons _ _ => simp
  omega

/-- everything kept was kept before or came out of a solve -/
theorem loop_kept (irr : List Nat) (answers : List (List Nat)) (keep check : List Nat) (calls : List Call) (r : Nat)
    (h : r ∈ (loop irr answers keep check calls).kept) : r ∈ keep ∨ ∃ a ∈ answers, r ∈ a := by
  induction answers generalizing keep check calls with
  | nil => exact Or.inl h
  | cons a rest ih =>
    unfold loop at h
    split at h
    · exact Or.inl h
    · simp only at h
      split at h
      · split at h
        · next b =>
          rcases List.mem_append.1 h with h1 | h1
          · rcases List.mem_append.1 h1 with h2 | h2
            · exact Or.inl h2
            · exact Or.inr ⟨a, List.mem_cons_self, h2⟩
          · exact Or.inr ⟨b, List.mem_cons_of_mem _ List.mem_cons_self, h1⟩
        · rcases List.mem_append.1 h with h2 | h2
          · exact Or.inl h2
          · exact Or.inr ⟨a, List.mem_cons_self, h2⟩
      · rcases ih _ _ _ h with h1 | ⟨b, hb, hr⟩
        · rcases List.mem_append.1 h1 with h2 | h2
          · exact Or.inl h2
          · exact Or.inr ⟨a, List.mem_cons_self, h2⟩
        · exact Or.inr ⟨b, List.mem_cons_of_mem _ hb, hr⟩

/-- what was kept stays kept -/
theorem loop_mono (irr : List Nat) (answers : List (List Nat)) (keep check : List Nat) (calls : List Call) (r : Nat) (h : r ∈ keep) :
    r ∈ (loop irr answers keep check calls).kept := by
  induction answers generalizing keep check calls with
  | nil => exact h
  | cons a rest ih =>
    unfold loop
    split
    · exact h
    · simp only
      split
      · split
        · exact List.mem_append_left _ (List.mem_append_left _ h)
        · exact List.mem_append_left _ h
      · exact ih _ _ _ (List.mem_append_left _ h)

/-- earlier calls stay in the record -/
theorem loop_calls_mono (irr : List Nat) (answers : List (List Nat)) (keep check : List Nat) (calls : List Call) (c : Call) (h : c ∈ calls) :
    c ∈ (loop irr answers keep check calls).calls := by
  induction answers generalizing keep check calls with
  | nil => exact h
  | cons a rest ih =>
    unfold loop
    split
    · exact h
    · simp only
      split
      · split
        · exact List.mem_append_left _ (List.mem_append_left _ h)
        · exact List.mem_append_left _ h
      · exact ih _ _ _ (List.mem_append_left _ h)

/-- **a dropped reaction was tested in the round that ended the loop**: if the loop ran to its end and `r` (one of the reactions still to check
or already out of question) is not kept, then the record has an unflipped solve that was given `r` and whose answer contained none of the
reactions it was given -/
theorem loop_dropped_tested (irr : List Nat) (answers : List (List Nat)) (keep check : List Nat) (calls : List Call) (r : Nat)
    (hc : (loop irr answers keep check calls).complete = true) (hr : r ∈ check)
    (hk : r ∉ (loop irr answers keep check calls).kept) :
    ∃ c ∈ (loop irr answers keep check calls).calls, c.flipped = false ∧ r ∈ c.j ∧ ∀ j ∈ c.j, j ∉ c.ans := by
  induction answers generalizing keep check calls with
  | nil =>
    simp only [loop] at hc
    rw [List.isEmpty_iff] at hc
    rw [hc] at hr; cases hr
  | cons a rest ih =>
    unfold loop at hc hk ⊢
    by_cases hne : check.isEmpty = true
    · rw [if_pos hne] at hc; cases hc
    · rw [if_neg hne] at hc hk ⊢
      simp only at hc hk ⊢
      by_cases hint : (inter check (keep ++ a)).isEmpty = true
      · rw [if_pos hint] at hc hk ⊢
        split at hc
        · next b =>
          refine ⟨⟨check, false, a⟩, ?_, rfl, hr, ?_⟩
          · exact List.mem_append_left _ (List.mem_append_right _ List.mem_cons_self)
          · intro j hj hja
            exact (inter_nil_iff.1 hint) j hj (List.mem_append_right _ hja)
        · cases hc
      · rw [if_neg hint] at hc hk ⊢
        have hr' : r ∈ diff check (keep ++ a) := by
          refine mem_diff.2 ⟨hr, fun hin => hk ?_⟩
          exact loop_mono _ _ _ _ _ _ hin
        exact ih _ _ _ hc hr' hk

/-- the number of solves is bounded by the number of reactions still to check (every round but the last removes one at least) -/
theorem loop_calls_le (irr : List Nat) (answers : List (List Nat)) (keep check : List Nat) (calls : List Call) :
    (loop irr answers keep check calls).calls.length ≤ calls.length + check.length + 1 := by
  induction answers generalizing keep check calls with
  | nil => simp only [loop]; omega
  | cons a rest ih =>
    unfold loop
    split
    · simp only; omega
    · rename_i hne
      have hpos : 0 < check.length := by
        cases check with
        | nil => simp at hne
        | cons _ _ => simp
      simp only
      split
      · split
        · simp only [List.length_append, List.length_cons, List.length_nil]; omega
        · simp only [List.length_append, List.length_cons, List.length_nil]; omega
      · rename_i hint
        have hs := diff_shorter (a := check) (b := keep ++ a) (by simpa using hint)
        have := ih (keep ++ a) (diff check (keep ++ a)) (calls ++ [⟨check, false, a⟩])
        simp only [List.length_append, List.length_cons, List.length_nil] at this
        omega

/-! ### the whole function -/

theorem fastcc_kept (all irr : List Nat) (answers : List (List Nat)) (r : Nat) (h : r ∈ (fastcc all irr answers).kept) :
    ∃ a ∈ answers, r ∈ a := by
  unfold fastcc at h
  split at h
  · rcases loop_kept _ _ _ _ _ _ h with h1 | h1
    · cases h1
    · exact h1
  · split at h
    · cases h
    · next a rest =>
      rcases loop_kept _ _ _ _ _ _ h with h1 | ⟨b, hb, hr⟩
      · exact ⟨a, List.mem_cons_self, h1⟩
      · exact ⟨b, List.mem_cons_of_mem _ hb, hr⟩

theorem fastcc_dropped_tested (all irr : List Nat) (answers : List (List Nat)) (r : Nat) (hc : (fastcc all irr answers).complete = true)
    (hr : r ∈ all) (hk : r ∉ (fastcc all irr answers).kept) :
    ∃ c ∈ (fastcc all irr answers).calls, c.flipped = false ∧ r ∈ c.j ∧ ∀ j ∈ c.j, j ∉ c.ans := by
  unfold fastcc at hc hk ⊢
  split at hc
  · rename_i hi
    rw [if_pos hi] at hk ⊢
    exact loop_dropped_tested _ _ _ _ _ _ hc (mem_diff.2 ⟨hr, by simp⟩) hk
  · rename_i hi
    rw [if_neg hi] at hk ⊢
    split at hc
    · cases hc
    · next a rest =>
      simp only at hk ⊢
      have hra : r ∉ a := fun hin => hk (loop_mono _ _ _ _ _ _ hin)
      exact loop_dropped_tested _ _ _ _ _ _ hc (mem_diff.2 ⟨hr, hra⟩) hk

theorem fastcc_calls_le (all irr : List Nat) (answers : List (List Nat)) : (fastcc all irr answers).calls.length ≤ all.length + 2 := by
  unfold fastcc
  have dl : ∀ b : List Nat, (diff all b).length ≤ all.length := fun b => by
    have := length_diff_add_inter all b; omega
  split
  · have := loop_calls_le irr answers [] (diff all []) []
    have := dl []
    simp only [List.length_nil] at *; omega
  · split
    · simp
    · next a rest =>
      have := loop_calls_le irr rest a (diff all a) [⟨irr, false, a⟩]
      have := dl a
      simp only [List.length_cons, List.length_nil] at *; omega

end FastccM

import CobraModel.Model.DictList
/-! Helper lemmas for the DictList model (core Lean only). -/
namespace DLM

@[simp] theorem Idx.get_nil (k : String) : Idx.get [] k = none := rfl

theorem Idx.get_set (ix : Idx) (k k' : String) (v : Nat) :
    (ix.set k v).get k' = if k' = k then some v else ix.get k' := by
  simp [Idx.set, Idx.get]

theorem Idx.get_erase (ix : Idx) (k k' : String) :
    (ix.erase k).get k' = if k' = k then none else ix.get k' := by
  induction ix with
  | nil => simp [Idx.erase]
  | cons e es ih => obtain ⟨a, b⟩ := e; simp only [Idx.erase, Idx.get]; grind [Idx.get]

theorem Idx.get_mapVals (f : Nat → Nat) (ix : Idx) (k : String) :
    (ix.mapVals f).get k = (ix.get k).map f := by
  induction ix with
  | nil => simp [Idx.mapVals]
  | cons e es ih => obtain ⟨a, b⟩ := e; simp only [Idx.mapVals, Idx.get]; grind

end DLM

namespace DLM

def ids (l : List Obj) : List String := l.map (·.id)

/-- The coherence invariant: the index maps exactly each present id to the position of the
element carrying it. -/
def Inv (d : DL) : Prop :=
  ∀ (k : String) (i : Nat), d.index.get k = some i ↔ ∃ o, d.items[i]? = some o ∧ o.id = k

theorem Inv.nodup {d : DL} (h : Inv d) : (ids d.items).Nodup := by
  unfold ids
  rw [List.Nodup, List.pairwise_iff_getElem]
  intro i j hi hj hij heq
  simp only [List.length_map] at hi hj
  simp only [List.getElem_map] at heq
  have h1 := (h (d.items[i]).id i).2 ⟨d.items[i], by simp [hi], rfl⟩
  have h2 := (h (d.items[i]).id j).2 ⟨d.items[j], by simp [hj], heq.symm⟩
  rw [h1] at h2
  injection h2 with h2
  omega

theorem genFrom_get (l : List Obj) (hn : (ids l).Nodup) (n : Nat) (acc : Idx) (k : String) (i : Nat) :
    (genFrom n l acc).get k = some i ↔
      (∃ j o, l[j]? = some o ∧ o.id = k ∧ i = n + j) ∨ ((∀ o ∈ l, o.id ≠ k) ∧ acc.get k = some i) := by
  induction l generalizing n acc with
  | nil => simp [genFrom]
  | cons x xs ih =>
    simp only [ids, List.map_cons, List.nodup_cons] at hn
    rw [genFrom, ih hn.2, Idx.get_set]
    constructor
    · rintro (⟨j, o, h1, h2, h3⟩ | ⟨h1, h2⟩)
      · exact Or.inl ⟨j + 1, o, by simpa using h1, h2, by omega⟩
      · by_cases hk : k = x.id
        · simp [hk] at h2
          exact Or.inl ⟨0, x, by simp, hk.symm, by omega⟩
        · simp [hk] at h2
          exact Or.inr ⟨by intro o ho; simp at ho; rcases ho with rfl | ho; exact fun h => hk h.symm; exact h1 o ho, h2⟩
    · rintro (⟨j, o, h1, h2, h3⟩ | ⟨h1, h2⟩)
      · cases j with
        | zero =>
          simp at h1; subst h1
          refine Or.inr ⟨?_, by simp [h2, h3]⟩
          intro o ho heq
          exact hn.1 (by simp only [List.mem_map]; exact ⟨o, ho, by rw [heq, h2]⟩)
        | succ j => exact Or.inl ⟨j, o, by simpa using h1, h2, by omega⟩
      · have hx : k ≠ x.id := fun h => h1 x (by simp) h.symm
        exact Or.inr ⟨fun o ho => h1 o (by simp [ho]), by simp [hx, h2]⟩

theorem inv_generate (l : List Obj) (hn : (ids l).Nodup) : Inv ⟨l, generate l⟩ := by
  intro k i
  unfold generate
  simp only
  rw [genFrom_get l hn]
  simp
  constructor
  · rintro ⟨j, o, h1, h2, h3⟩; subst h3; exact ⟨o, h1, h2⟩
  · rintro ⟨o, h1, h2⟩; exact ⟨i, o, h1, h2, rfl⟩

end DLM

namespace DLM

theorem Inv.fwd {d : DL} (h : Inv d) :
    ∀ (k : String) (i : Nat), d.index.get k = some i → ∃ o, d.items[i]? = some o ∧ o.id = k :=
  fun k i => (h k i).1
theorem Inv.bwd {d : DL} (h : Inv d) :
    ∀ (i : Nat) (o : Obj), d.items[i]? = some o → d.index.get o.id = some i :=
  fun i o ho => (h o.id i).2 ⟨o, ho, rfl⟩
theorem Inv.mk' {d : DL}
    (h1 : ∀ (k : String) (i : Nat), d.index.get k = some i → ∃ o, d.items[i]? = some o ∧ o.id = k)
    (h2 : ∀ (i : Nat) (o : Obj), d.items[i]? = some o → d.index.get o.id = some i) : Inv d := by
  intro k i; constructor
  · exact h1 k i
  · rintro ⟨o, ho, rfl⟩; exact h2 i o ho

theorem inv_empty : Inv DL.empty := by
  intro k i; simp [DL.empty]

theorem check_iff {d : DL} (h : Inv d) (k : String) : check d k = true ↔ ∀ o ∈ d.items, o.id ≠ k := by
  unfold check
  constructor
  · intro hc o ho heq
    obtain ⟨i, hi, hio⟩ := List.getElem_of_mem ho
    have := (h k i).2 ⟨o, by simp [hi, hio], heq⟩
    simp [this] at hc
  · intro hall
    cases hg : d.index.get k with
    | none => rfl
    | some i =>
      obtain ⟨o, h1, h2⟩ := (h k i).1 hg
      exact absurd h2 (hall o (List.mem_of_getElem? h1))

theorem get_none_iff {d : DL} (h : Inv d) (k : String) : d.index.get k = none ↔ ∀ o ∈ d.items, o.id ≠ k := by
  rw [← check_iff h]; unfold check; simp

theorem append_inv {d : DL} (h : Inv d) (o : Obj) : Inv (append d o).1 := by
  unfold append
  split
  · rename_i hc
    have hfree := (check_iff h o.id).1 hc
    intro k i
    simp only [Idx.get_set, List.getElem?_append]
    have := h k i
    grind
  · exact h

theorem getElem?_insertAt (l : List Obj) (o : Obj) (p : Nat) (hp : p ≤ l.length) (j : Nat) :
    (l.take p ++ o :: l.drop p)[j]? = if j < p then l[j]? else if j = p then some o else l[j - 1]? := by
  rw [List.getElem?_append]
  simp only [List.length_take, Nat.min_eq_left hp]
  split
  · simp [*]
  · split
    · subst_vars; simp
    · have : j - p = (j - p - 1) + 1 := by omega
      rw [this, List.getElem?_cons_succ, List.getElem?_drop]
      congr 1; omega

theorem insert_inv {d : DL} (h : Inv d) (i : Int) (o : Obj) : Inv (insert d i o).1 := by
  unfold insert
  split
  · rename_i hc
    have hfree := (check_iff h o.id).1 hc
    have hp : clampInsert d.items.length i ≤ d.items.length := by unfold clampInsert; split <;> omega
    generalize clampInsert d.items.length i = p at hp
    have hf := h.fwd
    have hb := h.bwd
    have hfr : ∀ (i : Nat) (x : Obj), d.items[i]? = some x → x.id ≠ o.id :=
      fun i x hx => hfree x (List.mem_of_getElem? hx)
    apply Inv.mk'
    · intro k j
      simp only [Idx.get_set, Idx.get_mapVals, getElem?_insertAt _ _ _ hp]
      cases hg : d.index.get k <;> grind
    · intro j x
      simp only [Idx.get_set, Idx.get_mapVals, getElem?_insertAt _ _ _ hp]
      grind
  · exact h

theorem extendLoop_inv (os : List Obj) (d : DL) (h : Inv d) (ix : Idx)
    (he : extendLoop d.items.length os d.index = some ix) : Inv ⟨d.items ++ os, ix⟩ := by
  induction os generalizing d with
  | nil => simp [extendLoop] at he; subst he; simpa using h
  | cons o os ih =>
    simp only [extendLoop] at he
    split at he
    · rename_i hg
      have hc : check d o.id = true := by simp [check, hg]
      have ha := append_inv h o
      simp only [append, hc, if_true] at ha
      have := ih ⟨d.items ++ [o], d.index.set o.id d.items.length⟩ ha (by simpa using he)
      simpa using this
    · cases he

theorem extend_inv {d : DL} (h : Inv d) (os : List Obj) : Inv (extend d os).1 := by
  unfold extend
  split
  · rename_i ix he; exact extendLoop_inv os d h ix he
  · exact h

theorem union_inv (os : List Obj) (d : DL) (h : Inv d) : Inv (union d os) := by
  induction os generalizing d with
  | nil => simpa [union] using h
  | cons o os ih =>
    simp only [union]
    split
    · exact ih d h
    · exact ih _ (append_inv h o)

theorem delAt_inv {d : DL} (h : Inv d) (p : Nat) (v : Obj) (hv : d.items[p]? = some v) :
    Inv ⟨d.items.eraseIdx p, (d.index.erase v.id).mapVals (fun j => if j > p then j - 1 else j)⟩ := by
  have hf := h.fwd
  have hb := h.bwd
  apply Inv.mk'
  · intro k i
    simp only [Idx.get_mapVals, Idx.get_erase, List.getElem?_eraseIdx]
    cases hg : d.index.get k <;> grind
  · intro i o
    simp only [Idx.get_mapVals, Idx.get_erase, List.getElem?_eraseIdx]
    grind

theorem popAt_eq {d : DL} (h : Inv d) (p : Nat) (v : Obj) (hv : d.items[p]? = some v) :
    popAt d p = ⟨d.items.eraseIdx p, (d.index.erase v.id).mapVals (fun j => if j > p then j - 1 else j)⟩ := by
  unfold popAt
  simp only [hv, h.bwd p v hv]

theorem popAt_inv {d : DL} (h : Inv d) (p : Nat) : Inv (popAt d p) := by
  cases hv : d.items[p]? with
  | none => simpa [popAt, hv] using h
  | some v => rw [popAt_eq h p v hv]; exact delAt_inv h p v hv

theorem pop_inv {d : DL} (h : Inv d) (i : Option Int) : Inv (pop d i).1 := by
  unfold pop
  split
  · split
    · exact h
    · exact popAt_inv h _
  · split
    · exact h
    · exact popAt_inv h _

theorem remove_inv {d : DL} (h : Inv d) (x : Ref) : Inv (remove d x).1 := by
  unfold remove
  split
  · exact h
  · exact popAt_inv h _

theorem removeAll_inv (xs : List Ref) (d : DL) (h : Inv d) : Inv (removeAll d xs).1 := by
  induction xs generalizing d with
  | nil => simpa [removeAll] using h
  | cons x xs ih =>
    simp only [removeAll]
    have hr := remove_inv h x
    split
    · rename_i d' heq; rw [heq] at hr; exact ih d' hr
    · rename_i d' e heq; rw [heq] at hr; exact hr

theorem isub_inv {d : DL} (h : Inv d) (xs : List Ref) : Inv (isub d xs).1 := by
  unfold isub
  split
  · exact h
  · split
    · exact h
    · exact removeAll_inv xs d h

theorem delItem_inv {d : DL} (h : Inv d) (i : Int) : Inv (delItem d i).1 := by
  unfold delItem
  split
  · exact h
  · split
    · exact h
    · rename_i v hv; exact delAt_inv h _ v hv

theorem setItem_inv {d : DL} (h : Inv d) (i : Int) (y : Obj) : Inv (setItem d i y).1 := by
  unfold setItem
  split
  · exact h
  · rename_i p _
    split
    · exact h
    · rename_i old hold
      have hrep : d.index.get old.id = some p := h.bwd p old hold
      simp only []
      split
      · exact h
      · rename_i hcond
        have hf := h.fwd
        have hb := h.bwd
        have hlt : p < d.items.length := by
          have := List.getElem?_eq_some_iff.1 hold; exact this.1
        simp only [hrep, beq_self_eq_true, if_true]
        have hfree : y.id = old.id ∨ ∀ (j : Nat) (x : Obj), d.items[j]? = some x → x.id ≠ y.id := by
          by_cases hyo : y.id = old.id
          · exact Or.inl hyo
          · right
            have hc : check d y.id = true := by
              simp [hrep, hyo] at hcond; exact hcond
            intro j x hx
            exact (check_iff h y.id).1 hc x (List.mem_of_getElem? hx)
        apply Inv.mk'
        · intro k j
          simp only [Idx.get_set, Idx.get_erase, List.getElem?_set]
          cases hg : d.index.get k <;> grind
        · intro j x
          simp only [Idx.get_set, Idx.get_erase, List.getElem?_set]
          grind

end DLM

namespace DLM


theorem nodup_reverse_ids {l : List Obj} (h : (ids l).Nodup) : (ids l.reverse).Nodup := by
  unfold ids at *; rw [List.map_reverse]; exact (List.reverse_perm _).nodup_iff.2 h

theorem insertSorted_perm (le : Obj → Obj → Bool) (o : Obj) (l : List Obj) :
    (insertSorted le o l).Perm (o :: l) := by
  induction l with
  | nil => simp [insertSorted]
  | cons x xs ih =>
    simp only [insertSorted]
    split
    · exact ((List.Perm.cons x ih).trans (List.Perm.swap o x xs))
    · exact List.Perm.refl _

theorem sortFold_perm (le : Obj → Obj → Bool) (l acc : List Obj) :
    (l.foldl (fun acc o => insertSorted le o acc) acc).Perm (l ++ acc) := by
  induction l generalizing acc with
  | nil => simp
  | cons x xs ih =>
    simp only [List.foldl_cons]
    refine (ih _).trans ?_
    refine (List.Perm.append_left xs (insertSorted_perm le x acc)).trans ?_
    simp

theorem sortById_perm (rev : Bool) (l : List Obj) : (sortById rev l).Perm l := by
  unfold sortById
  simpa using sortFold_perm _ l []

theorem nodup_sort_ids {l : List Obj} (rev : Bool) (h : (ids l).Nodup) : (ids (sortById rev l)).Nodup := by
  unfold ids at *; exact ((sortById_perm rev l).map _).nodup_iff.2 h

theorem nodup_sublist_ids {l l' : List Obj} (hs : l'.Sublist l) (h : (ids l).Nodup) : (ids l').Nodup :=
  List.Nodup.sublist (hs.map _) h

theorem dropPositions_sublist (l : List Obj) (ps : List Nat) : (dropPositions l ps).Sublist l := by
  unfold dropPositions
  have h1 : (l.zipIdx.filter (fun e => !(ps.contains e.2))).Sublist l.zipIdx := List.filter_sublist
  have h2 := h1.map Prod.fst
  rwa [List.zipIdx_map_fst] at h2

/-- `allFree d ys seen`: the ids of `ys` are free in `d`, pairwise distinct and not in `seen` -/
theorem allFree_spec {d : DL} (h : Inv d) (ys : List Obj) (seen : List String) (hf : allFree d ys seen = true) :
    (ids ys).Nodup ∧ (∀ y ∈ ys, ∀ o ∈ d.items, o.id ≠ y.id) ∧ (∀ y ∈ ys, y.id ∉ seen) := by
  induction ys generalizing seen with
  | nil => simp [ids]
  | cons y ys ih =>
    simp only [allFree, Bool.and_eq_true, Bool.not_eq_true', List.contains_eq_mem, decide_eq_false_iff_not] at hf
    obtain ⟨⟨hc, hs⟩, hr⟩ := hf
    obtain ⟨h1, h2, h3⟩ := ih (y.id :: seen) hr
    refine ⟨?_, ?_, ?_⟩
    · simp only [ids, List.map_cons, List.nodup_cons]
      refine ⟨?_, h1⟩
      intro hm
      obtain ⟨z, hz, hzid⟩ := List.mem_map.1 hm
      exact h3 z hz (by simp [hzid])
    · intro z hz
      rcases List.mem_cons.1 hz with rfl | hz
      · exact (check_iff h _).1 hc
      · exact h2 z hz
    · intro z hz
      rcases List.mem_cons.1 hz with rfl | hz
      · exact hs
      · intro hm; exact h3 z hz (List.mem_cons_of_mem _ hm)

theorem nodup_splice {l ys : List Obj} (a b : Nat) (hab : a ≤ b) (hl : (ids l).Nodup) (hy : (ids ys).Nodup)
    (hd : ∀ y ∈ ys, ∀ o ∈ l, o.id ≠ y.id) : (ids (l.take a ++ ys ++ l.drop b)).Nodup := by
  have hsub : (l.take a ++ l.drop b).Sublist l := by
    have : (l.take a ++ l.drop b).Sublist (l.take a ++ l.drop a) :=
      List.Sublist.append (List.Sublist.refl _) (by
        have : l.drop b = (l.drop a).drop (b - a) := by rw [List.drop_drop]; congr 1; omega
        rw [this]; exact List.drop_sublist _ _)
    simpa using this
  have hn := nodup_sublist_ids hsub hl
  unfold ids at *
  simp only [List.map_append, List.nodup_append] at hn ⊢
  obtain ⟨h1, h2, h3⟩ := hn
  refine ⟨⟨h1, hy, ?_⟩, h2, ?_⟩
  · intro x hx z hz heq
    obtain ⟨o, ho, rfl⟩ := List.mem_map.1 hx
    obtain ⟨y, hy', rfl⟩ := List.mem_map.1 hz
    exact hd y hy' o (List.mem_of_mem_take ho) heq
  · intro x hx z hz heq
    rcases List.mem_append.1 hx with hx | hx
    · exact h3 x hx z hz heq
    · obtain ⟨y, hy', rfl⟩ := List.mem_map.1 hx
      obtain ⟨o, ho, rfl⟩ := List.mem_map.1 hz
      exact hd y hy' o (List.mem_of_mem_drop ho) heq.symm

theorem nodup_set_fresh {l : List String} (p : Nat) (a : String) (hl : l.Nodup) (ha : a ∉ l) : (l.set p a).Nodup := by
  induction l generalizing p with
  | nil => simp
  | cons x xs ih =>
    cases p with
    | zero => simp only [List.set_cons_zero, List.nodup_cons] at *; exact ⟨by simp at ha; exact ha.2, hl.2⟩
    | succ p =>
      simp only [List.set_cons_succ, List.nodup_cons] at *
      simp at ha
      refine ⟨?_, ih p hl.2 ha.2⟩
      intro hm
      rcases List.mem_or_eq_of_mem_set hm with hm | hm
      · exact hl.1 hm
      · exact ha.1 hm.symm

theorem nodup_assignAt (l : List Obj) (ps : List Nat) (ys : List Obj) (hl : (ids l).Nodup) (hy : (ids ys).Nodup)
    (hd : ∀ y ∈ ys, ∀ o ∈ l, o.id ≠ y.id) : (ids (assignAt l ps ys)).Nodup := by
  induction ps generalizing l ys with
  | nil => simpa [assignAt] using hl
  | cons p ps ih =>
    cases ys with
    | nil => simpa [assignAt] using hl
    | cons y ys =>
      simp only [assignAt]
      simp only [ids, List.map_cons, List.nodup_cons] at hy
      apply ih
      · unfold ids; rw [List.map_set]
        apply nodup_set_fresh _ _ hl
        intro hm
        obtain ⟨o, ho, hoid⟩ := List.mem_map.1 hm
        exact hd y (by simp) o ho hoid
      · exact hy.2
      · intro z hz o ho
        rcases List.mem_or_eq_of_mem_set ho with ho | ho
        · exact hd z (List.mem_cons_of_mem _ hz) o ho
        · subst ho; intro heq; exact hy.1 (List.mem_map.2 ⟨z, hz, heq.symm⟩)


end DLM

namespace DLM


theorem rangeList_mem (fuel : Nat) (start stop step : Int) (x : Nat) (hx : x ∈ rangeList fuel start stop step)
    (hpos : 0 < step → 0 ≤ start) (hneg : step < 0 → -1 ≤ stop) :
    (0 < step → start ≤ (x : Int)) ∧ (step < 0 → (x : Int) ≤ start ∧ 0 ≤ start) := by
  induction fuel generalizing start with
  | zero => simp [rangeList] at hx
  | succ n ih =>
    simp only [rangeList] at hx
    split at hx
    · rename_i hc
      rcases List.mem_cons.1 hx with rfl | hx
      · omega
      · have := ih (start + step) hx (by omega) 
        omega
    · simp at hx

theorem rangeList_nodup (fuel : Nat) (start stop step : Int)
    (hpos : 0 < step → 0 ≤ start) (hneg : step < 0 → -1 ≤ stop) :
    (rangeList fuel start stop step).Nodup := by
  induction fuel generalizing start with
  | zero => simp [rangeList]
  | succ n ih =>
    simp only [rangeList]
    split
    · rename_i hc
      rw [List.nodup_cons]
      refine ⟨?_, ih (start + step) (by omega)⟩
      intro hm
      have := rangeList_mem n (start + step) stop step _ hm (by omega) hneg
      omega
    · simp

theorem slicePositions_nodup (len : Nat) (s : Slice) (ps : List Nat) (h : slicePositions len s = some ps) :
    ps.Nodup := by
  unfold slicePositions at h
  split at h
  · cases h
  · rename_i start stop step hsi
    injection h with h; subst h
    unfold sliceIndices at hsi
    simp only at hsi
    split at hsi
    · cases hsi
    · injection hsi with hsi
      simp only [Prod.mk.injEq] at hsi
      obtain ⟨h1, h2, h3⟩ := hsi
      apply rangeList_nodup
      · intro hp; subst h1 h3
        have : ¬ (s.step.getD 1 < 0) := by omega
        cases s.start <;> simp only [this, if_false] <;> omega
      · intro hn; subst h2 h3
        cases s.stop <;> simp only [hn, if_true] <;> omega

theorem nodup_pick {l : List Obj} (ps : List Nat) (hl : (ids l).Nodup) (hp : ps.Nodup) :
    (ids (ps.filterMap (fun p => l[p]?))).Nodup := by
  unfold ids
  rw [List.map_filterMap]
  refine List.Pairwise.filterMap _ ?_ hp
  intro a a' hne b hb b' hb' heq
  subst heq
  simp only [Option.map_eq_some_iff] at hb hb'
  obtain ⟨o, ho, hoid⟩ := hb
  obtain ⟨o', ho', hoid'⟩ := hb'
  apply hne
  unfold ids at hl
  rw [List.Nodup, List.pairwise_iff_getElem] at hl
  obtain ⟨ha, rfl⟩ := List.getElem?_eq_some_iff.1 ho
  obtain ⟨ha', rfl⟩ := List.getElem?_eq_some_iff.1 ho'
  rcases Nat.lt_trichotomy a a' with hlt | heq | hgt
  · have := hl a a' (by simpa using ha) (by simpa using ha') hlt
    simp only [List.getElem_map] at this; exact absurd (hoid.trans hoid'.symm) this
  · exact heq
  · have := hl a' a (by simpa using ha') (by simpa using ha) hgt
    simp only [List.getElem_map] at this; exact absurd (hoid'.trans hoid.symm) this


end DLM

namespace DLM

theorem setSlice_inv {d : DL} (h : Inv d) (s : Slice) (ys : List Obj) : Inv (setSlice d s ys).1 := by
  unfold setSlice
  split
  · exact h
  · rename_i hf
    simp only [Bool.not_eq_true, Bool.not_eq_false'] at hf
    have hf' : allFree d ys [] = true := by simpa using hf
    obtain ⟨h1, h2, _⟩ := allFree_spec h ys [] hf'
    split
    · exact h
    · simp only []
      split
      · exact inv_generate _ (nodup_splice _ _ (Nat.le_max_left _ _) h.nodup h1 h2)
      · split
        · exact h
        · exact inv_generate _ (nodup_assignAt _ _ _ h.nodup h1 h2)

theorem delSlice_inv {d : DL} (h : Inv d) (s : Slice) : Inv (delSlice d s).1 := by
  unfold delSlice
  split
  · exact h
  · exact inv_generate _ (nodup_sublist_ids (dropPositions_sublist _ _) h.nodup)

theorem getSlice_inv {d : DL} (h : Inv d) (s : Slice) : Inv (getSlice d s).1 := by
  unfold getSlice
  split
  · exact h
  · rename_i ps hps
    exact inv_generate _ (nodup_pick ps h.nodup (slicePositions_nodup _ _ _ hps))

theorem plus_inv {d : DL} (h : Inv d) (os : List Obj) : Inv (step d (.plus os)).1 := by
  simp only [step]
  have h1 := extend_inv inv_empty d.items
  split
  · rename_i t heq
    rw [heq] at h1
    have h2 := extend_inv h1 os
    split
    · rename_i t' heq'; rw [heq'] at h2; exact h2
    · exact h
  · exact h

theorem minus_inv {d : DL} (h : Inv d) (xs : List Ref) : Inv (step d (.minus xs)).1 := by
  simp only [step]
  have h1 := extend_inv inv_empty d.items
  split
  · rename_i t heq
    rw [heq] at h1
    have h2 := removeAll_inv xs t h1
    split
    · rename_i t' heq'; rw [heq'] at h2; exact h2
    · exact h
  · exact h

/-- Every operation preserves the coherence invariant. -/
theorem step_inv' (d : DL) (op : Op) (h : Inv d) : Inv (step d op).1 := by
  cases op with
  | append o => exact append_inv h o
  | insert i o => exact insert_inv h i o
  | extend os => exact extend_inv h os
  | union os => exact union_inv os d h
  | isub xs => exact isub_inv h xs
  | setItem i o => exact setItem_inv h i o
  | setSlice s os => exact setSlice_inv h s os
  | delItem i => exact delItem_inv h i
  | delSlice s => exact delSlice_inv h s
  | pop i => exact pop_inv h i
  | remove x => exact remove_inv h x
  | sort rev => exact inv_generate _ (nodup_sort_ids rev h.nodup)
  | reverse => exact inv_generate _ (nodup_reverse_ids h.nodup)
  | plus os => exact plus_inv h os
  | minus xs => exact minus_inv h xs
  | copy => exact h
  | pickle => exact inv_generate _ h.nodup
  | getSlice s => exact getSlice_inv h s
  | query qs => exact inv_generate _ (nodup_sublist_ids List.filter_sublist h.nodup)
  | initFrom => exact h

end DLM

namespace DLM


theorem hasDup_false {ps : List Nat} (h : hasDup ps = false) : ps.Nodup := by
  induction ps with
  | nil => simp
  | cons x xs ih =>
    simp only [hasDup, Bool.or_eq_false_iff, List.contains_eq_mem, decide_eq_false_iff_not] at h
    exact List.nodup_cons.2 ⟨h.1, ih h.2⟩

def shiftDown (p q : Nat) : Nat := if q > p then q - 1 else q

theorem indexOf_popAt {d : DL} (h : Inv d) (p : Nat) (v : Obj) (hv : d.items[p]? = some v) (x : Ref) (q : Nat)
    (hx : indexOf d x = .ok q) (hne : q ≠ p) : indexOf (popAt d p) x = .ok (shiftDown p q) := by
  rw [popAt_eq h p v hv]
  have hf := h.fwd
  have hb := h.bwd
  cases x with
  | byId k =>
    simp only [indexOf] at hx ⊢
    simp only [Idx.get_mapVals, Idx.get_erase]
    cases hg : d.index.get k with
    | none => simp [hg] at hx
    | some i =>
      simp only [hg] at hx
      injection hx with hx; subst hx
      have : k ≠ v.id := by
        intro hk; subst hk; have := hb p v hv; rw [hg] at this; injection this with this; exact hne this
      simp [this, shiftDown]
  | byObj o =>
    simp only [indexOf] at hx ⊢
    simp only [Idx.get_mapVals, Idx.get_erase]
    cases hg : d.index.get o.id with
    | none => simp [hg] at hx
    | some i =>
      simp only [hg] at hx
      split at hx
      · rename_i hio
        injection hx with hx; subst hx
        have : o.id ≠ v.id := by
          intro hk; have := hb p v hv; rw [← hk, hg] at this; injection this with this; exact hne this
        simp only [this, if_false, Option.map_some, List.getElem?_eraseIdx, shiftDown]
        grind
      · cases hx

theorem resolveAll_popAt {d : DL} (h : Inv d) (p : Nat) (v : Obj) (hv : d.items[p]? = some v)
    (xs : List Ref) (ps : List Nat) (hr : resolveAll d xs = some ps) (hp : p ∉ ps) :
    resolveAll (popAt d p) xs = some (ps.map (shiftDown p)) := by
  induction xs generalizing ps with
  | nil => simp [resolveAll] at hr ⊢; subst hr; simp
  | cons x xs ih =>
    simp only [resolveAll] at hr
    split at hr
    · rename_i q qs hq hqs
      injection hr with hr; subst hr
      simp only [List.mem_cons, not_or] at hp
      simp only [resolveAll, indexOf_popAt h p v hv x q hq (fun e => hp.1 e.symm), ih qs hqs hp.2, List.map_cons]
    · cases hr

theorem removeAll_ok (xs : List Ref) (d : DL) (h : Inv d) (ps : List Nat) (hr : resolveAll d xs = some ps)
    (hn : ps.Nodup) : (removeAll d xs).2 = none := by
  induction xs generalizing d ps with
  | nil => simp [removeAll]
  | cons x xs ih =>
    simp only [resolveAll] at hr
    split at hr
    · rename_i q qs hq hqs
      injection hr with hr; subst hr
      rw [List.nodup_cons] at hn
      simp only [removeAll, remove, hq]
      have hlt : ∃ v, d.items[q]? = some v := by
        cases x with
        | byId k =>
          simp only [indexOf] at hq
          split at hq
          · rename_i i hg; injection hq with hq; subst hq
            obtain ⟨o, ho, _⟩ := h.fwd k _ hg; exact ⟨o, ho⟩
          · cases hq
        | byObj o =>
          simp only [indexOf] at hq
          split at hq
          · split at hq
            · rename_i i hg hio; injection hq with hq; subst hq; exact ⟨o, hio⟩
            · cases hq
          · cases hq
      obtain ⟨v, hv⟩ := hlt
      refine ih (popAt d q) (popAt_inv h q) _ (resolveAll_popAt h q v hv xs qs hqs hn.1) ?_
      -- shifting down is injective away from q
      have hinj : ∀ a ∈ qs, ∀ b ∈ qs, shiftDown q a = shiftDown q b → a = b := by
        intro a ha b hb hab
        have ha' : a ≠ q := fun e => hn.1 (e ▸ ha)
        have hb' : b ≠ q := fun e => hn.1 (e ▸ hb)
        unfold shiftDown at hab
        split at hab <;> split at hab <;> omega
      clear ih hqs hq
      induction qs with
      | nil => simp
      | cons a as iha =>
        simp only [List.map_cons, List.nodup_cons] at hn ⊢
        refine ⟨?_, iha ⟨fun hm => hn.1 (List.mem_cons_of_mem _ hm), hn.2.2⟩
          (fun a' ha' b' hb' => hinj a' (List.mem_cons_of_mem _ ha') b' (List.mem_cons_of_mem _ hb'))⟩
        intro hm
        obtain ⟨b, hb, hab⟩ := List.mem_map.1 hm
        have := hinj b (List.mem_cons_of_mem _ hb) a (by simp) hab
        subst this; exact hn.2.1 hb
    · cases hr


end DLM

namespace DLM


theorem step_atomic' (d : DL) (op : Op) (h : Inv d) (e : Err) (he : (step d op).2 = some e) :
    (step d op).1 = d := by
  cases op with
  | append o => simp only [step, append] at *; split at he <;> simp_all
  | insert i o => simp only [step, insert] at *; split at he <;> simp_all
  | extend os => simp only [step, extend] at *; split at he <;> simp_all
  | union os => simp [step] at he
  | isub xs =>
    simp only [step, isub] at *
    split
    · rfl
    · rename_i ps hr
      split
      · rfl
      · rename_i hd
        have := removeAll_ok xs d h ps hr (hasDup_false (by simpa using hd))
        simp only [hr, hd] at he
        simp [this] at he
  | setItem i o =>
    simp only [step, setItem] at *
    split at he
    · simp_all
    · split at he
      · simp_all
      · split at he
        · simp_all
        · simp at he
  | setSlice s os =>
    simp only [step, setSlice] at *
    split at he
    · simp_all
    · split at he
      · simp_all
      · split at he
        · simp at he
        · split at he
          · simp_all
          · simp at he
  | delItem i =>
    simp only [step, delItem] at *
    split at he
    · simp_all
    · split at he <;> simp_all
  | delSlice s => simp only [step, delSlice] at *; split at he <;> simp_all
  | pop i =>
    simp only [step, pop] at *
    split at he
    · split at he <;> simp_all
    · split at he <;> simp_all
  | remove x => simp only [step, remove] at *; split at he <;> simp_all
  | sort rev => simp [step] at he
  | reverse => simp [step] at he
  | plus os =>
    simp only [step] at *
    split at he
    · split at he <;> simp_all
    · simp_all
  | minus xs =>
    simp only [step] at *
    split at he
    · split at he <;> simp_all
    · simp_all
  | copy => simp [step] at he
  | pickle => simp [step] at he
  | getSlice s => simp only [step, getSlice] at *; split at he <;> simp_all
  | query qs => simp [step] at he
  | initFrom => simp [step] at he

end DLM

import CobraModel.Model.DictScheme
namespace DictScheme

variable {V : Type} [DecidableEq V]

omit [DecidableEq V] in
theorem lookup_append (k : String) (l1 l2 : List (String × V)) :
    lookup k (l1 ++ l2) = match lookup k l1 with | some v => some v | none => lookup k l2 := by
  induction l1 with
  | nil => rfl
  | cons p l ih =>
    obtain ⟨k', v⟩ := p
    simp only [List.cons_append, lookup]
    split
    · rfl
    · exact ih

omit [DecidableEq V] in
theorem lookup_map_required (a : String → V) (k : String) (ks : List String) :
    lookup k (ks.map (fun k => (k, a k))) = if k ∈ ks then some (a k) else none := by
  induction ks with
  | nil => simp [lookup]
  | cons k0 ks ih =>
    simp only [List.map_cons, lookup]
    by_cases h : k0 = k
    · subst h; simp
    · have : ¬ k = k0 := fun e => h e.symm
      simp [h, ih, this]

omit [DecidableEq V] in
theorem lookup_none_of_not_mem (k : String) (l : List (String × V)) (h : k ∉ l.map (·.1)) : lookup k l = none := by
  induction l with
  | nil => rfl
  | cons p l ih =>
    obtain ⟨k', v⟩ := p
    simp only [List.map_cons, List.mem_cons, not_or] at h
    have : ¬ k' = k := fun e => h.1 e.symm
    simp [lookup, this, ih h.2]

omit [DecidableEq V] in
theorem lookup_some_of_mem (k : String) (l : List (String × V)) (h : k ∈ l.map (·.1)) : ∃ v, lookup k l = some v := by
  induction l with
  | nil => simp at h
  | cons p l ih =>
    obtain ⟨k', v⟩ := p
    simp only [lookup]
    by_cases hk : k' = k
    · exact ⟨v, by simp [hk]⟩
    · simp only [List.map_cons, List.mem_cons] at h
      rcases h with h | h
      · exact absurd h.symm hk
      · simpa [hk] using ih h

theorem optPart_keys (a : String → V) (opt : List (String × V)) (k : String) (h : k ∈ (optPart a opt).map (·.1)) : k ∈ opt.map (·.1) := by
  unfold optPart at h
  simp only [List.map_map, List.mem_map, List.mem_filter] at h
  obtain ⟨q, ⟨hq, _⟩, hq2⟩ := h
  exact List.mem_map.mpr ⟨q, hq, hq2⟩

/-- the optional part: a key that was written is found with the attribute's value; one that was not written has the default as its value -/
theorem lookup_optPart (a : String → V) (k : String) (opt : List (String × V)) (hn : (opt.map (·.1)).Nodup) (hk : k ∈ opt.map (·.1)) :
    (lookup k (optPart a opt) = some (a k)) ∨ (lookup k (optPart a opt) = none ∧ lookup k opt = some (a k)) := by
  induction opt with
  | nil => simp at hk
  | cons p opt ih =>
    obtain ⟨k0, d0⟩ := p
    simp only [List.map_cons, List.nodup_cons] at hn
    by_cases h0 : k0 = k
    · subst h0
      by_cases hd : a k0 = d0
      · right
        have hw : written a (k0, d0) = false := by simp [written, hd]
        have hnot : k0 ∉ (optPart a opt).map (·.1) := fun hm => hn.1 (optPart_keys a opt k0 hm)
        refine ⟨?_, by simp [lookup, hd]⟩
        unfold optPart
        rw [List.filter_cons_of_neg (by simp [hw])]
        exact lookup_none_of_not_mem _ _ hnot
      · left
        have hw : written a (k0, d0) = true := by simp [written, hd]
        unfold optPart
        rw [List.filter_cons_of_pos hw]
        simp [lookup]
    · have hk' : k ∈ opt.map (·.1) := by
        simp only [List.map_cons, List.mem_cons] at hk
        rcases hk with h | h
        · exact absurd h.symm h0
        · exact h
      have hrest := ih hn.2 hk'
      have hstep : lookup k (optPart a ((k0, d0) :: opt)) = lookup k (optPart a opt) := by
        unfold optPart
        by_cases hw : written a (k0, d0) = true
        · rw [List.filter_cons_of_pos hw]; simp [lookup, h0]
        · rw [List.filter_cons_of_neg hw]
      have hstep2 : lookup k ((k0, d0) :: opt) = lookup k opt := by simp [lookup, h0]
      rw [hstep, hstep2]
      exact hrest

/-- **round trip of the key scheme**: for any tables without a repeated key, loading what was written gives back every attribute of the tables -/
theorem roundtrip (s : Scheme V) (fallback : V) (hn : s.keys.Nodup) (a : String → V) (k : String) (hk : k ∈ s.keys) :
    fromDict s fallback (toDict s a) k = a k := by
  unfold Scheme.keys at hn hk
  have hn1 := (List.nodup_append.mp hn)
  unfold fromDict toDict
  rw [lookup_append, lookup_map_required]
  by_cases hr : k ∈ s.required
  · simp [hr]
  · simp only [hr, if_false]
    have hko : k ∈ s.optional.map (·.1) := by
      rcases List.mem_append.mp hk with h | h
      · exact absurd h hr
      · exact h
    rcases lookup_optPart a k s.optional hn1.2.1 hko with h | ⟨h1, h2⟩
    · simp [h]
    · simp [h1, defaultOf, h2]

/-- writing is idempotent -/
theorem toDict_idempotent (s : Scheme V) (fallback : V) (hn : s.keys.Nodup) (a : String → V) :
    toDict s (fromDict s fallback (toDict s a)) = toDict s a := by
  have h1 : ∀ k ∈ s.required, fromDict s fallback (toDict s a) k = a k :=
    fun k hk => roundtrip s fallback hn a k (List.mem_append_left _ hk)
  have h2 : ∀ p ∈ s.optional, fromDict s fallback (toDict s a) p.1 = a p.1 :=
    fun p hp => roundtrip s fallback hn a p.1 (List.mem_append_right _ (List.mem_map.mpr ⟨p, hp, rfl⟩))
  generalize hb : fromDict s fallback (toDict s a) = b at h1 h2
  unfold toDict optPart
  congr 1
  · exact List.map_congr_left (fun k hk => by rw [h1 k hk])
  · have hf : s.optional.filter (written b) = s.optional.filter (written a) :=
      List.filter_congr (fun p hp => by simp [written, h2 p hp])
    rw [hf]
    exact List.map_congr_left (fun p hp => by rw [h2 p (List.mem_filter.mp hp).1])

end DictScheme

import CobraModel.Lemmas.LP
import CobraModel.Model.Formulations
import Mathlib.Algebra.Order.AbsoluteValue.Basic
/-! Formulation lemmas: FVA region and ranges, total absolute flux as `Σ (forward + reverse)`. -/
namespace LPM


theorem dot_replicate_zero' (n : Nat) (x : List Rat) : dot (List.replicate n 0) x = 0 := dot_replicate_zero n x

theorem dot_unit (n r : Nat) (x : List Rat) (hl : x.length = n) : dot (unit n r) x = x.getD r 0 := by
  induction n generalizing r x with
  | zero =>
    cases x with
    | nil => simp [unit, dot]
    | cons _ _ => simp at hl
  | succ n ih =>
    cases x with
    | nil => simp at hl
    | cons v vs =>
      cases r with
      | zero => simp [unit, dot, dot_replicate_zero]
      | succ r => simp [unit, dot, ih r vs (by simpa using hl)]

theorem dot_negV (c x : List Rat) : dot (negV c) x = -dot c x := by
  induction c generalizing x with
  | nil => simp [negV, dot]
  | cons a as ih =>
    cases x with
    | nil => simp [negV, dot]
    | cons v vs =>
      simp only [negV, List.map_cons, dot] at *
      rw [ih]; ring

theorem allRows_append (x : List Rat) (r1 r2 : List (List Rat × Bnd)) :
    allRows x (r1 ++ r2) = (allRows x r1 && allRows x r2) := by
  induction r1 with
  | nil => simp [allRows]
  | cons r rs ih => obtain ⟨a, b⟩ := r; simp [allRows, ih, Bool.and_assoc]

/-- a point is feasible for the problem with an extra row iff it is feasible and satisfies the row -/
theorem feasible_addRow (p : LP) (a : List Rat) (b : Bnd) (x : List Rat) :
    (p.addRow a b).feasible x = (p.feasible x && ((a.length == x.length) && b.has (dot a x))) := by
  simp only [LP.addRow, LP.feasible, allRows_append, allRows, Bool.and_true, Bool.and_assoc]

theorem feasible_withObj (p : LP) (c x : List Rat) : (p.withObj c).feasible x = p.feasible x := rfl

/-- **the FVA region is the set of feasible flux vectors whose objective is at least `t`** -/
theorem fvaRegion_feasible (p : LP) (t : Rat) (x : List Rat) (hl : p.obj.length = p.n) :
    (p.fvaRegion t).feasible x = true ↔ p.feasible x = true ∧ t ≤ dot p.obj x := by
  rw [LP.fvaRegion, feasible_addRow]
  simp only [Bool.and_eq_true, beq_iff_eq, Bnd.has, decide_eq_true_eq, Bool.and_true]
  constructor
  · rintro ⟨h1, _, h2⟩; exact ⟨h1, h2⟩
  · rintro ⟨h1, h2⟩
    refine ⟨h1, ?_, h2⟩
    simp only [LP.feasible, Bool.and_eq_true, beq_iff_eq] at h1
    rw [hl, h1.1.1]

/-- **every optimal FBA solution lies in the FVA region** when `t = fraction × optimum` with
`0 ≤ fraction ≤ 1` and a non-negative optimum -/
theorem optimum_in_fvaRegion (p : LP) (x y : List Rat) (f : Rat) (hopt : p.checkOpt x y = true)
    (_hf0 : 0 ≤ f) (hf1 : f ≤ 1) (hv : 0 ≤ dot p.obj x) :
    (p.fvaRegion (f * dot p.obj x)).feasible x = true := by
  have hfe := (LP.checkOpt_sound p x y hopt).1
  have hl : p.obj.length = p.n := by
    simp only [LP.checkOpt, Bool.and_eq_true, beq_iff_eq] at hopt; exact hopt.1.1.2
  rw [fvaRegion_feasible p _ x hl]
  refine ⟨hfe, ?_⟩
  nlinarith

/-- **flux ranges from certificates**: if the two `_fva_step` problems of reaction `r` have certified optima
`xmax`, `xmin`, then every flux vector of the FVA region has its `r`-th flux between them; in particular
`minimum ≤ maximum` -/
theorem fva_range (p : LP) (t : Rat) (r : Nat) (xmax ymax xmin ymin : List Rat)
    (hmax : (p.fvaStep t r true).checkOpt xmax ymax = true)
    (hmin : (p.fvaStep t r false).checkOpt xmin ymin = true) :
    (∀ x, (p.fvaRegion t).feasible x = true → xmin.getD r 0 ≤ x.getD r 0 ∧ x.getD r 0 ≤ xmax.getD r 0) ∧
    xmin.getD r 0 ≤ xmax.getD r 0 := by
  have a := LP.checkOpt_sound _ _ _ hmax
  have b := LP.checkOpt_sound _ _ _ hmin
  simp only [LP.fvaStep, if_true, Bool.false_eq_true, if_false] at a b
  have key : ∀ x, (p.fvaRegion t).feasible x = true → xmin.getD r 0 ≤ x.getD r 0 ∧ x.getD r 0 ≤ xmax.getD r 0 := by
    intro x hx
    have h1 := a.2 x hx
    have h2 := b.2 x hx
    have len : ∀ z, (p.fvaRegion t).feasible z = true → z.length = p.n := by
      intro z hz
      simp only [LP.feasible, Bool.and_eq_true, beq_iff_eq] at hz
      exact hz.1.1
    have l1 := len x hx
    have l2 := len xmax a.1
    have l3 := len xmin b.1
    simp only [LP.withObj, dot_negV] at h1 h2
    rw [dot_unit _ _ _ l1, dot_unit _ _ _ l2] at h1
    rw [dot_unit _ _ _ l1, dot_unit _ _ _ l3] at h2
    constructor <;> linarith
  exact ⟨key, (key xmax a.1).1⟩

/-- a larger fraction of the optimum can only shrink the ranges -/
theorem fvaRegion_mono (p : LP) (t t' : Rat) (x : List Rat) (hl : p.obj.length = p.n) (htt : t ≤ t')
    (h : (p.fvaRegion t').feasible x = true) : (p.fvaRegion t).feasible x = true := by
  rw [fvaRegion_feasible p _ x hl] at *
  exact ⟨h.1, le_trans htt h.2⟩



def sumAbs : List Rat → Rat
  | [] => 0
  | v :: vs => |v| + sumAbs vs

def sumV : List Rat → Rat
  | [] => 0
  | v :: vs => v + sumV vs

def allNonneg : List Rat → Prop
  | [] => True
  | v :: vs => 0 ≤ v ∧ allNonneg vs

def posPart (v : List Rat) : List Rat := v.map (fun a => max a 0)
def negPart (v : List Rat) : List Rat := v.map (fun a => max (-a) 0)

/-- total absolute flux is a lower bound for `Σ (p + n)` over every split `v = p - n`, `p, n ≥ 0` -/
theorem sumAbs_le_split (p n : List Rat) (hl : p.length = n.length) (hp : allNonneg p) (hn : allNonneg n) :
    sumAbs (subV p n) ≤ sumV (addV p n) := by
  induction p generalizing n with
  | nil => cases n <;> simp [subV, addV, sumAbs, sumV]
  | cons a as ih =>
    cases n with
    | nil => simp at hl
    | cons b bs =>
      simp only [allNonneg] at hp hn
      simp only [subV, addV, sumAbs, sumV]
      have h1 := ih bs (by simpa using hl) hp.2 hn.2
      have h2 : |a - b| ≤ a + b := by
        rw [abs_le]; constructor <;> linarith [hp.1, hn.1]
      linarith

/-- … and the bound is attained by the positive / negative parts -/
theorem split_attains (v : List Rat) :
    allNonneg (posPart v) ∧ allNonneg (negPart v) ∧ (posPart v).length = (negPart v).length ∧
    subV (posPart v) (negPart v) = v ∧ sumV (addV (posPart v) (negPart v)) = sumAbs v := by
  induction v with
  | nil => simp [posPart, negPart, allNonneg, subV, addV, sumV, sumAbs]
  | cons a as ih =>
    obtain ⟨h1, h2, h3, h4, h5⟩ := ih
    simp only [posPart, negPart, List.map_cons, allNonneg, subV, addV, sumV, sumAbs, List.length_cons] at *
    refine ⟨⟨le_max_right _ _, h1⟩, ⟨le_max_right _ _, h2⟩, by omega, ?_, ?_⟩
    · rw [h4]
      congr 1
      rcases le_total 0 a with h | h
      · rw [max_eq_left h, max_eq_right (by linarith)]; ring
      · rw [max_eq_right h, max_eq_left (by linarith)]; ring
    · rw [h5]
      congr 1
      rcases le_total 0 a with h | h
      · rw [max_eq_left h, max_eq_right (by linarith), abs_of_nonneg h]; ring
      · rw [max_eq_right h, max_eq_left (by linarith), abs_of_nonpos h]; ring

/-- hence: capping / minimising `Σ (forward + reverse)` over the split problem is capping / minimising the total
absolute net flux `Σ |v|` -/
theorem total_flux_cap (v : List Rat) (k : Rat) :
    (∃ p n, p.length = n.length ∧ allNonneg p ∧ allNonneg n ∧ subV p n = v ∧ sumV (addV p n) ≤ k) ↔ sumAbs v ≤ k := by
  constructor
  · rintro ⟨p, n, hl, hp, hn, hv, hk⟩
    have := sumAbs_le_split p n hl hp hn
    rw [hv] at this; linarith
  · intro h
    obtain ⟨h1, h2, h3, h4, h5⟩ := split_attains v
    exact ⟨posPart v, negPart v, h3, h1, h2, h4, by rw [h5]; exact h⟩


end LPM

import CobraModel.Model.LP
import Mathlib.Tactic.Linarith
import Mathlib.Tactic.Ring
import Mathlib.Algebra.Order.Field.Rat
/-! Soundness of the LP certificate checker. -/
namespace LPM

theorem dot_replicate_zero (n : Nat) (z : List Rat) : dot (List.replicate n 0) z = 0 := by
  induction n generalizing z with
  | zero => simp [dot]
  | succ n ih => cases z with
    | nil => simp [List.replicate, dot]
    | cons z zs => simp [List.replicate, dot, ih]

theorem dot_scaleV (k : Rat) (a z : List Rat) : dot (scaleV k a) z = k * dot a z := by
  induction a generalizing z with
  | nil => simp [scaleV, dot]
  | cons a as ih => cases z with
    | nil => simp [scaleV, dot]
    | cons z zs => simp only [scaleV, dot, ih]; ring

theorem length_scaleV (k : Rat) (a : List Rat) : (scaleV k a).length = a.length := by
  induction a with
  | nil => rfl
  | cons a as ih => simp [scaleV, ih]

theorem length_addV (u v : List Rat) (h : u.length = v.length) : (addV u v).length = u.length := by
  induction u generalizing v with
  | nil => cases v <;> simp [addV]
  | cons u us ih => cases v with
    | nil => simp at h
    | cons v vs => simp [addV, ih vs (by simpa using h)]

theorem dot_addV (u v z : List Rat) (h : u.length = v.length) :
    dot (addV u v) z = dot u z + dot v z := by
  induction u generalizing v z with
  | nil => cases v with
    | nil => simp [addV, dot]
    | cons _ _ => simp at h
  | cons u us ih => cases v with
    | nil => simp at h
    | cons v vs => cases z with
      | nil => simp [addV, dot]
      | cons z zs =>
        simp only [addV, dot, ih vs zs (by simpa using h)]; ring

theorem dot_subV (c g z : List Rat) (h : c.length = g.length) :
    dot (subV c g) z = dot c z - dot g z := by
  induction c generalizing g z with
  | nil => cases g with
    | nil => simp [subV, dot]
    | cons _ _ => simp at h
  | cons c cs ih => cases g with
    | nil => simp at h
    | cons g gs => cases z with
      | nil => simp [subV, dot]
      | cons z zs => simp only [subV, dot, ih gs zs (by simpa using h)]; ring

/-- Σ_i y_i · (a_i · z) over the zipped prefix -/
def wsum (z : List Rat) : List Rat → List (List Rat × Bnd) → Rat
  | y :: ys, (a, _) :: rs => y * dot a z + wsum z ys rs
  | _, _ => 0

def rowsLen (n : Nat) : List (List Rat × Bnd) → Prop
  | [] => True
  | (a, _) :: rs => a.length = n ∧ rowsLen n rs

theorem length_yA (n : Nat) (y : List Rat) (rows : List (List Rat × Bnd)) (h : rowsLen n rows) :
    (yA n y rows).length = n := by
  induction y generalizing rows with
  | nil => simp [yA]
  | cons y ys ih => cases rows with
    | nil => simp [yA]
    | cons r rs =>
      obtain ⟨a, b⟩ := r
      simp only [rowsLen] at h
      simp only [yA]
      rw [length_addV _ _ (by rw [length_scaleV, ih rs h.2, h.1]), length_scaleV, h.1]

theorem dot_yA (n : Nat) (y z : List Rat) (rows : List (List Rat × Bnd)) (h : rowsLen n rows) :
    dot (yA n y rows) z = wsum z y rows := by
  induction y generalizing rows with
  | nil => simp [yA, wsum, dot_replicate_zero]
  | cons y ys ih => cases rows with
    | nil => simp [yA, wsum, dot_replicate_zero]
    | cons r rs =>
      obtain ⟨a, b⟩ := r
      simp only [rowsLen] at h
      simp only [yA, wsum]
      rw [dot_addV _ _ _ (by rw [length_scaleV, length_yA n ys rs h.2, h.1]), dot_scaleV, ih rs h.2]

/-! ### sign lemmas -/
theorem has_lo {b : Bnd} {v l : Rat} (h : b.has v = true) (hl : b.lo = some l) : l ≤ v := by
  simp only [Bnd.has, hl, Bool.and_eq_true, decide_eq_true_eq] at h; exact h.1
theorem has_hi {b : Bnd} {v u : Rat} (h : b.has v = true) (hu : b.hi = some u) : v ≤ u := by
  simp only [Bnd.has, hu, Bool.and_eq_true, decide_eq_true_eq] at h; exact h.2

theorem term_nonpos (m : Rat) (b : Bnd) (v v' : Rat) (hs : signOK m b v = true) (hf : b.has v' = true) :
    m * (v' - v) ≤ 0 := by
  simp only [signOK, Bool.and_eq_true, Bool.or_eq_true, decide_eq_true_eq] at hs
  obtain ⟨h1, h2⟩ := hs
  rcases lt_trichotomy m 0 with hm | hm | hm
  · -- m < 0 : v is the finite lower bound
    rcases h2 with h2 | h2
    · linarith
    · cases hlo : b.lo with
      | none => simp [hlo] at h2
      | some l =>
        simp only [hlo, decide_eq_true_eq] at h2
        have := has_lo hf hlo
        nlinarith
  · subst hm; simp
  · rcases h1 with h1 | h1
    · linarith
    · cases hhi : b.hi with
      | none => simp [hhi] at h1
      | some u =>
        simp only [hhi, decide_eq_true_eq] at h1
        have := has_hi hf hhi
        nlinarith

theorem vars_nonpos (d : List Rat) (vb : List Bnd) (x x' : List Rat)
    (hs : signsVars d vb x = true) (hf : allBox vb x' = true) : dot d x' - dot d x ≤ 0 := by
  induction d generalizing vb x x' with
  | nil => simp [dot]
  | cons d ds ih =>
    cases vb with
    | nil => simp [signsVars] at hs
    | cons b bs => cases x with
      | nil => simp [signsVars] at hs
      | cons v vs => cases x' with
        | nil => simp [allBox] at hf
        | cons v' vs' =>
          simp only [signsVars, allBox, Bool.and_eq_true] at hs hf
          have h1 := term_nonpos d b v v' hs.1 hf.1
          have h2 := ih bs vs vs' hs.2 hf.2
          simp only [dot]
          nlinarith

theorem rows_nonpos (x x' y : List Rat) (rows : List (List Rat × Bnd))
    (hs : signsRows x y rows = true) (hf : allRows x' rows = true) :
    wsum x' y rows - wsum x y rows ≤ 0 := by
  induction y generalizing rows with
  | nil => simp [wsum]
  | cons y ys ih => cases rows with
    | nil => simp [wsum]
    | cons r rs =>
      obtain ⟨a, b⟩ := r
      simp only [signsRows, allRows, Bool.and_eq_true] at hs hf
      have h1 := term_nonpos y b (dot a x) (dot a x') hs.1 hf.1.2
      have h2 := ih rs hs.2 hf.2
      simp only [wsum]
      nlinarith

theorem rowsLen_of_allRows (x : List Rat) (rows : List (List Rat × Bnd)) (h : allRows x rows = true) :
    rowsLen x.length rows := by
  induction rows with
  | nil => trivial
  | cons r rs ih =>
    obtain ⟨a, b⟩ := r
    simp only [allRows, Bool.and_eq_true, beq_iff_eq] at h
    exact ⟨h.1.1, ih h.2⟩

/-- **Soundness of the optimality certificate**: whatever produced `x` and `y`,
if the check accepts them then no feasible point has a larger objective. -/
theorem LP.checkOpt_sound (p : LP) (x y : List Rat) (h : p.checkOpt x y = true) :
    p.feasible x = true ∧ ∀ x', p.feasible x' = true → dot p.obj x' ≤ dot p.obj x := by
  simp only [LP.checkOpt, Bool.and_eq_true, beq_iff_eq] at h
  obtain ⟨⟨⟨hfx, hlen⟩, hsv⟩, hsr⟩ := h
  refine ⟨hfx, ?_⟩
  intro x' hf'
  simp only [LP.feasible, Bool.and_eq_true, beq_iff_eq] at hfx hf'
  obtain ⟨⟨hxn, _⟩, hxr⟩ := hfx
  obtain ⟨⟨hxn', hxb'⟩, hxr'⟩ := hf'
  have hrl : rowsLen p.n p.rows := hxn ▸ rowsLen_of_allRows x p.rows hxr
  have hgl : p.obj.length = (yA p.n y p.rows).length := by rw [hlen, length_yA _ _ _ hrl]
  have e1 := dot_subV p.obj (yA p.n y p.rows) x hgl
  have e2 := dot_subV p.obj (yA p.n y p.rows) x' hgl
  rw [dot_yA _ _ _ _ hrl] at e1 e2
  have v := vars_nonpos _ p.vb x x' hsv hxb'
  have r := rows_nonpos x x' y p.rows hsr hxr'
  linarith




theorem supTerm_le {m : Rat} {b : Bnd} {t v : Rat} (h : supTerm m b = some t) (hv : b.has v = true) : m * v ≤ t := by
  unfold supTerm at h
  split at h
  · rename_i hm; injection h with h; subst h; subst hm; simp
  · split at h
    · rename_i _ hm
      cases hhi : b.hi with
      | none => simp [hhi] at h
      | some u =>
        simp only [hhi, Option.map_some] at h
        injection h with h; subst h
        have := has_hi hv hhi
        nlinarith
    · rename_i hm0 hm
      cases hlo : b.lo with
      | none => simp [hlo] at h
      | some l =>
        simp only [hlo, Option.map_some] at h
        injection h with h; subst h
        have := has_lo hv hlo
        have : m < 0 := lt_of_le_of_ne (not_lt.1 hm) hm0
        nlinarith

theorem infTerm_le {m : Rat} {b : Bnd} {t v : Rat} (h : infTerm m b = some t) (hv : b.has v = true) : t ≤ m * v := by
  unfold infTerm at h
  split at h
  · rename_i hm; injection h with h; subst h; subst hm; simp
  · split at h
    · rename_i _ hm
      cases hlo : b.lo with
      | none => simp [hlo] at h
      | some l =>
        simp only [hlo, Option.map_some] at h
        injection h with h; subst h
        have := has_lo hv hlo
        nlinarith
    · rename_i hm0 hm
      cases hhi : b.hi with
      | none => simp [hhi] at h
      | some u =>
        simp only [hhi, Option.map_some] at h
        injection h with h; subst h
        have := has_hi hv hhi
        have : m < 0 := lt_of_le_of_ne (not_lt.1 hm) hm0
        nlinarith

theorem wsum_le_sup (x y : List Rat) (rows : List (List Rat × Bnd)) (r : Rat)
    (hf : allRows x rows = true) (hs : supRows y rows = some r) : wsum x y rows ≤ r := by
  induction y generalizing rows r with
  | nil => simp [supRows] at hs; subst hs; simp [wsum]
  | cons y ys ih =>
    cases rows with
    | nil => simp [supRows] at hs; subst hs; simp [wsum]
    | cons rw rs =>
      obtain ⟨a, b⟩ := rw
      simp only [supRows] at hs
      simp only [allRows, Bool.and_eq_true] at hf
      cases ht : supTerm y b with
      | none => simp [ht] at hs
      | some t =>
        cases hr : supRows ys rs with
        | none => simp [ht, hr] at hs
        | some r' =>
          simp only [ht, hr] at hs
          injection hs with hs; subst hs
          have h1 := supTerm_le ht hf.1.2
          have h2 := ih rs r' hf.2 hr
          simp only [wsum]; linarith

theorem inf_le_dot (g : List Rat) (vb : List Bnd) (x : List Rat) (l : Rat)
    (hf : allBox vb x = true) (hs : infVars g vb = some l) : l ≤ dot g x := by
  induction g generalizing vb x l with
  | nil =>
    cases vb with
    | nil => simp [infVars] at hs; subst hs; simp [dot]
    | cons b bs => simp [infVars] at hs
  | cons g gs ih =>
    cases vb with
    | nil => simp [infVars] at hs
    | cons b bs =>
      cases x with
      | nil => simp [allBox] at hf
      | cons v vs =>
        simp only [allBox, Bool.and_eq_true] at hf
        simp only [infVars] at hs
        cases ht : infTerm g b with
        | none => simp [ht] at hs
        | some t =>
          cases hr : infVars gs bs with
          | none => simp [ht, hr] at hs
          | some r' =>
            simp only [ht, hr] at hs
            injection hs with hs; subst hs
            have h1 := infTerm_le ht hf.1
            have h2 := ih bs vs r' hf.2 hr
            simp only [dot]; linarith

theorem rowsLen_of_have (n : Nat) (rows : List (List Rat × Bnd)) (h : rowsHaveLen n rows = true) : rowsLen n rows := by
  induction rows with
  | nil => trivial
  | cons r rs ih =>
    obtain ⟨a, b⟩ := r
    simp only [rowsHaveLen, Bool.and_eq_true, beq_iff_eq] at h
    exact ⟨h.1, ih h.2⟩

theorem empty_not_has {b : Bnd} (h : b.empty = true) (v : Rat) : b.has v = false := by
  unfold Bnd.empty at h
  cases hlo : b.lo with
  | none => simp [hlo] at h
  | some l =>
    cases hhi : b.hi with
    | none => simp [hlo, hhi] at h
    | some u =>
      simp only [hlo, hhi, decide_eq_true_eq] at h
      cases hh : b.has v with
      | false => rfl
      | true =>
        have h1 := has_lo hh hlo
        have h2 := has_hi hh hhi
        linarith

theorem allBox_false_of_empty (vb : List Bnd) (x : List Rat) (h : vb.any Bnd.empty = true) : allBox vb x = false := by
  induction vb generalizing x with
  | nil => simp at h
  | cons b bs ih =>
    cases x with
    | nil => simp [allBox]
    | cons v vs =>
      simp only [List.any_cons, Bool.or_eq_true] at h
      simp only [allBox]
      rcases h with h | h
      · simp [empty_not_has h v]
      · simp [ih vs h]

/-- **Soundness of the infeasibility (Farkas) certificate** -/
theorem LP.checkInfeas_sound (p : LP) (y : List Rat) (h : p.checkInfeas y = true) :
    ∀ x, p.feasible x = false := by
  intro x
  cases hfx : p.feasible x with
  | false => rfl
  | true =>
    exfalso
    simp only [LP.checkInfeas, Bool.or_eq_true] at h
    simp only [LP.feasible, Bool.and_eq_true, beq_iff_eq] at hfx
    obtain ⟨⟨_, hxb⟩, hxr⟩ := hfx
    rcases h with h | h
    · rw [allBox_false_of_empty _ _ h] at hxb; cases hxb
    · simp only [Bool.and_eq_true, beq_iff_eq] at h
      obtain ⟨⟨hrl, _⟩, hm⟩ := h
      cases hs : supRows y p.rows with
      | none => simp [hs] at hm
      | some r =>
        cases hi : infVars (yA p.n y p.rows) p.vb with
        | none => simp [hs, hi] at hm
        | some l =>
          simp only [hs, hi, decide_eq_true_eq] at hm
          have h1 := wsum_le_sup x y p.rows r hxr hs
          have h2 := inf_le_dot _ p.vb x l hxb hi
          rw [dot_yA _ _ _ _ (rowsLen_of_have _ _ hrl)] at h2
          linarith

theorem has_ray {b : Bnd} {v z t : Rat} (hv : b.has v = true) (hz : rayOK b z = true) (ht : 0 ≤ t) :
    b.has (v + t * z) = true := by
  simp only [Bnd.has, rayOK, Bool.and_eq_true] at *
  constructor
  · cases hlo : b.lo with
    | none => rfl
    | some l =>
      simp only [hlo, decide_eq_true_eq] at hv hz ⊢
      have := mul_nonneg ht hz.1
      linarith [hv.1]
  · cases hhi : b.hi with
    | none => rfl
    | some u =>
      simp only [hhi, decide_eq_true_eq] at hv hz ⊢
      have : t * z ≤ 0 := mul_nonpos_of_nonneg_of_nonpos ht hz.2
      linarith [hv.2]

theorem allBox_ray (vb : List Bnd) (x z : List Rat) (t : Rat) (ht : 0 ≤ t)
    (hx : allBox vb x = true) (hz : rayVars vb z = true) : allBox vb (addV x (scaleV t z)) = true := by
  induction vb generalizing x z with
  | nil =>
    cases x with
    | nil => cases z <;> simp_all [rayVars, addV, allBox]
    | cons _ _ => simp [allBox] at hx
  | cons b bs ih =>
    cases x with
    | nil => simp [allBox] at hx
    | cons v vs =>
      cases z with
      | nil => simp [rayVars] at hz
      | cons w ws =>
        simp only [allBox, rayVars, Bool.and_eq_true] at hx hz
        simp only [scaleV, addV, allBox, Bool.and_eq_true]
        exact ⟨has_ray hx.1 hz.1 ht, ih vs ws hx.2 hz.2⟩

theorem dot_ray (a x z : List Rat) (t : Rat) (h1 : a.length = x.length) (h2 : a.length = z.length) :
    dot a (addV x (scaleV t z)) = dot a x + t * dot a z := by
  induction a generalizing x z with
  | nil => simp [dot]
  | cons a as ih =>
    cases x with
    | nil => simp at h1
    | cons v vs =>
      cases z with
      | nil => simp at h2
      | cons w ws =>
        simp only [scaleV, addV, dot]
        rw [ih vs ws (by simpa using h1) (by simpa using h2)]
        ring

theorem length_ray (x z : List Rat) (t : Rat) (h : x.length = z.length) : (addV x (scaleV t z)).length = x.length := by
  rw [length_addV _ _ (by rw [length_scaleV]; exact h)]

theorem allRows_ray (rows : List (List Rat × Bnd)) (x z : List Rat) (t : Rat) (ht : 0 ≤ t) (hl : x.length = z.length)
    (hx : allRows x rows = true) (hz : rayRows z rows = true) : allRows (addV x (scaleV t z)) rows = true := by
  induction rows with
  | nil => simp [allRows]
  | cons r rs ih =>
    obtain ⟨a, b⟩ := r
    simp only [allRows, rayRows, Bool.and_eq_true, beq_iff_eq] at hx hz ⊢
    refine ⟨⟨?_, ?_⟩, ih hx.2 hz.2⟩
    · rw [length_ray x z t hl]; exact hx.1.1
    · rw [dot_ray a x z t hx.1.1 hz.1.1]
      exact has_ray hx.1.2 hz.1.2 ht

/-- **Soundness of the unboundedness certificate**: `x` is feasible, moving along `z` stays feasible for
every step `t ≥ 0`, and the objective grows linearly with positive slope -/
theorem LP.checkUnbdd_sound (p : LP) (x z : List Rat) (h : p.checkUnbdd x z = true) :
    p.feasible x = true ∧ 0 < dot p.obj z ∧
    ∀ t : Rat, 0 ≤ t → p.feasible (addV x (scaleV t z)) = true ∧
      dot p.obj (addV x (scaleV t z)) = dot p.obj x + t * dot p.obj z := by
  simp only [LP.checkUnbdd, Bool.and_eq_true, beq_iff_eq, decide_eq_true_eq] at h
  obtain ⟨⟨⟨⟨⟨hfx, hzl⟩, hol⟩, hrv⟩, hrr⟩, hpos⟩ := h
  refine ⟨hfx, hpos, ?_⟩
  intro t ht
  simp only [LP.feasible, Bool.and_eq_true, beq_iff_eq] at hfx ⊢
  obtain ⟨⟨hxn, hxb⟩, hxr⟩ := hfx
  have hl : x.length = z.length := by rw [hxn, hzl]
  refine ⟨⟨⟨?_, allBox_ray _ _ _ _ ht hxb hrv⟩, allRows_ray _ _ _ _ ht hl hxr hrr⟩, ?_⟩
  · rw [length_ray x z t hl]; exact hxn
  · exact dot_ray _ _ _ _ (by rw [hol, hxn]) (by rw [hol, hzl])

/-- hence no objective value bounds the problem -/
theorem LP.checkUnbdd_unbounded (p : LP) (x z : List Rat) (h : p.checkUnbdd x z = true) (M : Rat) :
    ∃ x', p.feasible x' = true ∧ M < dot p.obj x' := by
  obtain ⟨_, hpos, hray⟩ := LP.checkUnbdd_sound p x z h
  let t : Rat := max 0 ((M - dot p.obj x) / dot p.obj z + 1)
  have ht : 0 ≤ t := le_max_left _ _
  obtain ⟨hf, hv⟩ := hray t ht
  refine ⟨_, hf, ?_⟩
  rw [hv]
  have h1 : (M - dot p.obj x) / dot p.obj z + 1 ≤ t := le_max_right _ _
  have h2 : (M - dot p.obj x) / dot p.obj z < t := by linarith
  have h3 := (div_lt_iff₀ hpos).1 h2
  linarith


end LPM

import CobraModel.Lemmas.CoreMets
namespace Core
open GPRM

/-- operations other than entering / leaving a context -/
def Op.plain : Op → Bool
  | .enter => false
  | .exit => false
  | _ => true

theorem apply_step (y : Sys) (g : Good y.s) (op : Op) (hp : op.plain = true) (hok : OpOK op) :
    Step y (apply y op).1 := by
  cases op with
  | setLb r v => simp only [apply]; split; exact setLb_step y g r ‹_› v; exact Step.refl g
  | setUb r v => simp only [apply]; split; exact setUb_step y g r ‹_› v; exact Step.refl g
  | setBounds r a b => simp only [apply]; split; exact setBounds_step y g r ‹_› a b; exact Step.refl g
  | koRxn r => simp only [apply]; split; exact setBounds_step y g r ‹_› _ _; exact Step.refl g
  | koGene gi => simp only [apply]; split; exact koGene_step y g gi ‹_›; exact Step.refl g
  | koGenes gs =>
    simp only [apply]; split
    · rename_i h; exact koGenes_step gs y g (fun x hx => List.all_eq_true.1 h x hx)
    · exact Step.refl g
  | objCoef r v =>
    simp only [apply]; split
    · rename_i h; exact setObjective_step y g _ _ (by simpa using h)
    · exact Step.refl g
  | setObj coefs =>
    simp only [apply]; split
    · rename_i h; exact setObjective_step y g _ _ (fun p hp => by simpa using List.all_eq_true.1 h p hp)
    · exact Step.refl g
  | setDir d => exact setDir_step y g d
  | addMets r ps c n => simp only [apply]; split; exact addMets_step y g r ‹_› ps c n hok; exact Step.refl g
  | removeRxn r => simp only [apply]; split; exact removeRxn_step y g r ‹_›; exact Step.refl g
  | addRxn r lb ub ps =>
    simp only [apply]
    split
    · exact Step.refl g
    · rename_i hlt
      split
      · exact Step.refl g
      · rename_i hnew
        split
        · rename_i hcond
          simp only [Bool.and_eq_true, decide_eq_true_eq, List.all_eq_true] at hcond
          have hnew' : y.s.hasR r = false := by simpa using hnew
          have hle : EB.le lb ub = true := EB.not_lt_le (by simpa using hlt)
          exact addRxn_step y g r lb ub ps hnew' hle hcond.1.1 (fresh_of_freshNames g.wf r hcond.1.2)
            (fun p hp => (hcond.2 p hp).1)
        · exact Step.refl g
  | addMet m =>
    simp only [apply]; split
    · exact Step.refl g
    · rename_i h; exact addMet_step y g m (by simpa using h)
  | rmMet m => simp only [apply]; split; exact rmMet_step y g m ‹_›; exact Step.refl g
  | rmMetD m => simp only [apply]; split; exact rmMetD_step y g m ‹_›; exact Step.refl g
  | removeRxns rs o => simp only [apply]; exact (removeRxns_step o rs y g).1
  | setRule r rule =>
    simp only [apply]
    split
    · exact Step.refl g
    · rename_i hr
      split
      · exact Step.refl g
      · rename_i hin
        have hc : y.ctx = [] := by
          cases h : y.ctx with
          | nil => rfl
          | cons c cs => simp [inCtx, h] at hin
        exact ⟨setRuleRaw_good g r (by simpa using hr) rule, by simp [hc]⟩
  | removeRxnO r => simp only [apply]; split; exact (removeRxnO_step y g r ‹_›).1; exact Step.refl g
  | imul r k =>
    simp only [apply]
    split
    · exact Step.refl g
    · rename_i hr
      split
      · exact Step.refl g
      · rename_i hk
        exact (imul_step y g r (by simpa using hr) k hk).1
  | removeGenes gs rr =>
    simp only [apply]
    split
    · exact Step.refl g
    · split
      · exact Step.refl g
      · rename_i hin
        have hc : y.ctx = [] := by
          cases h : y.ctx with
          | nil => rfl
          | cons c cs => simp [inCtx, h] at hin
        by_cases hrr : rr = true
        · simp only [hrr, if_true]
          have hs := (removeRxns_step false (geneTargets y.s fun g => gs.contains g) y g).1
          have hctx : (removeRxns false (geneTargets y.s fun g => gs.contains g) y).ctx = [] := by
            have := hs.2; rw [hc] at this; exact this
          refine ⟨removeGenesRaw_good hs.1 _, ?_⟩
          rw [hc]
          exact hctx
        · have hrr' : rr = false := by simpa using hrr
          simp only [hrr', Bool.false_eq_true, if_false]
          exact ⟨removeGenesRaw_good g _, by simp [hc]⟩
  | addRxnR r lb ub ps rule =>
    simp only [apply]
    split
    · exact Step.refl g
    · rename_i hlt
      split
      · exact Step.refl g
      · rename_i hnew
        split
        · exact Step.refl g
        · rename_i hin
          split
          · rename_i hcond
            simp only [Bool.and_eq_true, decide_eq_true_eq, List.all_eq_true] at hcond
            have hnew' : y.s.hasR r = false := by simpa using hnew
            have hle : EB.le lb ub = true := EB.not_lt_le (by simpa using hlt)
            have hc : y.ctx = [] := by
              cases h : y.ctx with
              | nil => rfl
              | cons c cs => simp [inCtx, h] at hin
            have hgood := addRxnRaw_good g r lb ub ps hnew' hle hcond.1.1 (fresh_of_freshNames g.wf r hcond.1.2) (fun p hp => (hcond.2 p hp).1)
            have hhas : (addRxnRaw y.s r lb ub ps).hasR r = true := by simp [addRxnRaw, putSlot, upd]
            exact ⟨setRuleRaw_good hgood r hhas rule, by simp [hc]⟩
          · exact Step.refl g
  | addBoundary m t ext dlb dub =>
    simp only [apply]
    split
    · exact Step.refl g
    · rename_i hm
      split
      · exact Step.refl g
      · split
        · exact Step.refl g
        · rename_i hnew
          split
          · exact Step.refl g
          · rename_i hlt
            split
            · rename_i hcond
              simp only [Bool.and_eq_true, decide_eq_true_eq] at hcond
              have hnew' : y.s.hasR (t.rid m) = false := by simpa using hnew
              have hle : EB.le (t.bounds dlb dub).1 (t.bounds dlb dub).2 = true := EB.not_lt_le (by simpa using hlt)
              have hm' : y.s.hasM m = true := by simpa using hm
              exact addRxn_step y g (t.rid m) _ _ [(m, -1)] hnew' hle hcond.1 (fresh_of_freshNames g.wf _ hcond.2)
                (fun p hp => by
                  simp only [List.mem_singleton] at hp
                  subst hp
                  exact hm')
            · exact Step.refl g
  | observe => exact Step.refl g
  | enter => cases hp
  | exit => cases hp

/-! ### programs: operations and nested `with model:` blocks -/
mutual
inductive Prog where
  | op (o : Op)
  | block (body : ProgL)
inductive ProgL where
  | nil
  | cons (p : Prog) (ps : ProgL)
end

mutual
def Prog.ok : Prog → Prop
  | .op o => o.plain = true ∧ OpOK o
  | .block body => ProgL.ok body
def ProgL.ok : ProgL → Prop
  | .nil => True
  | .cons p ps => Prog.ok p ∧ ProgL.ok ps
end

mutual
/-- run a program; the `Bool` says whether an exception is propagating. A `with` block always runs its
`__exit__`, also when the body raised -/
def run : Prog → Sys → Sys × Bool
  | .op o, y => let r := apply y o; (r.1, r.2.isSome)
  | .block body, y =>
    let r := runL body (enter y)
    let e := exit r.1
    (e.1, r.2 || e.2.isSome)
def runL : ProgL → Sys → Sys × Bool
  | .nil, y => (y, false)
  | .cons p ps, y =>
    let r := run p y
    if r.2 then r else runL ps r.1
end

theorem exit_of_step {y y2 : Sys} (h : Step (enter y) y2) : exit y2 = (y, none) := by
  obtain ⟨_, h2⟩ := h
  simp only [enter] at h2
  obtain ⟨us, hc, hu⟩ := h2
  simp only [List.append_nil] at hc
  unfold exit
  rw [hc]
  simp only [Undoes] at hu
  simp [hu]

mutual
theorem run_step : (p : Prog) → p.ok → ∀ y, Good y.s → Step y (run p y).1 ∧ ((∃ b, p = .block b) → (run p y) = (y, false) ∨ (run p y) = (y, true))
  | .op o, hok, y, g => by
      simp only [Prog.ok] at hok
      exact ⟨by simpa [run] using apply_step y g o hok.1 hok.2, by rintro ⟨b, hb⟩; cases hb⟩
  | .block body, hok, y, g => by
      simp only [Prog.ok] at hok
      have genter : Good (enter y).s := g
      have h := runL_step body hok (enter y) genter
      have he := exit_of_step h
      simp only [run, he]
      refine ⟨Step.refl g, fun _ => ?_⟩
      cases (runL body (enter y)).2 <;> simp
theorem runL_step : (ps : ProgL) → ps.ok → ∀ y, Good y.s → Step y (runL ps y).1
  | .nil, _, y, g => Step.refl g
  | .cons p ps, hok, y, g => by
      simp only [ProgL.ok] at hok
      have h1 := (run_step p hok.1 y g).1
      simp only [runL]
      split
      · exact h1
      · exact h1.trans (runL_step ps hok.2 _ h1.1)
end

/-- **leaving a `with model:` block restores the model**: every body, any nesting, any raise point -/
theorem block_restores (body : ProgL) (hok : body.ok) (y : Sys) (g : Good y.s) :
    (run (.block body) y).1 = y ∧ exit (runL body (enter y)).1 = (y, none) := by
  have h := runL_step body hok (enter y) g
  have he := exit_of_step h
  exact ⟨by simp [run, he], he⟩




/-- fields a bounds assignment leaves alone -/
def SameButBounds (s t : St) : Prop :=
  t.hasR = s.hasR ∧ t.hasG = s.hasG ∧ t.rule = s.rule ∧ t.rg = s.rg ∧ t.gr = s.gr ∧ t.gf = s.gf ∧ t.univR = s.univR

theorem SameButBounds.functional {s t : St} (h : SameButBounds s t) (r : Id) : Core.functional t r = Core.functional s r := by
  obtain ⟨_, _, h3, h4, _, h6, _⟩ := h
  unfold Core.functional; rw [h3, h4, h6]

theorem setBounds_effect (y : Sys) (r : Id) (a b : EB) (hab : EB.le a b = true) :
    (setBounds y r a b).1.s.lb = upd y.s.lb r a ∧ (setBounds y r a b).1.s.ub = upd y.s.ub r b ∧
    SameButBounds y.s (setBounds y r a b).1.s := by
  have hp : ∀ u, (push y u).s = y.s := by intro u; unfold push; split <;> rfl
  have hlt := EB.lt_false_of_le hab
  unfold setBounds
  split
  · rename_i h
    refine ⟨?_, ?_, by simp [SameButBounds]⟩
    · rw [← h.2.1, upd_self]
    · rw [← h.2.2, upd_self]
  · split <;> simp [hp, rawSetBounds, hlt, updateVariableBounds, SameButBounds]

/-- bounds after the loop of `Gene.knock_out` -/
theorem koLoop_effect (g : Id) (rs : List Id) (y : Sys) :
    let y' := koLoop g rs y
    (∀ r, y'.s.lb r = if r ∈ rs ∧ y.s.gr g r = true ∧ functional y.s r = false then EB.zero else y.s.lb r) ∧
    (∀ r, y'.s.ub r = if r ∈ rs ∧ y.s.gr g r = true ∧ functional y.s r = false then EB.zero else y.s.ub r) ∧
    SameButBounds y.s y'.s := by
  induction rs generalizing y with
  | nil => simp [koLoop, SameButBounds]
  | cons r0 rs ih =>
    simp only [koLoop]
    split
    · rename_i hc
      simp only [Bool.and_eq_true, Bool.not_eq_true'] at hc
      have he := setBounds_effect y r0 EB.zero EB.zero (EB.le_refl _)
      have := ih (setBounds y r0 EB.zero EB.zero).1
      obtain ⟨h1, h2, h3⟩ := this
      obtain ⟨e1, e2, e3⟩ := he
      have hf : ∀ r, functional (setBounds y r0 EB.zero EB.zero).1.s r = functional y.s r := e3.functional
      have hgr : (setBounds y r0 EB.zero EB.zero).1.s.gr = y.s.gr := e3.2.2.2.2.1
      refine ⟨?_, ?_, ?_⟩
      · intro r; rw [h1 r, hf, hgr, e1]; simp only [upd, List.mem_cons]; grind
      · intro r; rw [h2 r, hf, hgr, e2]; simp only [upd, List.mem_cons]; grind
      · obtain ⟨a1, a2, a3, a4, a5, a6, a7⟩ := h3
        obtain ⟨b1, b2, b3, b4, b5, b6, b7⟩ := e3
        exact ⟨a1.trans b1, a2.trans b2, a3.trans b3, a4.trans b4, a5.trans b5, a6.trans b6, a7.trans b7⟩
    · rename_i hc
      obtain ⟨h1, h2, h3⟩ := ih y
      refine ⟨?_, ?_, h3⟩
      · intro r; rw [h1 r]; simp only [List.mem_cons]; grind
      · intro r; rw [h2 r]; simp only [List.mem_cons]; grind

/-- the state right after `gene.functional = False` -/
def markKO (s : St) (g : Id) : St := { s with gf := upd s.gf g false }

/-- **one gene knock-out**: the gene is non-functional, and a reaction has both bounds zero exactly when it is
one of the gene's reactions whose rule is false with the non-functional genes absent; all others keep theirs -/
theorem koGene_effect (y : Sys) (w : WF y.s) (g : Id) (_hg : y.s.hasG g = true) :
    let y' := koGene y g
    y'.s.gf = upd y.s.gf g false ∧
    (∀ r, y.s.hasR r = true →
      (y'.s.lb r, y'.s.ub r) =
        if y.s.gr g r = true ∧ functional (markKO y.s g) r = false then (EB.zero, EB.zero) else (y.s.lb r, y.s.ub r)) ∧
    (∀ r, functional y'.s r = functional (markKO y.s g) r) := by
  -- the first statement of `knock_out` leaves a state whose content is `markKO y.s g`
  have key : ∀ y1 : Sys, y1.s = markKO y.s g →
      (koLoop g y1.s.univR y1).s.gf = upd y.s.gf g false ∧
      (∀ r, y.s.hasR r = true →
        ((koLoop g y1.s.univR y1).s.lb r, (koLoop g y1.s.univR y1).s.ub r) =
          if y.s.gr g r = true ∧ functional (markKO y.s g) r = false then (EB.zero, EB.zero) else (y.s.lb r, y.s.ub r)) ∧
      (∀ r, functional (koLoop g y1.s.univR y1).s r = functional (markKO y.s g) r) := by
    intro y1 h1
    have hun : y1.s.univR = y.s.univR := by rw [h1]; rfl
    rw [hun]
    obtain ⟨a, b, c⟩ := koLoop_effect g y.s.univR y1
    refine ⟨?_, ?_, ?_⟩
    · rw [c.2.2.2.2.2.1, h1]; rfl
    · intro r hr
      have hu := w.inUniv r hr
      rw [a r, b r, h1]
      have e1 : (markKO y.s g).gr = y.s.gr := rfl
      have e2 : (markKO y.s g).lb = y.s.lb := rfl
      have e3 : (markKO y.s g).ub = y.s.ub := rfl
      rw [e1, e2, e3]
      simp only [hu, true_and]
      split <;> simp_all
    · intro r; rw [c.functional, h1]
  simp only [koGene]
  split
  · rename_i h
    have : y.s = markKO y.s g := by
      have h2 := h.2
      apply St.ext' <;> try rfl
      simp only [markKO]; rw [← h2, upd_self]
    exact key y this
  · have hp : ∀ u, (push y u).s = y.s := by intro u; unfold push; split <;> rfl
    split
    · apply key; simp [hp, markKO]
    · apply key; simp [markKO]

/-- knocking out a reaction sets exactly its own bounds to zero -/
theorem koRxn_effect (y : Sys) (r : Id) (hr : y.s.hasR r = true) :
    let y' := (apply y (.koRxn r)).1
    y'.s.lb r = EB.zero ∧ y'.s.ub r = EB.zero ∧ ∀ r', r' ≠ r → y'.s.lb r' = y.s.lb r' ∧ y'.s.ub r' = y.s.ub r' := by
  simp only [apply, hr, if_true]
  obtain ⟨e1, e2, _⟩ := setBounds_effect y r EB.zero EB.zero (EB.le_refl _)
  rw [e1, e2]
  simp only [upd, if_true, true_and]
  intro r' h; simp [h]




/-- a concrete one-reaction model (`r1: A <-, rule g1, bounds (-5, 10)`) in which content and solver agree -/
def demo : St := {
  univR := ["r1"], univM := ["A"], univG := ["g1"],
  rev := fun r => if r = "r1" then "r1_rev" else "other_rev",
  hasR := fun r => r == "r1", hasM := fun m => m == "A", hasG := fun g => g == "g1",
  lb := fun _ => .fin (-5), ub := fun _ => .fin 10,
  st := fun r m => if r = "r1" ∧ m = "A" then 1 else 0,
  rule := fun r => if r = "r1" then some (.name "g1") else none,
  rg := fun r g => r == "r1" && g == "g1",
  mr := fun m r => m == "A" && r == "r1",
  gr := fun g r => g == "g1" && r == "r1",
  gf := fun _ => true,
  hasV := fun v => v == "r1" || v == "r1_rev",
  vlb := fun _ => .fin 0,
  vub := fun v => if v = "r1" then .fin 10 else .fin 5,
  hasC := fun c => c == "A",
  co := fun c v => if c = "A" ∧ v = "r1" then 1 else if c = "A" ∧ v = "r1_rev" then -1 else 0,
  obj := fun _ => 0, dirMax := true }

theorem demo_good : Good demo := by
  have hne : ("r1_rev" : String) ≠ "r1" := by decide
  refine ⟨⟨?_, ?_⟩, ⟨?_, ?_, ?_, ?_, ?_, ?_, ?_, ?_, ?_⟩, ⟨?_, ?_, ?_, ?_, ?_⟩⟩
  · intro r r' h1 h2; simp [demo] at *; subst h1 h2; simp
  · intro r r' h1 h2 _; simp [demo] at *; rw [h1, h2]
  · intro m r h1 h2; simp [demo] at *; subst h1 h2; simp
  · intro r m h1 h2; simp [demo] at *; exact h2.2
  · intro r g h1; simp [demo] at *; subst h1; simp [genesOpt, genes]
  · intro g r h1 h2; simp [demo] at *; subst h1 h2; simp
  · intro r g h1 h2; simp [demo] at *; exact h2.2
  · intro r h1; simp [demo, EB.le]; decide
  · intro r h1; simp [demo] at *; exact h1
  · intro g r h1 h2; simp [demo] at *; exact h2.2
  · intro m r h1 h2; simp [demo] at *; exact h2.2
  · intro v; simp [demo]
  · intro r h1
    simp [demo] at h1; subst h1
    simp [demo, hne]
    decide
  · intro m; simp [demo]
  · intro m r h1 h2; simp [demo] at *; subst h1 h2; simp
  · intro r h1; simp [demo]

/-- non-vacuity of the context theorem: in the concrete state, a nested program with a failing bound
assignment, a knock-out and a stoichiometry edit is well formed and is undone by the block -/
def demoBody : ProgL :=
  .cons (.op (.setBounds "r1" (.fin 0) (.fin 3)))
  (.cons (.block (.cons (.op (.koGene "g1")) (.cons (.op (.addMets "r1" [("A", 2)] true false)) .nil)))
  (.cons (.op (.setLb "r1" (.fin 7))) .nil))

theorem demoBody_ok : demoBody.ok := by
  simp [demoBody, ProgL.ok, Prog.ok, Op.plain, OpOK, keysNodup]

theorem demo_block : (run (.block demoBody) ⟨demo, []⟩).1 = ⟨demo, []⟩ :=
  (block_restores demoBody demoBody_ok ⟨demo, []⟩ demo_good).1

/-- a second concrete program: the reaction is scaled by −2 (bounds swapped), the metabolite is removed (one `subtract_metabolites` per reaction that
lists it), a new metabolite joins, the reaction is removed — and the block takes all of it back -/
def demoBody2 : ProgL :=
  .cons (.op (.imul "r1" (-2)))
  (.cons (.op (.rmMet "A"))
  (.cons (.op (.addMet "A"))
  (.cons (.op (.removeRxn "r1")) .nil)))

theorem demoBody2_ok : demoBody2.ok := by
  simp [demoBody2, ProgL.ok, Prog.ok, Op.plain, OpOK]

theorem demo_block2 : (run (.block demoBody2) ⟨demo, []⟩).1 = ⟨demo, []⟩ :=
  (block_restores demoBody2 demoBody2_ok ⟨demo, []⟩ demo_good).1

/-- … and outside a context the program really changes the model: afterwards the reaction is gone and its bounds were swapped on the way -/
example : (runL demoBody2 ⟨demo, []⟩).1.s.hasR "r1" = false ∧ (runL demoBody2 ⟨demo, []⟩).1.s.hasM "A" = true ∧
    (runL demoBody2 ⟨demo, []⟩).1.s.lb "r1" = .fin (-10) ∧ (runL demoBody2 ⟨demo, []⟩).1.s.st "r1" "A" = 0 := by decide +kernel

/-- a third concrete program: the only reaction leaves with its orphans — afterwards the model has neither the metabolite nor the gene — and
the block puts everything back -/
def demoBody3 : ProgL := .cons (.op (.removeRxnO "r1")) .nil

theorem demo_block3 : (run (.block demoBody3) ⟨demo, []⟩).1 = ⟨demo, []⟩ :=
  (block_restores demoBody3 (by simp [demoBody3, ProgL.ok, Prog.ok, Op.plain, OpOK]) ⟨demo, []⟩ demo_good).1

example : (runL demoBody3 ⟨demo, []⟩).1.s.hasR "r1" = false ∧ (runL demoBody3 ⟨demo, []⟩).1.s.hasM "A" = false ∧
    (runL demoBody3 ⟨demo, []⟩).1.s.hasG "g1" = false ∧ (runL demoBody3 ⟨demo, []⟩).1.s.hasC "A" = false := by decide +kernel

end Core

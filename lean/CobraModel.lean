-- Root of the `CobraModel` library: everything `lake build` (MANIFEST.setup_cmd) has to compile.
import CobraModel.Model.DictList
import CobraModel.Lemmas.DictList
import CobraModel.Props.C15
import CobraModel.Driver.DL
import CobraModel.Gen.GprTables
import CobraModel.Model.GPR
import CobraModel.Lemmas.GPR
import CobraModel.Props.C08
import CobraModel.Driver.GPR
import CobraModel.Model.Core
import CobraModel.Lemmas.Core
import CobraModel.Lemmas.SplitRange
import CobraModel.Props.C01
import CobraModel.Props.C02
import CobraModel.Props.C03
import CobraModel.Props.C07
import CobraModel.Driver.Core

"""Re-verify the kept seeded changes in parallel, away from /repo and /verif: every worker has its own copy of /verif and its own git worktree
of /repo under /root/scratch/par/<k> (removed at the end); the patch is applied there and the quick check runs with VERIF_REPO pointing at it.
Nothing is written to /verif except the report.  Usage: parseed.py <VERIF_SEED> [workers] [name-prefix]"""
import glob, json, os, shutil, subprocess, sys
from concurrent.futures import ThreadPoolExecutor
import queue

seed = sys.argv[1]
nw = int(sys.argv[2]) if len(sys.argv) > 2 else 5
pre = sys.argv[3] if len(sys.argv) > 3 else ""
BASE = os.environ.get("PAR_BASE", "/root/scratch/par")


def sh(cmd, **kw):
    return subprocess.run(cmd, shell=True, capture_output=True, text=True, **kw)


def setup(k):
    d = f"{BASE}/{k}"
    shutil.rmtree(d, ignore_errors=True)
    os.makedirs(d)
    sh(f"rsync -a --exclude replays --exclude .git /verif/ {d}/verif/")
    r = sh(f"git -C /repo worktree add --detach {d}/repo HEAD")
    assert r.returncode == 0, r.stderr
    return d


def teardown(k):
    d = f"{BASE}/{k}"
    sh(f"git -C /repo worktree remove --force {d}/repo")
    shutil.rmtree(d, ignore_errors=True)


def one(d, name, pid):
    patch = f"/verif/seeded/{name}/patch.diff"
    r = sh(f"git -C {d}/repo apply {patch}")
    if r.returncode != 0:
        return {"name": name, "error": "patch does not apply"}
    try:
        env = dict(os.environ, VERIF_REPO=f"{d}/repo", VERIF_SEED=seed)
        chk = sh(f"cd {d}/verif && ./check {pid} --tier quick", env=env)
    finally:
        sh(f"git -C {d}/repo checkout -- .")
    lines = [l for l in chk.stdout.splitlines() if l.startswith("VIOLATION") or l.startswith("[")]
    return {"name": name, "pid": pid, "check_exit": chk.returncode, "lines": lines}


jobs = queue.Queue()
for sd in sorted(glob.glob("/verif/seeded/*")):
    name = os.path.basename(sd)
    if name.startswith(pre) and os.path.exists(os.path.join(sd, "meta.json")):
        jobs.put((name, json.load(open(os.path.join(sd, "meta.json")))["breaks_property"]))
results = []


def worker(k):
    d = setup(k)
    try:
        while True:
            try:
                name, pid = jobs.get_nowait()
            except queue.Empty:
                return
            res = one(d, name, pid)
            results.append(res)
            print(json.dumps(res), flush=True)
    finally:
        teardown(k)


with ThreadPoolExecutor(nw) as ex:
    list(ex.map(worker, range(nw)))
sh("git -C /repo worktree prune")
bad = sorted(r["name"] for r in results if r.get("check_exit") != 1 and "MISSED" not in r["name"])
print("NOT CAUGHT under VERIF_SEED", seed, ":", bad)
json.dump({"seed": seed, "results": sorted(results, key=lambda r: r["name"]), "not_caught": bad}, open(f"/verif/seeded/_reseed_seed{seed}.json", "w"), indent=1)

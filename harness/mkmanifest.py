"""Regenerates MANIFEST.json from the table below (kept in one place so it stays valid)."""
import json
from pathlib import Path

ROOT = Path(__file__).resolve().parent.parent
BASELINE = "cd /repo && /venv/bin/python -m pytest -ra -q -p no:cacheprovider --timeout=900 --continue-on-collection-errors"

CORE_NOTE = 'Trusted: Lean kernel, standard axioms (SplitRange uses Mathlib linarith); the hand-written Core model is tied to the code by the sampled correspondence (state after every step incl. raw GLPK problem read with swiglpk). Proved for the operations in Core.Op (bounds setters, knock-outs, add/subtract_metabolites on metabolites of the model, objective coefficient / dict, direction, remove_reactions (lists, with / without orphans), add_reactions of one new reaction over metabolites of the model without a rule, Model.add_metabolites / remove_metabolites of one metabolite, add_boundary, rule assignment outside a context, reaction *= k, copy / pickle / solver switch outside a context, enter/exit); the other public operations (reactions with rules or new metabolites, several at once, genes, renames, detached objects, ...) are exercised by the correspondence re-sync and the direct oracle only and are listed per run as oracle_only_ops. Float rounding is not modelled (dyadic inputs).'

LP_NOTE = 'Trusted: Lean kernel, standard axioms (LP lemmas use Mathlib linarith/nlinarith/ring); GLPK/optlang are external and are compared per generated instance with verdicts and optima certified by the proved checker (tolerance 1e-6); harness/exact_lp.py is untrusted (its certificates pass through LPM.checkOpt/checkInfeas/checkUnbdd); the oracle builds the net-flux LP from the model description independently of cobrapy. Small models (<= 11 reactions), integer/dyadic data.'

CLAIMED = {
    "C15": dict(
        engine="dictlist",
        text="Lean 4 theorems over the executable model DLM.step of every DictList mutator (step_inv: the id index stays "
             "exactly the position map, for every op incl. failing ones; step_atomic: a raising op changes nothing; "
             "reachable_inv by induction over arbitrary op sequences; observer and plain-list corollaries), tied to "
             "src/cobra/core/dictlist.py by a step-by-step correspondence (real DictList vs lean --run on the same op lines) "
             "and a direct coherence/atomicity/plain-list oracle on the real object.",
        note="Trusted: Lean kernel; axioms {propext, Classical.choice, Quot.sound}; the hand-written model is tied to the code only "
             "by the sampled correspondence (op sequences <= 40 ops, 8 ids, 14 objects); list methods DictList does not override "
             "(clear, *=) are outside the property's operation list.",
        technique="Lean 4 proof (invariant by induction over operations) + differential correspondence model vs code",
        design="DESIGN.md section 5, C15",
    ),
    "C08": dict(
        engine="gpr",
        text="Lean 4 theorems over the executable rule model GPRM (eval is the and/or value and depends only on the rule's genes; "
             "monotone in the knock-out set; token-level print/parse round trip for every well-formed tree by mutual induction; "
             "_GeneRemover returns a rule equivalent to the old one with the removed genes absent, and drops a rule only when it is "
             "unsatisfiable; renaming commutes with eval; decide-checked sanity of the escape tables regenerated from gene.py), tied to "
             "the code by correspondence of GPRM.fromString/remove with GPR.from_string/_GeneRemover (tree, genes, text, full truth table) "
             "and direct oracles for to_string/copy/pickle/sympy round trips, == and remove_genes.",
        note="Trusted: Lean kernel, standard axioms; translator harness/translate_gpr.py (ast only); Python's ast.parse, re and sympy are "
             "external (compared by truth table per generated rule). Character-level escaping and the tokenizer are executable in the model "
             "and checked by correspondence, not proved; non-ASCII ids and the parser nesting limit are outside the model.",
        technique="Lean 4 proof (mutual structural induction over rule trees) + generated tables + differential correspondence",
        design="DESIGN.md section 5, C08",
    ),
    "C01": dict(
        engine="core",
        text="Lean 4: Core.Sync (variables = forward/reverse pairs with the boxes of update_variable_bounds, rows = metabolites with current "
             "stoichiometry, antisymmetric objective) is preserved by every modelled operation and every program of operations and nested contexts "
             "(sync_preserved, sync_after_program); the forward/reverse boxes describe exactly [lb, ub] (split_range), a solver row evaluated at any "
             "assignment is the steady-state equation on the net fluxes (row_is_steady_state) and the objective row is the reported coefficients on "
             "the net fluxes (objective_on_net_fluxes). Tied to the code by a "
             "step-by-step correspondence that reads the raw GLPK problem, plus a direct oracle that rebuilds the FBA problem from the content "
             "after every step of every generated history (all public edit ops, failing ones included). "
             "Whole problem: AuxM.Net.fba is exactly the flux-balance problem — its feasible points project onto the steady-state, in-bounds flux vectors, every such vector is reached, the objective is the model's on net fluxes (fba_problem_is_flux_balance), for every combination of finite and infinite bounds (split_boxes_sound / split_boxes_complete). Whole-problem layer (lean/CobraModel/Model/AuxProb.lean, Lemmas/AuxProb.lean): the complete solver problem cobrapy builds is a Lean function of the model content and the arguments, compared entry by entry (variables, boxes, kinds, row names, bounds, coefficients, objective, direction; exact rationals) with the raw GLPK problem read at the moment of every solve (harness/auxcorr.py); a mismatch is followed by oracle cases on the same model.",
        note=CORE_NOTE, technique="Lean 4 proof (invariant over operation sequences) + differential correspondence incl. raw GLPK read-out",
        design="DESIGN.md section 5, C01"),
    "C02": dict(
        engine="core",
        text="Lean 4: Core.WF (back-references both ways, ownership, genes of the rule, no zero coefficients, ordered bounds) is preserved by every "
             "modelled edit incl. raising outcomes and by every program (wf_preserved, wf_after_program); closed-form spec of add_metabolites and "
             "frame of the bounds setters. Tied to the code by the Core correspondence and a cross-reference oracle on the real objects "
             "(identity, ownership, DictList lookups, groups) after every step of every generated history. "
             "Model.add_boundary is inside the model: type table, identifier, refusals (add_boundary_refusals) and effect (add_boundary_spec).",
        note=CORE_NOTE, technique="Lean 4 proof (invariant over operation sequences) + differential correspondence + cross-reference oracle",
        design="DESIGN.md section 5, C02"),
    "C03": dict(
        engine="core",
        text="Lean 4: with_block_restores — for every program body (any operations of Core.Op, any nesting of with-blocks, any raise point) the block "
             "returns exactly the system it was entered with (state equality incl. solver, objective, direction, context stack) and __exit__ does "
             "not raise; op_well_recorded per operation. Tied to the code by the Core correspondence and by full snapshots at __enter__ vs after "
             "__exit__ on generated nested programs over all context-aware public ops. "
             "Analysis helpers inside contexts (add_pfba, add_moma, add_room, add_loopless, fix_objective_as_constraint; nested, repeated, raising): inside the block the solver problem is the Lean builder's, after the block it is AuxM.Net.fba of the content (captured-problem comparison). "
             "Refused assignments: ResetM (Model/Resettable.lean) models the resettable wrapper around a bound setter whose value passes the setter's check and is refused by the solver interface (NaN): refused_assignment_is_undone (accepted assignments in any number and a refused one at the end: __exit__ does not raise, bound and solver variable as at __enter__), late_recording_does_not_restore, assignment_after_refused_one_breaks_exit (the known finding as a theorem about the model of the code as it is); the real Reaction.lower_bound setter runs the same sequences (resettable_stage), and blocks with refused assignments (NaN / strings, caught inside or leaving the block) are compared by full snapshot (late_failure_stage).",
        note=CORE_NOTE, technique="Lean 4 proof (LIFO undo by mutual induction over nested programs) + snapshot comparison on the real model",
        design="DESIGN.md section 5, C03"),
    "C07": dict(
        engine="core",
        text="Lean 4: gene_knock_out (after Gene.knock_out the gene is non-functional, a reaction has both bounds zero exactly when it is one of the "
             "gene's reactions whose rule is false with the non-functional genes absent, all others keep their bounds, reaction.functional is the "
             "rule value), knock_out_set (closed form for any list of genes knocked out one after the other) and knock_out_order_independent (any two "
             "orders of the same genes give the same gene states and bounds), reaction_knock_out, monotonicity of further knock-outs, knock-outs "
             "are recorded/undone. Tied to the code by the Core "
             "correspondence and an independent truth-table oracle over bounds, flags and GLPK column bounds.",
        note=CORE_NOTE, technique="Lean 4 proof over the Core model + truth-table oracle",
        design="DESIGN.md section 5, C07"),
    "C04": dict(
        engine="lp",
        text="Lean 4: soundness of the LP certificate checker for all LPs and certificates (optimal_certificate_sound: accepted (x, y) => x is a true "
             "optimum; infeasible_certificate_sound (Farkas); unbounded_certificate_sound; verdicts exclusive; optimal value unique) and the decision "
             "logic status -> value / error value / exception with the table regenerated from exceptions.py and util/solver.py. GLPK is an external "
             "parameter: on every generated instance cobrapy's status, objective value, fluxes (steady state, bounds), shadow prices (dual sign "
             "conditions), reduced costs (= c - S^T y), accessors, error value / exception class and Solution snapshot behaviour are compared with the "
             "certified truth, for glpk and glpk_exact. "
             "Whole problem: any optimum of AuxM.Net.fba is, on net fluxes, an optimum of the objective over all steady-state in-bounds flux vectors (fba_problem_optimum); the reported reduced cost (forward variable) is c - S^T y under any shadow prices y, the reverse variable's its negative (reduced_cost_is_c_minus_STy). Whole-problem layer (lean/CobraModel/Model/AuxProb.lean, Lemmas/AuxProb.lean): the complete solver problem cobrapy builds is a Lean function of the model content and the arguments, compared entry by entry (variables, boxes, kinds, row names, bounds, coefficients, objective, direction; exact rationals) with the raw GLPK problem read at the moment of every solve (harness/auxcorr.py); a mismatch is followed by oracle cases on the same model. "
             "Certified answers: the dense form of the Lean-built problem (Prob.toDense) is handed to the untrusted exact simplex, its certificate is accepted only through Prob.certOpt / certInfeas (certified_answer_is_optimum, certified_infeasible, certified_fba_optimum), and GLPK's status and optimum for every captured continuous problem must lie between the certified optimum of that problem and that of the problem with every bound widened by 1e-6. check_solver_status is compared with ReplyM.checkSolverStatus exhaustively (every optlang status constant, None, an unknown status x raise_error off/on); check_solver_status_no_silent_pass: a status that is neither optimal nor in the generated has_primals list raises whatever the flag.",
        note=LP_NOTE, technique="Lean 4 proof (verified certificate checker, weak duality / Farkas) + certified differential testing of GLPK answers",
        design="DESIGN.md section 5, C04"),
    "C05": dict(
        engine="lp",
        text="Lean 4: the FVA region is exactly {feasible v | objective >= fraction x optimum} (region_is_fraction_constraint); certified optima of the "
             "two step LPs bound every vector of the region, so min <= max (ranges_are_true_extremes); every optimal FBA solution lies inside for "
             "fraction in [0,1] and a non-negative optimum (optimal_solution_inside); regions are nested in the fraction; the pfba_factor cap on "
             "sum(forward+reverse) is a cap on sum|v| (total_flux_cap_is_abs). Every reported minimum/maximum is compared with optima certified "
             "by the proved checker on the independently built region (fractions, pfba_factor, subsets by id or object, max and min models). "
             "An end of a range certified unbounded (feasible point + improving ray, LP.checkUnbdd) has no true extreme (unbounded_end_has_no_maximum / _minimum): FVA may refuse to answer there, a finite number is a violation. "
             "Whole problem: an optimum of the problem _fva_step solves (AuxM.Net.fvaStep: fva_old_objective variable and row, optional flux_sum cap, unit objective, sense) is the true extreme of v_i over the region 'steady state, bounds, objective at or beyond fraction x optimum, total flux at most the cap' (fva_problem_optimum, fva_problem_reaches_region). Whole-problem layer (lean/CobraModel/Model/AuxProb.lean, Lemmas/AuxProb.lean): the complete solver problem cobrapy builds is a Lean function of the model content and the arguments, compared entry by entry (variables, boxes, kinds, row names, bounds, coefficients, objective, direction; exact rationals) with the raw GLPK problem read at the moment of every solve (harness/auxcorr.py); a mismatch is followed by oracle cases on the same model.",
        note=LP_NOTE + " Loopless FVA (CycleFreeFlux post-processing) is not proved exact: checked to lie inside the plain ranges, min <= max, and to equal "
             "the plain ranges on networks without internal cycles (exact rank test).",
        technique="Lean 4 proof (formulation theorems over the verified LP layer) + certified differential testing of FVA ranges",
        design="DESIGN.md section 5, C05"),
    "C09": dict(
        engine="lp",
        text="Lean 4: minimising sum(forward+reverse) over the split problem is minimising sum|v| and the optimal value is that total "
             "(pfba_objective_is_total_flux); the two rows of add_absolute_expression say d >= |e - ref| and the smallest admissible d is the distance "
             "(moma_rows_are_abs, moma_min_is_distance); the ROOM rows confine a flux to the tolerance band for y = 0 and are the flux bounds for y = 1 "
             "(room_rows, room_linear_rows). Returned fluxes are checked for feasibility; reported objective values and the values recomputed from the "
             "returned fluxes are compared with optima of the documented problems certified by the proved checker (ROOM: certified feasibility of a "
             "minimal set of changed fluxes and certified infeasibility of every smaller set). "
             "Whole problems: at any optimum of AuxM.Net.pfba the net fluxes are feasible, keep the objective, minimise the total absolute flux and the value is that total (pfba_problem_optimum, pfba_problem_reaches_every_flux_vector); same for linear MOMA and the summed distance (moma_problem_optimum) and for ROOM and the number of fluxes leaving their bands (room_problem_optimum, finite bounds); linear ROOM is the relaxation (room_linear_problem_is_relaxation). Whole-problem layer (lean/CobraModel/Model/AuxProb.lean, Lemmas/AuxProb.lean): the complete solver problem cobrapy builds is a Lean function of the model content and the arguments, compared entry by entry (variables, boxes, kinds, row names, bounds, coefficients, objective, direction; exact rationals) with the raw GLPK problem read at the moment of every solve (harness/auxcorr.py); a mismatch is followed by oracle cases on the same model.",
        note=LP_NOTE + " ROOM / linear ROOM need finite bounds; quadratic MOMA needs a QP solver that is not installed (linear MOMA only).",
        technique="Lean 4 proof (formulation lemmas) + certified differential testing of pFBA / MOMA / ROOM optima",
        design="DESIGN.md section 5, C09"),
    "C06": dict(
        engine="lp",
        text="Lean 4: exactly one row per distinct unordered combination, repeats collapse, order inside a pair irrelevant (one_row_per_combination, "
             "canon_unordered); a deletion task run inside a with-block returns the model exactly as it found it (gene_task_restores, "
             "reaction_task_restores, instances of the C03 theorem); gene knock-outs hit exactly the reactions whose rule becomes false (C07); "
             "essential = growth NaN or below threshold (essential_iff). Every row of single/double gene/reaction deletion is compared with the optimum "
             "of an independently knocked-out copy certified by the proved LP checker; linear-MOMA rows with the certified range of the old objective "
             "over the certified minimal-adjustment set; essential sets with certified growths. "
             "Whole-problem layer (lean/CobraModel/Model/AuxProb.lean, Lemmas/AuxProb.lean): the complete solver problem cobrapy builds is a Lean function of the model content and the arguments, compared entry by entry (variables, boxes, kinds, row names, bounds, coefficients, objective, direction; exact rationals) with the raw GLPK problem read at the moment of every solve (harness/auxcorr.py); a mismatch is followed by oracle cases on the same model. Here: the problem of every single deletion (FBA and linear MOMA) equals AuxM.Net.fba / AuxM.Net.moma of the content with the deleted reaction closed.",
        note=LP_NOTE + " processes=1 in this check (C14 varies the process count).",
        technique="Lean 4 proof (combination / task / filter logic over the Core and LP layers) + certified differential testing of every row",
        design="DESIGN.md section 5, C06"),
    "C18": dict(
        engine="lp",
        text="Lean 4: pure model of Model.medium — set_active_bound sets the import bound and leaves the export bound (setActive_spec), an unlisted "
             "exchange has its import closed (closeImport_spec), and for every exchange list and dictionary getMedium (setMedium exs med) is exactly "
             "the listed entries with positive import (get_set); the import of an exchange is its reverse/forward split variable "
             "(import_is_split_variable). The real setter/getter are compared with an independent description of the expected bounds; "
             "minimal_medium's total import / number of components with optima certified by the proved LP checker (subset enumeration with certified "
             "feasibility / infeasibility), sufficiency by re-solving with the returned imports, None exactly when certified infeasible. "
             "Whole problems: an optimum of AuxM.Net.mediumLinear has the smallest total import among flux vectors reaching the requested objective value, an optimum of AuxM.Net.mediumMip the fewest components, and the big-M constant bounds every import (medium_problem_optimum, medium_mip_problem_optimum, import_below_big_m). Whole-problem layer (lean/CobraModel/Model/AuxProb.lean, Lemmas/AuxProb.lean): the complete solver problem cobrapy builds is a Lean function of the model content and the arguments, compared entry by entry (variables, boxes, kinds, row names, bounds, coefficients, objective, direction; exact rationals) with the raw GLPK problem read at the moment of every solve (harness/auxcorr.py); a mismatch is followed by oracle cases on the same model.",
        note=LP_NOTE + " Components below 1e-3 are not counted (documented detection limit of the MIP formulation).",
        technique="Lean 4 proof (getter/setter model) + certified differential testing of minimal_medium",
        design="DESIGN.md section 5, C18"),
    "C17": dict(
        engine="lp",
        text="Lean 4: a point feasible for the add_loopless constraints contains no sign-compatible internal cycle (force_opposes_flux, "
             "no_cycle_of_orthogonal, loopless_feasible_has_no_cycle); the bounds _add_cycle_free sets keep direction and cap magnitude "
             "(cycle_free_bounds); a certified optimum of the cycle-free problem admits no removable cycle (cycle_free_optimum_is_minimal). "
             "loopless_solution is checked for feasibility, objective, boundary fluxes, direction/magnitude of every flux and minimality of total "
             "internal flux against an optimum certified on the independently built CycleFreeFlux region; add_loopless against the true loopless "
             "optimum from exhaustive sign-pattern enumeration with certified LPs (<= 4/5 internal reactions) and an exact cycle test of the solution. "
             "Whole problems: an optimum of AuxM.Net.cycleFree (loopless_solution) minimises the total internal flux over the region the bounds of _add_cycle_free describe, whose meaning is proved (cycle_free_problem_optimum, cycle_free_bounds_meaning); a feasible point of AuxM.Net.loopless (add_loopless) carries no sign-compatible combination of the null-space rows (loopless_problem_has_no_cycle). Whole-problem layer (lean/CobraModel/Model/AuxProb.lean, Lemmas/AuxProb.lean): the complete solver problem cobrapy builds is a Lean function of the model content and the arguments, compared entry by entry (variables, boxes, kinds, row names, bounds, coefficients, objective, direction; exact rationals) with the raw GLPK problem read at the moment of every solve (harness/auxcorr.py); a mismatch is followed by oracle cases on the same model.",
        note=LP_NOTE + " Completeness of add_loopless (driving forces within [1, max_bound], floating-point null space) is not a theorem: compared with the "
             "exhaustive enumeration on small networks. Oracle equalities relaxed by 1e-7 because start vectors are GLPK floats.",
        technique="Lean 4 proof (MILP soundness, formulation lemmas) + certified differential testing",
        design="DESIGN.md section 5, C17"),
    "C19": dict(
        engine="lp",
        text="Lean 4: a reaction is blocked iff both certified extremes of its flux are zero (blocked_iff_range_zero); a reaction that carries flux in "
             "one feasible vector is not blocked, which is the soundness of the pre-filter and of what fastcc keeps (carries_flux_not_blocked); opening "
             "exchanges only enlarges the feasible set (widen_box). The true blocked set of every generated network comes from certified LPs; "
             "find_blocked_reactions (reaction_list by id/object, open_exchanges) must equal it; fastcc must keep no blocked reaction, drop no "
             "irreversible unblocked reaction and leave stoichiometry, bounds and rules unchanged. "
             "Main loop of fastcc (Model/Fastcc.lean: the bookkeeping around the external LP solves): fastcc_keeps_only_unblocked, fastcc_dropped_reaction_was_tested (a reaction is dropped only after an unflipped solve over all remaining reactions found none of them), fastcc_solves_bounded; the solves the real fastcc makes are recorded (wrapped _find_sparse_mode / _flip_coefficients / Model.optimize) and the Lean loop, fed their answers, must ask for the same sets and keep the same reactions (loop_stage). "
             "Whole problem: LP-7 of fastcc (AuxM.Net.fastcc) is sound for irreversible reactions and its optimum dominates sum min(thr, |v_i|) of every feasible flux vector (lp7_problem_sound, lp7_problem_optimum_ge); FVA at fraction 0 is AuxM.Net.fvaStep. Whole-problem layer (lean/CobraModel/Model/AuxProb.lean, Lemmas/AuxProb.lean): the complete solver problem cobrapy builds is a Lean function of the model content and the arguments, compared entry by entry (variables, boxes, kinds, row names, bounds, coefficients, objective, direction; exact rationals) with the raw GLPK problem read at the moment of every solve (harness/auxcorr.py); a mismatch is followed by oracle cases on the same model.",
        note=LP_NOTE + " fastcc completeness is a known finding (drops unblocked reversible reactions, known_findings.json): only that signature is tolerated.",
        technique="Lean 4 proof (blockedness from certificates) + certified differential testing",
        design="DESIGN.md section 5, C19"),
    "C20": dict(
        engine="summary",
        text="Lean 4 over the executable table model SummaryM (scale by the coefficient, tolerance zeroing, FVA range scaling and swap, producing/"
             "consuming split, percentages): every row lands in exactly one table (exactly_one_table), listed flux = solution flux x coefficient "
             "(flux_is_scaled), scaled ranges stay ordered (range_ordered, zeroSmall_mono), the two sides add up to sum(factor x flux) = 0 at steady "
             "state (sum_scaled), percentages sum to one on a side with flux (percents_sum_one). The model is run on the same rows as the real "
             "ModelSummary/MetaboliteSummary (lean --run) and the tables are compared entry by entry; direct oracle for exactly-once listing, "
             "objective value, balance, percentages; rendering of model/metabolite/reaction summaries must not raise.",
        note="Trusted: Lean kernel, standard axioms; the table model is tied to the code by the sampled correspondence; pandas rendering is not modelled; "
             "defaulted solution (pFBA) and float fva are recomputed deterministically by the harness.",
        technique="Lean 4 proof over an executable table model + differential correspondence",
        design="DESIGN.md section 5, C20"),
    "C11": dict(
        engine="io",
        text="Lean 4 over the model of _reaction_to_dict/_reaction_from_dict (required and optional keys, infinite bounds as text, both bounds set "
             "together): fromDict (toDict r) = r for every reaction with ordered bounds, saving is idempotent, and the repaired defect is exhibited "
             "(old_loader_rejected_high_lower_bound). The key scheme shared by reactions, metabolites, genes and the model (required keys always, an "
             "optional key only when the attribute differs from its default, loading sets what it finds on a default object) is proved generically "
             "(DictScheme.roundtrip, toDict_idempotent, for any tables without a repeated key) and instantiated with the key tables regenerated from "
             "cobra/io/dict.py on every run (tables_have_no_repeated_key, listed_attributes_are_keys, scheme_roundtrip by decide / instantiation). The model's dictionaries are compared with cobrapy's on generated reactions (lean --run); "
             "generated rich models go through JSON (string, file, handle), YAML (string, file), dict, pickle, sort on/off, default and non-default "
             "Configuration().bounds, with full dumps, raw GLPK problem and optimum compared after one and two round trips.",
        note="Trusted: Lean kernel, standard axioms; json / ruamel.yaml / pickle and float<->text conversion are external (exercised on every generated "
             "value); metabolite, gene and model dictionaries are covered by the round-trip comparison only; groups are outside the dict formats.",
        technique="Lean 4 proof (round trip of the dictionary form) + differential correspondence + round-trip comparison on the real code",
        design="DESIGN.md section 5, C11"),
    "C10": dict(
        engine="io",
        text="Lean 4 over the model of the SBML identifier layer (_f_*_rev: characters outside [0-9_a-zA-Z] -> __ord__, prefix; _f_*: leftmost "
             "non-overlapping __(\\d+)__ -> chr, SBML_DOT for genes, prefix clipping) and of _create_bound: id_roundtrip proves f (fRev s) = s for "
             "all four kinds and every identifier in the decidable SafeId (no '__<digit>' once the prefix is attached; no __SBML_DOT__ for genes), "
             "the witnesses outside SafeId are theorems too (known finding), bound_roundtrip holds under any configured defaults. The model's escaped / "
             "restored identifiers are compared with cobra.io.sbml on generated identifiers (lean --run). Generated rich models are written "
             "(path, pathlib, handle, string; with / without id replacement; default / non-default Configuration().bounds), validated with "
             "validate_sbml_model, read back, compared (15 significant digits), round-tripped twice; shipped SBML files are compared with libsbml's own "
             "view of the file, written, validated and read again.",
        note="Partial by nature: libsbml (document, XML text, validator, number formatting), notes / annotation XML and the fbc / groups plugins are "
             "external and covered by the round-trip comparison only. Trusted: Lean kernel, standard axioms. Known findings (model / compartment ids "
             "that are not SIds, empty objective, empty reaction, ids outside SafeId, parameter id collision) are listed in known_findings.json.",
        technique="Lean 4 proof (identifier escaping and bound parameters) + differential correspondence + validated round trips on the real code",
        design="DESIGN.md section 5, C10"),
    "C12": dict(
        engine="copy",
        text="Lean 4: (1) frame theorem on an abstract heap (objects with content and references): if nothing is reachable from both roots, no sequence "
             "of edits through one root changes the content or the set of objects reachable from the other, and separation is preserved "
             "(edits_invisible, edits_invisible_symm; shared_object_leaks shows the hypothesis is needed); (2) copy_separates: the copy specification "
             "of Model.copy, regenerated on every run from the AST of Model.copy (by reference / copy() / deepcopy / rebuilt per class and attribute) and "
             "joined with the mutability of live attribute values, hands no mutable object over (decide over the whole generated table). The table is "
             "checked against the observed object identity between models and their copies; an object-graph walker computes reach(original) ∩ reach(copy) "
             "for Model.copy / deepcopy / pickle on generated models (groups of groups, user constraints, contexts open at copy time); equivalence of "
             "content, raw GLPK problem, tolerances and optimum; distinct objects pointing at the copy; random edit / optimisation / analysis sequences on "
             "either side with the full observable state of the other before and after each step; Reaction.copy, Metabolite.copy, Gene.copy, + - *.",
        note="Partial: the heap theorem is about the abstract sharing relation; that the walker sees every reference is trusted for Python-level references "
             "(__dict__, __slots__, builtin containers); references inside C extensions (GLPK, symengine) are covered behaviourally only. Trusted: Lean kernel, "
             "standard axioms, the AST pattern matcher of translate_copy.py (validated against observed identity every run).",
        technique="Lean 4 proof (heap frame theorem + generated copy specification) + object-graph walker and edit histories on the real code",
        design="DESIGN.md section 5, C12"),
    "C13": dict(
        engine="effects",
        text="Lean 4: a statement language for what an analysis does to the model it was given (context-aware write, in-place write, own `with model:`, "
             "try/finally, exception points, work on a copy, branches, loops), a big-step semantics with exceptions over a state holding the installed "
             "object per component, object contents and the stack of open contexts with their undo records (the caller's at the bottom), and the "
             "soundness theorem leaves_model_as_found: every execution of a statement passing the syntactic check Safe — returning or raising at any "
             "point, inside or outside caller contexts — leaves every component, every pre-existing object's content and the caller's contexts as they "
             "were. all_analyses_safe: decide over Gen/EffectTable.lean, the summaries of 25 analyses and of every cobra helper they call, regenerated "
             "from the source (Python ast) on every run. The translation is validated at run time (every kind of write observed through wrapped "
             "cobrapy / optlang primitives must be in the generated summary) and the real analyses are run on generated feasible / infeasible / unbounded "
             "models with argument combinations, inside / outside user contexts, 1 or 2 processes, twice each, with the full observable state "
             "before and after (content, raw GLPK problem, tolerances, gene states, caller's context history).",
        note="Trusted: Lean kernel, standard axioms, the translator's stated approximations (try/except as body then optional handler; the explicit "
             "direction save/restore of Model.optimize rendered as a private context; cobrapy's context-aware setters as primitives; element-level "
             "freshness of solver objects decided by the translator). Cases in which GLPK aborts the process are counted, not judged.",
        technique="Lean 4 proof (soundness of an effect check + generated effect summaries) + run-time validation of the translation + state comparison on the real code",
        design="DESIGN.md section 5, C13"),
    "C14": dict(
        engine="schedule",
        text="Lean 4: workers as sequential runs of tasks (state -> result x state) from a common initial state; schedule_independent: for every number of "
             "workers, chunking, assignment, completion order and permutation of the requested items, the collected results are a permutation of the "
             "stand-alone results, provided every task leaves the worker's model equivalent to the initial one (Stable + Const); lookup_eq_alone, "
             "every_item_answered; the premise holds for the two task shapes of the code (fva_task_stable: set coefficient, solve, reset; "
             "deletion_task_stable: knock-out inside a context) for an arbitrary deterministic solver, and carry_over_breaks shows it is needed. "
             "roundUp lemmas (>= n, multiple of p, < n + p, exact on multiples) and distinct chain seeds for OptGP. On the real code the pool worker "
             "functions are wrapped before the pool forks (seeded per-task delays, (pid, task) logs): FVA, blocked / essential searches, single and "
             "double deletions with processes 1..8, permuted item lists and delay seeds are compared with each other and with asking for each item alone; "
             "parallel OptGP: row count against the Lean roundUp (line driver), every sample valid, reproducible for fixed seed and process count. "
             "Problem level: the problem each worker process hands to the solver for each item is recorded inside the workers under every explored schedule and compared entry by entry with the Lean builder of that item's problem (AuxM.Net.fvaStep / reactionDeletion / geneDeletion, functions of content and item alone); two optima of one problem have the same value (item_value_is_schedule_free, fva_item_value_is_the_extreme).",
        note="Partial by nature: real OS scheduling, pickling of the model into workers and GLPK warm-start state are explored (seeded delays, process "
             "counts, permutations; schedules taken are logged), not proved. Trusted: Lean kernel, standard axioms; the abstraction of the worker as a "
             "sequential state machine; that the real tasks satisfy the premise is the subject of C05 / C13.",
        technique="Lean 4 proof (schedule independence under a restoring-task premise, rounding lemmas) + explored schedules on the real code",
        design="DESIGN.md section 5, C14"),
    "C16": dict(
        engine="sampling",
        text="Lean 4 over the exact-arithmetic model of cobra.sampling.core.step (candidate step lengths from the scaled boxes with the tolerance and "
             "fixed-variable filters, the range [max non-positive, min positive], the move, the bound check, the stuck test and the retry from the "
             "centre): step_keeps_equalities (a step along w - c with A w = A c = b stays in A x = b), alpha_range_sound (inside the boxes and not on "
             "a face the direction points out of, every step length in the computed range keeps every moving coordinate inside), "
             "on_a_face_the_range_leaks (the side condition is needed — hence the check after the move), step_result_checked (whatever the random "
             "choices and retries, a returned point passed the bound check), flux_of_split and flux_steady_state (fluxes of a variable-space point are "
             "within the reaction bounds and at steady state). The Lean step is compared with the real step function on dyadic data (binary64 exact); "
             "every sample returned by ACHR / OptGP (sample() and sampler objects, reaction and variable space, thinning, nproj, 1..3 processes) on "
             "generated feasible models (homogeneous, forced / fixed fluxes, extra linear constraints) is checked in exact rational arithmetic; row count, "
             "column order, same seed -> same samples, validate() against the independent check, model untouched. "
             "From the sampler's matrices back to the model: AuxM.Prob.sampler is the matrix problem HRSampler.__build_problem derives (compared with sampler.problem of the real ACHR / OptGP samplers), and a point satisfying it gives net fluxes at steady state, in bounds and inside every user constraint (sample_point_is_feasible_flux, sampler_matrices_sound).",
        note="Partial by nature: binary64 arithmetic, numpy's generator, the SVD null space and the re-projection are outside the model; whether the floating "
             "walk stays inside is monitored on every returned sample, not proved. Feasibility judged at 1e-6 (10x the documented tolerance). Trusted: Lean "
             "kernel, standard axioms.",
        technique="Lean 4 proof (geometry of the hit-and-run step in exact arithmetic) + differential correspondence on exact data + exact feasibility monitoring of real samples",
        design="DESIGN.md section 5, C16"),
}

PENDING_REASON = "check under construction in this session (see DESIGN.md section 9 build order); not claimed until its Lean model, theorems and correspondence exist"


def main():
    props = [json.loads(l)["id"] for l in (ROOT / "properties.jsonl").read_text().splitlines() if l.strip()]
    checks = []
    for pid in props:
        if pid not in CLAIMED:
            continue
        c = CLAIMED[pid]
        checks.append({
            "property_id": pid,
            "quick_cmd": f"./check {pid} --tier quick",
            "thorough_cmd": f"./check {pid} --tier thorough",
            "evidence_file": f"evidence/{pid}.json",
            "replay_cmd_template": f"./check {pid} --replay {{path}}",
            "engine": c["engine"],
            "level_claimed": {"category": "proof", "text": c["text"], "design_ref": c["design"]},
            "level_note": c["note"],
            "technique": c["technique"],
        })
    m = {
        "version": 1,
        "setup_cmd": "cd harness && /venv/bin/python regen_all.py > /dev/null; cd ../lean && lake build",
        "hooks": {
            "guard": "COBRAPY_VERIF",
            "enable": "no hooks in /repo: the harness intercepts optlang/GLPK calls and worker functions in-process",
            "baseline_off_cmd": BASELINE,
            "source_commits": [],
            "add_only": True,
        },
        "engines": [
            {"name": "dictlist", "path": "harness/c15.py", "serves_properties": ["C15"],
             "kind_free_text": "Lean model DLM + theorems (lean/CobraModel/{Model,Lemmas,Props}) and op-sequence correspondence against cobra.core.DictList"},
            {"name": "core", "path": "harness/core_engine.py", "serves_properties": ["C01", "C02", "C03", "C07"],
             "kind_free_text": "Lean Core model (content + solver + undo stack as functions over ids), theorems in Props/C01,C02,C03,C07, traces on the real model with raw GLPK read-out"},
            {"name": "lp", "path": "harness/lpcert.py", "serves_properties": ["C04", "C05", "C06", "C09", "C17", "C18", "C19"],
             "kind_free_text": "Lean LP model + proved certificate checker (Model/LP.lean, Lemmas/LP.lean), untrusted exact simplex, constructive FBA instance generator"},
            {"name": "summary", "path": "harness/c20.py", "serves_properties": ["C20"],
             "kind_free_text": "Lean table model SummaryM + driver, compared with ModelSummary / MetaboliteSummary frames"},
            {"name": "io", "path": "harness/richgen.py", "serves_properties": ["C10", "C11"],
             "kind_free_text": "rich model generator / dump, Lean DictIO and SbmlId models + drivers, round trips through every format"},
            {"name": "copy", "path": "harness/c12.py", "serves_properties": ["C12"],
             "kind_free_text": "translate_copy.py (AST of Model.copy -> Gen/CopySpec.lean), object-graph walker, edit histories on original and copy"},
            {"name": "effects", "path": "harness/c13.py", "serves_properties": ["C13"],
             "kind_free_text": "translate_effects.py (AST of the analyses -> Gen/EffectTable.lean), run-time write recorder, before/after state comparison in isolated child processes"},
            {"name": "schedule", "path": "harness/c14.py", "serves_properties": ["C14"],
             "kind_free_text": "Lean Schedule model + driver, wrapped pool workers (delays, pid logs), cross-schedule comparison in isolated child processes"},
            {"name": "sampling", "path": "harness/c16.py", "serves_properties": ["C16"],
             "kind_free_text": "Lean Sampling model + driver vs cobra.sampling.core.step on dyadic data; exact feasibility check of every returned sample"},
            {"name": "gpr", "path": "harness/c08.py", "serves_properties": ["C08"],
             "kind_free_text": "Lean model GPRM (rule trees, parser, remover) + generated escape tables + correspondence against cobra.core.gene.GPR"},
        ],
        "checks": checks,
        "notes": "Every check: (1) lake build of the property's theorems + axiom audit, (2) correspondence of the Lean model with the "
                 "real code on generated cases, (3) direct oracle on the implementation / failing-input search. See DESIGN.md.",
        "not_applicable": [{"property_id": p, "reason": PENDING_REASON} for p in props if p not in CLAIMED],
    }
    (ROOT / "MANIFEST.json").write_text(json.dumps(m, indent=1) + "\n")


if __name__ == "__main__":
    main()

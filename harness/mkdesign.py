"""Regenerates section 10 of DESIGN.md from harness/design_section10.tmpl and the committed data (known_findings.json, seeded/*/meta.json)."""
import glob, json, os
ROOT = "/verif"
WHY = {"rename-inside-context": "the id setters would have to become context-aware throughout (every recorded undo refers to objects by id)",
       "loopless-fva-not-exact": "`loopless_fva_iter` is a heuristic; an exact method is a different algorithm",
       "fastcc-drops-unblocked-reversible": "needs the LP-7/LP-3 scheme of the FASTCC paper for reversible reactions: a rewrite, not a patch",
       "sbml-id-escaping-not-injective": "changing the escaping changes the file format of every written model",
       "sbml-model-id-not-sid": "needs an escaping scheme for model ids (format change)",
       "sbml-compartment-id-not-escaped": "needs an escaping scheme for compartment ids (format change)",
       "sbml-empty-objective-invalid": "fbc requires a non-empty objective; the fix is a design decision (omit the objective and lose the direction, or write a zero term)",
       "sbml-empty-reaction-invalid": "SBML L3V1 rule; nothing cobrapy can write makes it valid",
       "sbml-bound-parameter-id-collision": "needs a different naming scheme for bound parameters (format change)",
       "sbml-formula-not-checked": "formulas are free text in cobrapy; validating or dropping them changes behaviour",
       "solver-copy-15-digits": "optlang copies a GLPK problem through its text form; the repair belongs in optlang",
       "loopless-fva-schedule-dependent": "same root cause as loopless-fva-not-exact"}
d = json.load(open(f"{ROOT}/known_findings.json"))
fixed = [f for f in d["findings"] if f["kind"] == "fixed"]
found = [f for f in d["findings"] if f["kind"] == "finding"]
F = []
for f in fixed:
    desc = f["description"].split(" ", 3)[-1] if f["description"].startswith("fixed:") else f["description"]
    F.append(f"| {f['property']} | `{f.get('commit', '')}` | {desc} |")
N = [f"| {f['property']} | `{f['signature']}` | {f['description'][:230]} | {WHY.get(f['signature'], '')} |" for f in found]
S = []
for m in sorted(glob.glob(f"{ROOT}/seeded/*/meta.json")):
    j = json.load(open(m))
    n = os.path.basename(os.path.dirname(m))
    S.append(f"| `{n}` | {j['needs_to_manifest'][:140]} | {'**NOT CAUGHT** — ' if j['check_exit_with_patch'] != 1 else ''}{j['caught_by'][:260]} |")
tmpl = open(f"{ROOT}/harness/design_section10.tmpl").read()
sec = tmpl.replace("{{FIXED}}", "\n".join(F) + "\n").replace("{{FINDINGS}}", "\n".join(N) + "\n").replace("{{SEEDS}}", "\n".join(S) + "\n")
# theorems per property, read from the Props files
import re
T = ["", "### 10.6 Theorems per property (as built)", "",
     "Read from `lean/CobraModel/Props/Cxx.lean` when this section was generated; every one of them is audited with `#print axioms` on every run.", "",
     "| property | theorems |", "|---|---|"]
for f in sorted(glob.glob(f"{ROOT}/lean/CobraModel/Props/C*.lean")):
    names = re.findall(r"^theorem\s+([A-Za-z0-9_'.]+)", open(f).read(), re.M)
    T.append(f"| {os.path.basename(f)[:-5]} | " + ", ".join(f"`{n}`" for n in names) + " |")
sec = sec.rstrip("\n") + "\n" + "\n".join(T) + "\n"
s = open(f"{ROOT}/DESIGN.md").read()
i = s.index("## 10. As built")
open(f"{ROOT}/DESIGN.md", "w").write(s[:i] + sec)
print("section 10:", len(sec.splitlines()), "lines;", len(F), "fixes,", len(N), "findings,", len(S), "seeded changes")

"""C18 — medium get/set are inverse and a minimal medium is sufficient and minimal.

PROOF: lean/CobraModel/Props/C18.lean (setter / getter model, get∘set, import as split variable, big M dominates every import and the indicator
       rows are exact for it).
TIE:   the executable model (Model/Medium.lean: getter, setter, big M) is run on the model's own exchanges through the line driver and compared
       with Model.medium before / after the assignment, the bounds the setter leaves, and the coefficient add_mip_obj gives the indicators;
       the setter is also compared with an independent description of the expected bounds, the getter with the positive entries;
       minimal_medium: total import (or number of components) against optima certified by the proved LP checker (subset enumeration
       with certified feasibility / infeasibility for the component count), sufficiency by applying the returned medium, and
       None exactly when the requirement is certified infeasible.
"""
from __future__ import annotations

import itertools
import json
import os
import logging
import sys
import warnings
from fractions import Fraction as F

import canon
import common
import coreops
import fbagen
import lpcert
import auxcorr

logging.disable(logging.CRITICAL)
common.ensure_repo_on_path()
from cobra.medium import minimal_medium  # noqa: E402

TOL = 1e-6


def close(a, b, tol=TOL):
    return abs(a - b) <= tol * (1 + abs(b))


def n2s(x):
    return canon.num(F(x))


def gen_spec(rng, force_big=False):
    k = rng.randint(2, 5)
    names = ["A", "B", "C", "D", "E"][:k]
    rxns = []
    # profile "one big import written in the import direction": a single `--> X_e` exchange may import 1000, every other bound of every
    # exchange is small (the largest |bound| over all exchanges is then an upper bound)
    big_import = rng.choice(names) if (force_big or rng.random() < 0.2) else None
    for x in names:
        reactant = rng.random() < 0.5
        imp = rng.choice([0, 5, 10, 20, F(5, 2), 1000])
        exp = rng.choice([0, 0, 10, 1000, 1000, F(7, 2)])
        if big_import is not None:
            reactant = reactant and x != big_import
            imp = 1000 if x == big_import else rng.choice([0, 5, 10, 20, F(5, 2)])
            exp = rng.choice([0, 0, 10, F(7, 2)])
        elif rng.random() < 0.12:
            # forced export: the exchange has to carry flux out of the system (a positive lower bound for `X_e -->`)
            imp = -rng.choice([F(1, 8), 1, F(1, 2)])      # dyadic: the oracle compares bounds exactly
            exp = rng.choice([10, 1000])
        if reactant:     # X_e -->   import = negative flux
            rxns.append({"id": f"EX_{x}_e", "st": {f"{x}_e": "-1"}, "lb": n2s(-imp), "ub": n2s(exp), "rule": ""})
        else:            # --> X_e   import = positive flux
            rxns.append({"id": f"EX_{x}_e", "st": {f"{x}_e": "1"}, "lb": n2s(-exp), "ub": n2s(imp), "rule": ""})
        rxns.append({"id": f"T_{x}", "st": {f"{x}_e": "-1", f"{x}_c": "1"}, "lb": "-1000", "ub": "1000", "rule": ""})
    for i in range(rng.randint(0, 3)):
        a, b = rng.sample(names, 2)
        rxns.append({"id": f"R{i}", "st": {f"{a}_c": n2s(-rng.choice([1, 2])), f"{b}_c": n2s(rng.choice([1, 1, 2]))},
                     "lb": rng.choice(["0", "-1000"]), "ub": "1000", "rule": ""})
    need = rng.sample(names, rng.randint(1, min(3, k)))
    if force_big and big_import not in need:
        need[0] = big_import          # growth needs the one large import, far above every other bound of every exchange
    st = {f"{x}_c": n2s(-rng.choice([1, 1, 2, F(1, 2)])) for x in need}
    if rng.random() < 0.4:
        byp = rng.choice([x for x in names if x not in need] or names)
        if f"{byp}_c" not in st:
            st[f"{byp}_c"] = "1"          # a by-product that has to be exported
    rxns.append({"id": "BIO", "st": st, "lb": "0", "ub": "1000", "rule": ""})
    return {"rxns": rxns, "obj": {"BIO": "1"}, "dir": "max", "groups": [], "extra_mets": []}


def fb(x):
    """A bound of a spec: None when infinite."""
    return None if x in ("inf", "-inf") else F(x)


def exchanges_of(spec):
    out = {}
    for r in spec["rxns"]:
        if r["id"].startswith("EX_"):
            coef = F(list(r["st"].values())[0])
            out[r["id"]] = {"reactant": coef < 0, "lb": fb(r["lb"]), "ub": fb(r["ub"])}
    return out


def import_lp(spec, min_obj, open_bound=None, allowed=None, fixed_import=None):
    """Split LP: p, n >= 0, v = p - n.  Returns (lp minimising total import, import-variable indices)."""
    rx = spec["rxns"]
    n = len(rx)
    mids = sorted({m for r in rx for m in r["st"]})
    vb = [(F(0), None)] * (2 * n)
    rows = [([F(r["st"].get(m, "0")) for r in rx] + [-F(r["st"].get(m, "0")) for r in rx], F(0), F(0)) for m in mids]
    sel = {}
    for j, r in enumerate(rx):
        lo, hi = fb(r["lb"]), fb(r["ub"])
        if r["id"].startswith("EX_") and open_bound is not None:
            lo, hi = -F(open_bound), F(open_bound)
        a = [F(0)] * (2 * n)
        a[j], a[n + j] = F(1), F(-1)
        rows.append((a, lo, hi))
        if r["id"].startswith("EX_"):
            reactant = F(list(r["st"].values())[0]) < 0
            sel[r["id"]] = n + j if reactant else j
    c = [F(spec["obj"].get(r["id"], "0")) for r in rx]
    rows.append((c + [-x for x in c], F(min_obj), None))
    vb = list(vb)
    if allowed is not None:
        for rid, idx in sel.items():
            if rid not in allowed:
                vb[idx] = (F(0), F(0))
    if fixed_import is not None:
        for rid, idx in sel.items():
            vb[idx] = (F(0), fixed_import.get(rid, F(0)))
    obj = [F(0)] * (2 * n)
    for idx in sel.values():
        obj[idx] = F(-1)
    return (2 * n, vb, rows, obj), sel


def check_setter(case):
    spec = case["spec"]
    fails = []
    exs = exchanges_of(spec)
    med = {k: F(v) for k, v in case["medium"].items()}
    with warnings.catch_warnings():
        warnings.simplefilter("ignore")
        m = coreops.build_model(spec)
        got0 = m.medium
        # the Lean model (Model/Medium.lean) on the exchanges as the implementation sees them
        lean_exs = [[r.id, bool(r.reactants), canon.num(r.lower_bound), canon.num(r.upper_bound)] for r in m.exchanges]
        lean = json.loads(common.run_driver_persistent("medium", [json.dumps({"exs": lean_exs, "med": [[k, n2s(v)] for k, v in med.items()]})])[0])
        corr = []
        if "bad-line" in lean:
            corr.append(f"driver: {lean}")
        else:
            if {k: F(v) for k, v in lean["before"]} != {k: F(v) for k, v in got0.items()}:
                corr.append(f"getter: model {lean['before']} vs implementation {got0}")
            try:
                from cobra.medium.minimal_medium import add_mip_obj
                with m:
                    add_mip_obj(m)
                    coefs = set()
                    for r in m.exchanges:
                        c = m.constraints["ind_constraint_" + r.id]
                        ind = m.variables["ind_" + r.id]
                        coefs.add(F(-c.get_linear_coefficients([ind])[ind]))
                if coefs and coefs != {F(lean["bigm"])}:
                    corr.append(f"big M: model {lean['bigm']} vs implementation {sorted(map(float, coefs))}")
            except Exception as e:
                corr.append(f"big M: reading the indicator rows raised {type(e).__name__}: {e}")
        want0 = {k: (-e["lb"] if e["reactant"] else e["ub"]) for k, e in exs.items()}
        want0 = {k: float(v) for k, v in want0.items() if v > 0}
        if {k: float(v) for k, v in got0.items()} != want0:
            fails.append(f"medium getter returns {got0}, the exchanges with positive import are {want0}")
        try:
            m.medium = {k: float(v) for k, v in med.items()}
        except ValueError:
            return None, "bound-check"
        except Exception as e:
            return [f"medium setter raised {type(e).__name__}: {e}"], "ran"
        for k, e in exs.items():
            R = m.reactions.get_by_id(k)
            imp = -R.lower_bound if e["reactant"] else R.upper_bound
            exp = R.upper_bound if e["reactant"] else R.lower_bound
            old_imp = -e["lb"] if e["reactant"] else e["ub"]
            old_exp = e["ub"] if e["reactant"] else e["lb"]
            want = med[k] if k in med else min(F(0), old_imp)
            if F(imp) != want:
                fails.append(f"import bound of {k} is {imp}, expected {float(want)}")
            if F(exp) != old_exp:
                fails.append(f"export bound of {k} changed from {float(old_exp)} to {exp}")
        if "bad-line" not in lean:
            after = {r.id: (F(r.lower_bound), F(r.upper_bound)) for r in m.exchanges}
            if {k: (F(a), F(b)) for k, a, b in lean["set"]} != after:
                corr.append(f"setter: model {lean['set']} vs implementation { {k: (float(a), float(b)) for k, (a, b) in after.items()} }")
            if {k: F(v) for k, v in lean["after"]} != {k: F(v) for k, v in m.medium.items()}:
                corr.append(f"getter after the assignment: model {lean['after']} vs implementation {m.medium}")
        if corr:
            case["_corr"] = corr
        back = {k: float(v) for k, v in m.medium.items()}
        wantback = {k: float(v) for k, v in med.items() if v > 0}
        if back != wantback:
            fails.append(f"reading the medium back gives {back}, the entries with positive import are {wantback}")
        for r in spec["rxns"]:
            if not r["id"].startswith("EX_"):
                R = m.reactions.get_by_id(r["id"])
                if (F(R.lower_bound), F(R.upper_bound)) != (F(r["lb"]), F(r["ub"])):
                    fails.append(f"bounds of non-exchange {r['id']} changed")
    return fails, "ran"


def check_minimal(case):
    spec = case["spec"]
    fails = []
    exs = exchanges_of(spec)
    min_obj = F(case["min_objective_value"])
    open_bound = (1000 if case["open_exchanges"] is True else case["open_exchanges"]) if case["open_exchanges"] else None
    lp, sel = import_lp(spec, min_obj, open_bound)
    cert = lpcert.certify([lp])[0]
    with warnings.catch_warnings():
        warnings.simplefilter("ignore")
        m = coreops.build_model(spec)
        fbagen.prior_history(m, case.get("history"))
        try:
            res = minimal_medium(m, min_objective_value=float(min_obj), exports=case["exports"],
                                 minimize_components=case["minimize_components"], open_exchanges=case["open_exchanges"])
        except Exception as e:
            return [f"minimal_medium raised {type(e).__name__}: {e}"], "ran"
    if cert["status"] != "optimal":
        if res is not None:
            fails.append(f"no medium can reach {float(min_obj)} (certified infeasible) but minimal_medium returned {dict(res)}")
        return fails, "ran"
    if res is None:
        return [f"a medium reaching {float(min_obj)} exists (total import {float(-cert['value'])}) but minimal_medium returned None"], "ran"
    medium = {k: float(v) for k, v in res.items()}
    imports = {k: v for k, v in medium.items() if v > 0}
    if not case["exports"] and any(v <= 0 for v in medium.values()):
        fails.append("non-positive entries returned although exports=False")
    if set(medium) - set(exs):
        fails.append(f"medium lists non-exchange reactions {sorted(set(medium) - set(exs))}")
    # sufficiency: with exactly these imports allowed (small slack), the requested objective value is reachable
    slack = {k: F(v) * (1 + F(1, 10 ** 6)) + F(1, 10 ** 6) for k, v in imports.items()}
    suff_lp, _ = import_lp(spec, min_obj * (1 - F(1, 10 ** 6)) - F(1, 10 ** 7), open_bound, fixed_import=slack)
    if lpcert.certify([suff_lp])[0]["status"] != "optimal":
        fails.append(f"the returned medium {imports} does not let the model reach {float(min_obj)}")
    if not case["minimize_components"]:
        total = sum(imports.values())
        if not close(total, float(-cert["value"]), 1e-5):
            fails.append(f"total import of the returned medium {total} != certified minimum {float(-cert['value'])}")
    else:
        ids = sorted(exs)
        best = None
        for size in range(len(ids) + 1):
            lps = [import_lp(spec, min_obj, open_bound, allowed=set(sub))[0] for sub in itertools.combinations(ids, size)]
            if any(c["status"] == "optimal" for c in lpcert.certify(lps)):
                best = size
                break
        big = [k for k, v in imports.items() if v > 1e-3]
        if best is not None and len(big) > best:
            fails.append(f"returned medium has {len(big)} components {sorted(big)}, the certified minimum is {best}")
        if best is not None and len(imports) < best:
            fails.append(f"returned medium has {len(imports)} components, fewer than the certified minimum {best}")
    return fails, "ran"


def gen_case(rng):
    if rng.random() < 0.06:
        # a medium that has to import more through one `--> X_e` exchange than any other exchange bound allows
        return {"kind": "minimal", "spec": gen_spec(rng, force_big=True), "min_objective_value": rng.choice(["50", "50", "100", "5"]),
                "exports": rng.random() < 0.3, "minimize_components": rng.random() < 0.7, "open_exchanges": False,
                "history": rng.choice(fbagen.HISTORIES)}
    spec = gen_spec(rng)
    if rng.random() < 0.1:
        # unlimited export (an infinite export bound next to a finite import bound), minimal media only
        for r in spec["rxns"]:
            if r["id"].startswith("EX_") and rng.random() < 0.6:
                if F(list(r["st"].values())[0]) < 0 and F(r["ub"]) > 0:
                    r["ub"] = "inf"
                elif F(list(r["st"].values())[0]) > 0 and F(r["lb"]) < 0:
                    r["lb"] = "-inf"
        return {"kind": "minimal", "spec": spec, "min_objective_value": rng.choice(["1", "5", "20", "50", "50", "100"]),
                "exports": rng.random() < 0.3, "minimize_components": False, "open_exchanges": False,     # the MIP aborts in GLPK on an infinite bound (known finding)
                "history": rng.choice(fbagen.HISTORIES)}
    exs = exchanges_of(spec)
    if rng.random() < 0.5:
        ids = rng.sample(sorted(exs), rng.randint(0, len(exs)))
        return {"kind": "setter", "spec": spec, "medium": {k: n2s(rng.choice([0, 0, 1, 5, F(7, 2), 10, 1000, F(1, 4)])) for k in ids}}
    return {"kind": "minimal", "spec": spec, "min_objective_value": rng.choice(["1/10", "1", "2", "5", "50", "2000", "1/2"]),
            "exports": rng.random() < 0.3, "minimize_components": rng.random() < 0.45,
            "open_exchanges": rng.choice([False, False, True, 50]), "history": rng.choice(fbagen.HISTORIES)}


def check_case(case):
    return check_setter(case) if case["kind"] == "setter" else check_minimal(case)


def aux_stage(ctx):
    """The problems minimal_medium hands to GLPK (linear and MIP) vs `AuxM.Net.mediumLinear / mediumMip`; returns oracle cases where they differ."""
    def f_med(mip):
        def f(make, spec, rng):
            return auxcorr.pairs_medium(make(), rng.choice([0.5, 1, 2, 0.125]), mip, rng.choice([False, False, True, 50]))
        return f
    mism = auxcorr.stage(ctx, [("minimal_medium", f_med(False)), ("minimal_medium(minimize_components)", f_med(True))], gen_spec, ctx.scale(40, 500))
    cases = []
    for mm in mism[:6]:
        for q in ("1/2", "1", "2"):
            for op in (False, True):
                cases.append({"kind": "minimal", "spec": mm["spec"], "min_objective_value": q, "exports": False,
                              "minimize_components": "components" in mm["label"], "open_exchanges": op})
    return cases


def run(ctx):
    if getattr(ctx, "replay", None):
        data = json.loads(open(ctx.replay).read())
        v = data.get("violation") or {}
        if "case" in v:
            fails, why = check_case(v["case"])
            print(json.dumps({"case": v["case"], "failures": fails, "note": why}, indent=1))
            if fails:
                print(f"VIOLATION property=C18 replay={ctx.replay}")
                return 1
        return 0
    common.proof_stage(ctx, "CobraModel.Props.C18", extra_scan=["CobraModel/Lemmas/Formulations.lean", "CobraModel/Lemmas/LP.lean", "CobraModel/Model/Medium.lean"] + auxcorr.SCAN)
    directed = aux_stage(ctx)
    rng = ctx.rng
    n = ctx.scale(300, 6000)
    ran, tries = 0, 0
    skipped, kinds = {}, {"setter": 0, "minimal": 0, "minimal-none": 0, "components": 0}
    distinct = set()
    samples = []
    corr_n = 0
    corpus = directed + common.load_corpus("C18")
    while ran < n and tries < n * 3 and not ctx.violations:
        tries += 1
        case = corpus.pop(0) if corpus else gen_case(rng)
        fails, why = check_case(case)
        if fails is None:
            skipped[why] = skipped.get(why, 0) + 1
            continue
        ran += 1
        kinds[case["kind"]] += 1
        if case["kind"] == "minimal" and case["minimize_components"]:
            kinds["components"] += 1
        distinct.add(json.dumps({k: v for k, v in case.items() if not k.startswith("_")}, sort_keys=True))
        if len(samples) < 2:
            samples.append({k: v for k, v in case.items() if not k.startswith("_")})
        if case.get("_corr") and len(ctx.broken) < 3:
            ctx.broken.append({"kind": "correspondence", "name": "MediumM (getter / setter / big M) vs Model.medium and add_mip_obj",
                               "detail": "; ".join(case["_corr"])[:600], "case": {k: v for k, v in case.items() if not k.startswith("_")}})
        corr_n += case["kind"] == "setter"
        if fails:
            ctx.violations.append({"engine": "medium vs independent oracle / certified optima", "case": {k: v for k, v in case.items() if not k.startswith("_")}, "failures": fails[:6]})
    for kf in common.known_for("C18"):
        w = kf.get("witness") or {}
        if "script" in w:
            # a finding whose symptom is the death of the interpreter: the witness runs in a process of its own
            import subprocess
            p = subprocess.run([common.repo_python(), "-c", w["script"]], capture_output=True, text=True, timeout=300,
                               env=dict(os.environ, PYTHONPATH=str(common.REPO / "src")))
            if p.returncode != 0 and ("glp_" in (p.stdout + p.stderr) or "invalid scale factor" in (p.stdout + p.stderr)):
                ctx.known_hits.append(f"{kf['signature']}: {kf['description'][:200]}")
            else:
                ctx.notes.append(f"known finding {kf['signature']} no longer reproduces (exit {p.returncode})")
    ctx.coverage.update({
        "evaluations": ran, "distinct_nontrivial": len(distinct),
        "rule": "models with 2-5 exchanged metabolites (exchange written `met -->` or `--> met`, external compartment e, transporters, conversions, a biomass "
                "reaction with optional by-product) x medium sub-dictionaries with non-negative values / minimal_medium(min_objective_value achievable or "
                "not, exports, minimize_components, open_exchanges False/True/50); counted: distinct cases",
        "samples": samples, "skipped": skipped, "kinds": kinds, "traces_validated_against_impl": ran,
        "setter_cases_compared_with_lean_model": corr_n,
    })
    ctx.assumptions += [
        "GLPK (LP/MILP) external: totals compared with certified optima within 1e-5; components below 1e-3 are not counted (documented detection limit of the MIP)",
        "with open_exchanges the sufficiency of the returned imports is tested with the exchanges opened the same way",
    ]
    return common.finish(ctx, None)


if __name__ == "__main__":
    sys.exit(common.main_wrapper(run))

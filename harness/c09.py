"""C09 — pFBA, linear MOMA and ROOM solve their documented secondary problems optimally.

PROOF: lean/CobraModel/Props/C09.lean (sum(forward+reverse) = sum|v|; absolute-value rows; ROOM rows for y = 0 / 1).
TIE:   returned fluxes are checked for feasibility in exact arithmetic; the reported objective value and the value recomputed from the
       returned fluxes are compared with the optimum of the documented problem certified by the proved LP checker (ROOM: certified
       feasibility of a minimal set and certified infeasibility of every smaller set).
"""
from __future__ import annotations

import itertools
import json
import logging
import sys
import warnings
from fractions import Fraction as F

import common
import coreops
import fbagen
import lpcert
import auxcorr
from c05 import gen_bounded_spec, split_region

logging.disable(logging.CRITICAL)
common.ensure_repo_on_path()
from cobra.flux_analysis import moma, pfba, room  # noqa: E402

TOL = 1e-6


def close(a, b, tol=TOL):
    return abs(a - b) <= tol * (1 + abs(b))


def scale_slack(spec):
    """Absolute slack for objective values of badly scaled problems.  GLPK declares optimality when every reduced cost is within 1e-7 (tol_dj);
    what that leaves on the table is bounded by 1e-7 x the sum of the widths of the variables' boxes.  For models whose bounds stay within
    1e4 that is far below the relative 1e-5 used everywhere; a model with a bound of 1e6 (the generator's wide profile) can be 1e-1 off."""
    widths = [abs(fbagen.fr(r["ub"]) - fbagen.fr(r["lb"])) for r in spec["rxns"] if fbagen.fr(r["lb"]) is not None and fbagen.fr(r["ub"]) is not None]
    big = max([abs(x) for r in spec["rxns"] for x in (fbagen.fr(r["lb"]), fbagen.fr(r["ub"])) if x is not None] or [0])
    return float(sum(widths)) * 1e-7 if big > 10 ** 4 else 0.0


def feasibility_problems(spec, fluxes, tol=1e-6, extra=()):
    """Independent feasibility test of a flux dict against stoichiometry and bounds."""
    bad = []
    mids = sorted({m for r in spec["rxns"] for m in r["st"]})
    for r in spec["rxns"]:
        v = fluxes[r["id"]]
        lo, hi = fbagen.fr(r["lb"]), fbagen.fr(r["ub"])
        if (lo is not None and v < float(lo) - tol) or (hi is not None and v > float(hi) + tol):
            bad.append(f"flux of {r['id']} = {v} outside its bounds ({r['lb']}, {r['ub']})")
    for m in mids:
        s = sum(float(F(r["st"].get(m, "0"))) * fluxes[r["id"]] for r in spec["rxns"])
        if abs(s) > tol * 10:
            bad.append(f"steady state violated at {m}: {s}")
    return bad


def knock(spec, rid):
    s = json.loads(json.dumps(spec))
    for r in s["rxns"]:
        if r["id"] == rid:
            r["lb"], r["ub"] = "0", "0"
    return s


def moma_lp(spec, ref):
    rx = spec["rxns"]
    n = len(rx)
    mids = sorted({m for r in rx for m in r["st"]})
    vb = [(fbagen.fr(r["lb"]), fbagen.fr(r["ub"])) for r in rx] + [(None, None)] * n
    rows = [([F(r["st"].get(m, "0")) for r in rx] + [F(0)] * n, F(0), F(0)) for m in mids]
    for j, r in enumerate(rx):
        a = [F(0)] * (2 * n)
        a[j], a[n + j] = F(1), F(-1)
        rows.append((a, None, ref[r["id"]]))         # v - d <= ref
        b = [F(0)] * (2 * n)
        b[j], b[n + j] = F(1), F(1)
        rows.append((b, ref[r["id"]], None))         # v + d >= ref
    return 2 * n, vb, rows, [F(0)] * n + [F(-1)] * n


def room_band(ref, delta, eps):
    return ref - delta * abs(ref) - eps, ref + delta * abs(ref) + eps


def room_fixed_lp(spec, ref, refobj, allowed, delta, eps):
    """Feasibility LP of ROOM with the set `allowed` of reactions free to leave the band."""
    rx = spec["rxns"]
    mids = sorted({m for r in rx for m in r["st"]})
    vb = []
    for r in rx:
        lo, hi = fbagen.fr(r["lb"]), fbagen.fr(r["ub"])
        if r["id"] not in allowed:
            wl, wu = room_band(ref[r["id"]], delta, eps)
            lo, hi = max(lo, wl), min(hi, wu)
        vb.append((lo, hi))
    rows = [([F(r["st"].get(m, "0")) for r in rx], F(0), F(0)) for m in mids]
    c = [F(spec["obj"].get(r["id"], "0")) for r in rx]
    rows.append((c, None, refobj))                   # room_old_objective <= reference objective value
    return len(rx), vb, rows, [F(0)] * len(rx)


def room_linear_lp(spec, ref, refobj):
    rx = spec["rxns"]
    n = len(rx)
    mids = sorted({m for r in rx for m in r["st"]})
    vb = [(fbagen.fr(r["lb"]), fbagen.fr(r["ub"])) for r in rx] + [(F(0), F(1))] * n
    rows = [([F(r["st"].get(m, "0")) for r in rx] + [F(0)] * n, F(0), F(0)) for m in mids]
    c = [F(spec["obj"].get(r["id"], "0")) for r in rx]
    rows.append((c + [F(0)] * n, None, refobj))
    for j, r in enumerate(rx):
        lo, hi = fbagen.fr(r["lb"]), fbagen.fr(r["ub"])
        w = ref[r["id"]]
        a = [F(0)] * (2 * n)
        a[j], a[n + j] = F(1), -(hi - w)
        rows.append((a, None, w))
        b = [F(0)] * (2 * n)
        b[j], b[n + j] = F(1), -(lo - w)
        rows.append((b, w, None))
    return 2 * n, vb, rows, [F(0)] * n + [F(-1)] * n


def check_case(case):
    spec = case["spec"]
    fails = []
    with warnings.catch_warnings():
        warnings.simplefilter("ignore")
        wt = coreops.build_model(spec)
        method = case["method"]
        if method == "pfba":
            fbagen.prior_history(wt, case.get("history"))
            (lp, rids, mids, sign) = fbagen.net_lp(spec, obj=case.get("objective"))
            truth = lpcert.certify([lp])[0]
            if truth["status"] != "optimal":
                return None, "not-feasible"
            obj_spec = dict(spec, obj=case.get("objective") or spec["obj"])
            vstar = sign * truth["value"]
            if (spec["dir"] == "max" and vstar < 0) or (spec["dir"] == "min" and vstar > 0):
                return None, "optimum-sign"
            nn, vb, rows, crow = split_region(obj_spec, vstar, F(case["fraction"]))
            k = lpcert.certify([(nn, vb, rows, [F(-1)] * nn)])[0]
            if k["status"] != "optimal":
                return None, "pfba-infeasible"
            exact = -k["value"]
            kwargs = {}
            if case.get("objective"):
                kwargs["objective"] = {wt.reactions.get_by_id(r): float(F(c)) for r, c in case["objective"].items()}
            sub = case.get("reactions")
            if sub:
                kwargs["reactions"] = [wt.reactions.get_by_id(r) for r in sub]
            try:
                sol = pfba(wt, fraction_of_optimum=float(F(case["fraction"])), **kwargs)
            except Exception as e:
                return [f"pfba raised {type(e).__name__}: {e}"], "ran"
            if not close(sol.objective_value, float(exact)):
                fails.append(f"pFBA objective value {sol.objective_value} != minimal total flux {float(exact)} ({exact})")
            if sub:
                if sorted(sol.fluxes.index) != sorted(sub):
                    fails.append(f"returned fluxes {sorted(sol.fluxes.index)} != requested reactions {sorted(sub)}")
            else:
                fl = {r: sol.fluxes[r] for r in rids}
                fails += feasibility_problems(spec, fl)
                tot = sum(abs(v) for v in fl.values())
                if not close(tot, float(exact)):
                    fails.append(f"total absolute flux of the returned distribution {tot} != minimum {float(exact)}")
                cobj = sum(float(F(obj_spec["obj"].get(r, "0"))) * fl[r] for r in rids)
                t = float(F(case["fraction"]) * vstar)
                if (spec["dir"] == "max" and cobj < t - TOL * (1 + abs(t))) or (spec["dir"] == "min" and cobj > t + TOL * (1 + abs(t))):
                    fails.append(f"objective at the pFBA solution {cobj} does not reach the requested fraction {t}")
            return fails, "ran"
        # MOMA / ROOM: reference = pFBA of the wild type, then a knock-out
        try:
            if case.get("ref_order") == "permuted":
                import random as _r
                order = list(wt.reactions)
                _r.Random(len(order) * 7 + 1).shuffle(order)
                refsol = pfba(wt, reactions=order)          # same reference, Series not in model.reactions order
            else:
                refsol = pfba(wt)
        except Exception:
            return None, "not-feasible"
        # GLPK's floats carry noise of ~1e-14 (a flux of -5.0000000000000275 against a bound of -5): the reference handed on is the
        # same solution rounded to 1e-9 and clipped into the bounds, so that the formulations are not built on sub-tolerance slivers
        for r in wt.reactions:
            refsol.fluxes[r.id] = min(max(round(float(refsol.fluxes[r.id]), 9), r.lower_bound), r.upper_bound)
        refsol.objective_value = round(float(refsol.objective_value), 9)
        ref = {r.id: F(float(refsol.fluxes[r.id])) for r in wt.reactions}
        rids = [r["id"] for r in spec["rxns"]]
        ko_spec = knock(spec, case["ko"]) if case.get("ko") else spec
        m = coreops.build_model(ko_spec)
        fbagen.prior_history(m, case.get("history"))
        if case.get("ref_order") == "model_reversed":
            m.reactions.reverse()                            # the model's own list order differs from the reference's
        given = refsol if case["give_reference"] else None
        if given is None and case.get("ko"):
            # defaulted reference = pFBA of the model handed in (here: the knocked-out model)
            try:
                r2 = pfba(m)
            except Exception:
                return None, "ko-infeasible"
            ref = {r.id: F(float(r2.fluxes[r.id])) for r in m.reactions}
        # ROOM bounds the old objective by its value in the reference fluxes (a pFBA solution's own objective value is the total flux)
        refobj = sum(F(spec["obj"].get(r, "0")) * ref[r] for r in ref)
        defaulted = given is None
        if method == "moma":
            cert = lpcert.certify([moma_lp(ko_spec, ref)])[0]
            if cert["status"] != "optimal":
                return None, "ko-infeasible"
            exact = -cert["value"]
            if defaulted:
                # the reference is the pFBA solution MOMA computes itself (not unique, not returned): it is feasible for the
                # model handed in, so the minimal distance is zero
                try:
                    sol = moma(m, solution=None, linear=True)
                except Exception as e:
                    return [f"moma raised {type(e).__name__}: {e}"], "ran"
                fl = {r: sol.fluxes[r] for r in rids}
                fails += feasibility_problems(ko_spec, fl)
                if abs(sol.objective_value) > 1e-6:
                    fails.append(f"MOMA with the defaulted reference reports distance {sol.objective_value}, the reference itself is feasible (distance 0)")
                return fails, "ran"
            try:
                sol = moma(m, solution=given, linear=True)
            except Exception as e:
                return [f"moma raised {type(e).__name__}: {e}"], "ran"
            fl = {r: sol.fluxes[r] for r in rids}
            fails += feasibility_problems(ko_spec, fl)
            dist = sum(abs(fl[r] - float(ref[r])) for r in rids)
            if not close(dist, float(exact), 1e-5) and abs(dist - float(exact)) > scale_slack(ko_spec):
                fails.append(f"summed distance of the returned fluxes {dist} != minimum {float(exact)}")
            if not close(sol.objective_value, float(exact), 1e-5) and abs(sol.objective_value - float(exact)) > scale_slack(ko_spec):
                fails.append(f"MOMA objective value {sol.objective_value} != minimal distance {float(exact)}")
            return fails, "ran"
        if defaulted and method in ("room", "room_linear"):
            if any(fbagen.fr(r["lb"]) is None or fbagen.fr(r["ub"]) is None for r in ko_spec["rxns"]):
                return None, "infinite-bounds"
            try:
                sol = room(m, solution=None, linear=(method == "room_linear"), delta=float(F(case.get("delta", "3/100"))),
                           epsilon=float(F(case.get("epsilon", "1/1000"))))
            except Exception as e:
                return [f"room raised {type(e).__name__}: {e}"], "ran"
            fl = {r: sol.fluxes[r] for r in rids}
            fails += feasibility_problems(ko_spec, fl)
            if abs(sol.objective_value) > 1e-6:
                fails.append(f"ROOM with the defaulted reference reports {sol.objective_value} changed fluxes, the reference itself changes none")
            return fails, "ran"
        if method == "room_linear":
            if any(fbagen.fr(r["lb"]) is None or fbagen.fr(r["ub"]) is None for r in ko_spec["rxns"]):
                return None, "infinite-bounds"
            cert = lpcert.certify([room_linear_lp(ko_spec, ref, refobj)])[0]
            if cert["status"] != "optimal":
                return None, "ko-infeasible"
            exact = -cert["value"]
            try:
                sol = room(m, solution=given, linear=True)
            except Exception as e:
                return [f"room(linear) raised {type(e).__name__}: {e}"], "ran"
            fl = {r: sol.fluxes[r] for r in rids}
            fails += feasibility_problems(ko_spec, fl)
            if not close(sol.objective_value, float(exact), 1e-5) and abs(sol.objective_value - float(exact)) > scale_slack(ko_spec):
                fails.append(f"linear ROOM objective value {sol.objective_value} != relaxed optimum {float(exact)}")
            return fails, "ran"
        if method == "room":
            delta, eps = F(case["delta"]), F(case["epsilon"])
            n = len(rids)
            best = None
            for size in range(n + 1):
                subsets = list(itertools.combinations(rids, size))
                lps = [room_fixed_lp(ko_spec, ref, refobj, set(sub), delta, eps) for sub in subsets]
                certs = lpcert.certify(lps)       # each verdict (feasible point or Farkas certificate) passes the Lean checker
                if any(c["status"] == "optimal" for c in certs):
                    best = size
                    break
            if best is None:
                return None, "ko-infeasible"
            try:
                sol = room(m, solution=given, linear=False, delta=float(delta), epsilon=float(eps))
            except Exception as e:
                return [f"room raised {type(e).__name__}: {e}"], "ran"
            fl = {r: sol.fluxes[r] for r in rids}
            fails += feasibility_problems(ko_spec, fl)
            outside = 0
            for r in rids:
                wl, wu = room_band(ref[r], delta, eps)
                if fl[r] < float(wl) - 1e-6 or fl[r] > float(wu) + 1e-6:
                    outside += 1
            if outside > best:
                fails.append(f"{outside} fluxes of the ROOM solution leave the band, the minimum is {best}")
            if not close(sol.objective_value, best, 1e-6):
                fails.append(f"ROOM objective value {sol.objective_value} != minimal number of changed fluxes {best}")
            return fails, "ran"
    return None, "unknown-method"


def scale_spec(spec, k):
    for r in spec["rxns"]:
        for b in ("lb", "ub"):
            if r[b] not in ("inf", "-inf"):
                r[b] = canon_num(F(r[b]) * k)
    return spec


def canon_num(x):
    import canon
    return canon.num(x)


def adversarial_objective(spec):
    """An objective that is negative at the minimal-total-flux point (matters for fraction_of_optimum = 0)."""
    from c05 import split_region
    nn, vb, rows, crow = split_region(dict(spec, obj={}), F(0), F(0))
    k = lpcert.certify([(nn, vb, rows[:-1], [F(-1)] * nn)])[0]
    if k["status"] != "optimal":
        return None
    n = nn // 2
    v = [k["x"][j] - k["x"][n + j] for j in range(n)]
    cand = [(r["id"], x) for r, x in zip(spec["rxns"], v) if x != 0]
    if not cand:
        return None
    rid, x = cand[0]
    return {rid: "-1" if x > 0 else "1"}


def gen_case(rng):
    spec = gen_bounded_spec(rng)
    rids = [r["id"] for r in spec["rxns"]]
    method = rng.choice(["pfba", "pfba", "pfba", "moma", "moma", "room_linear", "room"])
    case = {"spec": spec, "method": method, "history": rng.choice(fbagen.HISTORIES)}
    if method == "pfba":
        case["fraction"] = rng.choice(["1", "1", "1/2", "9/10", "0", "0"])
        if case["fraction"] == "0" and rng.random() < 0.6:
            adv = adversarial_objective(spec)
            if adv:
                case["objective"] = adv
                spec["dir"] = "max"
        if "objective" not in case and rng.random() < 0.3:
            case["objective"] = {rng.choice(rids): "1"}
        if rng.random() < 0.3:
            case["reactions"] = rng.sample(rids, rng.randint(1, len(rids)))
    else:
        spec["dir"] = "max" if rng.random() < 0.8 else "min"
        if rng.random() < 0.3:
            scale_spec(spec, rng.choice([200, 500, 1000]))       # fluxes and bounds well beyond the configured default bounds
        case["ko"] = rng.choice(rids) if rng.random() < 0.8 else None
        case["give_reference"] = rng.random() < 0.75
        case["ref_order"] = rng.choice(["model", "model", "permuted", "model_reversed"])
        if method == "room":
            if len(rids) > 7:
                case["method"] = "room_linear"
            case["delta"] = rng.choice(["3/100", "1/10", "0"])
            case["epsilon"] = rng.choice(["1/1000", "1/100", "1/2"])
    return case


def aux_stage(ctx):
    """The problems add_pfba / add_moma / add_room hand to GLPK vs the Lean builders; returns oracle cases on the models where they differ."""
    def f_pfba(make, spec, rng):
        m = make()
        obj = None
        if rng.random() < 0.3:
            obj = {rng.choice(list(m.reactions)): 1.0}
        return auxcorr.pairs_pfba(m, rng.choice([1.0, 1.0, 0.5, 0.9, 0.0]), objective=obj)

    def f_fix(make, spec, rng):
        return auxcorr.pairs_fix(make(), rng.choice([1.0, 0.5, 0.0]))

    def f_moma(make, spec, rng):
        ref = auxcorr.pfba_reference(make())
        return auxcorr.pairs_moma(auxcorr.knocked(make(), rng), ref)

    def f_room(linear):
        def f(make, spec, rng):
            ref = auxcorr.pfba_reference(make(), dyadic=True)
            d, e = rng.choice([(0.125, 0.25), (0.0, 0.5), (0.25, 0.0), (0.03125, 0.001953125)])
            return auxcorr.pairs_room(auxcorr.knocked(make(), rng), ref, linear, d, e)
        return f
    plan = [("add_pfba", f_pfba), ("fix_objective_as_constraint", f_fix), ("add_moma(linear)", f_moma), ("add_room", f_room(False)),
            ("add_room(linear)", f_room(True))]
    mism = auxcorr.stage(ctx, plan, gen_bounded_spec, ctx.scale(60, 800))
    cases = []
    for mm in mism[:6]:
        spec, label = mm["spec"], mm["label"]
        rids = [r["id"] for r in spec["rxns"]]
        if "pfba" in label or "fix" in label:
            cases += [{"spec": spec, "method": "pfba", "fraction": f} for f in ("1", "1/2", "0")]
        else:
            meth = "moma" if "moma" in label else ("room_linear" if "linear" in label else "room")
            for ko in [None] + rids[:4]:
                c = {"spec": dict(spec, dir="max"), "method": meth, "ko": ko, "give_reference": True, "ref_order": "model"}
                if meth == "room":
                    if len(rids) > 7:
                        continue
                    c.update(delta="3/100", epsilon="1/1000")
                cases.append(c)
    return cases


def run(ctx):
    if getattr(ctx, "replay", None):
        data = json.loads(open(ctx.replay).read())
        v = data.get("violation") or {}
        if "case" in v:
            fails, why = check_case(v["case"])
            print(json.dumps({"case": v["case"], "failures": fails, "note": why}, indent=1))
            if fails:
                print(f"VIOLATION property=C09 replay={ctx.replay}")
                return 1
        return 0
    common.proof_stage(ctx, "CobraModel.Props.C09", extra_scan=["CobraModel/Lemmas/Formulations.lean", "CobraModel/Lemmas/LP.lean", "CobraModel/Model/LP.lean"] + auxcorr.SCAN)
    directed = aux_stage(ctx)
    rng = ctx.rng
    n = ctx.scale(300, 5000)
    ran, tries = 0, 0
    skipped, methods = {}, {}
    distinct = set()
    samples = []
    corpus = directed + common.load_corpus("C09")
    while ran < n and tries < n * 5 and not ctx.violations:
        tries += 1
        case = corpus.pop(0) if corpus else gen_case(rng)
        fails, why = check_case(case)
        if fails is None:
            skipped[why] = skipped.get(why, 0) + 1
            continue
        ran += 1
        methods[case["method"]] = methods.get(case["method"], 0) + 1
        distinct.add(json.dumps([case["spec"]["rxns"], case["method"], case.get("ko")], sort_keys=True))
        if len(samples) < 2:
            samples.append(case)
        if fails:
            ctx.violations.append({"engine": "secondary optimisation vs certified optimum", "case": case, "failures": fails[:6]})
    ctx.coverage.update({
        "evaluations": ran,
        "distinct_nontrivial": len(distinct),
        "rule": "constructive bounded models x {pFBA (fractions, explicit objective=, reaction subsets), linear MOMA, linear ROOM, ROOM (binary)} x knock-out of one "
                "reaction x reference given (pFBA of the wild type) or defaulted; counted: distinct (model, method, knock-out)",
        "samples": samples,
        "skipped": skipped,
        "methods": methods,
        "traces_validated_against_impl": ran,
    })
    ctx.assumptions += [
        "GLPK (LP and MILP) external: optimal values compared with certified optima within 1e-6 / 1e-5",
        "ROOM/MOMA cases use maximisation models and finite bounds (big-M of ROOM needs finite bounds); quadratic MOMA needs a QP solver that is not installed",
        "the reference fluxes are cobrapy's own pFBA floats, taken as exact rationals by the oracle",
    ]
    return common.finish(ctx, None)


if __name__ == "__main__":
    sys.exit(common.main_wrapper(run))

"""C16 — every flux sample is a feasible flux distribution.

PROOF: lean/CobraModel/Props/C16.lean — step_keeps_equalities, alpha_range_sound (+ on_a_face_the_range_leaks), step_result_checked,
       flux_of_split, flux_steady_state, over the exact-arithmetic model of `cobra.sampling.core.step` (Model/Sampling.lean).
TIE:   (1) the Lean step (range of step lengths, new point, acceptance) against the real `cobra.sampling.core.step` called on small problems with
           dyadic data, where binary64 arithmetic is exact;
       (2) every sample returned by ACHR and OptGP (sample() and the sampler objects, reaction and variable space, 1..3 processes) on generated
           feasible models (homogeneous, with forced / fixed fluxes, with extra linear constraints) is checked in exact rational arithmetic
           against S v = 0, the bounds and the extra constraints computed independently from the spec; row count, column order, same seed -> same
           samples, validate() against the independent check, model untouched.
"""
from __future__ import annotations

import json
import logging
import sys
import types
import warnings
from fractions import Fraction as F

import canon
import common
import coreops
from c05 import gen_bounded_spec

logging.disable(logging.CRITICAL)
common.ensure_repo_on_path()
import numpy as np  # noqa: E402

TOL = 1e-6          # the samplers' documented tolerance is the model tolerance (1e-7) for bounds and equalities; judged at 10x


# ---------------------------------------------------------------------------------------------------------------
# (1) the step geometry: Lean model vs cobra.sampling.core.step
# ---------------------------------------------------------------------------------------------------------------

def dy(rng, lo=-40, hi=40, den=8):
    return F(rng.randint(lo, hi), den)


def gen_step_case(rng):
    n = rng.randint(1, 5)
    tol = rng.choice([F(0), F(1, 2 ** 20)])
    lo, hi, x, d = [], [], [], []
    for _ in range(n):
        a, b = sorted([dy(rng), dy(rng)])
        if rng.random() < 0.15:
            b = a                                   # a fixed variable
        lo.append(a)
        hi.append(b)
        k = rng.random()
        if k < 0.15:
            x.append(a)                             # on the lower face
        elif k < 0.3:
            x.append(b)                             # on the upper face
        else:
            x.append(a + (b - a) * F(rng.randint(0, 8), 8))
        d.append(rng.choice([F(0), dy(rng, -16, 16, 4), dy(rng, -16, 16, 4), F(1, 2 ** 22)]))
    return {"tol": tol, "lo": lo, "hi": hi, "x": x, "d": d, "fraction": rng.choice([F(1), F(1, 2), F(1, 4)])}


def real_step(case):
    """Calls cobra.sampling.core.step on a stand-in sampler holding exactly the data of the case; returns (point or None, retried?)."""
    from cobra.sampling.core import step
    lo = np.array([float(v) for v in case["lo"]])
    hi = np.array([float(v) for v in case["hi"]])
    vb = np.vstack([lo, hi])
    tol = float(case["tol"])
    prob = types.SimpleNamespace(variable_bounds=vb, variable_fixed=(lo == hi), bounds=np.zeros((0, 2)), inequalities=np.zeros((0, len(lo))))

    class Stop(Exception):
        pass

    class FakeWarmup:
        def __getitem__(self, i):
            raise Stop()                            # the retry branch was taken: stop there (its random restart is not compared)

    s = types.SimpleNamespace(problem=prob, feasibility_tol=tol, bounds_tol=tol, retries=0, warmup=FakeWarmup(), n_warmup=1, center=None)

    def bounds_dist(p):
        return np.array([(p - vb[0, ]).min(), (vb[1, ] - p).min()])
    s._bounds_dist = bounds_dist
    x = np.array([float(v) for v in case["x"]])
    d = np.array([float(v) for v in case["d"]])
    try:
        with np.errstate(all="ignore"):
            p = step(s, x, d, fraction=float(case["fraction"]))
    except Stop:
        return None, True
    return [canon.num(float(v)) for v in p], False


def step_correspondence(ctx, rng, n):
    cases = [gen_step_case(rng) for _ in range(n)]
    lines = []
    for c in cases:
        one_minus = 1 - c["tol"]
        lines.append(json.dumps({"tol": canon.num(c["tol"]), "fraction": canon.num(c["fraction"]),
                                 "slo": [canon.num(one_minus * v) for v in c["lo"]], "shi": [canon.num(one_minus * v) for v in c["hi"]],
                                 "lo": [canon.num(v) for v in c["lo"]], "hi": [canon.num(v) for v in c["hi"]],
                                 "x": [canon.num(v) for v in c["x"]], "d": [canon.num(v) for v in c["d"]],
                                 "fixed": [a == b for a, b in zip(c["lo"], c["hi"])]}))
    out = [json.loads(l) for l in common.run_driver("sampling", lines)]
    ok = accepted = retried = 0
    for c, o in zip(cases, out):
        if "bad-line" in o:
            ctx.broken.append({"kind": "correspondence", "name": "Sampling.step vs cobra.sampling.core.step", "detail": str(o)})
            continue
        # skip inputs whose exact values binary64 cannot carry (the scaled bounds of the second tolerance with many-bit numbers)
        try:
            p, was_retry = real_step(c)
        except Exception as e:
            ctx.broken.append({"kind": "correspondence", "name": "Sampling.step vs cobra.sampling.core.step", "detail": f"real step raised {type(e).__name__}: {e}"})
            continue
        exact = all(F(float(F(v))) == F(v) for v in o["point"]) and all(F(float(F(v))) == F(v) for v in o["range"])
        if not exact:
            continue
        if o["accepted"] != (not was_retry) or (o["accepted"] and [canon.num(F(v)) for v in o["point"]] != p):
            if len(ctx.broken) < 3:
                ctx.broken.append({"kind": "correspondence", "name": "Sampling.step vs cobra.sampling.core.step",
                                   "detail": f"model {o} vs implementation point {p} retried {was_retry}", "case": {k: [canon.num(x) for x in v] if isinstance(v, list) else canon.num(v) for k, v in c.items()}})
            continue
        ok += 1
        accepted += o["accepted"]
        retried += was_retry
    return ok, accepted, retried


# ---------------------------------------------------------------------------------------------------------------
# (2) samples of the real samplers
# ---------------------------------------------------------------------------------------------------------------

def gen_model_case(rng, tier):
    spec = gen_bounded_spec(rng)
    rids = [r["id"] for r in spec["rxns"]]
    k = rng.random()
    if k < 0.3:
        # homogeneous: every box contains zero
        for r in spec["rxns"]:
            if F(r["lb"]) > 0:
                r["lb"] = "0"
            if F(r["ub"]) < 0:
                r["ub"] = "0"
    extra = []
    if rng.random() < 0.5 and len(rids) >= 2:
        a, b = rng.sample(rids, 2)
        lb, ub = rng.choice([(None, "5"), ("-5", "8"), ("-1", "20"), ("0", None), (None, "0"), ("0", "10"), ("-10", "0"), ("3", "3"), ("-2", "-2"),
                                ("1", "1"), ("-1", "-1"), ("-3/2", "-3/2"), ("-4", "-4"), (None, "-1"), ("-6", "-2")])
        extra.append({"coefs": {a: "1", b: rng.choice(["1", "-1", "2"])}, "lb": lb, "ub": ub})
    method = rng.choice(["achr", "optgp"])
    return {"spec": spec, "extra": extra, "method": method, "n": rng.choice([1, 5, 12, 30]), "thinning": rng.choice([1, 2, 10]),
            "seed": rng.randint(1, 10 ** 6), "nproj": rng.choice([None, None, 3]), "processes": rng.choice([1, 1, 2, 3]) if method == "optgp" else 1,
            "via": rng.choice(["sample", "object", "object"]), "fluxes": rng.random() < 0.75, "aux_before_last": rng.random() < 0.25,
            "second": rng.choice(["none", "sample", "sample", "batch"]), "interleave": rng.random() < 0.3}


def build(case):
    spec = case["spec"]
    if case.get("aux_before_last") and len(spec["rxns"]) >= 2:
        # a build history: all reactions but the last, then a helper variable of the user's, then the last reaction (the solver's variable list is
        # then not "two per reaction, in order")
        from cobra import Metabolite, Reaction
        first = dict(spec, rxns=spec["rxns"][:-1], obj={k: v for k, v in spec["obj"].items() if k != spec["rxns"][-1]["id"]})
        m = coreops.build_model(first)
        helper = m.problem.Variable("helper_c16", lb=0, ub=1)
        m.add_cons_vars([helper])
        last = spec["rxns"][-1]
        r = Reaction(last["id"], lower_bound=coreops.fl(last["lb"]), upper_bound=coreops.fl(last["ub"]))
        r.add_metabolites({(m.metabolites.get_by_id(k) if k in m.metabolites else Metabolite(k, compartment="c")): coreops.fl(v)
                           for k, v in last["st"].items()})
        m.add_reactions([r])
        if last["id"] in spec["obj"]:
            r.objective_coefficient = coreops.fl(spec["obj"][last["id"]])
    else:
        m = coreops.build_model(spec)
    cons = []
    for i, e in enumerate(case["extra"]):
        expr = sum(float(F(c)) * m.reactions.get_by_id(r).flux_expression for r, c in e["coefs"].items())
        cons.append(m.problem.Constraint(expr, lb=None if e["lb"] is None else float(F(e["lb"])), ub=None if e["ub"] is None else float(F(e["ub"])),
                                         name=f"extra_c16_{i}"))
    if cons:
        m.add_cons_vars(cons)
    return m


def exact_violation(case, v):
    """Largest violation of S v = 0, the bounds and the extra constraints by a flux vector (dict id -> float), in exact arithmetic."""
    spec = case["spec"]
    worst, what = F(0), None
    q = {k: F(x) for k, x in v.items()}
    mets = {}
    for r in spec["rxns"]:
        for mm, c in r["st"].items():
            mets[mm] = mets.get(mm, F(0)) + F(c) * q[r["id"]]
        lo, hi = F(r["lb"]), F(r["ub"])
        for viol, label in ((lo - q[r["id"]], f"{r['id']} below its lower bound"), (q[r["id"]] - hi, f"{r['id']} above its upper bound")):
            if viol > worst:
                worst, what = viol, label
    for mm, bal in mets.items():
        if abs(bal) > worst:
            worst, what = abs(bal), f"mass balance of {mm}"
    for i, e in enumerate(case["extra"]):
        val = sum(F(c) * q[r] for r, c in e["coefs"].items())
        if e["lb"] is not None and F(e["lb"]) - val > worst:
            worst, what = F(e["lb"]) - val, f"extra constraint {i} below its lower bound"
        if e["ub"] is not None and val - F(e["ub"]) > worst:
            worst, what = val - F(e["ub"]), f"extra constraint {i} above its upper bound"
    return worst, what


def check_model_case(case):
    from cobra.sampling import ACHRSampler, OptGPSampler, sample
    import c12
    fails = []
    with warnings.catch_warnings():
        warnings.simplefilter("ignore")
        m = build(case)
        v0 = m.slim_optimize()
        if v0 != v0 or m.solver.status != "optimal":
            return None, "not-feasible"
        before = c12.observe(m, exact=True)
        frames = []
        samplers = []
        later = []
        for rep in range(2):
            try:
                if case["via"] == "sample" and case["fluxes"]:
                    df = sample(m, case["n"], method=case["method"], thinning=case["thinning"], processes=case["processes"], seed=case["seed"])
                    s = None
                else:
                    cls = ACHRSampler if case["method"] == "achr" else OptGPSampler
                    kw = {"processes": case["processes"]} if case["method"] == "optgp" else {}
                    s = cls(m, thinning=case["thinning"], nproj=case["nproj"], seed=case["seed"], **kw)
                    df = s.sample(case["n"], fluxes=case["fluxes"])
            except (ValueError, RuntimeError) as e:
                # documented refusals: the flux cone is a single point / no warm-up points; numerically unstable region
                return None, f"sampler-refused-{type(e).__name__}"
            if rep == 0 and s is not None and case.get("second", "none") != "none":
                if case.get("interleave"):
                    # another live sampler, of a wider model with the same reaction names, is used in between: each sampler walks its own polytope
                    try:
                        wide = json.loads(json.dumps(case["spec"]))
                        for r in wide["rxns"]:
                            r["lb"], r["ub"] = canon.num(3 * F(r["lb"]) - 1), canon.num(3 * F(r["ub"]) + 1)
                        mB = coreops.build_model(wide)
                        clsB = ACHRSampler if case["method"] == "achr" else OptGPSampler
                        kwB = {"processes": 1} if case["method"] == "optgp" else {}
                        sB = clsB(mB, thinning=case["thinning"], seed=case["seed"] + 1, **kwB)
                        sB.sample(max(3, case["n"]))
                    except (ValueError, RuntimeError):
                        pass
                # more samples from the same sampler object
                try:
                    if case["second"] == "sample":
                        more = [s.sample(case["n"], fluxes=case["fluxes"])]
                    else:
                        more = list(s.batch(max(2, case["n"]), 2, fluxes=case["fluxes"]))
                except ValueError as e:
                    return None, f"sampler-refused-{type(e).__name__}"
                except RuntimeError as e:
                    # the first batch came out of this very sampler: the region is fine, so a walk that cannot continue is the sampler's doing
                    fails.append(f"a later batch of a sampler whose first batch succeeded raised RuntimeError: {str(e)[:120]}")
                    more = []
                later.extend(more)
            frames.append(df)
            samplers.append(s)
        if c12.observe(m, exact=True) != before:
            fails.append("sampling changed the model: " + c12.first_diff(before, c12.observe(m, exact=True)))
        df = frames[0]
        p = case["processes"]
        want_rows = case["n"] if p == 1 else -(-case["n"] // p) * p
        if len(df) != want_rows:
            fails.append(f"{len(df)} rows returned, requested {case['n']} with {p} process(es) (expected {want_rows})")
        rids = [r.id for r in m.reactions]
        if case["fluxes"]:
            if list(df.columns) != rids:
                fails.append("columns are not the model's reactions in order")
        else:
            if list(df.columns) != [v.name for v in m.variables]:
                fails.append("columns are not the model's variables in order")
        if frames[0].shape == frames[1].shape and not np.array_equal(frames[0].values, frames[1].values):
            if not np.allclose(frames[0].values, frames[1].values, atol=1e-12, rtol=0):
                fails.append(f"the same seed {case['seed']} gave different samples")
        # feasibility of every sample (first batch and any later ones of the same sampler), in exact arithmetic
        worst, where, nbad = F(0), None, 0
        import pandas as pd
        first_len = len(df)
        alldf = pd.concat([df] + later, ignore_index=True) if later else df
        for i in range(len(alldf)):
            row = alldf.iloc[i]
            if case["fluxes"]:
                v = {r: float(row[r]) for r in rids}
            else:
                v = {r.id: float(row[r.id]) - float(row[r.reverse_id]) for r in m.reactions}
                for r in m.reactions:       # the variables themselves are non-negative and inside their own boxes
                    for name, var in ((r.id, r.forward_variable), (r.reverse_id, r.reverse_variable)):
                        x = float(row[name])
                        lo = -1e300 if var.lb is None else var.lb
                        hi = 1e300 if var.ub is None else var.ub
                        if x < lo - TOL or x > hi + TOL:
                            nbad += 1
                            where = f"variable {name} = {x} outside [{var.lb}, {var.ub}]"
            w, what = exact_violation(case, v)
            if w > TOL:
                nbad += 1
            if w > worst:
                worst, where = w, f"sample {i}: {what} by {float(w):.3g}"
        if nbad:
            fails.append(f"{nbad} of {len(alldf)} samples ({first_len} in the first batch) are not feasible within {TOL}; worst: {where}")
        # the sampler's own validate() against the independent check (reaction space: bounds and steady state only)
        s = samplers[0]
        if s is not None and len(df):
            codes = list(s.validate(df.values))
            for i, code in enumerate(codes):
                row = df.iloc[i]
                if case["fluxes"]:
                    v = {r: float(row[r]) for r in rids}
                    w, what = exact_violation(dict(case, extra=[]), v)
                else:
                    v = {r.id: float(row[r.id]) - float(row[r.reverse_id]) for r in m.reactions}
                    w, what = exact_violation(case, v)
                if code == "v" and w > 100 * m.tolerance:
                    fails.append(f"validate() calls sample {i} valid, the independent check finds {what} violated by {float(w):.3g}")
                    break
                if code != "v" and w < m.tolerance / 100 and case["fluxes"]:
                    fails.append(f"validate() calls sample {i} '{code}', the independent check finds it feasible (largest violation {float(w):.3g})")
                    break
    case["_worst"] = float(worst)
    return fails, "ran"


def check_isolated(case):
    fails, why = check_model_case(case)
    return {"fails": fails, "why": why, "worst": case.get("_worst")}


def public(case):
    return {k: v for k, v in case.items() if not k.startswith("_")}


def sampler_problem_stage(ctx):
    """`sampler.problem` of the real samplers vs `AuxM.Prob.sampler` of the model content (with the user constraints); returns sampling cases on
    the models where they differ."""
    import random
    import auxcorr
    rng = random.Random(f"aux-C16-{ctx.seed}-{ctx.attempt}")
    stats, broken, errors, mism = {}, [], {}, []
    n = ctx.scale(60, 800)
    for _ in range(n):
        case = gen_model_case(rng, ctx.tier)
        case["aux_before_last"] = False
        try:
            with warnings.catch_warnings():
                warnings.simplefilter("ignore")
                m = build(case)
                extra = [{"name": f"extra_c16_{i}", "lb": "-inf" if e["lb"] is None else e["lb"], "ub": "inf" if e["ub"] is None else e["ub"],
                          "co": e["coefs"]} for i, e in enumerate(case["extra"])]
                pair = auxcorr.sampler_pair(m, extra, case["method"])
            if auxcorr.compare_sampler([pair], f"{case['method']} sampler problem", stats, broken, case=public(case)):
                mism.append(case)
        except (ValueError, RuntimeError) as e:
            k = f"{type(e).__name__}: {str(e)[:50]}"
            errors[k] = errors.get(k, 0) + 1
    ctx.broken += broken
    ctx.coverage["sampler_problem_correspondence"] = {
        "compared": stats, "models": n, "refused_by_the_sampler": errors, "mismatches": len(mism),
        "rule": "equalities with right-hand sides, inequalities with bounds (as multisets of rows), variable bounds, fixed flags and the homogeneous flag of "
                "sampler.problem vs AuxM.Prob.sampler on the Lean-built problem of the model content plus user constraints (exact rationals)"}
    out = []
    for c in mism[:6]:
        for via in ("object", "sample"):
            out.append(dict(c, via=via, fluxes=True, second="sample", processes=1))
    return out


def run(ctx):
    if getattr(ctx, "replay", None):
        data = json.loads(open(ctx.replay).read())
        v = data.get("violation") or {}
        if "case" in v:
            fails, why = check_model_case(v["case"])
            print(json.dumps({"case": v["case"], "failures": fails, "note": why}, indent=1, default=str)[:6000])
            if fails:
                print(f"VIOLATION property=C16 replay={ctx.replay}")
                return 1
        return 0
    import auxcorr
    common.proof_stage(ctx, "CobraModel.Props.C16", extra_scan=["CobraModel/Model/Sampling.lean"] + auxcorr.SCAN)
    directed = sampler_problem_stage(ctx)
    rng = ctx.rng
    ok, acc, ret = step_correspondence(ctx, rng, ctx.scale(1500, 30000))
    n = ctx.scale(450, 8000)
    cases = directed + list(common.load_corpus("C16")) + [gen_model_case(rng, ctx.tier) for _ in range(n)]
    ran = 0
    kinds, skipped = {}, {}
    distinct = set()
    samples = []
    worst = 0.0
    pool = common.IsolatedPool("c16", "check_isolated", workers=6, timeout=300)
    try:
        for case, res in pool.run(iter(cases)):
            if res == "aborted":
                skipped["aborted"] = skipped.get("aborted", 0) + 1
                continue
            if "__harness_error__" in res:
                raise RuntimeError(res["__harness_error__"] + "\n" + res.get("trace", ""))
            if res["fails"] is None:
                skipped[res["why"]] = skipped.get(res["why"], 0) + 1
                continue
            ran += 1
            k = f"{case['method']}/{'flux' if case['fluxes'] else 'var'}/p{case['processes']}/{case['via']}"
            kinds[k] = kinds.get(k, 0) + 1
            kinds["with_extra_constraints"] = kinds.get("with_extra_constraints", 0) + bool(case["extra"])
            worst = max(worst, res.get("worst") or 0.0)
            distinct.add(json.dumps(public(case), sort_keys=True))
            if len(samples) < 2:
                samples.append(public(case))
            if res["fails"] and not ctx.violations:
                ctx.violations.append({"engine": "samples of the real samplers, exact feasibility", "case": public(case), "failures": res["fails"][:6]})
                break
    finally:
        pool.close()
    ctx.coverage.update({
        "evaluations": ran + ok, "distinct_nontrivial": len(distinct) + ok,
        "rule": "step geometry: generated boxes, points (inside, on faces, fixed coordinates), directions (zero, tiny, ordinary), fractions, tolerance 0 / 2^-20 "
                "in dyadic numbers, Lean vs cobra.sampling.core.step; samplers: generated feasible bounded models (homogeneous, forced / fixed fluxes, "
                "extra linear constraints) x {ACHR, OptGP} x {sample(), sampler object} x {fluxes, variables} x n x thinning x nproj x processes 1..3; "
                "every sample checked in exact arithmetic; counted: distinct cases",
        "samples": samples, "kinds": kinds, "skipped": skipped, "steps_compared_with_lean_model": ok, "steps_accepted": acc, "steps_retried": ret,
        "largest_violation_seen": worst, "traces_validated_against_impl": ok,
    })
    ctx.assumptions += [
        "binary64 arithmetic, numpy's random generator, the SVD null space and the re-projection are outside the model: whether the floating walk stays "
        "inside is monitored on every returned sample in exact rational arithmetic, not proved",
        f"feasibility is judged at {TOL} (ten times the samplers' documented tolerance, the model tolerance 1e-7)",
        "models the samplers refuse (ValueError: single point / no warm-up; RuntimeError: cannot escape) are counted, not judged",
    ]
    return common.finish(ctx, None)


if __name__ == "__main__":
    sys.exit(common.main_wrapper(run))

"""Apply a seeded change to /repo, run a property's check (and the seed's own demo), undo. Usage: seedtest.py <seed_dir> <pid> [tier]"""
import json, subprocess, sys, os, time
seed, pid = sys.argv[1], sys.argv[2]
tier = sys.argv[3] if len(sys.argv) > 3 else "quick"
patch = os.path.join(seed, "patch.diff")
def sh(cmd, **kw):
    return subprocess.run(cmd, shell=True, capture_output=True, text=True, **kw)
assert sh("git -C /repo status --porcelain").stdout.strip() == "", "/repo not clean"
r = sh(f"git -C /repo apply {patch}")
if r.returncode != 0:
    print("patch does not apply:", r.stderr); sys.exit(2)
import shutil, tempfile
_keep = tempfile.mkdtemp(dir="/root")
shutil.copytree("/verif/evidence", os.path.join(_keep, "evidence"))     # a seeded run must not leave its evidence behind
try:
    demo = sh(f"cd /repo && PYTHONPATH=/repo/src /venv/bin/python {os.path.join(seed,'demo.py')}")
    t = time.time()
    chk = sh(f"cd /verif && VERIF_SEED={os.environ.get('VERIF_SEED','0')} ./check {pid} --tier {tier}")
    dt = time.time() - t
finally:
    sh("git -C /repo checkout -- .")
    # the generated Lean tables were regenerated from the patched tree by the check: bring them back to the tree as it is now
    sh("cd /verif/harness && /venv/bin/python regen_all.py")
    shutil.rmtree("/verif/evidence", ignore_errors=True)
    shutil.copytree(os.path.join(_keep, "evidence"), "/verif/evidence")
    shutil.rmtree(_keep, ignore_errors=True)
demo0 = sh(f"cd /repo && PYTHONPATH=/repo/src /venv/bin/python {os.path.join(seed,'demo.py')}")
lines = [l for l in chk.stdout.splitlines() if l.startswith("VIOLATION") or l.startswith("[")]
print(json.dumps({"seed": seed, "property": pid, "tier": tier, "demo_exit_patched": demo.returncode, "demo_exit_clean": demo0.returncode,
                  "check_exit": chk.returncode, "check_lines": lines, "check_s": round(dt, 1)}))

"""Untrusted exact LP solver (Fractions, two-phase tableau simplex with Bland's rule) producing certificates.

Problem form (matches lean/CobraModel/Model/LP.lean): maximise c.x  s.t.  lo_j <= x_j <= hi_j,  rlo_i <= a_i.x <= rhi_i
(None = infinite).  Returns
   ("optimal", x, y)      y = row multipliers (reduced costs are c - y^T A)
   ("infeasible", y)      Farkas multipliers on the rows
   ("unbounded", x, z)    feasible point and improving recession direction
Nothing here is trusted: every answer is accepted only if the Lean checker (LPM.checkOpt / checkInfeas / checkUnbdd,
proved sound) accepts the certificate.
"""
from __future__ import annotations

from fractions import Fraction as F


def _simplex(T, basis, ncols, allowed):
    """Maximise: tableau rows 0..m-1 constraints [coefs | rhs], last row = objective row (reduced costs, negative = improving).
    Bland's rule.  Returns "optimal" or ("unbounded", entering col)."""
    m = len(T) - 1
    while True:
        obj = T[-1]
        enter = None
        for j in range(ncols):
            if allowed[j] and obj[j] < 0:
                enter = j
                break
        if enter is None:
            return "optimal"
        best, leave = None, None
        for i in range(m):
            a = T[i][enter]
            if a > 0:
                ratio = T[i][-1] / a
                if best is None or ratio < best or (ratio == best and basis[i] < basis[leave]):
                    best, leave = ratio, i
        if leave is None:
            return ("unbounded", enter)
        piv = T[leave][enter]
        T[leave] = [v / piv for v in T[leave]]
        for i in range(m + 1):
            if i != leave and T[i][enter] != 0:
                f = T[i][enter]
                T[i] = [a - f * b for a, b in zip(T[i], T[leave])]
        basis[leave] = enter


def solve(n, vb, rows, obj):
    """vb: [(lo, hi)], rows: [(coefs list, lo, hi)], obj: list.  All numbers Fractions / None."""
    # --- canonical form: z >= 0, G z <= h ------------------------------------------------------
    # x_j = shift_j + sum_k sign * z_k
    zmap = []   # per x_j: list of (zindex, sign), shift
    nz = 0
    ub_rows = []  # (zindex, bound) for finite ranges
    for (lo, hi) in vb:
        if lo is not None:
            zmap.append(([(nz, F(1))], lo))
            if hi is not None:
                ub_rows.append((nz, hi - lo))
            nz += 1
        elif hi is not None:
            zmap.append(([(nz, F(-1))], hi))
            nz += 1
        else:
            zmap.append(([(nz, F(1)), (nz + 1, F(-1))], F(0)))
            nz += 2

    def to_z(coefs):
        g = [F(0)] * nz
        const = F(0)
        for j, a in enumerate(coefs):
            if a == 0:
                continue
            terms, shift = zmap[j]
            const += a * shift
            for k, s in terms:
                g[k] += a * s
        return g, const
    G, h, tag = [], [], []
    for i, (coefs, lo, hi) in enumerate(rows):
        g, const = to_z(coefs)
        if hi is not None:
            G.append(g)
            h.append(hi - const)
            tag.append(("U", i))
        if lo is not None:
            G.append([-v for v in g])
            h.append(-(lo - const))
            tag.append(("L", i))
    for k, b in ub_rows:
        g = [F(0)] * nz
        g[k] = F(1)
        G.append(g)
        h.append(b)
        tag.append(("B", k))
    cz, cconst = to_z(obj)
    m = len(G)
    # --- phase 1: slacks + artificials for rows with negative rhs -------------------------------
    # columns: z (nz) | slack (m) | artificial (m, only used where needed)
    ncols = nz + 2 * m
    T = []
    basis = []
    for i in range(m):
        row = list(G[i]) + [F(0)] * (2 * m) + [h[i]]
        row[nz + i] = F(1)
        if h[i] < 0:
            row = [-v for v in row]
            row[nz + m + i] = F(1)
            basis.append(nz + m + i)
        else:
            basis.append(nz + i)
        T.append(row)
    art = [i for i in range(m) if basis[i] >= nz + m]
    allowed = [True] * (nz + m) + [False] * m
    for i in art:
        allowed[nz + m + i] = True
    if art:
        # maximise -(sum of artificials): objective row = reduced costs
        orow = [F(0)] * (ncols + 1)
        for i in art:
            orow[nz + m + i] = F(1)
        for i in art:
            orow = [a - b for a, b in zip(orow, T[i])]
        T.append(orow)
        _simplex(T, basis, ncols, allowed)
        if T[-1][-1] < 0:   # objective (negated sum) < 0  => infeasible
            # Farkas multipliers: lambda_i = -(reduced cost of slack i) sign-adjusted
            lam = []
            for i in range(m):
                sgn = F(-1) if h[i] < 0 else F(1)
                # dual value of original row i = objective-row entry of its slack column (for max problem), adjusted for the row flip
                lam.append(T[-1][nz + i])
            y = [F(0)] * len(rows)
            for (kind, idx), l in zip(tag, lam):
                if kind == "U":
                    y[idx] += l
                elif kind == "L":
                    y[idx] -= l
            return ("infeasible", y)
        T.pop()
        # drive remaining artificials out of the basis (degenerate)
        for i in range(m):
            if basis[i] >= nz + m:
                for j in range(nz + m):
                    if T[i][j] != 0:
                        piv = T[i][j]
                        T[i] = [v / piv for v in T[i]]
                        for r in range(m):
                            if r != i and T[r][j] != 0:
                                f = T[r][j]
                                T[r] = [a - f * b for a, b in zip(T[r], T[i])]
                        basis[i] = j
                        break
    allowed = [True] * (nz + m) + [False] * m
    # --- phase 2 ---------------------------------------------------------------------------------
    orow = [F(0)] * (ncols + 1)
    for k in range(nz):
        orow[k] = -cz[k]
    for i in range(m):
        if basis[i] < nz + m and orow[basis[i]] != 0:
            f = orow[basis[i]]
            orow = [a - f * b for a, b in zip(orow, T[i])]
    T.append(orow)
    res = _simplex(T, basis, ncols, allowed)
    zval = [F(0)] * ncols
    for i in range(m):
        zval[basis[i]] = T[i][-1]

    def to_x(zv):
        x = []
        for terms, shift in zmap:
            x.append(shift + sum(s * zv[k] for k, s in terms))
        return x
    if res == "optimal":
        lam = [T[-1][nz + i] for i in range(m)]
        y = [F(0)] * len(rows)
        for (kind, idx), l in zip(tag, lam):
            if kind == "U":
                y[idx] += l
            elif kind == "L":
                y[idx] -= l
        return ("optimal", to_x(zval), y)
    enter = res[1]
    dz = [F(0)] * ncols
    dz[enter] = F(1)
    for i in range(m):
        dz[basis[i]] = -T[i][enter]
    z_dir = []
    for terms, shift in zmap:
        z_dir.append(sum(s * dz[k] for k, s in terms))
    return ("unbounded", to_x(zval), z_dir)


# ------------------------------------------------------------------------------------------------
# the same checks as the Lean functions, in Python (used only to pick among candidate certificates)
# ------------------------------------------------------------------------------------------------

def dot(a, b):
    return sum((x * y for x, y in zip(a, b)), F(0))


def has(lo, hi, v):
    return (lo is None or lo <= v) and (hi is None or v <= hi)


def feasible(n, vb, rows, x):
    return len(x) == n and all(has(lo, hi, v) for (lo, hi), v in zip(vb, x)) and all(has(lo, hi, dot(a, x)) for a, lo, hi in rows)

"""C13 — analyses leave the model exactly as they found it.

PROOF: lean/CobraModel/Props/C13.lean — `leaves_model_as_found` (soundness of the syntactic check `Effects.Safe` for the big-step semantics with
       exceptions, own and caller contexts) and `all_analyses_safe` (`decide` over Gen/EffectTable.lean, the effect summaries generated from the
       source of every analysis and of the helpers they call by harness/translate_effects.py on every run).
TIE:   (1) run-time validation of the translation: cobrapy's context-aware primitives and optlang's in-place mutators are wrapped while the real
           analyses run; every kind of write observed on the analysed model must be one the generated summary of that analysis contains;
       (2) behaviour: every analysis x generated models (feasible, infeasible, unbounded, degenerate; with genes) x argument combinations x
           inside / outside a user context x serial / two processes: the full observable state (content, raw GLPK problem, tolerances, gene
           states, the caller's context history) before and after the call, whether it returns or raises; the uniquely defined results of two
           calls are compared.
"""
from __future__ import annotations

import json
import logging
import math
import sys
import warnings
from contextlib import contextmanager
from fractions import Fraction as F

import canon
import common
import coreops
import fbagen

logging.disable(logging.CRITICAL)
common.ensure_repo_on_path()
import cobra  # noqa: E402
from cobra import Metabolite, Model, Reaction  # noqa: E402

import c12  # noqa: E402

# ---------------------------------------------------------------------------------------------------------------
# observation
# ---------------------------------------------------------------------------------------------------------------


class ArgumentChanged(Exception):
    """A model handed to an analysis as a second argument (gapfill's universal model) was modified."""


def argument_state(u):
    """Everything a caller can see of a model given as an argument: content and solver problem (`observe`), that its reactions still
    belong to it and are built from its own metabolite objects, and the attribute names of its reactions."""
    o = observe(u)
    o["membership"] = {r.id: [r._model is u, all(x is u.metabolites.get_by_id(x.id) if x.id in u.metabolites else False for x in r._metabolites),
                              sorted(k for k in vars(r) if not k.startswith("__"))] for r in u.reactions}
    o["met_membership"] = {x.id: [x._model is u, sorted(rr.id for rr in x._reaction)] for x in u.metabolites}
    return o


def observe(m):
    o = c12.observe(m, exact=True)
    o["genes_functional"] = {g.id: bool(g.functional) for g in m.genes}
    o["contexts"] = [len(getattr(h, "_history", [])) for h in m._contexts]
    o["status"] = None      # the solver's last status is scratch state, not model content
    return o


# ---------------------------------------------------------------------------------------------------------------
# run-time recording of writes (validation of the translator)
# ---------------------------------------------------------------------------------------------------------------

class Recorder:
    def __init__(self):
        self.model = None
        self.depth = 0            # inside a context-aware primitive of cobrapy
        self.seen = set()
        self.orig_ids = set()
        self.orig_objective = None

    def start(self, model):
        self.model = model
        self.depth = 0
        self.seen = set()
        s = model.solver
        self.orig_ids = {id(v) for v in s.variables} | {id(c) for c in s.constraints}
        self.orig_objective = id(s.objective)

    def stop(self):
        self.model = None

    def owns(self, obj):
        m = self.model
        if m is None:
            return False
        if obj is m:
            return True
        return getattr(obj, "_model", None) is m

    def ctx(self, comp):
        if self.depth == 0:
            self.seen.add("ctxWrite:" + comp)

    def raw(self, comp, target):
        if self.model is None or self.depth > 0:
            return
        if getattr(target, "problem", None) is not self.model.solver:
            return
        if comp in ("objective", "direction"):
            if id(target) == self.orig_objective:
                self.seen.add("rawWrite:" + comp)
        elif id(target) in self.orig_ids:
            self.seen.add("rawWrite:solver")


REC = Recorder()
_installed = False


def install_recorder():
    """Wrap the primitives once (in this process only; nothing in /repo is changed)."""
    global _installed
    if _installed:
        return
    _installed = True
    import optlang.glpk_interface as G
    import optlang.interface as I
    from cobra.core.gene import Gene
    from cobra.util import solver as sutil
    import cobra.core.model as cmodel
    import functools

    def wrap_ctx(owner, name, comp, who=lambda self: self):
        orig = getattr(owner, name)

        @functools.wraps(orig)
        def w(self, *a, **k):
            mine = REC.owns(who(self))
            if mine:
                REC.ctx(comp)
                REC.depth += 1
            try:
                return orig(self, *a, **k)
            finally:
                if mine:
                    REC.depth -= 1
        setattr(owner, name, w)

    for name, comp in (("add_cons_vars", "consvars"), ("remove_cons_vars", "consvars"), ("add_reactions", "structure"), ("remove_reactions", "structure"),
                       ("add_metabolites", "structure"), ("remove_metabolites", "structure"), ("add_boundary", "structure")):
        wrap_ctx(cobra.Model, name, comp)
    wrap_ctx(Reaction, "update_variable_bounds", "bounds")
    wrap_ctx(Gene, "knock_out", "genes")

    def wrap_prop(owner, name, comp):
        p = owner.__dict__[name]
        fset = p.fset

        def w(self, value):
            mine = REC.owns(self)
            if mine:
                REC.ctx(comp)
                REC.depth += 1
            try:
                return fset(self, value)
            finally:
                if mine:
                    REC.depth -= 1
        setattr(owner, name, property(p.fget, w, p.fdel, p.__doc__))
    wrap_prop(cobra.Model, "objective_direction", "direction")
    wrap_prop(cobra.Model, "solver", "solver")
    wrap_prop(cobra.Model, "medium", "bounds")

    orig_set_objective = sutil.set_objective

    @functools.wraps(orig_set_objective)
    def set_objective(model, value, additive=False):
        mine = REC.owns(model)
        if mine:
            REC.ctx("objective")
            REC.depth += 1
        try:
            return orig_set_objective(model, value, additive=additive)
        finally:
            if mine:
                REC.depth -= 1
    sutil.set_objective = set_objective
    cmodel.set_objective = set_objective
    import cobra.core.reaction as creaction
    if hasattr(creaction, "set_objective"):
        creaction.set_objective = set_objective

    # what the undo functions of a context do on the way out is the restore itself, not a write of the analysis
    from cobra.util.context import HistoryManager
    orig_reset = HistoryManager.reset

    @functools.wraps(orig_reset)
    def reset(self, *a, **k):
        REC.depth += 1
        try:
            return orig_reset(self, *a, **k)
        finally:
            REC.depth -= 1
    HistoryManager.reset = reset

    # optlang level
    def wrap_raw_method(owner, name, comp):
        orig = getattr(owner, name)

        @functools.wraps(orig)
        def w(self, *a, **k):
            REC.raw(comp, self)
            return orig(self, *a, **k)
        setattr(owner, name, w)
    # constraints / variables handed to the solver directly (outside cobrapy's add_cons_vars / remove_cons_vars)
    for nm in ("add", "remove"):
        orig_m = getattr(G.Model, nm)

        def make(orig_m):
            @functools.wraps(orig_m)
            def w(self, *a, **k):
                if REC.model is not None and REC.depth == 0 and self is REC.model.solver:
                    # cobrapy's own context-aware helpers (cobra.util.solver) end in solver.add / solver.remove and record the undo themselves
                    f = sys._getframe(1)
                    prim = False
                    for _ in range(6):
                        if f is None:
                            break
                        if f.f_code.co_name in ("add_cons_vars_to_problem", "remove_cons_vars_from_problem", "fix_objective_as_constraint",
                                                "add_absolute_expression", "add_lp_feasibility", "add_lexicographic_constraints"):
                            prim = True
                            break
                        f = f.f_back
                    REC.seen.add("ctxWrite:consvars" if prim else "rawWrite:solver")
                return orig_m(self, *a, **k)
            return w
        setattr(G.Model, nm, make(orig_m))
    wrap_raw_method(G.Objective, "set_linear_coefficients", "objective")
    wrap_raw_method(G.Constraint, "set_linear_coefficients", "solver")

    def wrap_raw_prop(owner, name, comp):
        for c in owner.__mro__:
            if name in c.__dict__ and isinstance(c.__dict__[name], property):
                p = c.__dict__[name]
                break
        else:
            return
        fset = p.fset

        def w(self, value):
            REC.raw(comp, self)
            return fset(self, value)
        setattr(owner, name, property(p.fget, w, p.fdel, p.__doc__))
    wrap_raw_prop(G.Objective, "direction", "direction")
    for cls in (G.Variable, G.Constraint):
        wrap_raw_prop(cls, "lb", "solver")
        wrap_raw_prop(cls, "ub", "solver")


# ---------------------------------------------------------------------------------------------------------------
# the analyses
# ---------------------------------------------------------------------------------------------------------------

def fr(df):
    """a frame / series as rounded plain data"""
    import pandas as pd
    if isinstance(df, pd.DataFrame):
        return {str(i): {str(c): rnd(df.at[i, c]) for c in df.columns} for i in df.index}
    if isinstance(df, pd.Series):
        return {str(i): rnd(v) for i, v in df.items()}
    return df


def same_results(a, b, tol=2e-5):
    """Equality of two reported results up to the rounding of `rnd`: a value that sits on a rounding boundary (3.265625 at five places) comes out
    as either neighbour depending on the last bit of the float, which is not a difference of the analysis."""
    if isinstance(a, float) and isinstance(b, float):
        return abs(a - b) <= tol * (1 + abs(a))
    if isinstance(a, dict) and isinstance(b, dict):
        return a.keys() == b.keys() and all(same_results(a[k], b[k], tol) for k in a)
    if isinstance(a, (list, tuple)) and isinstance(b, (list, tuple)):
        return len(a) == len(b) and all(same_results(x, y, tol) for x, y in zip(a, b))
    return a == b


def rnd(v):
    if isinstance(v, (set, frozenset)):
        return sorted(map(str, v))
    if isinstance(v, float):
        if v != v:
            return "nan"
        return round(v, 5)
    if hasattr(v, "item"):
        try:
            return rnd(v.item())
        except Exception:
            return str(v)
    return v if isinstance(v, (int, str, bool, type(None))) else str(v)


def run_analysis(name, m, a, rng_seed):
    """Runs one analysis; returns the uniquely defined part of its result (None when there is none)."""
    from cobra.flux_analysis import (double_gene_deletion, double_reaction_deletion, fastcc, find_blocked_reactions, find_essential_genes,
                                     find_essential_reactions, flux_variability_analysis, gapfill, geometric_fba, loopless_solution, moma,
                                     pfba, production_envelope, room, single_gene_deletion, single_reaction_deletion)
    from cobra.flux_analysis.reaction import assess, assess_component
    from cobra.medium import minimal_medium
    from cobra.sampling import sample
    rids = [r.id for r in m.reactions]
    P = a.get("processes", 1)
    if name == "optimize":
        s = m.optimize(objective_sense=a.get("sense"), raise_error=a.get("raise_error", False))
        return [s.status, rnd(s.objective_value) if s.status == "optimal" else None]
    if name == "slim_optimize":
        return rnd(m.slim_optimize())
    if name == "flux_variability_analysis":
        rl = sorted({rids[i % len(rids)] for i in a["pick"]}) if a.get("subset") else None
        return fr(flux_variability_analysis(m, reaction_list=rl, loopless=a.get("loopless", False), fraction_of_optimum=a.get("fraction", 1.0),
                                            pfba_factor=a.get("pfba_factor"), processes=P))
    if name == "find_blocked_reactions":
        return sorted(find_blocked_reactions(m, open_exchanges=a.get("open", False), processes=P))
    if name in ("find_essential_genes", "find_essential_reactions"):
        res = sorted(x.id for x in (find_essential_genes if name == "find_essential_genes" else find_essential_reactions)(m, processes=P))
        v = m.slim_optimize()
        # with an optimum of (numerically) zero the default threshold is zero too and membership is decided by rounding noise: not a uniquely
        # defined set; the call still counts for the state comparison
        return res if v == v and abs(v) > 1e-6 else None
    if name == "pfba":
        s = pfba(m, fraction_of_optimum=a.get("fraction", 1.0), objective=({m.reactions.get_by_id(rids[0]): 1} if a.get("objective") else None))
        return [s.status, rnd(s.objective_value) if s.status == "optimal" else None]
    if name in ("moma", "room"):
        ref = None
        if a.get("reference"):
            ref = m.optimize()
            if ref.status != "optimal":
                ref = None          # a reference that is no flux distribution is not an input the analysis is defined for
        f = moma if name == "moma" else room
        s = f(m, solution=ref, linear=a.get("linear", True))
        return [s.status, rnd(s.objective_value) if name == "moma" and a.get("linear", True) and s.status == "optimal" else None]
    if name == "geometric_fba":
        s = geometric_fba(m, max_tries=a.get("max_tries", 20), processes=1)
        return [s.status]
    if name == "loopless_solution":
        s = loopless_solution(m)
        return [s.status, rnd(s.objective_value) if s.status == "optimal" else None]     # a value next to a non-optimal status means nothing
    if name in ("single_gene_deletion", "single_reaction_deletion", "double_gene_deletion", "double_reaction_deletion"):
        f = {"single_gene_deletion": single_gene_deletion, "single_reaction_deletion": single_reaction_deletion,
             "double_gene_deletion": double_gene_deletion, "double_reaction_deletion": double_reaction_deletion}[name]
        df = f(m, method=a.get("method", "fba"), processes=P)
        method = a.get("method", "fba")
        out = {}
        for _, row in df.iterrows():
            # growth at a MOMA / ROOM optimum is not unique; the status of GLPK's MILP for ROOM can differ between two identical solves at the
            # edge of feasibility
            out[",".join(sorted(row["ids"]))] = [row["status"] if "room" not in method else None, rnd(float(row["growth"])) if method == "fba" else None]
        return out
    if name == "production_envelope":
        ex = [r.id for r in m.exchanges] or rids
        df = production_envelope(m, reactions=[ex[a["pick"][0] % len(ex)]], points=a.get("points", 4),
                                 carbon_sources=(ex[a["pick"][1] % len(ex)] if a.get("carbon") else None))
        return fr(df[["flux_minimum", "flux_maximum"]])
    if name == "assess":
        return rnd(assess(m, rids[a["pick"][0] % len(rids)], flux_coefficient_cutoff=a.get("cutoff", 0.001)) is True)
    if name == "assess_component":
        return rnd(assess_component(m, rids[a["pick"][0] % len(rids)], side=a.get("side", "products")) is True)
    if name == "minimal_medium":
        res = minimal_medium(m, min_objective_value=a.get("min_obj", 0.1), exports=a.get("exports", False),
                             minimize_components=a.get("components", False), open_exchanges=a.get("open", False))
        if res is None or a.get("components") not in (False, None, True):
            return None if res is None else "some"       # alternative media come as a frame; only the single-medium answers are compared
        return rnd(float(res[res > 0].sum())) if not a.get("components") else int((res > 1e-6).sum())
    if name == "gapfill":
        uni = Model("universe")
        r = Reaction("GF_1")
        r.add_metabolites({Metabolite(m.metabolites[0].id): -1, Metabolite(m.metabolites[-1].id): 1})
        r.bounds = (-1000, 1000)
        extra = [r]
        if a.get("rich", True):
            # a universal model with content of its own (a metabolite the model lacks, a bypass through it, an objective)
            x = Metabolite("gf_x_c")
            r2 = Reaction("GF_2")
            r2.add_metabolites({Metabolite(m.metabolites[0].id): -1, x: 1})
            r2.bounds = (0, 1000)
            r3 = Reaction("GF_3")
            r3.add_metabolites({x: -1, Metabolite(m.metabolites[-1].id): 1})
            r3.bounds = (0, 1000)
            extra += [r2, r3]
        uni.add_reactions(extra)
        uni.objective = uni.reactions[0]
        before_u = argument_state(uni)
        try:
            res = gapfill(m, uni, demand_reactions=a.get("demand", True), exchange_reactions=a.get("exchange", False), lower_bound=a.get("lower", 0.05))
        finally:
            after_u = argument_state(uni)
            if after_u != before_u:
                raise ArgumentChanged(f"the universal model given to gapfill came back changed: {c12.first_diff(before_u, after_u)}")
        return sorted(len(x) for x in res)
    if name == "fastcc":
        cm = fastcc(m)
        return None       # fastcc's result is judged by C19; here only that the input model is untouched
    if name == "sample":
        sample(m, a.get("n", 6), method=a.get("method", "achr"), thinning=2, processes=P, seed=rng_seed % 1000 + 1)
        return None
    if name == "model_summary":
        m.summary(fva=a.get("fva")).to_string()
        return None
    if name == "metabolite_summary":
        m.metabolites[a["pick"][0] % len(m.metabolites)].summary(fva=a.get("fva")).to_string()
        return None
    if name == "reaction_summary":
        m.reactions[a["pick"][0] % len(m.reactions)].summary(fva=a.get("fva")).to_string()
        return None
    raise ValueError(name)


def gen_args(rng, name):
    a = {"pick": [rng.randint(0, 30), rng.randint(0, 30), rng.randint(0, 30)]}
    if rng.random() < 0.12 and name in ("flux_variability_analysis", "find_blocked_reactions", "find_essential_genes", "find_essential_reactions",
                                         "single_gene_deletion", "single_reaction_deletion", "double_reaction_deletion"):
        a["processes"] = 2
    if name == "optimize":
        a["sense"] = rng.choice([None, "maximize", "minimize", "max", "min"])
        a["raise_error"] = rng.random() < 0.3
    if name == "flux_variability_analysis":
        a.update(subset=rng.random() < 0.4, loopless=rng.random() < 0.3, fraction=rng.choice([1.0, 0.9, 0.0]), pfba_factor=rng.choice([None, None, 1.1]))
    if name == "find_blocked_reactions":
        a["open"] = rng.random() < 0.4
    if name == "pfba":
        a.update(fraction=rng.choice([1.0, 0.5]), objective=rng.random() < 0.3)
    if name in ("moma", "room"):
        a.update(reference=rng.random() < 0.6, linear=rng.random() < 0.75)
    if name.endswith("_deletion"):
        a["method"] = rng.choice(["fba", "fba", "linear moma", "linear room", "moma"])
    if name == "production_envelope":
        a.update(points=rng.choice([3, 5]), carbon=rng.random() < 0.4)
    if name == "assess_component":
        a["side"] = rng.choice(["products", "reactants"])
    if name == "minimal_medium":
        a.update(min_obj=rng.choice([0.1, 1, 50, 2000]), exports=rng.random() < 0.3, components=rng.choice([False, False, True, 2, 3]),
                 open=rng.choice([False, False, True, 50]))
    if name == "gapfill":
        a.update(demand=rng.random() < 0.7, exchange=rng.random() < 0.3, lower=rng.choice([0.05, 1, 5000]))
    if name == "sample":
        a.update(method=rng.choice(["achr", "optgp"]), n=rng.choice([4, 7]))
    if name.endswith("_summary"):
        a["fva"] = rng.choice([None, None, 0.9])
    if name == "geometric_fba":
        a["max_tries"] = rng.choice([2, 20])
    return a


def gen_spec(rng):
    want = rng.choices(["feasible", "infeasible", "unbounded"], [0.7, 0.2, 0.1])[0]
    spec = fbagen.gen_fba_spec(rng, want=want)
    for r in spec["rxns"]:
        # finite bounds mostly (sampling, envelopes), some infinite ones stay
        if r["lb"] == "-inf" and rng.random() < 0.7:
            r["lb"] = "-1000"
        if r["ub"] == "inf" and rng.random() < 0.7:
            r["ub"] = "1000"
        r["rule"] = rng.choice(["", "g1", "g1 and g2", "g2 or g3", "(g1 or g2) and g3"])
    if rng.random() < 0.12:
        spec["obj"] = {}                 # a model without objective
        spec["dir"] = rng.choice(["min", "max"])
    return spec


def check_case(case):
    import translate_effects
    install_recorder()
    spec, name, args = case["spec"], case["analysis"], case["args"]
    static_kinds = set(case.get("static_kinds") or [])
    fails = []
    broken = []
    with warnings.catch_warnings():
        warnings.simplefilter("ignore")
        m = coreops.build_model(spec)
        pre = case.get("pre") or []
        depth = 0
        for op in pre:                      # a user context with edits of the user's own, still open during the call
            if op == "enter":
                m.__enter__()
                depth += 1
            elif op == "ko" and len(m.genes):
                m.genes[0].knock_out()
            elif op == "bound" and len(m.reactions):
                m.reactions[0].bounds = (-3, 3)
            elif op == "obj" and len(m.reactions):
                m.objective = m.reactions[-1]
        results = []
        undefined = False
        for rep in range(2):
            before = observe(m)
            REC.start(m)
            err = None
            try:
                with warnings.catch_warnings(record=True) as caught:
                    warnings.simplefilter("always")
                    res = run_analysis(name, m, args, case["seed"])
            except ArgumentChanged as e:
                fails.append(f"{name}({args}): {e}")
                res, err = None, "ArgumentChanged"
            except Exception as e:      # infeasible / unbounded / unsupported arguments: the analysis may fail, the model must not change
                res, err = None, type(e).__name__
            finally:
                seen = set(REC.seen)
                REC.stop()
            if err in ("OptimizationError", "Infeasible", "Unbounded", "FeasibleButNotOptimal", "UndefinedSolution"):
                undefined = True        # a solver verdict part-way (e.g. an unbounded range met or not, depending on the vertex of a pre-solve)
            if any("Solver status is" in str(w.message) for w in caught):
                undefined = True        # a sub-problem had no optimum and the analysis went on with whatever the solver held: no defined quantity
            if name == "flux_variability_analysis" and args.get("loopless"):
                undefined = True        # loopless FVA depends on the solver's state (known findings of C05 / C14): not compared here
            after = observe(m)
            if after != before:
                fails.append(f"{name}({args}) {'raised ' + err if err else 'returned'} and left the model changed: {c12.first_diff(before, after)}")
                break
            extra = seen - static_kinds - {"ctxWrite:" + c for c in ()}
            # the explicit save / restore of the direction in Model.optimize is rendered as a private context in the summaries
            if "rawWrite:direction" in extra and "ctxWrite:direction" in static_kinds:
                extra.discard("rawWrite:direction")
            if extra and static_kinds:
                broken.append(f"{name}: writes {sorted(extra)} were observed at run time but are not in the generated summary {sorted(static_kinds)}")
            results.append((err, res))
        if undefined:
            results = results[:1]
        if len(results) == 2 and not same_results(results[0], results[1]) and name not in ("optimize", "slim_optimize"):
            # values reported for a model that has no steady state within its bounds are whatever the solver last held: not defined quantities
            m.slim_optimize()
            if m.solver.status != "optimal":
                results = results[:1]
        if len(results) == 2 and not same_results(results[0], results[1]) and name in ("find_essential_genes", "find_essential_reactions") \
                and results[0][0] is None and results[1][0] is None and results[0][1] is not None and results[1][1] is not None:
            # membership of a knock-out whose growth equals the threshold (1 % of the optimum) up to rounding is not defined
            from cobra.flux_analysis import single_gene_deletion, single_reaction_deletion
            df = (single_gene_deletion if name == "find_essential_genes" else single_reaction_deletion)(m, processes=1)
            thr = m.slim_optimize() * 1e-2
            growth = {",".join(sorted(row["ids"])): float(row["growth"]) for _, row in df.iterrows()}
            differing = set(results[0][1]) ^ set(results[1][1])
            if all(k in growth and abs(growth[k] - thr) <= 1e-6 * (1 + abs(thr)) for k in differing):
                results = results[:1]
        if len(results) == 2 and not same_results(results[0], results[1]):
            fails.append(f"{name}({args}): two calls on the same model gave different results: {json.dumps(results[0], default=str)[:200]} vs "
                         f"{json.dumps(results[1], default=str)[:200]}")
        for _ in range(depth):
            m.__exit__(None, None, None)
    case["_broken"] = broken
    case["_error"] = results[0][0] if results else None
    return fails, "ran"


def check_case_isolated(case):
    fails, why = check_case(case)
    return {"fails": fails, "broken": case.get("_broken", []), "error": case.get("_error")}


ANALYSES = ["optimize", "slim_optimize", "flux_variability_analysis", "find_blocked_reactions", "find_essential_genes", "find_essential_reactions",
            "pfba", "moma", "room", "geometric_fba", "loopless_solution", "single_gene_deletion", "single_reaction_deletion",
            "double_gene_deletion", "double_reaction_deletion", "production_envelope", "assess", "assess_component", "minimal_medium", "gapfill",
            "fastcc", "sample", "model_summary", "metabolite_summary", "reaction_summary"]


def gen_case(rng, kinds):
    name = rng.choice(ANALYSES)
    pre = []
    k = rng.random()
    if k < 0.45:
        pre = ["enter"] + rng.sample(["ko", "bound", "obj"], rng.randint(0, 2))
        if rng.random() < 0.3:
            pre += ["enter"]
    elif k < 0.6:
        pre = rng.sample(["ko", "bound", "obj"], rng.randint(1, 2))        # permanent edits of the user's, no context
    return {"spec": gen_spec(rng), "analysis": name, "args": gen_args(rng, name), "pre": pre, "seed": rng.randint(0, 10 ** 6),
            "static_kinds": kinds.get(name, [])}


def public(case):
    return {k: v for k, v in case.items() if not k.startswith("_")}


def run(ctx):
    import translate_effects
    if getattr(ctx, "replay", None):
        data = json.loads(open(ctx.replay).read())
        v = data.get("violation") or {}
        if "case" in v:
            fails, why = check_case(v["case"])
            print(json.dumps({"case": v["case"], "failures": fails, "note": why}, indent=1, default=str)[:6000])
            if fails:
                print(f"VIOLATION property=C13 replay={ctx.replay}")
                return 1
        return 0
    common.proof_stage(ctx, "CobraModel.Props.C13", extra_scan=["CobraModel/Model/Effects.lean", "CobraModel/Lemmas/Effects.lean", "CobraModel/Gen/EffectTable.lean"],
                       regenerate=translate_effects.regenerate)
    kinds = json.loads((common.ROOT / "harness" / "effect_kinds.json").read_text())
    rng = ctx.rng
    n = ctx.scale(1500, 30000)
    ran = 0
    per = {}
    errors = {}
    distinct = set()
    samples = []
    corpus = common.load_corpus("C13")
    seen_broken = set()
    def cases():
        for c in corpus:
            c["static_kinds"] = kinds.get(c["analysis"], [])
            yield c
        for _ in range(n):
            yield gen_case(rng, kinds)
    pool = common.IsolatedPool("c13", "check_case_isolated", workers=8, timeout=20 if ctx.tier == "quick" else 90)
    aborted = 0
    try:
        for case, res in pool.run(cases()):
            if res == "aborted":
                aborted += 1
                per["(process aborted)"] = per.get("(process aborted)", 0) + 1
                if len(ctx.notes) < 5:
                    ctx.notes.append(f"the process running {case['analysis']}({case['args']}) died or timed out (abort inside a C library); case not judged")
                continue
            if "__harness_error__" in res:
                raise RuntimeError(res["__harness_error__"] + "\n" + res.get("trace", ""))
            ran += 1
            per[case["analysis"]] = per.get(case["analysis"], 0) + 1
            if res.get("error"):
                errors[res["error"]] = errors.get(res["error"], 0) + 1
            distinct.add(json.dumps(public(case), sort_keys=True, default=str))
            if len(samples) < 2:
                samples.append(public(case))
            for b in res.get("broken", []):
                if b not in seen_broken and len(ctx.broken) < 5:
                    seen_broken.add(b)
                    ctx.broken.append({"kind": "correspondence", "name": "Gen.EffectTable vs writes observed at run time", "detail": b, "case": public(case)})
            if res["fails"] and not ctx.violations:
                ctx.violations.append({"engine": "state before / after the analysis on the real code", "case": public(case), "failures": res["fails"][:6]})
            if ctx.violations:
                break
    finally:
        pool.close()
    ctx.coverage.update({
        "evaluations": ran, "distinct_nontrivial": len(distinct),
        "rule": "25 analyses x generated models (feasible / infeasible / unbounded, forced fluxes, genes) x argument combinations x called outside or inside a "
                "user context holding the user's own edits (one or two levels) x processes 1 / 2; each called twice; counted: distinct cases",
        "samples": samples, "per_analysis": per, "calls_that_raised": errors, "cases_aborted_in_C_library": aborted, "traces_validated_against_impl": ran,
        "summaries_generated": len(kinds),
    })
    ctx.assumptions += [
        "the translator's approximations: try / except is rendered as the body followed by an optional handler; `saved = X.direction … finally: X.direction = "
        "saved` is rendered as a private context around a replacement of the direction; cobrapy's context-aware setters are primitives (their undo "
        "registration is C01's subject); element-level freshness of solver objects is decided by the translator (objects built with prob.Variable / "
        "prob.Constraint in the function, or looked up under a name the function made up)",
        "the run-time recorder wraps the primitives in this process only; worker processes act on unpickled copies",
        "the solver's last status / primal values are scratch state and not part of the model's observable content",
    ]
    return common.finish(ctx, None)


if __name__ == "__main__":
    sys.exit(common.main_wrapper(run))

"""C06 — deletion analyses report the optimum of each knocked-out model.

PROOF: lean/CobraModel/Props/C06.lean (one row per unordered combination, tasks restore the model, essential filter).
TIE:   every row of single/double gene/reaction deletion is compared with the optimum of an independently knocked-out copy of the
       model description, certified by the proved LP checker; linear MOMA rows with the certified range of the old objective over
       the certified minimal-adjustment set; essential sets with the certified growths.
"""
from __future__ import annotations

import json
import logging
import math
import sys
import warnings
from fractions import Fraction as F

import common
import coreops
import fbagen
import lpcert
import auxcorr
from c07 import ev, parse_rule
from c09 import moma_lp

logging.disable(logging.CRITICAL)
common.ensure_repo_on_path()
from cobra.flux_analysis import (double_gene_deletion, double_reaction_deletion, find_essential_genes,  # noqa: E402
                                 find_essential_reactions, pfba, single_gene_deletion, single_reaction_deletion)

TOL = 1e-6
GENES = ["g1", "g2", "g3", "g4"]


def close(a, b, tol=TOL):
    return abs(a - b) <= tol * (1 + abs(b))


def gen_case(rng):
    spec = fbagen.gen_fba_spec(rng, want="feasible")
    for r in spec["rxns"]:
        if r["lb"] == "-inf":
            r["lb"] = "-1000"
        if r["ub"] == "inf":
            r["ub"] = "1000"
        r["rule"] = coreops.gen_rule(rng, rng.sample(GENES, rng.randint(1, 3))) if rng.random() < 0.7 else ""
    spec["dir"] = "max" if rng.random() < 0.85 else "min"
    rids = [r["id"] for r in spec["rxns"]]
    genes = sorted({g for r in spec["rxns"] for g in (set(GENES) & set(r["rule"].replace("(", " ").replace(")", " ").split()))})
    kind = rng.choice(["single_rxn", "single_gene", "double_rxn", "double_gene", "essential_rxn", "essential_gene"])
    if "gene" in kind and not genes:
        kind = kind.replace("gene", "rxn")
    pool = genes if "gene" in kind else rids
    case = {"spec": spec, "kind": kind, "method": rng.choice(["fba", "fba", "fba", "linear moma"]) if kind.startswith(("single", "double")) else "fba",
            "as_objects": rng.random() < 0.5}
    case["ref_order"] = rng.choice(["model", "reversed", "sorted"])
    if kind.startswith("single"):
        case["l1"] = rng.sample(pool, rng.randint(1, len(pool))) if rng.random() < 0.6 else None
        if rng.random() < 0.08:
            case["l1"] = []                                   # nothing requested: no rows
    elif kind.startswith("double"):
        case["l1"] = rng.sample(pool, rng.randint(1, len(pool))) if rng.random() < 0.6 else None
        case["l2"] = rng.sample(pool, rng.randint(1, len(pool))) if rng.random() < 0.6 else None
        if rng.random() < 0.1:
            case[rng.choice(["l1", "l2"])] = []
    else:
        case["threshold"] = rng.choice([None, None, "1/2", "0", "0", "1/1000"])
        case["threshold_int"] = rng.random() < 0.5           # 0 passed as int 0 or float 0.0
    if kind.startswith("essential") and rng.random() < (0.9 if case.get("threshold") == "0" else 0.4):
        # a thin bypass next to a well-used reaction: knocking the reaction out leaves a growth far below 1 % of the optimum but above zero
        cands = [r for r in spec["rxns"] if len(r["st"]) > 1 and fbagen.fr(r["ub"]) is not None and fbagen.fr(r["ub"]) >= 5]
        if cands:
            # (for an explicit threshold of zero: a bypass next to several of them, so that whichever reaction the growth depends on has one)
            picks = rng.sample(cands, min(len(cands), 4)) if case.get("threshold") == "0" else [rng.choice(cands)]
            for k, r0 in enumerate(picks):
                lid = "LEAK" if k == 0 else f"LEAK{k}"
                spec["rxns"].append({"id": lid, "st": dict(r0["st"]), "lb": "0", "ub": rng.choice(["1/500", "1/1000", "1/200"]), "rule": ""})
                if "gene" not in kind:
                    pool = pool + [lid]
    if kind.startswith("essential") and case.get("threshold") == "0" and rng.random() < 0.7:
        # a growth strictly between zero and 1 % of the optimum, by construction: the objective is the outflow of a two-step chain whose middle step has
        # a thin parallel bypass — knocking the middle step out leaves 1/500 of a wild-type growth of 10
        gz = GENES[0]
        spec["rxns"] += [{"id": "SRC_Z", "st": {"Z1": "1"}, "lb": "0", "ub": "10", "rule": ""},
                         {"id": "MAIN_Z", "st": {"Z1": "-1", "Z2": "1"}, "lb": "0", "ub": "1000", "rule": gz},
                         {"id": "THIN_Z", "st": {"Z1": "-1", "Z2": "1"}, "lb": "0", "ub": "1/50", "rule": ""},
                         {"id": "OUT_Z", "st": {"Z2": "-1"}, "lb": "0", "ub": "1000", "rule": ""}]
        spec["obj"] = {"OUT_Z": "1"}
        spec["dir"] = "max"
        pool = pool + ([gz] if ("gene" in kind and gz not in pool) else []) + ([] if "gene" in kind else ["SRC_Z", "MAIN_Z", "THIN_Z", "OUT_Z"])
    case["_pool"] = pool
    # read-only calls first, on about a third of the cases (decided from the content of the case: the case stream itself stays as it was)
    import zlib
    case["reads"] = zlib.crc32(json.dumps(spec, sort_keys=True).encode()) % 3 == 0
    case["history"] = rng.choice([None, None, "optimize", "deletion", "ctx_solve", "ctx_infeasible"])
    if kind.startswith("essential"):
        case["history"] = rng.choice([None, "deletion", "ctx_solve", "low_growth_deletion", "low_growth_deletion", "same_call", "same_call"])
    # state the model is in before the analysis: genes already non-functional (flag only, or properly knocked out)
    if genes and rng.random() < 0.35:
        g = rng.choice(genes)
        case["pre"] = {"gene": g, "how": rng.choice(["flag", "knock_out"])}
    return case


def knocked_spec(spec, combo, genes: bool, absent=()):
    """`absent`: genes that are already non-functional when the analysis is called."""
    s = json.loads(json.dumps(spec))
    for r in s["rxns"]:
        if genes:
            tree = parse_rule(r["rule"])
            touched = bool(set(combo) & set(r["rule"].replace("(", " ").replace(")", " ").split()))
            if tree is not None and touched and not ev(tree, set(combo) | set(absent)):
                r["lb"], r["ub"] = "0", "0"
        elif r["id"] in combo:
            r["lb"], r["ub"] = "0", "0"
    return s


def apply_pre(spec, pre):
    """The model description after the pre-existing gene state (a proper knock-out also zeroes the reactions it disables)."""
    if not pre or pre["how"] == "flag":
        return spec
    return knocked_spec(spec, {pre["gene"]}, True)


def check_case(case):
    spec = case["spec"]
    kind = case["kind"]
    genes = "gene" in kind
    pool = case["_pool"] if "_pool" in case else None
    if pool is None:
        rids = [r["id"] for r in spec["rxns"]]
        gl = sorted({g for r in spec["rxns"] for g in (set(GENES) & set(r["rule"].replace("(", " ").replace(")", " ").split()))})
        pool = gl if genes else rids
    fails = []
    pre = case.get("pre")
    absent = {pre["gene"]} if pre else set()
    base_spec = apply_pre(spec, pre)
    (lp, rids, mids, sign) = fbagen.net_lp(base_spec)
    wt = lpcert.certify([lp])[0]
    if wt["status"] != "optimal":
        return None, "not-feasible"
    with warnings.catch_warnings():
        warnings.simplefilter("ignore")
        m = coreops.build_model(spec)
        if pre and pre["gene"] in m.genes:
            if pre["how"] == "flag":
                m.genes.get_by_id(pre["gene"]).functional = False
            else:
                m.genes.get_by_id(pre["gene"]).knock_out()
        spec = base_spec
        dl = m.genes if genes else m.reactions

        def arg(l):
            if l is None:
                return None
            return [dl.get_by_id(x) for x in l] if case["as_objects"] else list(l)
        # what the same model object went through before the analysis: solves in another state leave their status, objective value and primal values in
        # the solver (the model itself is as before)
        hist = case.get("history")
        if case.get("reads"):
            # calls that only look at the model (copies of its reactions / metabolites / genes, sums, summaries, text forms): they must not leave
            # anything behind that a later deletion sweep depends on
            try:
                for r in list(m.reactions):
                    r.copy()
                    str(r), r.reaction, r.gene_name_reaction_rule
                for x in list(m.metabolites)[:2]:
                    x.copy()
                for g in list(m.genes)[:2]:
                    g.copy()
                if len(m.reactions) > 1:
                    m.reactions[0] + m.reactions[1]
                    m.reactions[0] - m.reactions[1]
                m.reactions[0].summary()
                m.metabolites[0].summary()
            except Exception:
                pass
        try:
            if hist == "optimize":
                m.optimize()
            elif hist == "deletion" and pool:
                (single_gene_deletion if genes else single_reaction_deletion)(m, [pool[-1]], processes=1)
            elif hist == "ctx_solve":
                with m:
                    for r in list(m.reactions)[:2]:
                        r.bounds = (max(r.lower_bound, -1.0) if r.lower_bound < 0 else r.lower_bound / 4, r.upper_bound / 4 if r.upper_bound > 0 else r.upper_bound)
                    m.slim_optimize()
            elif hist == "ctx_infeasible":
                with m:
                    m.reactions[0].bounds = (m.reactions[0].upper_bound + 1, m.reactions[0].upper_bound + 2)
                    m.slim_optimize()
        except Exception:
            pass
        if kind.startswith("essential"):
            thr = case["threshold"]
            if thr is None and sign * wt["value"] <= 0:
                return None, "no-growth"
            threshold = F(thr) if thr is not None else sign * wt["value"] / 100
            certs = lpcert.certify([fbagen.net_lp(knocked_spec(spec, {x}, genes, absent))[0] for x in pool])
            want, unsure = set(), set()
            for x, c in zip(pool, certs):
                if c["status"] != "optimal":
                    want.add(x)
                else:
                    g = sign * c["value"]
                    if abs(float(g - threshold)) <= 1e-6 * (1 + abs(float(threshold))):
                        unsure.add(x)
                    elif g < threshold:
                        want.add(x)
            f = find_essential_genes if genes else find_essential_reactions
            try:
                if hist == "low_growth_deletion":
                    # the last thing the solver did before the search: the deletion with the smallest growth that still has an optimum
                    opt = [(sign * c["value"], x) for x, c in zip(pool, certs) if c["status"] == "optimal"]
                    if opt:
                        (single_gene_deletion if genes else single_reaction_deletion)(m, [min(opt)[1]], processes=1)
                elif hist == "same_call":
                    f(m, processes=1)
            except Exception:
                pass
            try:
                tv = None if thr is None else (int(threshold) if case.get("threshold_int") and threshold == int(threshold) else float(threshold))
                got = {x.id for x in f(m, threshold=tv, processes=1)}
            except Exception as e:
                return [f"{f.__name__} raised {type(e).__name__}: {e}"], "ran"
            if (got - unsure) != (want - unsure):
                fails.append(f"essential set {sorted(got)} != entities whose deletion drops growth below {float(threshold)} or is infeasible: {sorted(want)}")
            return fails, "ran"
        l1 = case.get("l1")
        l2 = case.get("l2")
        first = l1 if l1 is not None else pool
        if kind.startswith("single"):
            combos = {frozenset([a]) for a in first}
        else:
            second = l2 if l2 is not None else first
            combos = {frozenset([a, b]) for a in first for b in second}
        method = case["method"]
        fn = {"single_rxn": single_reaction_deletion, "single_gene": single_gene_deletion,
              "double_rxn": double_reaction_deletion, "double_gene": double_gene_deletion}[kind]
        kwargs = {}
        ref = None
        if method == "linear moma":
            refsol = pfba(m)
            ref = {r.id: F(float(refsol.fluxes[r.id])) for r in m.reactions}
            if case.get("ref_order") == "reversed":
                refsol.fluxes = refsol.fluxes.iloc[::-1]          # the same reference, its Series in another order than model.reactions
            elif case.get("ref_order") == "sorted":
                refsol.fluxes = refsol.fluxes.sort_index()
            kwargs["solution"] = refsol
        try:
            if kind.startswith("single"):
                res = fn(m, arg(l1), method=method, processes=1, **kwargs)
            else:
                res = fn(m, arg(l1), arg(l2), method=method, processes=1, **kwargs)
        except Exception as e:
            return [f"{fn.__name__} raised {type(e).__name__}: {e}"], "ran"
        got = [frozenset(x) for x in res["ids"]]
        if len(got) != len(set(got)):
            fails.append("a combination appears in more than one row")
        if set(got) != combos:
            fails.append(f"rows {sorted(map(sorted, set(got)))} != requested unordered combinations {sorted(map(sorted, combos))}")
        order = sorted(combos, key=sorted)
        kspecs = [knocked_spec(spec, c, genes, absent) for c in order]
        if method == "fba":
            certs = lpcert.certify([fbagen.net_lp(k)[0] for k in kspecs])
        else:
            certs = lpcert.certify([moma_lp(k, ref) for k in kspecs])
        rows = {frozenset(i): (g, s) for i, g, s in zip(res["ids"], res["growth"], res["status"])}
        extra = []
        for c, k, cert in zip(order, kspecs, certs):
            if c not in rows:
                continue
            g, st = rows[c]
            if cert["status"] != "optimal":
                if not (isinstance(g, float) and math.isnan(g)):
                    fails.append(f"deletion {sorted(c)}: no optimum exists but growth is {g}")
                if st == "optimal":
                    fails.append(f"deletion {sorted(c)}: no optimum exists but status is optimal")
                continue
            if st != "optimal":
                fails.append(f"deletion {sorted(c)}: an optimum exists but status is {st!r}")
                continue
            if method == "fba":
                want = float(sign * cert["value"])
                if not close(g, want):
                    fails.append(f"deletion {sorted(c)}: growth {g} != optimum of the knocked-out model {want}")
            else:
                extra.append((c, k, -cert["value"], g))
        if extra:
            # linear MOMA: the reported growth must be the old objective's value at *a* minimal-adjustment solution
            lps = []
            for c, k, dmin, g in extra:
                nn, vb, rws, _ = moma_lp(k, ref)
                n = nn // 2
                rws = rws + [([F(0)] * n + [F(1)] * n, None, dmin + abs(dmin) / 10 ** 7 + F(1, 10 ** 7))]
                cvec = [F(spec["obj"].get(r["id"], "0")) for r in k["rxns"]] + [F(0)] * n
                lps.append((nn, vb, rws, cvec))
                lps.append((nn, vb, rws, [-x for x in cvec]))
            rc = lpcert.certify(lps)
            for i, (c, k, dmin, g) in enumerate(extra):
                hi, lo = rc[2 * i], rc[2 * i + 1]
                if hi["status"] != "optimal" or lo["status"] != "optimal":
                    continue
                a, b = float(-lo["value"]), float(hi["value"])
                if not (a - 1e-5 * (1 + abs(a)) <= g <= b + 1e-5 * (1 + abs(b))):
                    fails.append(f"MOMA deletion {sorted(c)}: growth {g} is not the old objective at any minimal-adjustment solution (range [{a}, {b}])")
    return fails, "ran"


def public(case):
    return {k: v for k, v in case.items() if not k.startswith("_")}


def aux_stage(ctx):
    """The problem each reaction deletion hands to GLPK (FBA and linear MOMA) vs the Lean builders on the knocked-out content; returns oracle
    cases on the models where they differ."""
    def gen(rng):
        return gen_case(rng)["spec"]

    def f_del(method):
        def f(make, spec, rng):
            m = make()
            rids = [r.id for r in m.reactions]
            sub = rng.sample(rids, rng.randint(1, min(4, len(rids))))
            return auxcorr.pairs_deletions(m, sub, method)
        return f
    def f_gene(make, spec, rng):
        m = make()
        gids = [g.id for g in m.genes]
        if not gids:
            return []
        return auxcorr.pairs_gene_deletions(m, rng.sample(gids, rng.randint(1, min(3, len(gids)))))
    mism = auxcorr.stage(ctx, [("single_reaction_deletion(fba)", f_del("fba")), ("single_reaction_deletion(linear moma)", f_del("linear moma")),
                               ("single_gene_deletion(fba)", f_gene)], gen, ctx.scale(40, 500))
    cases = []
    for mm in mism[:6]:
        rids = [r["id"] for r in mm["spec"]["rxns"]]
        if "gene" in mm["label"]:
            genes = sorted({g for r in mm["spec"]["rxns"] for g in (set(GENES) & set(r["rule"].replace("(", " ").replace(")", " ").split()))})
            cases.append({"spec": mm["spec"], "kind": "single_gene", "method": "fba", "as_objects": False, "ref_order": "model", "l1": None, "_pool": genes})
            continue
        cases.append({"spec": mm["spec"], "kind": "single_rxn", "method": "linear moma" if "moma" in mm["label"] else "fba", "as_objects": False,
                      "ref_order": "model", "l1": None, "_pool": rids})
    return cases


def run(ctx):
    if getattr(ctx, "replay", None):
        data = json.loads(open(ctx.replay).read())
        v = data.get("violation") or {}
        if "case" in v:
            fails, why = check_case(v["case"])
            print(json.dumps({"case": v["case"], "failures": fails, "note": why}, indent=1))
            if fails:
                print(f"VIOLATION property=C06 replay={ctx.replay}")
                return 1
        return 0
    common.proof_stage(ctx, "CobraModel.Props.C06", extra_scan=["CobraModel/Lemmas/Core.lean", "CobraModel/Lemmas/LP.lean"] + auxcorr.SCAN)
    directed = aux_stage(ctx) + common.load_corpus("C06")
    rng = ctx.rng
    n = ctx.scale(200, 4000)
    ran, tries = 0, 0
    skipped, kinds = {}, {}
    distinct = set()
    samples = []
    while ran < n and tries < n * 5 and not ctx.violations:
        tries += 1
        case = directed.pop(0) if directed else gen_case(rng)
        fails, why = check_case(case)
        if fails is None:
            skipped[why] = skipped.get(why, 0) + 1
            continue
        ran += 1
        kinds[case["kind"] + "/" + case["method"]] = kinds.get(case["kind"] + "/" + case["method"], 0) + 1
        distinct.add(json.dumps([case["spec"]["rxns"], case["kind"], case.get("l1"), case.get("l2")], sort_keys=True))
        if len(samples) < 2:
            samples.append(public(case))
        if fails:
            ctx.violations.append({"engine": "deletion rows vs certified optima of knocked-out copies", "case": public(case), "failures": fails[:6]})
    ctx.coverage.update({
        "evaluations": ran,
        "distinct_nontrivial": len(distinct),
        "rule": "constructive models with random and/or gene rules over <= 4 shared genes x {single, double} x {gene, reaction} x {fba, linear moma} x "
                "full or partial lists (ids or objects, repeats between the two lists) + find_essential_genes/reactions; counted: distinct (model, analysis, lists)",
        "samples": samples,
        "skipped": skipped,
        "analyses": kinds,
        "traces_validated_against_impl": ran,
    })
    ctx.assumptions += [
        "GLPK external: growths compared with certified optima within 1e-6; entities whose certified growth is within 1e-6 of the essentiality threshold are not judged",
        "linear MOMA solutions need not be unique: the reported growth must lie in the certified range of the old objective over the minimal-adjustment set",
        "processes=1 here; process-count independence is C14",
    ]
    return common.finish(ctx, None)


if __name__ == "__main__":
    sys.exit(common.main_wrapper(run))

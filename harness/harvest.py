"""Turn a kept seeded change into a corpus entry: apply the patch, run the check, take the concrete failing input of the violation replay, undo the
patch, make sure the input passes on the unchanged tree (`./check <pid> --replay`), and append it to corpus/<pid>.jsonl (CORE.jsonl for the Core
engine).  Usage: harvest.py <seed_dir> [seed_dir ...]   — nothing else may touch /repo meanwhile."""
import json, os, subprocess, sys, shutil, tempfile

CORE = {"C01", "C02", "C03", "C07"}


def sh(cmd):
    return subprocess.run(cmd, shell=True, capture_output=True, text=True)


def entry_of(pid, v):
    if pid in CORE:
        if "spec" in v and "ops" in v:
            return {"spec": v["spec"], "ops": v["ops"], "properties": [pid]}
        return None
    if pid == "C04":
        return {"spec": v["spec"], "interface": v.get("interface", "glpk"), "history": v.get("history", "plain")} if "spec" in v else None
    if pid == "C15":
        return v.get("ops")
    return v.get("case")


for seed in sys.argv[1:]:
    name = os.path.basename(seed.rstrip("/"))
    meta = json.load(open(os.path.join(seed, "meta.json")))
    pid = meta["breaks_property"]
    assert sh("git -C /repo status --porcelain").stdout.strip() == "", "/repo not clean"
    keep = tempfile.mkdtemp(dir="/root")
    shutil.copytree("/verif/evidence", os.path.join(keep, "evidence"))
    r = sh(f"git -C /repo apply {os.path.join(seed, 'patch.diff')}")
    if r.returncode != 0:
        print(name, "patch does not apply"); continue
    try:
        for vs in range(6):      # the first case stream that exhibits the violation
            chk = sh(f"cd /verif && VERIF_SEED={vs} ./check {pid} --tier quick")
            if any(l.startswith("VIOLATION") and "no-failing-input-found" not in l for l in chk.stdout.splitlines()):
                break
    finally:
        sh("git -C /repo checkout -- .")
        sh("cd /verif/harness && /venv/bin/python regen_all.py")
        shutil.rmtree("/verif/evidence", ignore_errors=True)
        shutil.copytree(os.path.join(keep, "evidence"), "/verif/evidence")
        shutil.rmtree(keep, ignore_errors=True)
    line = [l for l in chk.stdout.splitlines() if l.startswith("VIOLATION")]
    if not line or "no-failing-input-found" in line[0]:
        print(name, "no concrete violation to harvest:", (line or ["check held"])[0][:120]); continue
    rp = line[0].split("replay=")[1].split()[0]
    v = (json.load(open(rp)).get("violation") or {})
    e = entry_of(pid, v)
    if e is None:
        print(name, "violation has no replayable input"); continue
    ok = sh(f"cd /verif && ./check {pid} --replay {rp}")
    if ok.returncode != 0 or "VIOLATION" in ok.stdout:
        print(name, "the harvested input fails on the unchanged tree as well: not added"); continue
    path = f"/verif/corpus/{'CORE' if pid in CORE else pid}.jsonl"
    have = open(path).read().splitlines() if os.path.exists(path) else []
    text = json.dumps(e, sort_keys=True)
    if pid in CORE:
        # one history may serve several properties
        for i, l in enumerate(have):
            d = json.loads(l)
            if d.get("spec") == e["spec"] and d.get("ops") == e["ops"]:
                d["properties"] = sorted(set(d.get("properties", [])) | {pid})
                have[i] = json.dumps(d, sort_keys=True); text = None; break
    if text is not None and text not in have:
        have.append(text)
    open(path, "w").write("\n".join(have) + "\n")
    print(name, "harvested into", path)

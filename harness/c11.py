"""C11 — JSON, YAML, dict and pickle round trips return the same model.

PROOF: lean/CobraModel/Props/C11.lean (reaction <-> dict round trip incl. infinite bounds written as text and both bounds set together).
TIE:   generated rich models are saved and loaded through every format and variant; full content dump (identifiers, stoichiometry, bounds,
       objective and direction, rules as truth tables, compartments, names, formulas, charges, subsystems, notes, annotations) and the raw GLPK
       problem are compared before / after one and two round trips; the Lean dict model is compared with `_reaction_to_dict` on the same reactions.
"""
from __future__ import annotations

import copy
import io
import json
import logging
import os
import pickle
import sys
import tempfile
import warnings

import canon
import common
import richgen

logging.disable(logging.CRITICAL)
common.ensure_repo_on_path()
import cobra  # noqa: E402
from cobra.io import (from_json, from_yaml, load_json_model, load_yaml_model, model_from_dict, model_to_dict,  # noqa: E402
                      save_json_model, save_yaml_model, to_json, to_yaml)

FORMATS = ["dict_reuse", "load_edit_load_json", "load_edit_load_yaml", "load_edit_load_dict", "json_str", "json_file", "json_handle", "yaml_str", "yaml_file", "dict", "pickle", "pickle_file", "pickle", "json_sorted", "dict_sorted"]


def roundtrip(m, fmt, tmpdir):
    if fmt == "json_str":
        return from_json(to_json(m))
    if fmt == "json_sorted":
        return from_json(to_json(m, sort=True))
    if fmt == "json_file":
        p = os.path.join(tmpdir, "m.json")
        save_json_model(m, p)
        return load_json_model(p)
    if fmt == "json_handle":
        p = os.path.join(tmpdir, "h.json")
        with open(p, "w") as h:
            save_json_model(m, h, pretty=True)
        with open(p) as h:
            return load_json_model(h)
    if fmt == "yaml_str":
        return from_yaml(to_yaml(m))
    if fmt == "yaml_file":
        p = os.path.join(tmpdir, "m.yml")
        save_yaml_model(m, p)
        return load_yaml_model(p)
    if fmt == "dict":
        return model_from_dict(model_to_dict(m))
    if fmt == "dict_reuse":
        # the same dict is loaded twice and must not be altered by loading; the second load is the one returned
        d = model_to_dict(m)
        keep = copy.deepcopy(d)
        model_from_dict(d)
        if d != keep:
            raise AssertionError("model_from_dict changed the dict it was given: " + richgen.diff(json.loads(json.dumps(keep, default=str)), json.loads(json.dumps(d, default=str))))
        return model_from_dict(d)
    if fmt.startswith("load_edit_load"):
        # one document loaded, the loaded model edited in place (notes, annotations, compartments at every level), the same document loaded again:
        # loaded models are values of their own, nothing done to one of them shows in the next load
        kind = fmt.rsplit("_", 1)[1]
        doc = to_json(m) if kind == "json" else (to_yaml(m) if kind == "yaml" else model_to_dict(m))
        # (a dict document is a live object whose lists the loaded model may alias — that is not part of the property; each load gets its own deep copy,
        # so that "the same document" is well defined)
        load = from_json if kind == "json" else (from_yaml if kind == "yaml" else (lambda d: model_from_dict(copy.deepcopy(d))))
        first = load(doc)
        for obj in [first] + list(first.reactions)[:2] + list(first.metabolites)[:2] + list(first.genes)[:2] + list(first.groups)[:1]:
            obj.notes["edited_after_load"] = "x"
            obj.annotation["edited_after_load"] = ["y"]
            for v in list(obj.annotation.values()):
                if isinstance(v, list):
                    v.append("appended_after_load")
            for v in list(obj.notes.values()):
                if isinstance(v, list):
                    v.append("appended_after_load")
        try:
            first.compartments = dict(first.compartments, zz_after_load="edited")
            first._compartments["zz2_after_load"] = "edited"
        except Exception:
            pass
        return load(doc)
    if fmt == "dict_sorted":
        return model_from_dict(model_to_dict(m, sort=True))
    if fmt == "pickle":
        return pickle.loads(pickle.dumps(m))
    if fmt == "pickle_file":
        p = os.path.join(tmpdir, "m.pkl")
        with open(p, "wb") as h:
            pickle.dump(m, h, protocol=rng_protocol(m))
        with open(p, "rb") as h:
            return pickle.load(h)
    raise ValueError(fmt)


def rng_protocol(m):
    """A pickle protocol derived from the model (deterministic per case): all supported protocols get used."""
    return 2 + (len(m.reactions) + len(m.metabolites)) % (pickle.HIGHEST_PROTOCOL - 1)


def check_case(case):
    spec, fmt = case["spec"], case["format"]
    fails = []
    conf = cobra.Configuration()
    old_bounds = conf.bounds
    try:
        with warnings.catch_warnings():
            warnings.simplefilter("ignore")
            if case.get("config_bounds"):
                conf.bounds = tuple(case["config_bounds"])
            m = richgen.build(spec)
            groups = fmt.startswith("pickle")
            d0 = richgen.rich_dump(m, with_groups=groups, model_meta=True)
            g0 = canon.glpk_dump(m)
            with tempfile.TemporaryDirectory(dir="/root") as td:
                try:
                    m1 = roundtrip(m, fmt, td)
                except Exception as e:
                    return [f"{fmt}: loading a model that could be saved failed with {type(e).__name__}: {e}"], "ran"
                d1 = richgen.rich_dump(m1, with_groups=groups, model_meta=True)
                if d1 != d0:
                    fails.append(f"{fmt}: {richgen.diff(d0, d1)}")
                g1 = canon.glpk_dump(m1)
                if g1 != g0:
                    fails.append(f"{fmt}: flux-balance problem changed: {richgen.diff(g0, g1)}")
                # ... also as the solver interface reports it (what another interface is handed when the solver is switched): a missing
                # bound must not have become the largest float
                o0, o1 = canon.optlang_dump(m, strict=True), canon.optlang_dump(m1, strict=True)
                if o1 != o0:
                    fails.append(f"{fmt}: flux-balance problem as reported by the solver interface changed: {richgen.diff(o0, o1)}")
                if richgen.rich_dump(m, with_groups=groups, model_meta=True) != d0:
                    fails.append(f"{fmt}: saving changed the original model")
                try:
                    m2 = roundtrip(m1, fmt, td)
                    d2 = richgen.rich_dump(m2, with_groups=groups, model_meta=True)
                    if d2 != d1:
                        fails.append(f"{fmt}: second round trip changed the model: {richgen.diff(d1, d2)}")
                except Exception as e:
                    fails.append(f"{fmt}: second round trip failed with {type(e).__name__}: {e}")
                # same optimum
                try:
                    a, b = m.slim_optimize(), m1.slim_optimize()
                    if not ((a != a and b != b) or abs(a - b) <= 1e-9 * (1 + abs(a))):
                        fails.append(f"{fmt}: optimum changed from {a} to {b}")
                except Exception as e:
                    fails.append(f"{fmt}: optimising raised {type(e).__name__}")
    finally:
        conf.bounds = old_bounds
    return fails, "ran"


def lean_dict_lines(m):
    """Reactions of a model as lines for the Lean dict model, and cobrapy's own dicts for comparison."""
    from cobra.io.dict import _reaction_to_dict
    lines, want = [], []
    for r in m.reactions:
        lines.append(json.dumps({"id": r.id, "name": r.name, "lb": canon.num(r.lower_bound), "ub": canon.num(r.upper_bound),
                                 "mets": sorted([[x.id, canon.num(c)] for x, c in r.metabolites.items()]), "rule": r.gene_reaction_rule,
                                 "obj": canon.num(r.objective_coefficient), "subsystem": r.subsystem or ""}))
        d = _reaction_to_dict(r)
        canon_d = {}
        for k, v in d.items():
            if k in ("notes", "annotation"):
                continue
            if k == "metabolites":
                canon_d[k] = sorted([[a, canon.num(b)] for a, b in v.items()])
            elif isinstance(v, (int, float)) and not isinstance(v, bool):
                canon_d[k] = canon.num(v)
            else:
                canon_d[k] = v
        want.append(canon_d)
    return lines, want


def enc(v):
    """attribute values as the key scheme sees them (`value == default` decides whether a key is written)"""
    if isinstance(v, bool):
        return str(v)
    if isinstance(v, float):
        import math
        if not math.isfinite(v):
            return str(v)
        return int(v) if v == int(v) else v
    if isinstance(v, (dict, list, tuple, set)):
        return ({} if isinstance(v, dict) else []) if len(v) == 0 else json.loads(json.dumps(v, default=str, sort_keys=True))
    return v


def scheme_lines(m):
    """Objects of a model as lines for the Lean key scheme, and the keys cobrapy's own writers produce for them."""
    from cobra.io.dict import _gene_to_dict, _metabolite_to_dict, _reaction_to_dict
    import translate_dictkeys
    tables = {k: r + [x for x, _ in o] for k, (r, o) in translate_dictkeys.read_tables().items()}
    lines, want = [], []
    for kind, objs, writer in (("metabolite", m.metabolites, _metabolite_to_dict), ("gene", m.genes, _gene_to_dict),
                               ("reaction", m.reactions, _reaction_to_dict)):
        for o in objs:
            attrs = {}
            for k in tables[kind]:
                if k == "metabolites":
                    attrs[k] = "stoichiometry"            # always written; its content is the reaction model's subject
                elif hasattr(o, k):
                    attrs[k] = enc(getattr(o, k))
            lines.append(json.dumps({"scheme": kind, "attrs": attrs}))
            want.append(list(writer(o).keys()))
    attrs = {k: ("list" if k in ("metabolites", "reactions", "genes") else enc(getattr(m, k))) for k in tables["model"] if hasattr(m, k) or k in ("metabolites", "reactions", "genes")}
    lines.append(json.dumps({"scheme": "model", "attrs": attrs}))
    want.append([k for k in model_to_dict(m).keys() if k != "version"])
    return lines, want


def run(ctx):
    if getattr(ctx, "replay", None):
        data = json.loads(open(ctx.replay).read())
        v = data.get("violation") or {}
        if "case" in v:
            fails, why = check_case(v["case"])
            print(json.dumps({"case": v["case"], "failures": fails, "note": why}, indent=1))
            if fails:
                print(f"VIOLATION property=C11 replay={ctx.replay}")
                return 1
        return 0
    import translate_dictkeys
    common.proof_stage(ctx, "CobraModel.Props.C11", extra_scan=["CobraModel/Model/DictIO.lean", "CobraModel/Model/DictScheme.lean",
                                                              "CobraModel/Lemmas/DictScheme.lean", "CobraModel/Gen/DictKeys.lean"],
                       regenerate=translate_dictkeys.regenerate)
    rng = ctx.rng
    n = ctx.scale(300, 5000)
    ran = 0
    kinds = {}
    distinct = set()
    samples = []
    corr_ok = corr_n = 0
    corpus = common.load_corpus("C11")
    while ran < n and not ctx.violations and len(ctx.broken) < 3:
        spec = richgen.gen_rich_spec(rng)
        fmt = rng.choice(FORMATS)
        case = {"spec": spec, "format": fmt, "config_bounds": rng.choice([None, None, None, [-500.0, 500.0], [-99999.0, 99999.0]])}
        if corpus:
            case = corpus.pop(0)
            spec, fmt = case["spec"], case["format"]
        fails, why = check_case(case)
        ran += 1
        kinds[fmt] = kinds.get(fmt, 0) + 1
        distinct.add(json.dumps(spec, sort_keys=True, default=str) + fmt)
        if len(samples) < 2:
            samples.append(case)
        if fails:
            ctx.violations.append({"engine": "round trip on the real code", "case": case, "failures": fails[:6]})
            break
        if ran % 4 == 0:
            # correspondence of the Lean dict model with _reaction_to_dict / _reaction_from_dict
            m = richgen.build(spec)
            lines, want = lean_dict_lines(m)
            out = [json.loads(l) for l in common.run_driver_persistent("dictio", lines)]
            for l, w, o in zip(lines, want, out):
                corr_n += 1
                if o.get("dict") != w or o.get("roundtrip") is not True:
                    ctx.broken.append({"kind": "correspondence", "name": "DictIO.toDict vs cobra.io.dict._reaction_to_dict",
                                       "detail": f"model {o} vs implementation {w}", "line": json.loads(l)})
                else:
                    corr_ok += 1
            # the key scheme (which keys are written for metabolites, genes, reactions and the model itself)
            try:
                lines, want = scheme_lines(m)
            except Exception as e:      # the key tables of cobra/io/dict.py are written in a form the translator does not read
                if not any(b.get("kind") == "translator" for b in ctx.broken):
                    ctx.broken.append({"kind": "translator", "name": "translate_dictkeys", "detail": f"{type(e).__name__}: {e}"[:600]})
                lines, want = [], []
            out = [json.loads(l) for l in common.run_driver_persistent("dictio", lines)] if lines else []
            for l, w, o in zip(lines, want, out):
                corr_n += 1
                if o.get("keys") != w or o.get("roundtrip") is not True:
                    if len(ctx.broken) < 3:
                        ctx.broken.append({"kind": "correspondence", "name": "DictScheme.toDict vs cobra.io.dict writers (keys written)",
                                           "detail": f"model {o} vs implementation {w}", "line": json.loads(l)})
                else:
                    corr_ok += 1
    ctx.coverage.update({
        "evaluations": ran, "distinct_nontrivial": len(distinct),
        "rule": "rich models (awkward ids, bounds below/above defaults and infinite, min/max, nested rules, compartments incl. None, names, formulas, charges, "
                "subsystems, notes, annotations) x {json string/file/handle, yaml string/file, dict, pickle, sort on/off} x default / non-default "
                "Configuration().bounds; one and two round trips; counted: distinct (model, format)",
        "samples": samples, "formats": kinds, "traces_validated_against_impl": corr_ok, "reaction_dicts_compared_with_lean_model": corr_n,
    })
    ctx.assumptions += [
        "json, ruamel.yaml and pickle libraries and float<->text conversion are external (shortest-repr round trip is checked on every generated value)",
        "groups are not part of the dict/JSON/YAML formats (and not listed by the property); they are compared for pickle only",
    ]
    return common.finish(ctx, None)


if __name__ == "__main__":
    sys.exit(common.main_wrapper(run))

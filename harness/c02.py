"""C02 — model edits do what they document; cross-references stay consistent."""
import sys
from fractions import Fraction as F

import common
import core_checks
import coreops

RULE = ("random models and op sequences as for C01, all argument shapes (objects, ids, copies, combine/replace, destructive, remove_orphans); "
        "cross-reference oracle (identity, ownership, back-references, genes of rule, zero coefficients, groups) after every step; "
        "counted: distinct (model, last three ops) of traces with >= 3 ops")


SINGLE_TARGET = {"set_lb", "set_ub", "set_bounds", "add_mets", "sub_mets", "build_str", "imul", "set_rule", "ko_rxn", "obj_coef"}


def parse_equation(eq):
    """net stoichiometry of 'a + 2 b --> c' (metabolite ids without blanks; an empty side is allowed)"""
    for arrow in ("<=>", "<--", "-->", "<->", "->", "<-"):
        if arrow in eq:
            left, right = eq.split(arrow, 1)
            break
    else:
        return None
    net = {}
    for side, sign in ((left, -1), (right, 1)):
        for term in side.split(" + "):
            term = term.strip()
            if not term:
                continue
            parts = term.split()
            coef, mid = (F(parts[0]), parts[1]) if len(parts) == 2 else (F(1), parts[0])
            net[mid] = net.get(mid, F(0)) + sign * coef
    return {k: v for k, v in net.items() if v != 0}


def effect_oracle(op, err, before, ex):
    """What the operation documents (for operations outside the Lean model) and the frame: a reaction the operation does not name keeps its
    stoichiometry, bounds and rule."""
    import canon
    probs = []
    after = canon.full_dump(ex.model)
    b, a = before["content"]["rxns"], after["content"]["rxns"]
    if op["op"] in SINGLE_TARGET:
        for rid in b:
            if rid != op.get("r") and rid in a and (b[rid]["st"], b[rid]["lb"], b[rid]["ub"], b[rid]["rule"]) != (a[rid]["st"], a[rid]["lb"], a[rid]["ub"], a[rid]["rule"]):
                probs.append(f"{op['op']} on {op.get('r')} changed the other reaction {rid}: {b[rid]} -> {a[rid]}")
    if op["op"] == "build_str" and err is None and op["r"] in a:
        want = parse_equation(op["eq"])
        if want is not None:
            got = {k: F(v) for k, v in a[op["r"]]["st"].items()}
            if got != want:
                probs.append(f"build_reaction_from_string({op['eq']!r}) left the stoichiometry {a[op['r']]['st']}, the equation says "
                             f"{ {k: canon.num(v) for k, v in want.items()} }")
    if op["op"] == "add_boundary" and err is None:
        # documented: the reaction `EX_/DM_/SK_<metabolite>` with the metabolite at -1 and bounds (default lb, default ub) — (0, default ub) for a
        # demand — where the defaults are the *configured* ones
        pre = {"exchange": "EX_", "demand": "DM_", "sink": "SK_"}[op["type"]]
        rid = pre + op["m"]
        cfg = op.get("cfg") or ["-1000", "1000"]
        want_lb = "0" if op["type"] == "demand" else cfg[0]
        if rid not in a:
            probs.append(f"add_boundary({op['m']}, {op['type']}) succeeded but {rid} is not in the model")
        elif rid not in b:
            got = a[rid]
            if {k: F(v) for k, v in got["st"].items()} != {op["m"]: F(-1)}:
                probs.append(f"add_boundary({op['m']}, {op['type']}): stoichiometry of {rid} is {got['st']}, documented {{{op['m']}: -1}}")
            if F(got["lb"]) != F(want_lb) or F(got["ub"]) != F(cfg[1]):
                probs.append(f"add_boundary({op['m']}, {op['type']}) under the configured default bounds {cfg}: bounds of {rid} are ({got['lb']}, {got['ub']}), "
                             f"documented ({want_lb}, {cfg[1]})")
    return probs


def run(ctx):
    return core_checks.run_core_property(ctx, "CobraModel.Props.C02", kinds=None, oracles=("xref",), quick=300, thorough=6000, rule=RULE,
                                         profiles=coreops.PROFILES, extra_oracle=effect_oracle)


if __name__ == "__main__":
    sys.exit(common.main_wrapper(run))

"""C02 — model edits do what they document; cross-references stay consistent."""
import sys
import common
import core_checks
import coreops

RULE = ("random models and op sequences as for C01, all argument shapes (objects, ids, copies, combine/replace, destructive, remove_orphans); "
        "cross-reference oracle (identity, ownership, back-references, genes of rule, zero coefficients, groups) after every step; "
        "counted: distinct (model, last three ops) of traces with >= 3 ops")


def run(ctx):
    return core_checks.run_core_property(ctx, "CobraModel.Props.C02", kinds=None, oracles=("xref",), quick=300, thorough=6000, rule=RULE, profiles=coreops.PROFILES)


if __name__ == "__main__":
    sys.exit(common.main_wrapper(run))

"""Operation interpreter for the Core engine: drives the real cobrapy API with JSON ops.

Used by C01 (solver sync), C02 (edits / cross-references), C03 (contexts), C07 (knock-outs), C12 (copies).
Numbers in ops are strings "p/q" (dyadic rationals) or "inf"/"-inf".
"""
from __future__ import annotations

import copy
import math
import pickle
import warnings
from fractions import Fraction

import common
import canon

common.ensure_repo_on_path()
import cobra  # noqa: E402
from cobra import Metabolite, Model, Reaction  # noqa: E402
from cobra.core import Group  # noqa: E402
from cobra.manipulation import knock_out_model_genes, remove_genes  # noqa: E402
from cobra.manipulation.modify import rename_genes  # noqa: E402

RIDS = ["r1", "r2", "R_3", "EX_a", "v-5", "2x", "r.7", "r8"]
MIDS = ["A", "B", "C_c", "d-e", "m[e]", "2f", "G"]
GIDS = ["g1", "g2", "g3", "b0001", "g-5.1"]
GRPS = ["grp1", "grp2"]


def fl(s):
    if s == "inf":
        return math.inf
    if s == "-inf":
        return -math.inf
    return float(Fraction(s))


def dy(rng, lo=-16, hi=16, den=4):
    k = rng.randint(lo * den, hi * den)
    f = Fraction(k, den)
    return f"{f.numerator}/{f.denominator}" if f.denominator != 1 else str(f.numerator)


def gen_rule(rng, genes, depth=2):
    if not genes or rng.random() < 0.25:
        return ""

    def t(d):
        if d == 0 or rng.random() < 0.4:
            return rng.choice(genes)
        op = rng.choice([" and ", " or "])
        return "(" + op.join(t(d - 1) for _ in range(rng.choice([2, 2, 3]))) + ")"
    s = t(depth)
    if s.startswith("(") and s.endswith(")") and rng.random() < 0.7:
        # strip one level of outer parentheses if they match
        depth_ = 0
        ok = True
        for i, ch in enumerate(s):
            depth_ += ch == "("
            depth_ -= ch == ")"
            if depth_ == 0 and i < len(s) - 1:
                ok = False
                break
        if ok:
            s = s[1:-1]
    return s


def gen_model_spec(rng):
    """A small model description (constructive; reactions over a pool of metabolites and genes)."""
    nr = rng.randint(2, 5)
    nm = rng.randint(2, 5)
    rids = rng.sample(RIDS, nr)
    mids = rng.sample(MIDS, nm)
    gids = rng.sample(GIDS, rng.randint(0, 4))
    rxns = []
    for rid in rids:
        k = rng.randint(1, min(3, nm))
        st = {m: dy(rng, -3, 3, 2) for m in rng.sample(mids, k)}
        st = {m: c for m, c in st.items() if Fraction(c) != 0} or {mids[0]: "1"}
        lb, ub = gen_bounds(rng)
        rxns.append({"id": rid, "lb": lb, "ub": ub, "st": st, "rule": gen_rule(rng, gids)})
    obj = {rng.choice(rids): dy(rng, -2, 2, 1) or "1"} if rng.random() < 0.8 else {}
    obj = {k: v for k, v in obj.items() if Fraction(v) != 0}
    groups = []
    if rng.random() < 0.4:
        groups.append({"id": "grp1", "members": [["r", rng.choice(rids)], ["m", rng.choice(mids)]] + ([["g", gids[0]]] if gids else [])})
    return {"rxns": rxns, "obj": obj, "dir": rng.choice(["max", "max", "min"]), "groups": groups, "extra_mets": [m for m in mids if rng.random() < 0.2]}


def gen_bounds(rng):
    r = rng.random()
    if r < 0.3:
        return "0", rng.choice(["1000", "10", "inf", dy(rng, 0, 20, 2)])
    if r < 0.6:
        return rng.choice(["-1000", "-10", "-inf", dy(rng, -20, 0, 2)]), rng.choice(["1000", "10", "inf", dy(rng, 0, 20, 2)])
    if r < 0.7:
        a = dy(rng, 1, 5, 2)
        return a, rng.choice([a, "inf", "20"])
    if r < 0.8:
        a = dy(rng, -5, -1, 2)
        return rng.choice([a, "-inf", "-20"]), a
    if r < 0.9:
        return "0", "0"
    a, b = sorted([Fraction(dy(rng, -8, 8, 2)), Fraction(dy(rng, -8, 8, 2))])
    return canon.num(a), canon.num(b)


def build_model(spec) -> Model:
    m = Model("t")
    mets = {}

    def met(mid):
        if mid not in mets:
            mets[mid] = Metabolite(mid, compartment="c")
        return mets[mid]
    rx = []
    with warnings.catch_warnings():
        warnings.simplefilter("ignore")
        for r in spec["rxns"]:
            R = Reaction(r["id"], lower_bound=fl(r["lb"]), upper_bound=fl(r["ub"]))
            R.add_metabolites({met(k): fl(v) for k, v in r["st"].items()})
            if r["rule"]:
                R.gene_reaction_rule = r["rule"]
            rx.append(R)
        m.add_reactions(rx)
        extra = [met(k) for k in spec.get("extra_mets", []) if k not in m.metabolites]
        if extra:
            m.add_metabolites(extra)
        if spec["obj"]:
            m.objective = {m.reactions.get_by_id(k): fl(v) for k, v in spec["obj"].items()}
        m.objective_direction = spec["dir"]
        for g in spec.get("groups", []):
            G = Group(g["id"])
            mem = []
            for kind, i in g["members"]:
                dl = {"r": m.reactions, "m": m.metabolites, "g": m.genes}[kind]
                if i in dl:
                    mem.append(dl.get_by_id(i))
            G.add_members(mem)
            m.add_groups([G])
    return m


class Exec:
    """Executes ops on a real model; tracks open contexts and user-added solver objects."""

    def __init__(self, spec):
        self.model = build_model(spec)
        self.depth = 0
        self.user_vars: set = set()
        self.user_cons: set = set()

    # -- helpers
    def rxn(self, rid):
        return self.model.reactions.get_by_id(rid)

    def apply(self, op):
        """Returns None or the exception class name."""
        try:
            with warnings.catch_warnings():
                warnings.simplefilter("ignore")
                self._apply(op)
            return None
        except (ValueError, KeyError, IndexError, TypeError, AttributeError) as e:
            return type(e).__name__
        except Exception as e:
            return type(e).__name__

    def _apply(self, op):
        m = self.model
        k = op["op"]
        if k == "set_lb":
            self.rxn(op["r"]).lower_bound = fl(op["v"])
        elif k == "set_ub":
            self.rxn(op["r"]).upper_bound = fl(op["v"])
        elif k == "set_bounds":
            self.rxn(op["r"]).bounds = (fl(op["lb"]), fl(op["ub"]))
        elif k in ("add_mets", "sub_mets"):
            r = self.rxn(op["r"])
            d = {}
            for mid, c in op["mets"]:
                if op["keys"] == "str":
                    key = mid
                elif mid in m.metabolites:
                    key = m.metabolites.get_by_id(mid)
                    if op["keys"] == "copy":
                        key = key.copy()
                else:
                    key = Metabolite(mid, compartment="c")
                d[key] = fl(c)
            if k == "add_mets":
                r.add_metabolites(d, combine=op["combine"])
            else:
                r.subtract_metabolites(d, combine=op["combine"])
        elif k == "set_rule":
            self.rxn(op["r"]).gene_reaction_rule = op["rule"]
        elif k == "ko_gene":
            m.genes.get_by_id(op["g"]).knock_out()
        elif k == "ko_rxn":
            self.rxn(op["r"]).knock_out()
        elif k == "ko_genes":
            knock_out_model_genes(m, op["gs"])
        elif k == "obj_coef":
            self.rxn(op["r"]).objective_coefficient = fl(op["v"])
        elif k == "set_obj":
            m.objective = {self.rxn(r): fl(c) for r, c in op["coefs"]}
        elif k == "set_obj_id":
            m.objective = op["r"]
        elif k == "set_dir":
            m.objective_direction = op["d"]
        elif k == "add_rxns":
            rx = []
            fresh = {}
            for r in op["rxns"]:
                R = Reaction(r["id"], lower_bound=fl(r["lb"]), upper_bound=fl(r["ub"]))
                d = {}
                for mid, c in r["st"]:
                    if mid in m.metabolites:
                        key = m.metabolites.get_by_id(mid)
                        # a reaction whose id is taken is ignored by add_reactions: build it from copies so that
                        # the model's metabolites are not left pointing at a reaction that was never added
                        if op.get("keys") == "copy" or r["id"] in m.reactions:
                            key = key.copy()
                    elif r["id"] in m.reactions:
                        key = Metabolite(mid, compartment="c")   # private to the reaction that will be ignored
                    else:
                        if mid not in fresh:
                            fresh[mid] = Metabolite(mid, compartment="c")
                        key = fresh[mid]
                    d[key] = fl(c)
                R.add_metabolites(d)
                if r["rule"]:
                    R.gene_reaction_rule = r["rule"]
                rx.append(R)
            m.add_reactions(rx)
        elif k == "rm_rxns":
            rs = [self.rxn(r) if (op.get("by") == "obj" and r in m.reactions) else r for r in op["rs"]]
            m.remove_reactions(rs, remove_orphans=op["orphans"])
        elif k == "add_model_mets":
            m.add_metabolites([Metabolite(i, compartment="c") for i in op["ms"]])
        elif k == "rm_mets":
            m.remove_metabolites([m.metabolites.get_by_id(i) for i in op["ms"] if i in m.metabolites], destructive=op["destructive"])
        elif k == "add_boundary":
            m.add_boundary(m.metabolites.get_by_id(op["m"]), type=op["type"])
        elif k == "imul":
            r = self.rxn(op["r"])
            r *= fl(op["k"])
        elif k == "remove_genes":
            remove_genes(m, op["gs"], remove_reactions=op["rr"])
        elif k == "rename_genes":
            rename_genes(m, dict(op["map"]))
        elif k == "rename_rxn":
            self.rxn(op["r"]).id = op["new"]
        elif k == "rename_met":
            m.metabolites.get_by_id(op["m"]).id = op["new"]
        elif k == "medium":
            m.medium = {r: fl(v) for r, v in op["medium"]}
        elif k == "add_cons":
            c = m.problem.Constraint(sum(fl(co) * self.rxn(r).flux_expression for r, co in op["terms"]), lb=fl(op["lb"]), ub=fl(op["ub"]), name=op["name"])
            m.add_cons_vars([c])
            self.user_cons.add(op["name"])
        elif k == "rm_cons":
            m.remove_cons_vars([m.constraints[op["name"]]])
            self.user_cons.discard(op["name"])
        elif k == "enter":
            m.__enter__()
            self.depth += 1
        elif k == "exit":
            if self.depth == 0:
                raise IndexError("no open context")
            self.depth -= 1
            m.__exit__(None, None, None)
        elif k == "copy":
            self._replace(m.copy())
        elif k == "deepcopy":
            self._replace(copy.deepcopy(m))
        elif k == "pickle":
            self._replace(pickle.loads(pickle.dumps(m)))
        elif k == "switch_solver":
            m.solver = op["solver"]
        elif k == "slim_optimize":
            m.slim_optimize()
        else:
            raise RuntimeError(f"unknown op {k}")

    def _replace(self, new):
        # contexts do not survive a copy; the trace continues on the new model outside any context
        self.model = new
        self.depth = 0

    def unwind(self):
        """An exception propagating out of all open `with model:` blocks."""
        while self.depth:
            self.depth -= 1
            self.model.__exit__(None, None, None)


# ------------------------------------------------------------------------------------------
# op generator
# ------------------------------------------------------------------------------------------

MODELLED = {"set_lb", "set_ub", "set_bounds", "ko_gene", "ko_rxn", "ko_genes", "obj_coef", "set_dir", "enter", "exit",
            "add_mets", "sub_mets", "set_rule"}


def gen_op(rng, ex: Exec, kinds=None, p_bad=0.12):
    m = ex.model
    rids = [r.id for r in m.reactions]
    mids = [x.id for x in m.metabolites]
    gids = [g.id for g in m.genes]
    bad = rng.random() < p_bad

    def some_r():
        if bad and rng.random() < 0.3 or not rids:
            return rng.choice(RIDS)
        return rng.choice(rids)
    kinds = kinds or ["set_lb", "set_ub", "set_bounds", "set_bounds", "add_mets", "add_mets", "sub_mets", "set_rule", "set_rule", "ko_gene",
                      "ko_rxn", "ko_genes", "obj_coef", "set_obj", "set_dir", "add_rxns", "rm_rxns", "add_model_mets", "rm_mets",
                      "add_boundary", "imul", "remove_genes", "enter", "enter", "exit", "exit"]
    k = rng.choice(kinds)
    if k == "set_lb":
        return {"op": k, "r": some_r(), "v": rng.choice([dy(rng), "-inf", "0", "-1000", dy(rng, -4, 30, 2)])}
    if k == "set_ub":
        return {"op": k, "r": some_r(), "v": rng.choice([dy(rng), "inf", "0", "1000", dy(rng, -30, 4, 2)])}
    if k == "set_bounds":
        lb, ub = gen_bounds(rng)
        if bad:
            lb, ub = ub, lb
        return {"op": k, "r": some_r(), "lb": lb, "ub": ub}
    if k in ("add_mets", "sub_mets"):
        pool = mids if (mids and rng.random() < 0.8) else MIDS
        n = rng.randint(1, 3)
        ms = rng.sample(pool, min(n, len(pool)))
        keys = rng.choice(["obj", "obj", "str", "copy"])
        if bad and rng.random() < 0.5:
            ms.append("nope")
            keys = "str"
        r = some_r()
        mets = []
        for x in ms:
            c = dy(rng, -3, 3, 2)
            if r in rids and rng.random() < 0.2:
                R = m.reactions.get_by_id(r)
                cur = {y.id: v for y, v in R._metabolites.items()}
                if x in cur:   # cancel an existing coefficient exactly
                    c = canon.num(-Fraction(cur[x]) if k == "add_mets" else Fraction(cur[x]))
            mets.append([x, c])
        return {"op": k, "r": r, "mets": mets, "combine": rng.random() < 0.7, "keys": keys}
    if k == "set_rule":
        pool = GIDS if rng.random() < 0.5 else (gids or GIDS)
        return {"op": k, "r": some_r(), "rule": gen_rule(rng, rng.sample(pool, min(len(pool), 3)))}
    if k == "ko_gene":
        return {"op": k, "g": rng.choice(gids) if gids and not bad else rng.choice(GIDS)}
    if k == "ko_rxn":
        return {"op": k, "r": some_r()}
    if k == "ko_genes":
        return {"op": k, "gs": rng.sample(gids, rng.randint(0, len(gids))) if gids else []}
    if k == "obj_coef":
        return {"op": k, "r": some_r(), "v": dy(rng, -3, 3, 2)}
    if k == "set_obj":
        rs = rng.sample(rids, min(len(rids), rng.randint(0, 2))) if rids else []
        return {"op": k, "coefs": [[r, dy(rng, -3, 3, 2)] for r in rs]}
    if k == "set_dir":
        return {"op": k, "d": rng.choice(["max", "min", "maximize", "MIN"] + (["up"] if bad else []))}
    if k == "add_rxns":
        rx = []
        for _ in range(rng.randint(1, 2)):
            rid = rng.choice(RIDS)
            if any(r["id"] == rid for r in rx):
                continue
            nm = rng.randint(1, 3)
            pool = rng.sample(MIDS, nm)
            st = [[x, dy(rng, -3, 3, 2)] for x in pool]
            st = [[x, c] for x, c in st if Fraction(c) != 0] or [[pool[0], "1"]]
            lb, ub = gen_bounds(rng)
            rx.append({"id": rid, "lb": lb, "ub": ub, "st": st, "rule": gen_rule(rng, rng.sample(GIDS, 3))})
        return {"op": k, "rxns": rx, "keys": rng.choice(["obj", "copy"])}
    if k == "rm_rxns":
        rs = [some_r() for _ in range(rng.randint(1, 2))]
        return {"op": k, "rs": list(dict.fromkeys(rs)), "orphans": rng.random() < 0.5, "by": rng.choice(["id", "obj"])}
    if k == "add_model_mets":
        ms = rng.sample(MIDS, rng.randint(1, 2))
        if bad and rng.random() < 0.5:
            ms = ms + [ms[0]]
        return {"op": k, "ms": ms}
    if k == "rm_mets":
        return {"op": k, "ms": rng.sample(mids, min(len(mids), rng.randint(1, 2))) if mids else [], "destructive": rng.random() < 0.4}
    if k == "add_boundary":
        return {"op": k, "m": rng.choice(mids) if mids else "A", "type": rng.choice(["exchange", "demand", "sink"])}
    if k == "imul":
        return {"op": k, "r": some_r(), "k": rng.choice(["2", "-1", "1/2", "-2", "4"])}
    if k == "remove_genes":
        return {"op": k, "gs": rng.sample(gids, rng.randint(1, min(2, len(gids)))) if gids else [rng.choice(GIDS)], "rr": rng.random() < 0.5}
    if k in ("enter", "exit", "copy", "deepcopy", "pickle", "slim_optimize"):
        return {"op": k}
    if k == "switch_solver":
        return {"op": k, "solver": rng.choice(["glpk", "glpk_exact"])}
    raise RuntimeError(k)

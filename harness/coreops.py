"""Operation interpreter for the Core engine: drives the real cobrapy API with JSON ops.

Used by C01 (solver sync), C02 (edits / cross-references), C03 (contexts), C07 (knock-outs), C12 (copies).
Numbers in ops are strings "p/q" (dyadic rationals) or "inf"/"-inf".
"""
from __future__ import annotations

import copy
import math
import pickle
import warnings
from fractions import Fraction

import common
import canon

common.ensure_repo_on_path()
import cobra  # noqa: E402
from cobra import Metabolite, Model, Reaction  # noqa: E402
from cobra.core import Group  # noqa: E402
from cobra.manipulation import knock_out_model_genes, remove_genes  # noqa: E402
from cobra.manipulation.modify import rename_genes  # noqa: E402

RIDS = ["r1", "r2", "R_3", "EX_a", "v-5", "2x", "r.7", "r8"]
MIDS = ["A", "B", "C_c", "d-e", "m[e]", "2f", "G"]
GIDS = ["g1", "g2", "g3", "b0001", "g-5.1"]
GRPS = ["grp1", "grp2"]
FRESH_R = ["rN1", "rN2", "rN3"]      # used only as new names inside contexts
FRESH_M = ["mN1", "mN2"]


def fl(s):
    if s == "inf":
        return math.inf
    if s == "-inf":
        return -math.inf
    return float(Fraction(s))


def dy(rng, lo=-16, hi=16, den=4):
    k = rng.randint(lo * den, hi * den)
    f = Fraction(k, den)
    return f"{f.numerator}/{f.denominator}" if f.denominator != 1 else str(f.numerator)


def gen_rule(rng, genes, depth=2):
    if not genes or rng.random() < 0.25:
        return ""

    def t(d):
        if d == 0 or rng.random() < 0.4:
            return rng.choice(genes)
        op = rng.choice([" and ", " or "])
        return "(" + op.join(t(d - 1) for _ in range(rng.choice([2, 2, 3]))) + ")"
    s = t(depth)
    if s.startswith("(") and s.endswith(")") and rng.random() < 0.7:
        # strip one level of outer parentheses if they match
        depth_ = 0
        ok = True
        for i, ch in enumerate(s):
            depth_ += ch == "("
            depth_ -= ch == ")"
            if depth_ == 0 and i < len(s) - 1:
                ok = False
                break
        if ok:
            s = s[1:-1]
    return s


def gen_model_spec(rng):
    """A small model description (constructive; reactions over a pool of metabolites and genes)."""
    nr = rng.randint(2, 5)
    nm = rng.randint(2, 5)
    rids = rng.sample(RIDS, nr)
    mids = rng.sample(MIDS, nm)
    gids = rng.sample(GIDS, rng.randint(0, 4))
    rxns = []
    for rid in rids:
        k = rng.randint(1, min(3, nm))
        st = {m: dy(rng, -3, 3, 2) for m in rng.sample(mids, k)}
        st = {m: c for m, c in st.items() if Fraction(c) != 0} or {mids[0]: "1"}
        lb, ub = gen_bounds(rng)
        rxns.append({"id": rid, "lb": lb, "ub": ub, "st": st, "rule": gen_rule(rng, gids)})
    obj = {rng.choice(rids): dy(rng, -2, 2, 1) or "1"} if rng.random() < 0.8 else {}
    obj = {k: v for k, v in obj.items() if Fraction(v) != 0}
    groups = []
    if rng.random() < 0.45:
        groups.append({"id": "grp1", "members": [["r", rng.choice(rids)], ["m", rng.choice(mids)]] + ([["g", gids[0]]] if gids else [])})
        if gids and rng.random() < 0.6:
            # a second group over genes only: one or two of them, so that a removal / renaming of several genes meets a group that holds some of them
            groups.append({"id": "grp2", "members": [["g", x] for x in rng.sample(gids, rng.randint(1, min(2, len(gids))))]})
    return {"rxns": rxns, "obj": obj, "dir": rng.choice(["max", "max", "min"]), "groups": groups, "extra_mets": [m for m in mids if rng.random() < 0.2]}


def gen_bounds(rng):
    r = rng.random()
    if r < 0.3:
        return "0", rng.choice(["1000", "10", "inf", dy(rng, 0, 20, 2)])
    if r < 0.6:
        return rng.choice(["-1000", "-10", "-inf", dy(rng, -20, 0, 2)]), rng.choice(["1000", "10", "inf", dy(rng, 0, 20, 2)])
    if r < 0.7:
        a = dy(rng, 1, 5, 2)
        return a, rng.choice([a, "inf", "20"])
    if r < 0.8:
        a = dy(rng, -5, -1, 2)
        return rng.choice([a, "-inf", "-20"]), a
    if r < 0.9:
        return "0", "0"
    a, b = sorted([Fraction(dy(rng, -8, 8, 2)), Fraction(dy(rng, -8, 8, 2))])
    return canon.num(a), canon.num(b)


def build_model(spec) -> Model:
    m = Model("t")
    mets = {}

    def met(mid):
        if mid not in mets:
            mets[mid] = Metabolite(mid, compartment="e" if mid.endswith("_e") else "c")
        return mets[mid]
    rx = []
    with warnings.catch_warnings():
        warnings.simplefilter("ignore")
        for r in spec["rxns"]:
            R = Reaction(r["id"], lower_bound=fl(r["lb"]), upper_bound=fl(r["ub"]))
            R.add_metabolites({met(k): fl(v) for k, v in r["st"].items()})
            if r["rule"]:
                R.gene_reaction_rule = r["rule"]
            rx.append(R)
        m.add_reactions(rx)
        extra = [met(k) for k in spec.get("extra_mets", []) if k not in m.metabolites]
        if extra:
            m.add_metabolites(extra)
        if spec["obj"]:
            m.objective = {m.reactions.get_by_id(k): fl(v) for k, v in spec["obj"].items()}
        m.objective_direction = spec["dir"]
        for g in spec.get("groups", []):
            G = Group(g["id"])
            mem = []
            for kind, i in g["members"]:
                dl = {"r": m.reactions, "m": m.metabolites, "g": m.genes}[kind]
                if i in dl:
                    mem.append(dl.get_by_id(i))
            G.add_members(mem)
            m.add_groups([G])
    return m


class Exec:
    """Executes ops on a real model; tracks open contexts and user-added solver objects."""

    def __init__(self, spec):
        self.model = build_model(spec)
        self.depth = 0
        self.user_vars: set = set()
        self.user_cons: set = set()
        self.removed = {}        # reaction objects taken out of the model, by id (can be added back)

    # -- helpers
    def rxn(self, rid):
        return self.model.reactions.get_by_id(rid)

    def apply(self, op):
        """Returns None or the exception class name."""
        try:
            with warnings.catch_warnings():
                warnings.simplefilter("ignore")
                self._apply(op)
            return None
        except Exception as e:
            tb = e.__traceback__
            while tb.tb_next is not None:
                tb = tb.tb_next
            if tb.tb_frame.f_code.co_filename.startswith("/verif/harness") and isinstance(e, (NameError, RuntimeError, AssertionError)):
                raise           # raised by this harness itself (it happened once: a shadowed import): a harness defect, not an outcome
            return type(e).__name__

    def _apply(self, op):
        m = self.model
        k = op["op"]
        if k == "set_lb":
            self.rxn(op["r"]).lower_bound = fl(op["v"])
        elif k == "set_ub":
            self.rxn(op["r"]).upper_bound = fl(op["v"])
        elif k == "set_bounds":
            self.rxn(op["r"]).bounds = (fl(op["lb"]), fl(op["ub"]))
        elif k in ("add_mets", "sub_mets"):
            r = self.rxn(op["r"])
            d = {}
            for mid, c in op["mets"]:
                if op["keys"] == "str":
                    key = mid
                elif mid in m.metabolites:
                    key = m.metabolites.get_by_id(mid)
                    if op["keys"] == "copy":
                        key = key.copy()
                else:
                    key = Metabolite(mid, compartment="c")
                d[key] = fl(c)
            if k == "add_mets":
                r.add_metabolites(d, combine=op["combine"])
            else:
                r.subtract_metabolites(d, combine=op["combine"])
        elif k == "set_rule":
            self.rxn(op["r"]).gene_reaction_rule = op["rule"]
        elif k == "ko_gene":
            m.genes.get_by_id(op["g"]).knock_out()
        elif k == "ko_rxn":
            self.rxn(op["r"]).knock_out()
        elif k == "ko_genes":
            knock_out_model_genes(m, op["gs"])
        elif k == "obj_coef":
            self.rxn(op["r"]).objective_coefficient = fl(op["v"])
        elif k == "set_obj":
            m.objective = {self.rxn(r): fl(c) for r, c in op["coefs"]}
        elif k == "set_obj_id":
            m.objective = op["r"]
        elif k == "set_dir":
            m.objective_direction = op["d"]
        elif k == "add_rxns":
            rx = []
            fresh = {}
            for r in op["rxns"]:
                R = Reaction(r["id"], lower_bound=fl(r["lb"]), upper_bound=fl(r["ub"]))
                d = {}
                for mid, c in r["st"]:
                    if mid in m.metabolites:
                        key = m.metabolites.get_by_id(mid)
                        # a reaction whose id is taken is ignored by add_reactions: build it from copies so that
                        # the model's metabolites are not left pointing at a reaction that was never added
                        if op.get("keys") == "copy" or r["id"] in m.reactions:
                            key = key.copy()
                    elif r["id"] in m.reactions:
                        key = Metabolite(mid, compartment="c")   # private to the reaction that will be ignored
                    else:
                        if mid not in fresh:
                            fresh[mid] = Metabolite(mid, compartment="c")
                        key = fresh[mid]
                    d[key] = fl(c)
                R.add_metabolites(d)
                if r["rule"]:
                    R.gene_reaction_rule = r["rule"]
                rx.append(R)
            m.add_reactions(rx)
        elif k == "rm_rxns":
            rs = [self.rxn(r) if (op.get("by") == "obj" and r in m.reactions) else r for r in op["rs"]]
            for r in op["rs"]:
                if r in m.reactions and self.depth == 0:
                    # only reactions removed outside every context are re-added or edited later (see known_findings.json:
                    # remove + re-add + rename inside one context; edit-removed-reaction-inside-context)
                    self.removed[r] = m.reactions.get_by_id(r)
                elif r in m.reactions:
                    self.removed.pop(r, None)       # removed inside a context: the context will bring it back, hands off until then
            if op.get("junk") == "none":
                rs.append(None)            # an element that makes the call raise after the others were handled
            elif op.get("junk") == "int":
                rs.append(3.5)
            m.remove_reactions(rs, remove_orphans=op["orphans"])
        elif k == "readd_rxn":
            R = self.removed.get(op["r"])
            if R is None or R.id in m.reactions or R._model is not None:
                raise KeyError(op["r"])
            m.add_reactions([R])
        elif k == "ctx_bad_add":
            # inside a context of its own: some edits, then add_reactions with an identifier the solver refuses; the exception ends the block
            R = Reaction(op["id"], lower_bound=0, upper_bound=10)
            R.add_metabolites({m.metabolites.get_by_id(op["m"]): 1.0})
            good = Reaction(op["good"], lower_bound=0, upper_bound=5)
            good.add_metabolites({m.metabolites.get_by_id(op["m"]): -1.0})
            try:
                with m:
                    if op["first"] and op["good"] not in m.reactions:
                        m.add_reactions([good])
                    m.add_reactions([R] if op["alone"] else [good, R] if op["good"] not in m.reactions else [R])
            except ValueError:
                pass
        elif k == "rcopy":
            self.rxn(op["r"]).copy()                 # a detached copy is made and dropped: the model must not notice
        elif k == "radd":
            a, b = self.rxn(op["r"]), self.rxn(op["r2"])
            _ = (a + b) if op.get("sign", 1) > 0 else (a - b)
        elif k == "ctx_rename_one":
            # a context of its own around the renaming of one gene: everything, the genes not involved included, must be back afterwards
            with m:
                rename_genes(m, {op["g"]: op["new"]})
        elif k == "ctx_rm_edit":
            # inside a context of its own: a reaction is removed, edited while it belongs to no model, and the context is left
            R = self.rxn(op["r"])
            with m:
                m.remove_reactions([R])
                R.bounds = (fl(op["lb"]), fl(op["ub"]))
        elif k == "lifecycle_inf":
            # outside a context: a reaction gets an infinite bound on one or both sides, the model is copied / pickled, and the solver interface of
            # the result is switched (bounds that are "no bound" in one interface must not become numbers in the other)
            R = self.rxn(op["r"])
            R.bounds = (fl(op["lb"]), fl(op["ub"]))
            how = op["how"]
            new = m.copy() if how == "copy" else (copy.deepcopy(m) if how == "deepcopy" else pickle.loads(pickle.dumps(m)))
            self._replace(new)
            cur = "glpk_exact" if "exact" in type(new.solver).__module__ else "glpk"
            new.solver = "glpk" if cur == "glpk_exact" else "glpk_exact"
        elif k == "detached_rule":
            R = self.removed.get(op["r"])
            if R is None or R._model is not None:
                raise KeyError(op["r"])
            R.gene_reaction_rule = op["rule"]        # a reaction that is in no model: the model must not notice
        elif k == "detached_bounds":
            R = self.removed.get(op["r"])
            if R is None or R._model is not None:
                raise KeyError(op["r"])
            R.bounds = (fl(op["lb"]), fl(op["ub"]))
        elif k == "build_str":
            self.rxn(op["r"]).build_reaction_from_string(op["eq"])
        elif k == "set_functional":
            m.genes.get_by_id(op["g"]).functional = op["v"]
        elif k == "add_model_mets":
            m.add_metabolites([Metabolite(i, compartment="c") for i in op["ms"]])
        elif k == "rm_mets":
            m.remove_metabolites([m.metabolites.get_by_id(i) for i in op["ms"] if i in m.metabolites], destructive=op["destructive"])
        elif k == "add_boundary":
            met = m.metabolites.get_by_id(op["m"])
            if op.get("cfg"):
                # under other configured default bounds than the stock ones (the bounds of the new reaction are documented to come from them)
                from cobra import Configuration
                conf = Configuration()
                old = conf.bounds
                conf.bounds = (fl(op["cfg"][0]), fl(op["cfg"][1]))
                try:
                    m.add_boundary(met, type=op["type"])
                finally:
                    conf.bounds = old
            else:
                m.add_boundary(met, type=op["type"])
        elif k == "imul":
            r = self.rxn(op["r"])
            r *= fl(op["k"])
        elif k == "remove_genes":
            remove_genes(m, op["gs"], remove_reactions=op["rr"])
        elif k == "rename_genes":
            rename_genes(m, dict(op["map"]))
        elif k == "rename_rxn":
            self.rxn(op["r"]).id = op["new"]
        elif k == "rename_met":
            m.metabolites.get_by_id(op["m"]).id = op["new"]
        elif k == "medium":
            m.medium = {r: fl(v) for r, v in op["medium"]}
        elif k == "add_cons":
            c = m.problem.Constraint(sum(fl(co) * self.rxn(r).flux_expression for r, co in op["terms"]), lb=fl(op["lb"]), ub=fl(op["ub"]), name=op["name"])
            m.add_cons_vars([c])
            self.user_cons.add(op["name"])
        elif k == "rm_cons":
            m.remove_cons_vars([m.constraints[op["name"]]])
            self.user_cons.discard(op["name"])
        elif k == "enter":
            m.__enter__()
            self.depth += 1
        elif k == "exit":
            if self.depth == 0:
                raise IndexError("no open context")
            self.depth -= 1
            m.__exit__(None, None, None)
        elif k == "copy":
            self._replace(m.copy())
        elif k == "deepcopy":
            self._replace(copy.deepcopy(m))
        elif k == "pickle":
            self._replace(pickle.loads(pickle.dumps(m)))
        elif k == "switch_solver":
            m.solver = op["solver"]
        elif k == "slim_optimize":
            m.slim_optimize()
        else:
            raise RuntimeError(f"unknown op {k}")

    def _replace(self, new):
        # contexts do not survive a copy; the trace continues on the new model outside any context
        self.model = new
        self.depth = 0

    def unwind(self):
        """An exception propagating out of all open `with model:` blocks."""
        while self.depth:
            self.depth -= 1
            self.model.__exit__(None, None, None)


# ------------------------------------------------------------------------------------------
# op generator
# ------------------------------------------------------------------------------------------

CTX = ["enter", "enter", "exit", "exit"]
PROFILES = [
    None,                                                                                               # the general mix
    ["set_lb"] * 3 + ["set_ub"] * 3 + ["set_bounds"] * 3 + ["ratchet_up", "ratchet_down", "ko_rxn", "ko_gene", "ko_genes", "obj_coef", "set_dir"] + CTX,   # bounds on a focus reaction
    ["add_mets"] * 5 + ["sub_mets"] * 3 + ["imul", "set_bounds", "rm_mets", "add_model_mets", "set_obj"] + CTX,             # stoichiometry
    ["set_rule"] * 4 + ["ko_gene"] * 2 + ["ko_genes", "remove_genes", "remove_genes", "rename_genes", "rename_genes", "ctx_rename_one", "ctx_rename_one", "rm_rxns", "add_rxns"] + CTX,  # genes and rules
    ["add_rxns"] * 3 + ["rm_rxns"] * 3 + ["readd_rxn"] * 2 + ["rename_rxn"] * 2 + ["rename_met", "ctx_add_rename", "ctx_add_rename", "add_boundary", "rm_mets", "add_model_mets", "set_obj", "obj_coef", "set_obj"] + CTX,  # structure and objective
    ["copy", "copy", "deepcopy", "pickle", "switch_solver", "lifecycle_inf", "lifecycle_inf", "lifecycle_inf", "set_bounds", "set_bounds", "ko_rxn", "ko_gene", "set_ub", "set_lb", "add_rxns", "rm_rxns", "obj_coef", "set_dir", "imul"] + CTX,   # life cycle: copies, pickles, solver switches between edits
    ["rm_rxns"] * 3 + ["ctx_rm_edit"] * 3 + ["detached_rule"] * 3 + ["detached_bounds"] * 2 + ["readd_rxn"] * 3 + ["build_str"] * 3 + ["add_rxns_badid"] * 2 + ["set_rule", "ko_gene", "add_rxns"] + CTX,   # objects outside the model, equations, refused identifiers
]

MODELLED = {"set_lb", "set_ub", "set_bounds", "ko_gene", "ko_rxn", "ko_genes", "obj_coef", "set_obj", "set_dir", "enter", "exit",
            "add_mets", "sub_mets", "set_rule"}


def gen_op(rng, ex: Exec, kinds=None, p_bad=0.12):
    m = ex.model
    rids = [r.id for r in m.reactions]
    mids = [x.id for x in m.metabolites]
    gids = [g.id for g in m.genes]
    bad = rng.random() < p_bad

    focus = ex.__dict__.get("focus")
    if focus not in rids:
        focus = ex.__dict__["focus"] = rng.choice(rids) if rids else None

    def some_r():
        if bad and rng.random() < 0.3 or not rids:
            return rng.choice(RIDS)
        if focus is not None and rng.random() < 0.5:
            return focus          # histories that return to the same reaction again and again
        return rng.choice(rids)

    def cur_bounds(r):
        if r in rids:
            R = m.reactions.get_by_id(r)
            return R.lower_bound, R.upper_bound
        return 0.0, 1000.0
    queue = ex.__dict__.setdefault("queue", [])
    if queue:
        return queue.pop(0)
    kinds = kinds or ["set_lb", "set_ub", "set_bounds", "set_bounds", "add_mets", "add_mets", "sub_mets", "set_rule", "set_rule", "ko_gene",
                      "ko_rxn", "ko_genes", "obj_coef", "set_obj", "set_dir", "add_rxns", "rm_rxns", "add_model_mets", "rm_mets",
                      "add_boundary", "imul", "remove_genes", "rename_genes", "rename_rxn", "rename_met", "readd_rxn", "ctx_add_rename", "enter", "enter", "exit", "exit"]
    k = rng.choice(kinds)
    if k in ("rename_rxn", "rename_met") and ex.depth > 0:
        # The id setters are not context aware: undo functions registered earlier in the context refer to objects by id and
        # fail or leak after a rename (known_findings.json, rename-inside-context).  Inside a context only the scenario
        # "add something new, rename it, leave" is generated (ctx_add_rename), which the code supports.
        k = "set_bounds"
    if k in ("ratchet_up", "ratchet_down"):
        # dependent bound changes whose undo is order sensitive: the range is moved entirely above (below) where it was
        r = some_r()
        lb, ub = cur_bounds(r)
        if not (math.isfinite(lb) and math.isfinite(ub)):
            return {"op": "set_bounds", "r": r, "lb": "-5", "ub": "10"}
        lo, hi, w = Fraction(lb), Fraction(ub), max(Fraction(ub) - Fraction(lb), Fraction(2))
        if k == "ratchet_up":
            seq = [{"op": "set_lb", "r": r, "v": canon.num(lo + (hi - lo) / 2)}, {"op": "set_ub", "r": r, "v": canon.num(hi + 2 * w)},
                   {"op": "set_lb", "r": r, "v": canon.num(hi + w)}]
        else:
            seq = [{"op": "set_ub", "r": r, "v": canon.num(hi - (hi - lo) / 2)}, {"op": "set_lb", "r": r, "v": canon.num(lo - 2 * w)},
                   {"op": "set_ub", "r": r, "v": canon.num(lo - w)}]
        if rng.random() < 0.3:
            seq.append({"op": "set_bounds", "r": r, "lb": canon.num(lo), "ub": canon.num(hi)})
        queue.extend(seq[1:])
        return seq[0]
    if k == "set_lb":
        r = some_r()
        lb, ub = cur_bounds(r)
        if rng.random() < 0.35 and math.isfinite(ub) and math.isfinite(lb):
            # somewhere in the upper half of the current range (often above bounds the reaction had earlier)
            v = canon.num(Fraction(lb) + (Fraction(ub) - Fraction(lb)) * Fraction(rng.randint(2, 4), 4))
            return {"op": k, "r": r, "v": v}
        return {"op": k, "r": r, "v": rng.choice([dy(rng), "-inf", "0", "-1000", dy(rng, -4, 30, 2)])}
    if k == "set_ub":
        r = some_r()
        lb, ub = cur_bounds(r)
        if rng.random() < 0.35 and math.isfinite(ub):
            v = canon.num(Fraction(ub) * 2 + rng.randint(1, 40)) if ub >= 0 else canon.num(Fraction(ub) / 2)
            return {"op": k, "r": r, "v": v}      # push the upper bound out
        return {"op": k, "r": r, "v": rng.choice([dy(rng), "inf", "0", "1000", dy(rng, -30, 4, 2)])}
    if k == "set_bounds":
        lb, ub = gen_bounds(rng)
        if bad:
            lb, ub = ub, lb
        return {"op": k, "r": some_r(), "lb": lb, "ub": ub}
    if k in ("add_mets", "sub_mets"):
        r = some_r()
        own = [y.id for y in m.reactions.get_by_id(r)._metabolites] if r in rids else []
        pool = mids if (mids and rng.random() < 0.8) else MIDS
        if own and rng.random() < 0.5:
            pool = own                 # metabolites the reaction already has
        n = rng.randint(1, 3)
        ms = rng.sample(pool, min(n, len(pool)))
        keys = rng.choice(["obj", "obj", "str", "copy", "copy"])
        if bad and rng.random() < 0.5:
            ms.append("nope")
            keys = "str"
        mets = []
        for x in ms:
            c = dy(rng, -3, 3, 2)
            if r in rids and rng.random() < 0.2:
                R = m.reactions.get_by_id(r)
                cur = {y.id: v for y, v in R._metabolites.items()}
                if x in cur:   # cancel an existing coefficient exactly
                    c = canon.num(-Fraction(cur[x]) if k == "add_mets" else Fraction(cur[x]))
            mets.append([x, c])
        return {"op": k, "r": r, "mets": mets, "combine": rng.random() < 0.7, "keys": keys}
    if k == "set_rule":
        pool = GIDS if rng.random() < 0.5 else (gids or GIDS)
        return {"op": k, "r": some_r(), "rule": gen_rule(rng, rng.sample(pool, min(len(pool), 3)))}
    if k == "ko_gene":
        return {"op": k, "g": rng.choice(gids) if gids and not bad else rng.choice(GIDS)}
    if k == "ko_rxn":
        return {"op": k, "r": some_r()}
    if k == "ko_genes":
        return {"op": k, "gs": rng.sample(gids, rng.randint(0, len(gids))) if gids else []}
    if k == "obj_coef":
        return {"op": k, "r": some_r(), "v": dy(rng, -3, 3, 2)}
    if k == "set_obj":
        rs = rng.sample(rids, min(len(rids), rng.randint(0, 2))) if rids else []
        return {"op": k, "coefs": [[r, dy(rng, -3, 3, 2)] for r in rs]}
    if k == "set_dir":
        return {"op": k, "d": rng.choice(["max", "min", "maximize", "MIN"] + (["up"] if bad else []))}
    if k == "add_rxns" and mids and rng.random() < 0.4:
        # the shape the Lean model covers: one reaction over metabolites of the model, no rule (the id may be taken: then it is ignored)
        pool = rng.sample(mids, min(len(mids), rng.randint(1, 3)))
        st = [[x, dy(rng, -3, 3, 2)] for x in pool]
        st = [[x, c] for x, c in st if Fraction(c) != 0] or [[pool[0], "1"]]
        lb, ub = gen_bounds(rng)
        if bad:
            lb, ub = ub, lb
        return {"op": k, "rxns": [{"id": rng.choice(RIDS), "lb": lb, "ub": ub, "st": st, "rule": ""}], "keys": rng.choice(["obj", "copy"])}
    if k == "add_rxns":
        rx = []
        for _ in range(rng.randint(1, 2)):
            rid = rng.choice(RIDS)
            if any(r["id"] == rid for r in rx):
                continue
            nm = rng.randint(1, 3)
            pool = rng.sample(MIDS, nm)
            st = [[x, dy(rng, -3, 3, 2)] for x in pool]
            st = [[x, c] for x, c in st if Fraction(c) != 0] or [[pool[0], "1"]]
            lb, ub = gen_bounds(rng)
            rx.append({"id": rid, "lb": lb, "ub": ub, "st": st, "rule": gen_rule(rng, rng.sample(GIDS, 3))})
        return {"op": k, "rxns": rx, "keys": rng.choice(["obj", "copy"])}
    if k == "rm_rxns":
        rs = [some_r() for _ in range(rng.randint(1, 2))]
        op = {"op": k, "rs": list(dict.fromkeys(rs)), "orphans": rng.random() < 0.5, "by": rng.choice(["id", "obj"])}
        if bad and rng.random() < 0.6:
            op["junk"] = rng.choice(["none", "int"])
        return op
    if k == "rcopy":
        return {"op": k, "r": some_r()}
    if k == "radd":
        return {"op": k, "r": some_r(), "r2": some_r(), "sign": rng.choice([1, -1])}
    if k == "ctx_rename_one":
        if not gids:
            return {"op": "slim_optimize"}
        return {"op": k, "g": rng.choice(gids), "new": rng.choice([g for g in GIDS + ["gX"] if g not in gids] or ["gX"])}
    if k == "lifecycle_inf":
        if ex.depth != 0 or not rids:
            return {"op": "slim_optimize"}
        lb, ub = rng.choice([("-inf", "inf"), ("-inf", "inf"), ("-inf", "5"), ("-5/2", "inf"), ("-inf", "-1"), ("2", "inf"), ("0", "inf")])
        return {"op": k, "r": some_r(), "lb": lb, "ub": ub, "how": rng.choice(["copy", "deepcopy", "pickle"])}
    if k == "ctx_rm_edit":
        lb, ub = gen_bounds(rng)
        return {"op": k, "r": some_r(), "lb": lb, "ub": ub}
    if k in ("detached_rule", "detached_bounds"):
        cand = [r for r, R in ex.removed.items() if r not in rids and R._model is None]
        if not cand:
            return {"op": "rm_rxns", "rs": [some_r()], "orphans": False, "by": "obj"}
        if k == "detached_bounds":
            lb, ub = gen_bounds(rng)
            return {"op": k, "r": rng.choice(cand), "lb": lb, "ub": ub}
        R = ex.removed[rng.choice(cand)]
        keep = sorted(g.id for g in R.genes)
        pool = (keep[:1] if keep else []) + rng.sample(GIDS, 2)
        return {"op": k, "r": R.id, "rule": rng.choice([" and ".join(pool[:2]), " or ".join(pool), pool[0] if pool else ""])}
    if k == "build_str":
        ms = rng.sample(mids, min(len(mids), 3)) if mids else ["A"]
        a, b = ms[0], ms[-1]
        eq = rng.choice([f"2 {a} + {a} --> {b}", f"{a} + {b} --> {a} + {ms[len(ms) // 2]}", f"{a} <=> 2 {b}", f"{a} + {a} <-- {b}", f"3 {a} --> "])
        return {"op": k, "r": some_r(), "eq": eq}
    if k == "readd_rxn":
        cand = [r for r, R in ex.removed.items() if r not in rids and R._model is None]
        if not cand:
            return {"op": "rm_rxns", "rs": [some_r()], "orphans": False, "by": "obj"}
        return {"op": k, "r": rng.choice(cand)}
    if k == "set_functional":
        return {"op": k, "g": rng.choice(gids) if gids else rng.choice(GIDS), "v": rng.random() < 0.4}
    if k == "ctx_add_rename":
        if ex.depth >= 3:
            return {"op": "exit"}
        free_r = [x for x in RIDS if x not in rids]
        fresh = [x for x in FRESH_R if x not in rids]
        if not free_r or not fresh or not mids:
            return {"op": "enter"}
        rid = rng.choice(free_r)
        lb, ub = gen_bounds(rng)
        what = rng.choice(["rxn", "rxn", "boundary", "met"])
        if what == "rxn":
            seq = [{"op": "enter"}, {"op": "add_rxns", "rxns": [{"id": rid, "lb": lb, "ub": ub, "st": [[rng.choice(mids), dy(rng, 1, 3, 2)]], "rule": ""}], "keys": "obj"},
                   {"op": "rename_rxn", "r": rid, "new": rng.choice(fresh), "force": True}, {"op": "exit"}]
        elif what == "boundary":
            mid = rng.choice(mids)
            typ = rng.choice(["demand", "sink"])
            bid = {"demand": "DM_", "sink": "SK_"}[typ] + mid
            if bid in rids:
                return {"op": "enter"}
            seq = [{"op": "enter"}, {"op": "add_boundary", "m": mid, "type": typ}, {"op": "rename_rxn", "r": bid, "new": rng.choice(fresh), "force": True}, {"op": "exit"}]
        else:
            free_m = [x for x in MIDS if x not in mids]
            if not free_m:
                return {"op": "enter"}
            mid = rng.choice(free_m)
            seq = [{"op": "enter"}, {"op": "add_model_mets", "ms": [mid]}, {"op": "rename_met", "m": mid, "new": rng.choice(FRESH_M), "force": True}, {"op": "exit"}]
        queue.extend(seq[1:])
        return seq[0]
    if k == "rename_rxn":
        return {"op": k, "r": some_r(), "new": rng.choice(RIDS)}
    if k == "rename_met":
        # not onto an identifier that a reaction outside the model still holds as another object: re-adding that reaction then meets two of its
        # own metabolites under one id (known_findings.json: readd-after-rename-onto-detached-metabolite-id)
        held = {x.id for R in ex.removed.values() if R._model is None for x in R._metabolites}
        free = [x for x in MIDS if x not in held]
        if not free:
            return {"op": "slim_optimize"}
        return {"op": k, "m": rng.choice(mids) if mids else "A", "new": rng.choice(free)}
    if k == "rename_genes":
        if not gids:
            return {"op": k, "map": [[rng.choice(GIDS), rng.choice(GIDS)]]}
        olds = rng.sample(gids, min(len(gids), rng.choice([1, 1, 1, 2, 3])))    # mostly one gene: the others must come through untouched
        # new names are ids no gene of the model has (renaming onto an existing gene or chains a->b, b->c are left out:
        # the documentation does not say what they mean)
        free = [g for g in GIDS + ["gX"] if g not in gids] or ["gX"]
        targets = [rng.choice(free) for _ in olds]
        if len(olds) > 1 and rng.random() < 0.4:
            targets = [targets[0]] * len(olds)      # several genes merged into one new id
        return {"op": k, "map": [[a, b] for a, b in zip(olds, targets)]}
    if k == "add_model_mets":
        ms = rng.sample(MIDS, 1 if rng.random() < 0.6 else 2)
        if bad and rng.random() < 0.5:
            ms = ms + [ms[0]]
        return {"op": k, "ms": ms}
    if k == "rm_mets":
        return {"op": k, "ms": rng.sample(mids, min(len(mids), 1 if rng.random() < 0.6 else 2)) if mids else [], "destructive": rng.random() < 0.35}
    if k == "add_boundary":
        return {"op": k, "m": rng.choice(mids) if mids else "A", "type": rng.choice(["exchange", "demand", "sink"]),
                "cfg": rng.choice([None, None, ["-10", "10"], ["-5/2", "40"], ["0", "25"]])}
    if k == "imul":
        return {"op": k, "r": some_r(), "k": rng.choice(["2", "-1", "1/2", "-2", "4"])}
    if k == "remove_genes":
        return {"op": k, "gs": rng.sample(gids, rng.randint(1, min(2, len(gids)))) if gids else [rng.choice(GIDS)], "rr": rng.random() < 0.5}
    if k == "add_rxns_badid":
        # an identifier the solver refuses (whitespace): add_reactions raises while the variables are being built.  Outside a context the
        # model is left half-updated (known finding add-reactions-refused-identifier-not-atomic); the generated scenario is the one the
        # context has to take back: the exception ends a `with model:` block
        if not mids:
            return {"op": "slim_optimize"}
        return {"op": "ctx_bad_add", "id": rng.choice(["r 9", "bad id"]), "m": rng.choice(mids), "good": rng.choice(FRESH_R), "first": rng.random() < 0.5,
                "alone": rng.random() < 0.5}
    if k in ("copy", "deepcopy", "pickle") and "exact" in type(m.solver).__module__:
        # optlang rebuilds a copied glpk_exact problem with variables of the plain glpk interface; such a copy cannot take a removed variable
        # back (known_findings.json: glpk-exact-copy-mixed-interface): copies are made from the glpk interface only
        return {"op": "switch_solver", "solver": "glpk"} if ex.depth == 0 else {"op": "slim_optimize"}
    if k in ("enter", "exit", "copy", "deepcopy", "pickle", "slim_optimize"):
        return {"op": k}
    if k == "switch_solver":
        if ex.depth > 0:
            # inside a context the switch cannot be taken back once other undo functions hold objects of the old solver
            # (known_findings.json: solver-switch-inside-context)
            return {"op": "slim_optimize"}
        return {"op": k, "solver": rng.choice(["glpk", "glpk_exact"])}
    raise RuntimeError(k)

"""Generator and dump of 'rich' models for the I/O and copy properties (C10, C11, C12).

A rich spec carries everything the round-trip properties list: awkward identifiers, bounds below/above the configured defaults and infinite,
min or max objective, nested gene rules, compartments, names, formulas, charges, subsystems, notes, annotations, groups.
"""
from __future__ import annotations

import math
import warnings
from fractions import Fraction as F

import canon
import common

common.ensure_repo_on_path()
import cobra  # noqa: E402
from cobra import Metabolite, Model, Reaction  # noqa: E402
from cobra.core import Group  # noqa: E402

# identifiers: letters, digits, leading digits, and the awkward characters the properties name (no whitespace: optlang refuses it)
R_IDS = ["r1", "R_2", "3hb", "r.4", "EX_glc(e)", "r-5", "r/6:x", "ATPM", "r=7", "r'8", "R9~x", "biomass[c]"]
M_IDS = ["a_c", "b_e", "2pg_c", "m.1_c", "h2o[c]", "x-y_c", "glc__D_e", "q:r_c", "z'_c"]
G_IDS = ["g1", "b0001", "G-2.1", "9gene", "g:4", "g_5", "if"]
# identifiers that SBML's __ord__ escaping cannot round-trip (known finding C10): never used for the SBML property
RISKY_IDS = ["a__1.b", "_5__x", "a__46__b"]


def num(x):
    return canon.num(x)


def gen_rule(rng, genes):
    if not genes or rng.random() < 0.3:
        return ""

    def t(d):
        if d == 0 or rng.random() < 0.4:
            return rng.choice(genes)
        op = rng.choice([" and ", " or "])
        return "(" + op.join(t(d - 1) for _ in range(rng.choice([2, 2, 3]))) + ")"
    s = t(2)
    return s[1:-1] if s.startswith("(") and s.count("(") == 1 else s


def gen_bounds(rng, sbml_safe=False):
    k = rng.random()
    if k < 0.05:
        return "-inf", "inf"                                             # unbounded both ways
    if k < 0.25:
        return "0", rng.choice(["1000", "10", "inf", "7/2"])
    if k < 0.5:
        return rng.choice(["-1000", "-10", "-inf", "-5/2"]), rng.choice(["1000", "10", "inf", "5"])
    if k < 0.6:
        return "2000", rng.choice(["3000", "inf", "2000"])              # above the default upper bound
    if k < 0.7:
        return rng.choice(["-3000", "-inf"]), "-2000"                   # below the default lower bound
    if k < 0.8:
        return "-1/8", "500"
    if k < 0.9:
        return "0", "0"
    return rng.choice(["1/4", "1"]), rng.choice(["1", "20"])


def gen_rich_spec(rng, sbml=False):
    nm = rng.randint(2, 5)
    nr = rng.randint(2, 5)
    extra = sbml and rng.random() < 0.3          # identifiers with letters and digits outside ASCII
    mids = rng.sample(M_IDS + (["αKG_c", "fe²_e"] if extra else []), nm)
    rids = rng.sample(R_IDS + (["é1", "Rü_2"] if extra else []), nr)
    gids = rng.sample(G_IDS + (["gü1"] if extra else []), rng.randint(0, 4))
    mets = []
    for m in mids:
        comp = "e" if m.endswith("_e") else "c"
        if not sbml and rng.random() < 0.08:
            comp = None
        mets.append({"id": m, "name": rng.choice(["", "glucose", "D-Glucose 6-phosphate", "x y"]), "compartment": comp,
                     "formula": rng.choice([None, "C6H12O6", "H2O", "C3H4O10P2"]), "charge": rng.choice([None, 0, -2, 1]),
                     "notes": rng.choice([{}, {"note": "hand made"}, {"a": "1", "b": "two words"}]),
                     "annotation": rng.choice([{}, {"kegg.compound": "C00031"}, {"chebi": ["CHEBI:17234", "CHEBI:4167"], "sbo": "SBO:0000247"}])})
    rxns = []
    for r in rids:
        k = rng.randint(1, min(3, nm))
        st = {m: num(F(rng.choice([-3, -2, -1, 1, 1, 2, 5]), rng.choice([1, 1, 2]))) for m in rng.sample(mids, k)}
        lb, ub = gen_bounds(rng)
        rxns.append({"id": r, "name": rng.choice(["", "Hexokinase", "ATP maintenance requirement"]), "lb": lb, "ub": ub, "st": st,
                     "rule": gen_rule(rng, gids), "subsystem": rng.choice(["", "Glycolysis", "Transport, extracellular"]),
                     "notes": rng.choice([{}, {"confidence": "3"}]),
                     "annotation": rng.choice([{}, {"ec-code": "2.7.1.1"}, {"rhea": ["10000", "10001"], "sbo": "SBO:0000176"}])})
    used = sorted({g for r in rxns for g in gids if g in r["rule"].replace("(", " ").replace(")", " ").split()})
    genes = [{"id": g, "name": rng.choice(["", "hxk", g]), "annotation": rng.choice([{}, {"ncbigene": "12345"}])} for g in used]
    obj = {rng.choice(rids): num(F(rng.choice([1, 1, 2, -1]), rng.choice([1, 2])))}
    if rng.random() < 0.2:
        obj[rng.choice(rids)] = "1"
    spec = {"id": rng.choice(["model_1", "e_coli_core", "m"]), "name": rng.choice([None, "A model"]), "mets": mets, "rxns": rxns, "genes": genes,
            "obj": obj, "dir": rng.choice(["max", "max", "min"]),
            "compartments": {"c": "cytosol", "e": "extracellular"} if rng.random() < 0.5 else {}}
    groups = []
    if not sbml:
        # values of notes / annotations that are false in a boolean context (the dict formats carry any JSON value)
        for o in mets + rxns + genes:
            if rng.random() < 0.12:
                o["notes"] = rng.choice([{"confidence_level": 0}, {"curated": False, "comment": ""}, {"refs": []}, {"score": 0.0, "k": "v"}])
            if rng.random() < 0.08:
                o["annotation"] = rng.choice([{"sbo": "SBO:0000176", "xrefs": []}, {"ec-code": ""}, {"level": 0}])
    if sbml:
        for gid in rng.sample(["g_1", "grp.2-x", "Glycolysis / Gluconeogenesis", "9th"], rng.choice([0, 1, 1, 2])):
            groups.append({"id": gid, "name": rng.choice(["a pathway", "", "Transport, extracellular"]),
                           "kind": rng.choice(["collection", "classification", "partonomy"]),
                           "members": [["r", x] for x in rng.sample(rids, rng.randint(0, nr))] + [["m", x] for x in rng.sample(mids, rng.randint(0, 2))]
                           + [["g", x] for x in rng.sample(used, min(len(used), rng.randint(0, 2)))]})
        # values the XML layer has to escape or that need all 15 digits
        for o in mets + rxns:
            if rng.random() < 0.15:
                o["name"] = rng.choice(['a & b', 'x < y', '"quoted"', "5'-end", "α-ketoglutarate"])
            if rng.random() < 0.15:
                o["notes"] = rng.choice([{"k": "v: w"}, {"x": "a<b & c"}, {"k": 'q "x"'}, {"two words": "1 < 2"}])
            if rng.random() < 0.15:
                o["annotation"] = rng.choice([{"kegg.reaction": ["R00001"]}, {"my_db": "X1"}, {"inchi_key": "WQZGKKKJIJFFOK-GASJEMHNSA-N"},
                                              {"bigg.metabolite": "glc__D", "sbo": "SBO:0000247"},
                                              # identifiers of one provider that contain one another, in either order
                                              {"ec-code": ["1.1.1.10", "1.1.1.1"]}, {"kegg.compound": ["C00031", "C000312", "C0003"]},
                                              {"bigg.metabolite": ["glc", "glc__D"], "chebi": ["CHEBI:4167", "CHEBI:41"]}])
        for g in genes:
            if rng.random() < 0.15:
                g["annotation"] = rng.choice([{"ncbigene": ["12345", "123"]}, {"uniprot": ["P0A9B2", "P0A9B"], "ncbigene": "945"}])
        for r in rxns:
            if rng.random() < 0.15:
                k = rng.choice(list(r["st"]))
                r["st"][k] = num(rng.choice([1, -1]) * rng.choice([1 / 3, 0.1, 2.5e-4, 123456.789]))
            if rng.random() < 0.1:
                r["lb"], r["ub"] = rng.choice([("-1/3", "1/3"), ("1/7", "123456789/1000"), ("-1/10000000", "1/3")])
        if rng.random() < 0.1:
            spec["obj"] = {rng.choice(rids): "1/3"}
    spec["groups"] = groups
    if not sbml and rng.random() < 0.4:
        # notes / annotation of the model itself (most models have none: the loaders then fall back on their defaults)
        spec["model_notes"] = rng.choice([{"curated by": "hand"}, {"a": "1", "refs": ["x", "y"]}])
        spec["model_annotation"] = rng.choice([{"taxonomy": "511145"}, {"bigg.model": ["e_coli_core", "iJO1366"], "sbo": "SBO:0000624"}])
    return spec


def fl(s):
    if s == "inf":
        return math.inf
    if s == "-inf":
        return -math.inf
    return float(F(s))


def build(spec) -> Model:
    with warnings.catch_warnings():
        warnings.simplefilter("ignore")
        m = Model(spec["id"])
        if spec.get("name"):
            m.name = spec["name"]
        mets = {}
        for x in spec["mets"]:
            M = Metabolite(x["id"], name=x["name"], compartment=x["compartment"], formula=x["formula"], charge=x["charge"])
            M.notes = dict(x["notes"])
            M.annotation = {k: (list(v) if isinstance(v, list) else v) for k, v in x["annotation"].items()}
            mets[x["id"]] = M
        m.add_metabolites(list(mets.values()))
        rx = []
        for x in spec["rxns"]:
            R = Reaction(x["id"], name=x["name"], subsystem=x["subsystem"], lower_bound=fl(x["lb"]), upper_bound=fl(x["ub"]))
            R.add_metabolites({mets[k]: fl(v) for k, v in x["st"].items()})
            if x["rule"]:
                R.gene_reaction_rule = x["rule"]
            R.notes = dict(x["notes"])
            R.annotation = {k: (list(v) if isinstance(v, list) else v) for k, v in x["annotation"].items()}
            rx.append(R)
        m.add_reactions(rx)
        for g in spec["genes"]:
            if g["id"] in m.genes:
                G = m.genes.get_by_id(g["id"])
                G.name = g["name"]
                G.annotation = dict(g["annotation"])
                if g.get("notes"):
                    G.notes = dict(g["notes"])
        m.objective = {m.reactions.get_by_id(k): fl(v) for k, v in spec["obj"].items()}
        m.objective_direction = spec["dir"]
        if spec.get("compartments"):
            m.compartments = dict(spec["compartments"])
        if spec.get("model_notes"):
            m.notes = dict(spec["model_notes"])
        if spec.get("model_annotation"):
            m.annotation = {k: (list(v) if isinstance(v, list) else v) for k, v in spec["model_annotation"].items()}
        for g in spec.get("groups", []):
            G = Group(g["id"], name=g["name"], kind=g["kind"])
            mem = []
            for kind, i in g["members"]:
                dl = {"r": m.reactions, "m": m.metabolites, "g": m.genes}[kind]
                if i in dl:
                    mem.append(dl.get_by_id(i))
            G.add_members(mem)
            m.add_groups([G])
    return m


def truth_table(gpr):
    genes = sorted(gpr.genes) if gpr.body is not None else []
    if len(genes) > 8:
        return "skip"
    return "".join("1" if gpr.eval({g for i, g in enumerate(genes) if (mask >> i) & 1}) else "0" for mask in range(2 ** len(genes)))


def norm_ann(a):
    out = {}
    for k, v in (a or {}).items():
        out[k] = sorted(v) if isinstance(v, (list, tuple, set)) else v
    return dict(sorted(out.items()))


def rich_dump(model, with_groups=True, bounds_digits=None, model_meta=False) -> dict:
    """Everything the round-trip properties list, in canonical form (rules as truth tables, annotations with sorted lists)."""
    def b(x):
        if bounds_digits is not None and math.isfinite(x) and x != 0:
            return float(f"{x:.{bounds_digits}g}")
        return canon.num(x)
    c = canon.content_dump(model)
    out = {"id": model.id, "name": model.name, "dir": model.objective_direction, "compartments": dict(sorted(model.compartments.items())),
           "rxns": {}, "mets": {}, "genes": {}}
    if model_meta:
        # notes and annotation of the model itself (and of its groups)
        out["model_notes"] = dict(sorted((model.notes or {}).items()))
        out["model_annotation"] = norm_ann(model.annotation)
        if with_groups:
            out["group_meta"] = {g.id: {"notes": dict(sorted((g.notes or {}).items())), "annotation": norm_ann(g.annotation)} for g in model.groups}
    for r in model.reactions:
        out["rxns"][r.id] = {"name": r.name, "lb": b(r.lower_bound), "ub": b(r.upper_bound), "st": c["rxns"][r.id]["st"],
                             "genes": c["rxns"][r.id]["genes"], "tt": truth_table(r.gpr), "obj": c["rxns"][r.id]["obj"],
                             "subsystem": r.subsystem or "", "notes": dict(sorted((r.notes or {}).items())), "annotation": norm_ann(r.annotation)}
    for m in model.metabolites:
        out["mets"][m.id] = {"name": m.name, "compartment": m.compartment, "formula": m.formula, "charge": m.charge,
                             "notes": dict(sorted((m.notes or {}).items())), "annotation": norm_ann(m.annotation)}
    for g in model.genes:
        out["genes"][g.id] = {"name": g.name, "annotation": norm_ann(g.annotation), "notes": dict(sorted((g.notes or {}).items()))}
    if with_groups:
        out["groups"] = {g.id: {"name": g.name, "kind": g.kind, "members": sorted(f"{type(x).__name__}:{x.id}" for x in g.members)}
                         for g in model.groups}
    for k in ("rxns", "mets", "genes"):
        out[k] = dict(sorted(out[k].items()))
    return out


def diff(a, b, path=""):
    if isinstance(a, dict) and isinstance(b, dict):
        for k in sorted(set(a) | set(b), key=str):
            if k not in a:
                return f"{path}/{k} appeared ({b[k]!r})"
            if k not in b:
                return f"{path}/{k} disappeared"
            if a[k] != b[k]:
                return diff(a[k], b[k], f"{path}/{k}")
    return f"{path}: {a!r} -> {b!r}"

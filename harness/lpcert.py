"""Certified LP answers: exact_lp (untrusted) + the Lean checker (proved sound)."""
from __future__ import annotations

import json
from fractions import Fraction as F

import common
import exact_lp


def q(x):
    if x is None:
        return None
    x = F(x)
    return f"{x.numerator}/{x.denominator}" if x.denominator != 1 else str(x.numerator)


def lp_json(n, vb, rows, obj):
    return {"n": n, "vb": [[q(lo), q(hi)] for lo, hi in vb], "rows": [[[q(a) for a in co], q(lo), q(hi)] for co, lo, hi in rows],
            "obj": [q(c) for c in obj]}


def cert_line(lp, res):
    d = {"lp": lp_json(*lp), "kind": res[0]}
    if res[0] == "optimal":
        d["x"] = [q(v) for v in res[1]]
        d["y"] = [q(v) for v in res[2]]
    elif res[0] == "infeasible":
        d["y"] = [q(v) for v in res[1]]
    else:
        d["x"] = [q(v) for v in res[1]]
        d["z"] = [q(v) for v in res[2]]
    return json.dumps(d)


def certify(lps):
    """lps: list of (n, vb, rows, obj) maximisation problems.  Returns per LP a dict
    {"status": optimal|infeasible|unbounded, "value": Fraction|None, "x": [...], "y": [...], "rc": [...]}; raises if the Lean
    checker rejects a certificate (harness error, never a verdict)."""
    results = [exact_lp.solve(*lp) for lp in lps]
    out = common.run_driver_persistent("lp", [cert_line(lp, r) for lp, r in zip(lps, results)])
    certified = []
    for lp, r, line in zip(lps, results, out):
        v = json.loads(line)
        if not v.get("ok"):
            raise RuntimeError(f"certificate rejected by the Lean checker: {r[0]} for {lp_json(*lp)} -> {v}")
        d = {"status": r[0], "value": None}
        if r[0] == "optimal":
            d.update(value=F(v["value"]), x=r[1], y=r[2], rc=[F(t) for t in v["rc"]])
        elif r[0] == "unbounded":
            d.update(x=r[1], z=r[2])
        else:
            d.update(y=r[1])
        certified.append(d)
    return certified

"""C04 — FBA returns a true optimum, or a true verdict that none exists.

PROOF: lean/CobraModel/Props/C04.lean — soundness of the certificate checker (optimal / infeasible / unbounded) and the
       status / error-value / exception decision logic with the table regenerated from src/cobra/exceptions.py.
TIE:   every generated instance is solved by an untrusted exact simplex; its certificate is accepted only by the proved
       Lean checker (lean --run), which yields the true verdict and optimum; cobrapy's answers are compared with that.
"""
from __future__ import annotations

import json
import logging
import math
import sys
import warnings
from fractions import Fraction as F

import canon
import common
import coreops
import fbagen
import lpcert
import auxcorr
import translate_status

logging.disable(logging.CRITICAL)
common.ensure_repo_on_path()
import cobra  # noqa: E402
from cobra.exceptions import OPTLANG_TO_EXCEPTIONS_DICT, OptimizationError  # noqa: E402

TOL = 1e-6


def close(a, b, tol=TOL):
    return abs(a - b) <= tol * (1 + abs(b))


HISTORIES = ["plain", "plain", "two_steps_aux_var", "sorted", "reversed", "copy", "pickle", "readd_first", "context_edit", "rejected_edits", "rejected_edits"]


def build_with_history(spec, history):
    """The same flux-balance problem reached through different public-API histories."""
    import pickle
    if history == "two_steps_aux_var" and len(spec["rxns"]) >= 2:
        k = len(spec["rxns"]) // 2
        first = dict(spec, rxns=spec["rxns"][:k], obj={}, groups=[])
        m = coreops.build_model(first)
        aux = m.problem.Variable("aux_user_variable", lb=0, ub=1)
        m.add_cons_vars([aux])
        from cobra import Metabolite, Reaction
        rx = []
        for r in spec["rxns"][k:]:
            R = Reaction(r["id"], lower_bound=coreops.fl(r["lb"]), upper_bound=coreops.fl(r["ub"]))
            R.add_metabolites({(m.metabolites.get_by_id(x) if x in m.metabolites else Metabolite(x, compartment="c")): coreops.fl(c)
                               for x, c in r["st"].items()})
            rx.append(R)
        m.add_reactions(rx)
        if spec["obj"]:
            m.objective = {m.reactions.get_by_id(x): coreops.fl(c) for x, c in spec["obj"].items()}
        m.objective_direction = spec["dir"]
        return m
    m = coreops.build_model(spec)
    if history == "sorted":
        m.reactions.sort()
        m.metabolites.sort()
    elif history == "reversed":
        m.reactions.reverse()
    elif history == "copy":
        m = m.copy()
    elif history == "pickle":
        m = pickle.loads(pickle.dumps(m))
    elif history == "readd_first" and len(m.reactions) > 1:
        R = m.reactions[0]
        coef = R.objective_coefficient
        m.remove_reactions([R])
        m.add_reactions([R])
        if coef:
            R.objective_coefficient = coef
    elif history == "context_edit":
        with m:
            m.reactions[0].bounds = (0, 0)
            m.slim_optimize()
    elif history == "rejected_edits":
        # assignments the model refuses must leave nothing behind
        import math as _m
        for R in list(m.reactions)[:3]:
            for attr, val in (("lower_bound", R.upper_bound + 7 if _m.isfinite(R.upper_bound) else None),
                              ("upper_bound", R.lower_bound - 7 if _m.isfinite(R.lower_bound) else None)):
                if val is None:
                    continue
                try:
                    setattr(R, attr, val)
                except ValueError:
                    pass
            try:
                R.bounds = (5, -5)
            except ValueError:
                pass
        m.slim_optimize()
        # a valid edit of the other bound afterwards, and back
        R = m.reactions[0]
        lb, ub = R.bounds
        R.upper_bound = ub
        R.lower_bound = lb
    import zlib
    h = zlib.crc32(json.dumps(spec, sort_keys=True).encode())
    if h % 3 == 0 and len(m.reactions) and len(m.metabolites) > 1:
        # stoichiometry edits that cancel exactly (decided from the content of the instance: the case stream stays as it was): a metabolite
        # the reaction does not use is added and subtracted again, directly and through a context
        R = m.reactions[h % len(m.reactions)]
        others = [x for x in m.metabolites if x not in R.metabolites]
        if others:
            X = others[(h // 7) % len(others)]
            if (h // 3) % 2 == 0:
                R.add_metabolites({X: 2.0})
                R.subtract_metabolites({X: 2.0})
            else:
                with m:
                    R.add_metabolites({X: -1.0})
    return m


def status_table_stage(ctx):
    """`check_solver_status` vs `ReplyM.checkSolverStatus`, exhaustively: every status constant of optlang.interface, None and an unknown status,
    with raise_error off and on.  (The domain is finite: this comparison is complete, not sampled.)"""
    import optlang.interface as oi
    from cobra.util.solver import check_solver_status
    statuses = sorted({v for k, v in vars(oi).items() if k.isupper() and isinstance(v, str) and v == k.lower()}) + [None, "no_such_status"]
    lines, reals = [], []
    for st in statuses:
        for flag in (False, True):
            with warnings.catch_warnings():
                warnings.simplefilter("ignore")
                try:
                    check_solver_status(st, raise_error=flag)
                    real = None
                except Exception as e:
                    real = "OptimizationError" if isinstance(e, OptimizationError) else type(e).__name__
            lines.append(json.dumps({"build": "checkStatus", "status": st, "raise": flag}))
            reals.append((st, flag, real))
    outs = [json.loads(l) for l in common.run_driver_persistent("auxprob", lines)]
    bad = [(st, flag, real, o.get("raises", o)) for (st, flag, real), o in zip(reals, outs) if "bad-line" in o or o["raises"] != real]
    if bad:
        ctx.broken.append({"kind": "correspondence", "name": "check_solver_status vs ReplyM.checkSolverStatus (exhaustive)",
                           "detail": "; ".join(f"status={st!r} raise_error={flag}: code {'returns' if real is None else 'raises ' + real}, model "
                                               f"{'returns' if mo is None else 'raises ' + str(mo)}" for st, flag, real, mo in bad[:6])})
    ctx.coverage["status_table"] = {"statuses": len(statuses), "pairs_compared": len(outs), "mismatches": len(bad)}


def check_instance(spec, truth, interface, history="plain"):
    """Compare cobrapy on one instance with the certified truth.  Returns a list of failure strings."""
    fails = []
    (n, vb, rows, c), rids, mids, sign = fbagen.net_lp(spec)
    with warnings.catch_warnings():
        warnings.simplefilter("ignore")
        try:
            m = build_with_history(spec, history)
        except Exception as e:
            # every step of a history is a valid public call (rejected assignments are caught inside): a raise here is the code's doing
            return [f"a valid edit in the build history '{history}' raised {type(e).__name__}: {str(e)[:200]}"]
        if interface != "glpk":
            m.solver = interface
        before = canon.content_dump(m)
        sol = None
        try:
            sol = m.optimize()
            status = sol.status
        except OptimizationError as e:
            # check_solver_status raises for statuses without primal values (e.g. unbounded): not an optimum either
            status = m.solver.status
            if truth["status"] == "optimal":
                return [f"optimize() raised {type(e).__name__} although an optimum exists: {e}"]
        except Exception as e:
            return [f"optimize() raised {type(e).__name__}: {e}"]
        if truth["status"] == "optimal":
            vstar = float(sign * truth["value"])
            if status != "optimal":
                return [f"true optimum {vstar} exists but status is {status!r}"]
            if not close(sol.objective_value, vstar):
                fails.append(f"objective_value {sol.objective_value} != true optimum {vstar}")
            v = [sol.fluxes[r] for r in rids]
            for (lo, hi), x, r in zip(vb, v, rids):
                if (lo is not None and x < float(lo) - TOL) or (hi is not None and x > float(hi) + TOL):
                    fails.append(f"flux of {r} = {x} violates its bounds ({lo}, {hi})")
            for (co, _, _), mid in zip(rows, mids):
                s = sum(float(a) * x for a, x in zip(co, v))
                if abs(s) > TOL * 10:
                    fails.append(f"steady state violated at {mid}: {s}")
            cobj = [float(F(spec["obj"].get(r, "0"))) for r in rids]
            cv = sum(a * x for a, x in zip(cobj, v))
            if not close(sol.objective_value, cv, 1e-7):
                fails.append(f"objective_value {sol.objective_value} != objective at the returned fluxes {cv}")
            # duals: reduced costs d = c - S^T y must have complementary-slackness signs, and equal the reported ones
            y = [sol.shadow_prices[mid] for mid in mids]
            dmax = 1 if spec["dir"] == "max" else -1
            for j, r in enumerate(rids):
                d = cobj[j] - sum(float(rows[i][0][j]) * y[i] for i in range(len(mids)))
                if not close(sol.reduced_costs[r], d, 1e-6):
                    fails.append(f"reduced cost of {r} = {sol.reduced_costs[r]}, but c - S^T y = {d}")
                lo, hi = vb[j]
                dd = d * dmax
                if dd > 1e-6 and not (hi is not None and abs(v[j] - float(hi)) <= 1e-6):
                    fails.append(f"shadow prices are not optimal duals: {r} has improving reduced cost {d} but is not at its upper bound")
                if dd < -1e-6 and not (lo is not None and abs(v[j] - float(lo)) <= 1e-6):
                    fails.append(f"shadow prices are not optimal duals: {r} has reduced cost {d} but is not at its lower bound")
            # accessors
            try:
                for r in rids[:3]:
                    R = m.reactions.get_by_id(r)
                    if R.flux != sol.fluxes[r] or not close(R.reduced_cost, sol.reduced_costs[r], 1e-12):
                        fails.append(f"accessor of {r} disagrees with the Solution")
                for mid in mids[:2]:
                    if not close(m.metabolites.get_by_id(mid).shadow_price, sol.shadow_prices[mid], 1e-12):
                        fails.append(f"shadow_price accessor of {mid} disagrees with the Solution")
            except Exception as e:
                fails.append(f"accessor raised {type(e).__name__}: {e}")
            sv = m.slim_optimize()
            if not close(sv, vstar):
                fails.append(f"slim_optimize() = {sv} != true optimum {vstar}")
            # snapshot: later edits / optimisations do not alter the Solution
            snap = (sol.status, sol.objective_value, sol.fluxes.copy(), sol.reduced_costs.copy(), sol.shadow_prices.copy())
            R = m.reactions.get_by_id(rids[0])
            R.bounds = (0, 0)
            m.objective = {m.reactions.get_by_id(rids[-1]): 1.0}
            try:
                m.optimize()
            except OptimizationError:
                pass
            m.slim_optimize()
            if (sol.status, sol.objective_value) != snap[:2] or not sol.fluxes.equals(snap[2]) or not sol.reduced_costs.equals(snap[3]) \
                    or not sol.shadow_prices.equals(snap[4]):
                fails.append("a returned Solution changed after later edits / optimisations")
        else:
            if status == "optimal":
                return [f"problem is truly {truth['status']} but optimize() reports optimal with value {sol.objective_value if sol is not None else None}"]
            sv = m.slim_optimize()
            if not (isinstance(sv, float) and math.isnan(sv)):
                fails.append(f"slim_optimize() on a {truth['status']} problem returned {sv} instead of nan")
            for ev in (-7.5, 0, 0.0, float("inf"), False):
                try:
                    sv = m.slim_optimize(error_value=ev)
                except Exception as e:
                    fails.append(f"slim_optimize(error_value={ev!r}) raised {type(e).__name__} instead of returning the value")
                    continue
                if sv != ev:
                    fails.append(f"slim_optimize(error_value={ev!r}) returned {sv}")
            st = m.solver.status
            want = OPTLANG_TO_EXCEPTIONS_DICT.get(st, OptimizationError)
            try:
                m.slim_optimize(error_value=None)
                fails.append("slim_optimize(error_value=None) did not raise")
            except Exception as e:
                if type(e) is not want:
                    fails.append(f"slim_optimize(error_value=None) raised {type(e).__name__}, status {st!r} maps to {want.__name__}")
            try:
                m.optimize(raise_error=True)
                fails.append("optimize(raise_error=True) did not raise")
            except OptimizationError:
                pass
            except Exception as e:
                fails.append(f"optimize(raise_error=True) raised {type(e).__name__}")
            try:
                _ = m.reactions[0].flux
                if st not in ("feasible",):
                    pass
            except Exception:
                pass
            if m.objective_direction != spec["dir"]:
                fails.append("objective direction changed by a failed optimisation")
    return fails


def run(ctx):
    if getattr(ctx, "replay", None):
        data = json.loads(open(ctx.replay).read())
        v = data.get("violation") or {}
        if "spec" in v:
            lp = fbagen.net_lp(v["spec"])[0]
            truth = lpcert.certify([lp])[0]
            fails = check_instance(v["spec"], truth, v.get("interface", "glpk"), v.get("history", "plain"))
            print(json.dumps({"spec": v["spec"], "truth": truth["status"], "failures": fails}, indent=1, default=str))
            if fails:
                print(f"VIOLATION property=C04 replay={ctx.replay}")
                return 1
        return 0
    common.proof_stage(ctx, "CobraModel.Props.C04", extra_scan=["CobraModel/Lemmas/LP.lean", "CobraModel/Model/LP.lean"] + auxcorr.SCAN,
                       regenerate=translate_status.regenerate)
    # the problem slim_optimize hands to GLPK vs `AuxM.Net.fba` (finite, one-sided and infinite bounds, both directions, any linear objective)
    auxcorr.stage(ctx, [("Model.slim_optimize", lambda make, spec, rng: auxcorr.pairs_fba(make()))], fbagen.gen_fba_spec, ctx.scale(80, 1500))
    status_table_stage(ctx)
    rng = ctx.rng
    n = ctx.scale(600, 12000)
    split = {"optimal": 0, "infeasible": 0, "unbounded": 0}
    distinct = set()
    samples = []
    done = 0
    certs = 0
    ifaces = {"glpk": 0, "glpk_exact": 0}
    hist = {}
    for entry in common.load_corpus("C04"):
        truth0 = lpcert.certify([fbagen.net_lp(entry["spec"])[0]])[0]
        f0 = check_instance(entry["spec"], truth0, entry.get("interface", "glpk"), entry.get("history", "plain"))
        if f0:
            ctx.violations.append({"engine": "cobrapy vs certified exact LP (corpus case)", "spec": entry["spec"], "interface": entry.get("interface", "glpk"),
                                   "history": entry.get("history", "plain"), "certified": truth0["status"], "failures": f0[:6]})
            break
    while done < n and not ctx.violations:
        specs = [fbagen.gen_fba_spec(rng) for _ in range(min(200, n - done))]
        truths = lpcert.certify([fbagen.net_lp(s)[0] for s in specs])
        certs += len(truths)
        for spec, truth in zip(specs, truths):
            done += 1
            split[truth["status"]] += 1
            iface = "glpk_exact" if rng.random() < (0.25 if ctx.tier == "quick" else 0.4) else "glpk"
            ifaces[iface] += 1
            history = rng.choice(HISTORIES)
            hist[history] = hist.get(history, 0) + 1
            fails = check_instance(spec, truth, iface, history)
            if truth["status"] == "optimal" and truth["value"] != 0:
                distinct.add(json.dumps(spec["rxns"], sort_keys=True))
            if len(samples) < 3:
                samples.append({"spec": spec, "certified": truth["status"], "value": str(truth["value"])})
            if fails:
                ctx.violations.append({"engine": "cobrapy vs certified exact LP", "spec": spec, "interface": iface, "history": history,
                                       "certified": truth["status"], "certified_value": str(truth.get("value")), "failures": fails[:6]})
                if len(ctx.violations) >= 3:
                    break
    ctx.coverage.update({
        "evaluations": done,
        "distinct_nontrivial": len(distinct),
        "rule": "constructive random stoichiometric models (2-6 metabolites, 2-11 reactions incl. exchanges written either way and internal cycles; "
                "fixed, forced, one-sided, infinite bounds; 1-2 objective coefficients, max/min); counted: distinct models with a certified "
                "non-zero optimum",
        "samples": samples,
        "certificates_checked_by_lean": certs,
        "verdict_split": split,
        "interfaces": ifaces,
        "build_histories": hist,
        "traces_validated_against_impl": done,
    })
    ctx.assumptions += [
        "GLPK is external: its answers are compared per instance with optima certified by the proved checker, within 1e-6 relative tolerance",
        "exact_lp.py is untrusted: a wrong certificate is rejected by LPM.checkOpt/checkInfeas/checkUnbdd (harness error, never a verdict)",
        "models are small (<= 11 reactions) with integer / dyadic data",
    ]
    return common.finish(ctx, None)


if __name__ == "__main__":
    sys.exit(common.main_wrapper(run))

"""C08 — a gene rule is a Boolean function and its text form is faithful.

PROOF: lean/CobraModel/Props/C08.lean (evaluation, monotonicity, token-level print/parse round trip, gene
       removal, renaming; sanity of the generated escape tables).
CORRESPONDENCE: `GPRM.fromString` / `remove` (Lean) against `GPR.from_string` / `_GeneRemover` on generated rule
       texts: parsed tree (S-expression), gene set, `to_string()`, truth table over all knock-out subsets.
ORACLE (independent of the model): truth table of what cobrapy parsed vs the tree the text was spelled from;
       round trips through to_string / copy / pickle(Reaction) / sympy; `==` implies equivalence; remove_genes.
"""
from __future__ import annotations

import ast
import copy
import itertools
import json
import pickle
import logging
import warnings

logging.disable(logging.CRITICAL)

import common
import translate_gpr
from common import Ctx

common.ensure_repo_on_path()
import cobra  # noqa: E402
from cobra.core.gene import GPR  # noqa: E402
from cobra.manipulation.delete import remove_genes  # noqa: E402

WORDS = ["a", "b", "G1", "x_y", "if", "for", "in", "None", "1", "22", "3a", "lambda", "B0", "and1", "OR2", "is", "c", "d"]
# every keyword the code escapes (table regenerated from the source) is a possible gene id, alone or as part of one
try:
    KEYWORDS = sorted(set(translate_gpr.extract()[1]))
except Exception:
    KEYWORDS = []
SPECIALS = [".", "-", ":", "/", "'", '"', "=", "\\"]


def gen_id(rng):
    n = rng.choice([0, 0, 0, 1, 1, 2])

    def word():
        if KEYWORDS and rng.random() < 0.25:
            return rng.choice(KEYWORDS)
        return rng.choice(WORDS)
    def segment():
        # operator words as a segment of a longer identifier (X.OR, AND-1, HGNC:or): never an operator there
        if rng.random() < 0.2:
            return rng.choice(["AND", "OR", "and", "or", "And"])
        return word()
    if n == 0:
        return word()
    s = segment()
    for _ in range(n):
        s += rng.choice(SPECIALS + ["_"]) + segment()
    return s


def gen_tree(rng, genes, depth):
    if depth == 0 or rng.random() < 0.3:
        return rng.choice(genes)
    op = rng.choice(["and", "or"])
    k = rng.choice([2, 2, 3, 4])
    return (op, [gen_tree(rng, genes, depth - 1) for _ in range(k)])


def tree_eval(t, ko):
    if isinstance(t, str):
        return t not in ko
    op, cs = t
    vals = [tree_eval(c, ko) for c in cs]
    return all(vals) if op == "and" else any(vals)


def tree_genes(t):
    if isinstance(t, str):
        return {t}
    return set().union(*[tree_genes(c) for c in t[1]])


def truth_table(evalf, genes):
    gs = sorted(genes)
    if len(gs) > 10:
        return "skip"
    out = []
    for mask in range(2 ** len(gs)):
        ko = {g for i, g in enumerate(gs) if (mask >> i) & 1}
        out.append("1" if evalf(ko) else "0")
    return "".join(out)


def spell(t, rng, top=True):
    def sp():
        return rng.choice([" ", " ", " ", "  ", " \t"])
    if isinstance(t, str):
        s = t
        if rng.random() < 0.1:
            s = "(" + s + ")"
        return s
    op, cs = t
    fam = rng.choice(["lower", "lower", "upper", "sym", "mixed"])
    parts = [spell(c, rng, False) for c in cs]
    parts = [p if isinstance(c, str) else "(" + p + ")" for p, c in zip(parts, cs)]
    out = parts[0]
    for p in parts[1:]:
        f = fam if fam != "mixed" else rng.choice(["lower", "sym"])
        if f == "lower":
            o = sp() + op + sp()
        elif f == "upper":
            o = sp() + op.upper() + sp()
        else:
            sym = "&" if op == "and" else "|"
            o = rng.choice([sym, " " + sym + " ", sym + " "])
        out += o + p
    if top:
        if rng.random() < 0.15:
            out = "(" + out + ")"
        out = rng.choice(["", " ", "  "]) + out + rng.choice(["", " "])
    return out


def sexp(node):
    if isinstance(node, ast.Name):
        return "n:" + node.id
    if isinstance(node, ast.BoolOp):
        return "(" + ("and" if isinstance(node.op, ast.And) else "or") + "".join(" " + sexp(v) for v in node.values) + ")"
    raise TypeError(type(node).__name__)


def impl_parse(text):
    """Classify what cobrapy does with a rule text."""
    with warnings.catch_warnings(record=True) as w:
        warnings.simplefilter("always")
        try:
            g = GPR.from_string(text)
        except Exception as e:
            return {"kind": "raises", "exc": type(e).__name__}, None
    malformed = any("Malformed" in str(x.message) for x in w)
    if malformed:
        return {"kind": "malformed"}, g
    if not g.body:
        return {"kind": "rule", "sexp": "", "str": "", "genes": [], "tt": "1"}, g
    try:
        return {"kind": "rule", "sexp": sexp(g.body), "str": g.to_string(), "genes": sorted(g.genes),
                "tt": truth_table(lambda ko: g.eval(ko), g.genes)}, g
    except Exception as e:
        return {"kind": "raises", "exc": type(e).__name__}, g


def impl_remove(text, ks):
    from cobra.manipulation.delete import _GeneRemover
    with warnings.catch_warnings():
        warnings.simplefilter("ignore")
        g = GPR.from_string(text)
    if not g.body:
        return {"kind": "rule", "sexp": "", "str": "", "genes": [], "tt": "1"}
    _GeneRemover(set(ks)).visit(g)
    if not hasattr(g, "body") or g.body is None:
        return {"kind": "rule", "sexp": "", "str": "", "genes": [], "tt": "1"}
    g.update_genes()
    return {"kind": "rule", "sexp": sexp(g.body), "str": g.to_string(), "genes": sorted(g.genes),
            "tt": truth_table(lambda ko: g.eval(ko), g.genes)}


def same_function(f1, genes1, f2, genes2):
    gs = sorted(set(genes1) | set(genes2))
    if len(gs) > 10:
        return True
    for mask in range(2 ** len(gs)):
        ko = {g for i, g in enumerate(gs) if (mask >> i) & 1}
        if bool(f1(ko)) != bool(f2(ko)):
            return False
    return True


def oracle_case(t, text, rng):
    """Direct property checks on the real code for one faithful spelling of tree t."""
    fails = []
    with warnings.catch_warnings():
        warnings.simplefilter("ignore")
        try:
            g = GPR.from_string(text)
        except Exception as e:
            return [f"from_string raised {type(e).__name__}: {e}"]
        want_genes = tree_genes(t)
        if set(g.genes) != want_genes:
            fails.append(f"genes {sorted(g.genes)} != {sorted(want_genes)}")
        if not same_function(lambda ko: g.eval(ko), g.genes, lambda ko: tree_eval(t, ko), want_genes):
            fails.append("truth table of the parsed rule differs from the and/or value of the expression")
        if fails:
            return fails

        def check_equiv(label, h, need_eq=True):
            if set(h.genes) != set(g.genes):
                fails.append(f"{label}: gene set changed to {sorted(h.genes)}")
            if not same_function(lambda ko: g.eval(ko), g.genes, lambda ko: h.eval(ko), h.genes):
                fails.append(f"{label}: truth table changed")
            if need_eq and not (h == g):
                fails.append(f"{label}: result does not compare equal to the original")
        try:
            check_equiv("to_string/from_string", GPR.from_string(g.to_string()))
            check_equiv("str()/from_string", GPR.from_string(str(g)))
            check_equiv("copy", g.copy())
            check_equiv("copy.copy", copy.copy(g))
            check_equiv("from_symbolic(as_symbolic)", GPR.from_symbolic(g.as_symbolic()))
            r = cobra.Reaction("r1")
            r.gene_reaction_rule = text
            r2 = pickle.loads(pickle.dumps(r))
            check_equiv("pickle(Reaction)", r2.gpr)
            if set(x.id for x in r2.genes) != set(g.genes):
                fails.append("pickle(Reaction): reaction.genes differ")
            r3 = r.copy()
            check_equiv("Reaction.copy", r3.gpr)
            if r.gene_reaction_rule != g.to_string():
                fails.append("reaction.gene_reaction_rule is not the rule's text")
        except Exception as e:
            fails.append(f"round trip raised {type(e).__name__}: {e}")
    return fails


def oracle_eq_pair(t1, t2):
    """rules that compare equal are logically equivalent"""
    with warnings.catch_warnings():
        warnings.simplefilter("ignore")
        g1 = GPR.from_string(spell_plain(t1))
        g2 = GPR.from_string(spell_plain(t2))
        try:
            eq = (g1 == g2)
        except Exception as e:
            return f"== raised {type(e).__name__}"
        same = same_function(lambda ko: tree_eval(t1, ko), tree_genes(t1), lambda ko: tree_eval(t2, ko), tree_genes(t2))
        if eq and not same:
            return f"rules compare equal but differ as Boolean functions: {spell_plain(t1)!r} vs {spell_plain(t2)!r}"
    return None


def spell_plain(t):
    if isinstance(t, str):
        return t
    op, cs = t
    return "(" + f" {op} ".join(spell_plain(c) for c in cs) + ")"


def oracle_remove_genes(rng, genes):
    """remove_genes leaves every still-catalysable reaction with an equivalent rule"""
    fails = []
    m = cobra.Model("t")
    trees = {}
    rxns = []
    for i in range(4):
        r = cobra.Reaction(f"r{i}")
        rxns.append(r)
    m.add_reactions(rxns)
    a = cobra.Metabolite("m_c", compartment="c")
    for i, r in enumerate(rxns):
        r.add_metabolites({a: 1 if i % 2 else -1})
        t = gen_tree(rng, genes, 3)
        trees[r.id] = t
        with warnings.catch_warnings():
            warnings.simplefilter("ignore")
            r.gene_reaction_rule = spell_plain(t)
    present = sorted(g.id for g in m.genes)
    if not present:
        return fails, None
    # observe every rule before the removal (comparison, symbolic form): later answers must not depend on it
    before = {}
    with warnings.catch_warnings():
        warnings.simplefilter("ignore")
        for r in rxns:
            try:
                before[r.id] = r.gpr.copy()
                r.gpr == GPR.from_string(r.gene_reaction_rule)
                r.gpr.as_symbolic()
            except Exception as e:
                fails.append(f"observing {r.id} raised {type(e).__name__}")
    ks = rng.sample(present, rng.randint(1, min(3, len(present))))
    rr = rng.random() < 0.5
    case = {"rules": {k: spell_plain(v) for k, v in trees.items()}, "remove": ks, "remove_reactions": rr}
    # objects restored from the rule *text* (pickle, deepcopy, Reaction.copy) before the removal: what is done to the model's rules in place must not
    # show in them, nor in objects restored afterwards — every one of them carries the rule as it was
    import copy as _copy
    restored = {}
    with warnings.catch_warnings():
        warnings.simplefilter("ignore")
        try:
            restored["model unpickled before the removal"] = pickle.loads(pickle.dumps(m))
            restored["deep copy made before the removal"] = _copy.deepcopy(m)
        except Exception as e:
            fails.append(f"copying the model raised {type(e).__name__}: {e}")
    # the removal itself happens on a third restored object, the original model keeps its rules
    try:
        with warnings.catch_warnings():
            warnings.simplefilter("ignore")
            victim = pickle.loads(pickle.dumps(m))
            remove_genes(victim, ks, remove_reactions=rr)
            restored["model unpickled after the removal on a sibling"] = pickle.loads(pickle.dumps(m))
            restored["the original model"] = m
            for label, mm in restored.items():
                for rid, t in trees.items():
                    g = mm.reactions.get_by_id(rid).gpr
                    if not same_function(lambda ko: g.eval(ko), g.genes, lambda ko: tree_eval(t, set(ko)), tree_genes(t)):
                        fails.append(f"{label}: rule of {rid} is {mm.reactions.get_by_id(rid).gene_reaction_rule!r} after genes {ks} were removed from "
                                     f"another restored model; it was {spell_plain(t)!r}")
            for rid, t in trees.items():
                rc = m.reactions.get_by_id(rid).copy()
                if not same_function(lambda ko: rc.gpr.eval(ko), rc.gpr.genes, lambda ko: tree_eval(t, set(ko)), tree_genes(t)):
                    fails.append(f"Reaction.copy() of {rid} after a removal on a restored sibling: rule {rc.gene_reaction_rule!r}, it was {spell_plain(t)!r}")
    except Exception as e:
        fails.append(f"removal on a restored sibling raised {type(e).__name__}: {e}")
    if fails:
        return fails, case
    try:
        with warnings.catch_warnings():
            warnings.simplefilter("ignore")
            remove_genes(m, ks, remove_reactions=rr)
    except Exception as e:
        return [f"remove_genes raised {type(e).__name__}: {e}"], case
    for rid, t in trees.items():
        alive = tree_eval(t, set(ks))
        if rid not in m.reactions:
            if alive:
                fails.append(f"{rid} can still be catalysed but was removed")
            elif not rr:
                fails.append(f"{rid} removed although remove_reactions=False")
            continue
        r = m.reactions.get_by_id(rid)
        if not alive:
            if rr:
                fails.append(f"{rid} can no longer be catalysed but was kept")
            continue
        if not same_function(lambda ko: r.gpr.eval(ko), r.gpr.genes, lambda ko: tree_eval(t, set(ko) | set(ks)), tree_genes(t) - set(ks)):
            fails.append(f"{rid}: rule {r.gene_reaction_rule!r} is not equivalent to {spell_plain(t)!r} with {ks} absent")
        if set(r.gpr.genes) & set(ks):
            fails.append(f"{rid}: removed gene still in rule")
        with warnings.catch_warnings():
            warnings.simplefilter("ignore")
            try:
                again = GPR.from_string(r.gene_reaction_rule)
                if not (r.gpr == again):
                    fails.append(f"{rid}: rule does not compare equal to its own text parsed again after the removal")
                rt = GPR.from_symbolic(r.gpr.as_symbolic())
                if not same_function(lambda ko: rt.eval(ko), rt.genes, lambda ko: r.gpr.eval(ko), r.gpr.genes) or set(rt.genes) != set(r.gpr.genes):
                    fails.append(f"{rid}: symbolic round trip after the removal is a different rule")
                old = before.get(rid)
                if old is not None and (r.gpr == old) and not same_function(lambda ko: old.eval(ko), old.genes, lambda ko: r.gpr.eval(ko), r.gpr.genes):
                    fails.append(f"{rid}: rule compares equal to the rule before the removal although they differ as Boolean functions")
            except Exception as e:
                fails.append(f"{rid}: comparison after removal raised {type(e).__name__}: {e}")
        if {x.id for x in r.genes} != set(r.gpr.genes):
            fails.append(f"{rid}: reaction.genes {sorted(x.id for x in r.genes)} != genes of the rule {sorted(r.gpr.genes)}")
    for k in ks:
        if k in m.genes:
            fails.append(f"gene {k} still in model.genes")
    return fails, case


MALFORMED_TOKS = ["a", "b", "c1", "(", ")", "and", "or", "&", "|", "AND", "OR", " ", " ", "()", "if", "2x"]


def gen_malformed(rng):
    return "".join(rng.choice(MALFORMED_TOKS) + rng.choice(["", " "]) for _ in range(rng.randint(1, 8)))


def run(ctx: Ctx) -> int:
    if getattr(ctx, "replay", None):
        data = json.loads(open(ctx.replay).read())
        v = data.get("violation") or {}
        print(json.dumps(v, indent=1))
        if "text" in v and "tree" in v:
            fails = oracle_case(json_tree(v["tree"]), v["text"], ctx.rng)
            if fails:
                print(f"VIOLATION property=C08 replay={ctx.replay}")
                return 1
        return 0
    common.proof_stage(ctx, "CobraModel.Props.C08",
                       extra_scan=["CobraModel/Lemmas/GPR.lean", "CobraModel/Model/GPR.lean"],
                       regenerate=translate_gpr.regenerate)
    rng = ctx.rng
    n = ctx.scale(3000, 60000)
    stats = {"faithful": 0, "malformed_stream": 0, "kinds": {}, "impl_kinds": {}, "remove": 0, "validated": 0, "eq_pairs": 0, "eq_true": 0}
    distinct = set()
    samples = []
    batch = 5000
    done = 0
    while done < n and not ctx.violations and len(ctx.broken) < 3:
        cases = []
        for _ in range(min(batch, n - done)):
            genes = list({gen_id(rng) for _ in range(rng.randint(1, 6))})
            r = rng.random()
            if r < 0.75:
                t = gen_tree(rng, genes, rng.randint(0, 4))
                text = spell(t, rng)
                cases.append(("faithful", t, text, None))
            elif r < 0.9:
                t = gen_tree(rng, genes, rng.randint(1, 4))
                text = spell(t, rng)
                present = sorted(tree_genes(t))
                ks = rng.sample(present, rng.randint(1, min(3, len(present))))
                cases.append(("remove", t, text, ks))
            else:
                cases.append(("malformed", None, gen_malformed(rng), None))
        done += len(cases)
        # correspondence
        lines = []
        for kind, t, text, ks in cases:
            if kind == "remove":
                lines.append(json.dumps({"op": "remove", "s": text, "ks": ks}))
            else:
                lines.append(json.dumps({"op": "parse", "s": text}))
        model_out = [json.loads(l) for l in common.run_driver("gpr", lines)]
        for (kind, t, text, ks), mo in zip(cases, model_out):
            if kind == "remove":
                try:
                    io = impl_remove(text, ks)
                except Exception as e:
                    io = {"kind": "raises", "exc": type(e).__name__}
                stats["remove"] += 1
            else:
                io, _ = impl_parse(text)
            stats["kinds"][mo.get("kind", "?")] = stats["kinds"].get(mo.get("kind", "?"), 0) + 1
            stats["impl_kinds"][io["kind"]] = stats["impl_kinds"].get(io["kind"], 0) + 1
            if mo.get("kind") == "malformed":
                agree = io["kind"] in ("malformed", "raises")
            else:
                agree = (mo == io)
            if agree:
                stats["validated"] += 1
            else:
                ctx.broken.append({"kind": "correspondence", "name": "GPRM.fromString/remove vs GPR.from_string/_GeneRemover",
                                   "detail": f"model and implementation differ on {text!r}", "text": text, "remove": ks, "impl": io, "model": mo})
            if kind == "faithful":
                stats["faithful"] += 1
                fails = oracle_case(t, text, rng)
                if io["kind"] == "rule" and len(io["genes"]) >= 2:
                    distinct.add(io["sexp"])
                if fails:
                    ctx.violations.append({"engine": "oracle on GPR", "text": text, "tree": t, "failures": fails})
                if len(samples) < 5 and isinstance(t, tuple):
                    samples.append({"text": text, "parsed": io.get("sexp")})
            elif kind == "malformed":
                stats["malformed_stream"] += 1
            elif kind == "remove":
                # independent oracle for the remover on the bare rule
                if io["kind"] == "rule" and tree_eval(t, set(ks)):
                    if io["sexp"] == "":
                        ctx.violations.append({"engine": "oracle on _GeneRemover", "text": text, "remove": ks, "failures": ["rule removed although still catalysable"]})
                    else:
                        with warnings.catch_warnings():
                            warnings.simplefilter("ignore")
                            g2 = GPR.from_string(io["str"])
                        if not same_function(lambda ko: g2.eval(ko), g2.genes, lambda ko: tree_eval(t, set(ko) | set(ks)), tree_genes(t) - set(ks)):
                            ctx.violations.append({"engine": "oracle on _GeneRemover", "text": text, "remove": ks, "tree": t,
                                                   "failures": [f"result {io['str']!r} is not equivalent to the rule with {ks} absent"]})
            if len(ctx.violations) >= 3:
                break
        # == implies equivalence, remove_genes on a model
        for _ in range(max(1, len(cases) // 30)):
            genes = ["a", "b", "c", "d"][: rng.randint(2, 4)]
            t1 = gen_tree(rng, genes, rng.randint(0, 2))
            t2 = gen_tree(rng, genes, rng.randint(0, 2)) if rng.random() < 0.6 else shuffle_tree(t1, rng)
            stats["eq_pairs"] += 1
            msg = oracle_eq_pair(t1, t2)
            if msg:
                ctx.violations.append({"engine": "oracle on GPR.__eq__", "failures": [msg]})
        for _ in range(max(1, len(cases) // 25)):
            genes = list({gen_id(rng) for _ in range(rng.randint(2, 5))})
            fails, case = oracle_remove_genes(rng, genes)
            stats["remove"] += 1
            if fails:
                ctx.violations.append({"engine": "oracle on remove_genes", "case": case, "failures": fails})

    def search():
        for _ in range(ctx.scale(20000, 100000)):
            genes = list({gen_id(rng) for _ in range(rng.randint(1, 6))})
            t = gen_tree(rng, genes, rng.randint(0, 4))
            text = spell(t, rng)
            fails = oracle_case(t, text, rng)
            if fails:
                ctx.violations.append({"engine": "oracle on GPR (search)", "text": text, "tree": t, "failures": fails})
                return
            if rng.random() < 0.05:
                fails, case = oracle_remove_genes(rng, genes)
                if fails:
                    ctx.violations.append({"engine": "oracle on remove_genes (search)", "case": case, "failures": fails})
                    return

    ctx.coverage.update({
        "evaluations": done,
        "distinct_nontrivial": len(distinct),
        "rule": "random and/or trees (depth <= 4, arity 2-4, <= 6 genes from an alphabet with leading digits, keywords, . - : / ' \" = \\) in random "
                "spellings (and/AND/&, redundant parentheses, blanks) + gene-removal cases + a malformed token stream; "
                "counted: distinct parsed trees with >= 2 genes",
        "samples": samples,
        "traces_validated_against_impl": stats["validated"],
        "stream": stats,
    })
    ctx.assumptions += [
        "sympy (as_symbolic / equals) and Python's ast.parse are external; their part is compared by truth table on every generated rule",
        "non-ASCII identifiers (NFKC) and the Python parser's nesting limit are outside the model",
        "character-level escaping (replacements, keyword and leading-digit prefix) is executable in the model and checked by correspondence, not proved",
    ]
    return common.finish(ctx, search)


def shuffle_tree(t, rng):
    if isinstance(t, str):
        return t
    op, cs = t
    cs = [shuffle_tree(c, rng) for c in cs]
    rng.shuffle(cs)
    return (op, cs)


def json_tree(t):
    if isinstance(t, str):
        return t
    return (t[0], [json_tree(c) for c in t[1]])


if __name__ == "__main__":
    import sys
    sys.exit(common.main_wrapper(run))

"""Run the repository's pinned test suite and compare with /root/.vp/BASELINE.json (stable_pass)."""
import json, subprocess, sys, tempfile, xml.etree.ElementTree as ET, os
b = json.load(open("/root/.vp/BASELINE.json"))
with tempfile.TemporaryDirectory(dir="/root") as d:
    x = os.path.join(d, "junit.xml")
    cmd = b["cmd"].replace("<file>", x)
    subprocess.run(cmd, shell=True, capture_output=True, text=True)
    passed = set()
    for tc in ET.parse(x).getroot().iter("testcase"):
        if not any(c.tag in ("failure", "error", "skipped") for c in tc):
            passed.add(f"{tc.get('classname')}::{tc.get('name')}")
missing = [t for t in b["stable_pass"] if t not in passed]
print(f"stable_pass {len(b['stable_pass'])}, passed now {len(passed)}, missing {len(missing)}")
for t in missing[:40]:
    print("  MISSING", t)
sys.exit(1 if missing else 0)

"""C01 — the solver always holds exactly the model's flux-balance problem."""
import sys
import common
import core_checks
import coreops
import auxcorr
import fbagen

RULE = ("random models (2-5 reactions, 2-5 metabolites, <= 4 genes, groups) and random op sequences (3-14 ops, ~12 % failing) "
        "over bounds, stoichiometry, rules, objective, add/remove reactions / metabolites / boundaries / genes, *=, nested contexts; raw GLPK "
        "problem read with swiglpk after every step; counted: distinct (model, last three ops) of traces with >= 3 ops")


def aux_stage(ctx):
    """The whole solver problem after a build and a few edits through the public API vs `AuxM.Net.fba` of the content (the theorem
    `fba_problem_is_flux_balance` is about that builder)."""
    def f(make, spec, rng):
        m = make()
        for _ in range(rng.randint(0, 4)):
            r = rng.choice(list(m.reactions))
            k = rng.random()
            if k < 0.5:
                lb, ub = sorted([rng.choice([-1000.0, -10.0, -2.5, 0.0, 0.0, 1.5, 10.0, float("-inf")]), rng.choice([1000.0, 10.0, 2.5, 0.0, -1.5, float("inf")])])
                r.bounds = (lb, ub)
            elif k < 0.7:
                r.objective_coefficient = rng.choice([0.0, 1.0, -2.0, 0.5])
            elif k < 0.85 and len(m.metabolites):
                r.add_metabolites({rng.choice(list(m.metabolites)): rng.choice([1.0, -1.0, 2.0, -0.5])})
            else:
                r.knock_out()
        if rng.random() < 0.3:
            m.objective_direction = rng.choice(["max", "min"])
        return auxcorr.pairs_fba(m)
    auxcorr.stage(ctx, [("build + edits", f)], fbagen.gen_fba_spec, ctx.scale(80, 1500))


def run(ctx):
    return core_checks.run_core_property(ctx, "CobraModel.Props.C01", kinds=None, oracles=("sync",), quick=300, thorough=6000, rule=RULE, profiles=coreops.PROFILES, pre_stage=aux_stage, extra_scan=auxcorr.SCAN)


if __name__ == "__main__":
    sys.exit(common.main_wrapper(run))

"""C01 — the solver always holds exactly the model's flux-balance problem."""
import sys
import common
import core_checks
import coreops

RULE = ("random models (2-5 reactions, 2-5 metabolites, <= 4 genes, groups) and random op sequences (3-14 ops, ~12 % failing) "
        "over bounds, stoichiometry, rules, objective, add/remove reactions / metabolites / boundaries / genes, *=, nested contexts; raw GLPK "
        "problem read with swiglpk after every step; counted: distinct (model, last three ops) of traces with >= 3 ops")


def run(ctx):
    return core_checks.run_core_property(ctx, "CobraModel.Props.C01", kinds=None, oracles=("sync",), quick=300, thorough=6000, rule=RULE, profiles=coreops.PROFILES)


if __name__ == "__main__":
    sys.exit(common.main_wrapper(run))
